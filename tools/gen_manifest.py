#!/usr/bin/env python3
"""Regenerates /verif/MANIFEST.json from the table below (kept in one place so
that the manifest is always schema-valid)."""
import json, os, sys
HERE = os.path.dirname(os.path.dirname(os.path.abspath(__file__)))

TRUST = ("Trusted base: go/types, go/ssa and the VTA/CHA call graphs of golang.org/x/tools v0.29.0, the Go 1.23.5 "
         "type checker, the documented semantics of the standard-library calls named by the rules, and the frozen "
         "tables in the checker source (each entry with its reason). Loops are treated path-insensitively; no pointer "
         "analysis (access paths and SSA value identity only).")

# id -> (technique, claim text, design_ref)
CLAIMED = {
 "C10": ("SSA length-fact analysis (E-LEN): interval facts on len() from allocation, slicing, callee post-conditions, edge-sensitive branch conditions; induction patterns; reviewed-invariant table with re-checked guards; allocation provenance through call sites",
         "Decides, for every slice/string index, slice expression, ByteOrder decode, bare assertion, explicit panic, division and make() size in the ~150 functions reachable from the reader goroutine (exhaustive over the current tree), that it cannot panic or over-allocate for any wire input: proved from length facts, or listed as a reviewed invariant whose guard is re-checked on every run (plus: short reads never reported as success, bounded self-recursion of NextPackageUntil, nil-safe use of the server's PEM key); anything else is a violation, so a new unguarded access and the removal of an existing guard are both reported. The six call sites that size an allocation from a 32-bit wire length are recorded findings. Nil dereferences and panics inside the standard library are not decided.",
         "DESIGN.md §3 C10"),
 "C17": ("E-LEN over the DSN parsers/formatters; SSA dominance rules for key lookup; E-CONST comparison of reflect.Kind case sets",
         "Decides the totality and rejection clauses: no index or slice expression reachable from the DSN parsers can go out of range for any input string, unknown keys are rejected before anything is set, the empty string is never a key, field kinds are handled consistently, the last value of a repeated URI query key wins, a repeated name resolves alike in both modes of the tag map, FormatSimple quotes with an idiom ParseSimple inverts, FormatURI omits a member only when its text is empty (also user/password), and integers are parsed back at the width they are written with. Round-trip equality is not decided (one seeded change that collapses runs of spaces is, by design, not detected).",
         "DESIGN.md §3 C17"),
 "C16": ("SSA guard dominance on the Decimal constructors and SetString; half-plane normalisation of sanity()'s guards",
         "Decides the two rejection clauses of the property: constructors succeed only after sanity() and sanity's guards cover the complement of 0 <= scale <= precision <= 38; SetString succeeds only if the fraction fits the scale and the digits parsed, parses into a big.Int of its own (a rejected input leaves the decimal untouched), and every index/slice expression in the Decimal methods is in range for every valid precision and scale. The format/parse round trip and all digit arithmetic are value-level and are not decided (four seeded arithmetic/table changes are, by design, not detected); no read-only method modifies the stored magnitude.",
         "DESIGN.md §3 C16"),
 "C18": ("E-OWN who-may-use rules for the id counter, the sync.Pool and the Name fields; SSA dominance and must-pass-through on Release/Acquire",
         "Decides the three structural premises from which uniqueness among holders follows together with the documented semantics of sync.Pool and atomic addition: ids are the result of a single atomic add, an id is put back at most once per holder (guarded, then cleared), and a name's text and id come from one Get with the Name fields written nowhere else. Linearizability over schedules is not explored.",
         "DESIGN.md §3 C18"),
 "C19": ("finite-domain abstract evaluation (E-ABS) of VersionRange.contains over its 64 abstract inputs against the property's table; SSA loop-exit and dominance rules on SetCapabilities, Has and the default comparer",
         "Decides range membership completely over the finite abstraction (the inputs are used only through emptiness tests and comparer outcomes, which is itself checked), that SetCapabilities reports a capability exactly on the containing edge, ends the range loop early only for a containing range (order independence), turns inverted/zero-width ranges and comparer failures into errors, that Has defaults to false, that SetCapability records every answer, that a containing range ends the range loop, that no package-level state is consulted, and that the default comparer never answers for an unparsed version. The third-party semantic-version parser is trusted.",
         "DESIGN.md §3 C19"),
 "C09": ("SSA taint analysis (E-TAINT, inter-procedural inside package tds, field- and container-based) with an enumerated sink whitelist; E-CONST case-set comparison; dominance rules on the OAEP call and key generation",
         "Decides the universally quantified absence of flow: every use of the account password and of every remote-server password in package tds is enumerated and must end in rsaEncrypt's OAEP message (nonce first, SHA-1, crypto/rand), in the plain-mode password slot (dominated by config.Encrypt being none of the four encrypted ids) or in the first remote-server entry; anything else (error texts, logs, buffers, other fields) is reported with its flow path. Also decides the OAEP parameters, the 32 random bytes of the session key, agreement of pack and Login on the encrypted ids, per-iteration freshness of the parameter objects, that no struct holding a password field is converted to an interface (rendered as a whole), and that no non-rejecting branch depends on a password. Cryptographic strength is not decided.",
         "DESIGN.md §3 C09"),
 "C15": ("SSA def-use rule for io.Reader/io.Writer buffers; sibling table of the typed readers/writers; dominance rules on Bytes/AllPacketsConsumed; who-may-use rule for the live packet size",
         "Decides the clauses of the FIFO property whose truth is in the shape of the code: Read fills and Write consumes the caller's buffer, the 21 typed readers/writers are width-consistent siblings over one never-reassigned byte order, Bytes succeeds only with n bytes, Reset clears all state, AllPacketsConsumed always depends on the packet index reaching the end of the queue, Bytes fails only when every packet is consumed, packet bodies never alias caller memory, WriteBytes opens a packet only when none is under the index or the current one is full, and the live packet size only sizes new packets. The step-by-step equality with a byte-slice model over operation histories is not decided.",
         "DESIGN.md §3 C15"),
 "C01": ("E-OWN who-may-use rule for the transport; SSA dominance/value-identity rules on sendPacket, sendPackets, NewPacket; must-pass-through by path enumeration",
         "Decides structural necessary conditions of well-formed packetisation: only sendPacket writes the transport; message type stamped; EOM derived from the live packet body size exactly on short packets; header length and body trimmed together; the partial-packet test is strict, against the live body size and only for the packet being filled; sent packets are discarded on every exit (also a packet filled exactly); a flush includes the partial packet; a packet reaches the transport in one Write; the size that sizes new tx packets and the body size the send path reasons with are the one negotiated field; channel id and consecutive packet numbers modulo 256 are stamped. The zero-packet flush at exact multiples of the body size is a recorded finding. Numeric quantification over lengths and packet sizes is not decided.",
         "DESIGN.md §3 C01"),
 "C02": ("SSA value-identity and path rules on the parse-or-rollback loop; freshness/E-OWN rules; completeness rules on the transport readers; E-ERR over all wire-read call sites",
         "Decides structural necessary conditions of fragmentation independence: rollback restores exactly the position saved for the same attempt, discards only follow success, parse state is fresh per attempt, fixed-size transport reads are complete before success, packets are queued in arrival order, every body read continues where the previous one stopped, every completely received packet is routed (by its own header), the receive queue is touched by the reader goroutine only, NextPackageUntil polls at most for the first package, and (the parser side) every short read at any of the >210 read sites surfaces as ErrNotEnoughBytes. Equality of delivered packages over cut sets is not decided.",
         "DESIGN.md §3 C02"),
 "C13": ("SSA must-lockset (blocking-operation-under-lock, lock re-acquisition incl. LIFO replay of deferred calls), select-shape rules, closed-protocol dominance, must-pass-through by path enumeration",
         "Decides the structural conditions of 'never blocks, never delivers after close': every blocking receive has both Done() escapes, every send in package tds is examined (the bare sends of the reader goroutine are recorded findings, one per queue), the connection's channel-map lock is never held across a blocking operation, every channel method tests closed under the lock before touching torn-down state, Close tears down in order, packet writes are preceded by a context test, Conn.Close cancels/closes on every path, the reader is bound to the connection context, no RWMutex is re-acquired through a callee, and every forwarded context derives from the caller's. Durations and schedules are not explored.",
         "DESIGN.md §3 C13"),
 "C11": ("SSA call-site, dominance and path rules over tryParsePackage, handleSpecialPackage, the hook lists, NextPackageUntil and EEDError",
         "Decides the structural conditions of exactly-once reporting: hooks are dispatched from one place only, after a complete parse and before delivery; environment changes and informational messages never reach the consumer; each member/message reaches the hook list once with its own values under one mutex; every callback-error return carries the collected messages and still wraps the callback's error; the hook lists are append-only; a polling NextPackageUntil waits once it has consumed a message. Histories and packetisations are not explored (retry safety is C02/C07).",
         "DESIGN.md §3 C11"),
 "C12": ("SSA must-lockset analysis (E-LOCK) with a guarded-by table; routing, stamping and registration rules by value identity; assertion satisfiability",
         "Decides lock discipline for every access to the shared channel map, id counter, closed flag and hook slices (all access sites, exhaustively), that packets are routed to the channel named in their own header, that outgoing packets are stamped with the channel id and consecutive packet numbers modulo 256, that registration/removal use the channel's own id, that an id is reserved in one atomic step, that a packet reaches the shared transport in one Write, that no goroutine is started on the reader path, that no completely received packet is dropped silently, and that the set-up acknowledgement can be recognised. Interleavings are not explored; the race detector is another family.",
         "DESIGN.md §3 C12"),
 "C03": ("SSA guard/path rules on tryParsePackage, WritePacket, NextPackageUntil, isDoneFinal, Reset; vacuous-mask detection through constant values",
         "Decides structural necessary conditions of response delimiting: exact, non-vacuous final-DONE tests, the path condition of the synthetic DONE(FINAL), lastPkgRx tracking every delivery, rx reset at EOM, draining on every callback-error path and in nil-callback mode, the tx reset, EOM recognised from the status bit, queued packages handed out before any context is consulted, short reads retried instead of reported (E-ERR), NextPackageUntil waiting after the first package, and the receive queue being touched by the reader goroutine only. Histories (what the previous response left behind) and packetisations are not explored.",
         "DESIGN.md §3 C03"),
 "C08": ("SSA guard dominance (E-DOM) of Login's success returns against an acceptance script written from the property statement; error, context and assertion-satisfiability rules over all of Login",
         "Decides that every success return of Login is dominated by the complete acceptance script of its flow (type assertions, status/message-id equalities, exact parameter counts, key parameter types, acknowledged key exchange, capability reply stored, final DONE), that no error on the way is ignored, that every wait (also inside the channel methods Login calls) is bound to the caller's context, that the all-zero capability test is per type, and that an unusable public key cannot cause a nil dereference. Reply histories are not explored: this is the necessary 'success only if accepted' direction on all code paths, not a simulation of servers.",
         "DESIGN.md §3 C08"),
 "C06": ("SSA wire-shape automata (E-SHAPE): writer language ⊆ reader language by product search; token table from LookupPackage's switch (go/types constants); byte-accounting and freshness rules",
         "Decides writer/reader agreement on the sequence of field widths for every package type (per wide variant) and every field codec pair, token/type agreement with LookupPackage, acceptance of the TDS 5.0 layouts by the server-only readers, read-side byte accounting, per-iteration freshness of parse targets, the oversize guard of the login record helper, the write-side length formula of nine straight-line writers (declared length = widths written after it), the loop-accumulated length of PARAMFMT, the field ORDER of sixteen codecs against the specification, reader/writer order agreement for every package, agreement of the two width tables of fixed-length types (same-width neighbours, also when reader and writer are changed together), and that appended slices start empty. It decides wire shape and order, not values: length fields accumulated in loops, capability bit positions and login record offsets are not covered.",
         "DESIGN.md §3 C06"),
 "C07": ("SSA error-discipline typestate (E-ERR) over every wire-read call site + dominance rules on PacketQueue.Bytes / tryParsePackage / LookupPackage",
         "Decides, for every one of the >210 call sites into wire-reading functions (exhaustive over the current tree, floor-checked), that a short read can only surface as an error for which errors.Is(err, ErrNotEnoughBytes) holds, that PacketQueue.Bytes succeeds only when n bytes were copied, that the channel retries exactly on that error without reporting, that each attempt parses into a fresh object with no global side effects, and that a failed attempt leaves no trace in the channel (lastPkgRx only from delivered packages, receive queue owned by the reader). This is the per-site contract the property rests on; it does not decide panics (C10) or parsers that read too little.",
         "DESIGN.md §3 C07"),
 "C14": ("SSA error-flow and path enumeration over the transport readers (PacketHeader.ReadFrom, Packet.ReadFrom, Conn.ReadFrom, NextPackage)",
         "Decides that the error path from the transport to the consumer is unbroken and that only completely received packets reach the parser: every transport read error is tested and propagated (never success), nil/EOF-like returns of Packet.ReadFrom need a complete body on every path, loops around transport reads are bounded by context tests, Conn.ReadFrom parses if and only if err == nil or EOF and reports everything else on Conn.errCh, which NextPackage selects on; only the reader goroutine writes the error queues; the EOF wait is bounded by the read timeout from the first byte on; io.EOF is recognised by errors.Is in the transport readers. Crash points, delivered prefixes and time bounds are not explored.",
         "DESIGN.md §3 C14"),
 "C20": ("constant-table extraction (go/types) + SSA dominance + map-range order-independence rule",
         "Decides statically, for every entry of the sql2ase literal and every return of ASEIsolationLevelFromGo/ToGo/String, that the forward table is the property's table, that success needs ok && != Invalid, that no map range with an early exit can be triggered by more than one entry (order dependence), and that the reverse table inverts the forward one on supported non-default levels. Exhaustive over the finite tables, hence close to the full property; printed names are delegated to database/sql.",
         "DESIGN.md §3 C20"),
}

NA = {
 "C04": "round-trip equality of numeric, temporal, decimal and UTF-16 values is a property of computed values; no structural clause is a necessary condition that real value defects would fail (DESIGN.md §4)",
 "C05": "conformance of byte layouts and calendar arithmetic to TDS 5.0 needs value comparison with a reference codec, which is another technique family (DESIGN.md §4)",
}

# clauses added after seed rounds 7 to 13 (structural necessary conditions, one sentence each; details per rule in DESIGN.md §3)
EXTRA = {
 "C01": " Also: the packet header is serialised and parsed at the offsets of the specification, nothing on the reader goroutine's path writes the transmit side of a channel, the channel id reaches the header without passing through a narrower integer type, the wire image of a packet has exactly Header.Length bytes, and a PACKSIZE member of an ENVCHANGE sets the size in force or fails; SetPosition is only the rollback of a failed receive attempt and AddPacket only the receive path; typed writers go through WriteBytes; sendPacket is called by the queue flush, Close and NewChannel only. Queued bytes are never reset in front of a send on the same path; both packet queues get the connection's PacketSize method itself.",
 "C02": " Also: the retry decision uses errors.Is on the not-enough-bytes sentinel, and what a completed package frees is decided on the packet under the position after the shift; Bytes fails only when every queued packet is consumed; the header parser accepts every 16-bit length; end of message comes from the EOM bit only; typed readers go through Bytes and no generic io reader runs over the queue. Reader fields of Conn are assigned by NewConn only; AllPacketsConsumed tests indexData only under an equality test of indexPacket with len(queue); every received packet is allocated inside the read loop.",
 "C03": " Also: the synthetic final DONE is emitted only when the next token could not be read (also when the synthesis lives in WritePacket), and the drain after a callback error is started only when the package at hand is not the final DONE; the end-of-message reset clears the whole queue state, a failed attempt rolls back to the position read for that attempt, and a parse error ends the dissection of the response; single-byte reads go through Bytes; lastPkgRx is written on delivery only; EOM is set exactly on short packets. DONE, DONEPROC and DONEINPROC are allocated as the one type the finality tests assert; every received packet is a fresh object.",
 "C06": " Also: the read-side byte accounting is followed through post-processing of the value read, LookupFieldFmt gives every data type the format codec named after it, reader and writer of the per-value status byte decide alike whether it is present, a capability mask is as long as the server sent it, every short read surfaces as ErrNotEnoughBytes, and a reader that reports a byte count reports what it consumed; every fixed-width login field is written or the record rejected; a length prefix is the length of the bytes written; LastPkg has an arm for every predecessor of a row; a format's maximal length is what the wire says. A typed read is never converted to a narrower integer type; LookupFieldFmt and LookupFieldData create siblings of one family per data type; fieldDataBase.readFrom succeeds only after the data read; ByteSizes lists INTk/UINTk/SINTk/FLTk with k bytes.",
 "C07": " Also: no io.ReadFull/ReadAtLeast/Copy/bufio reads from a BytesChannel, the typed readers reach the stream through Bytes only, and queue packets are discarded only by WritePacket/sendPackets (never by a parser); a parse attempt fills the package object created for it; queue primitives keep every unread byte (R15.6/R15.7/R02.4 re-stated). String returns string(bs), err of its Bytes call on every path; ByteSizes lists the width-named types with their width; the non-nil edge of every tested read error reaches error returns only.",
 "C08": " Also: the capability masks are created by the constructor only, and every index/slice expression in the package parsers is in range for every reply (never a crash); a reply package that fails to parse ends the dissection of the reply; a reply cut inside a field is parsed again from the saved position, member readers report the bytes they consumed, the announced packet size is parsed at full width, a send does not touch the receive queue, format pointers are nil-checked, and the session key is 32 bytes. A message id read from the wire is never narrowed; a parameter announced with one type is created as that type's data sibling.",
 "C09": " Also: the current server's remote-password entry is rebuilt from DSN.Password at every login, NewLoginConfig requests the password encryption unconditionally, the OAEP rules follow the encryption to wherever a refactoring puts it, a sent packet leaves the transmit queue, a failed packet write ends the login, and values read from the reply do not alias queue storage. The queue that carries the ciphertexts follows the live packet size; SendRemainingPackets resets on every exit after the flush.",
 "C10": " Also: only completely parsed packages become the predecessor of the next one, end of message resets or rolls back but never both, LookupFieldFmt never calls a method on a nil format, and a tokenless package has its buffer. No nil *Channel is stored in the routing table.",
 "C11": " Also: the callback's error is returned only inside the error that carries the messages, an ENVCHANGE with no member is parsed, the messages of an EEDError are only appended to, and a send or Reset does not touch the receive queue. No lock taken in the function that dispatches to the hooks is still held on some path when they are called.",
 "C12": " Also: the receive queue is used by the reader goroutine only, and the channel-map lock is not held across a delivery that can block; the channel id occupies header bytes 4..5, a packet number is taken in the iteration that writes the packet, closed is tested under the lock before a queue is used, a transport error keeps its cause, no held RWMutex is re-acquired through a callee, the end-of-message reset is complete, errors of the connection reach polling consumers, and the wire image has Header.Length bytes. No error queue is created without a buffer.",
 "C13": " Also: Conn.Close closes the values of a range over the channel map, Channel.Close unregisters on every path that marks it closed, the connection's context descends from the one passed to NewConn, and the channel's write lock is taken by Close and the setters only; a channel id is handed out once, and NextPackageUntil returns a failed receive with its error in the chain; nothing is delivered by a goroutine the reader started; loops around receive calls end on any error; the wait for the rest of a packet consults the connection's context; every lock taken in package tds is released on every exit. No error queue is created without a buffer (the reader's plain send cannot park in front of its exit test).",
 "C14": " Also: a polling consumer is told 'no package ready' only by the select that also offers the error queues; the completeness test of Packet.ReadFrom is accepted in the counter form and in the remaining-slice form (the latter only when every way back to the read advances the slice); the distinguished error conditions are plain errors.New sentinels; a queued package is handed out before any context is consulted; header-only means Length == 8; Packet.WriteTo reports the transport count; Logout succeeds only after the answer; SendRemainingPackets flushes once. A tested read error is never weakened by a second condition; Bytes reports not-enough-bytes only under a test of the requested count (Bytes(0) succeeds at the end of the data).",
 "C15": " Also: NewPacketQueue stores the size function it is given, and String(n) is exactly the converted bytes of Bytes(n); Read hands on the error of Bytes; WriteBytes copies in one place. AllPacketsConsumed tests indexData only for the last packet; Bytes(0) succeeds everywhere.",
 "C16": " Also: no magnitude-only copy of a signed number, the DECN/NUMN magnitude is right-aligned in its slot, the reading methods store nothing into the receiver, and SetBytes and SetInt64 store the value as it is given; sanity rejects nothing inside the valid region; Cmp looks at precision and scale; NewDecimal checks the values it was given. Power-of-ten tables hold 10^i at index i.",
 "C17": " Also: the URI query is written with query escaping, never with url.PathEscape; Parse recognises the URI form by \"://\"; format strings are constants; values reach the typed assignment unchanged; FormatSimple writes every member. No key or alias is claimed by two members of a tagged struct, embedded structs included.",
 "C18": " Also: the accessors Name() and String() hand out the text as it was formatted. The id counter is 8-byte aligned under the 32-bit size model.",
 "C19": " Also: the default comparer compares the parsed versions themselves (not a projection such as Core()), and no function of package capability consults package-level state; VersionString returns the specification unchanged; an error of the comparer ends the evaluation with an error; ranges in the list are never modified; Target.Version fails when the evaluation fails.",
 "C20": " Also: no String/Error method formats its own receiver under a verb that calls it again; ToGo and String do not iterate a map and use no package-level state; String is ToGo().String(). Every ASELevel* constant has type ASEIsolationLevel.",
}

ALL = ["C%02d" % i for i in range(1, 21)]

def main():
    checks = []
    for pid in ALL:
        if pid not in CLAIMED:
            continue
        tech, text, ref = CLAIMED[pid]
        text += EXTRA.get(pid, "")
        checks.append({
            "property_id": pid,
            "quick_cmd": "./check.sh %s quick" % pid,
            "thorough_cmd": "./check.sh %s thorough" % pid,
            "evidence_file": "/verif/evidence/%s.json" % pid,
            "replay_cmd_template": "cat {path}; ./check.sh %s quick" % pid,
            "engine": "dblint",
            "level_claimed": {"category": "other", "text": text, "design_ref": ref},
            "level_note": TRUST,
            "technique": "static analysis: " + tech,
        })
    na = []
    for pid in ALL:
        if pid in CLAIMED:
            continue
        na.append({"property_id": pid, "reason": NA.get(pid, "check not built yet in this tree (planned static rule set: DESIGN.md §3/§7); not claimed until it exists")})
    m = {
        "version": 1,
        "setup_cmd": "cd /verif/checker && GOFLAGS=-mod=mod GOPROXY=off GOSUMDB=off GOTOOLCHAIN=local GOWORK=off go build -o /verif/bin/dblint ./cmd/dblint",
        "hooks": {
            "guard": "verif",
            "enable": "none needed: the analysis reads /repo's source (default build); no instrumentation exists",
            "baseline_off_cmd": "cd /repo && GOFLAGS=-mod=mod GOPROXY=off GOSUMDB=off GOTOOLCHAIN=local go test -vet=off -count=1 ./...",
            "source_commits": [],
            "add_only": True,
        },
        "engines": [{
            "name": "dblint",
            "path": "/verif/checker",
            "serves_properties": sorted(CLAIMED),
            "kind_free_text": "repository-specific static analyser (go/packages + go/types + go/ssa + call graph); loads /repo's working tree on every run, executes nothing",
        }],
        "checks": checks,
        "not_applicable": na,
        "notes": "All claims are at level 'other': each check decides named structural necessary conditions of its property exhaustively over the current tree and lists what it does not decide in its evidence file and in DESIGN.md. Genuine defects are in known_findings.json (open = KNOWN-FINDING lines; fixed = repaired by a fix: commit).",
    }
    with open(os.path.join(HERE, "MANIFEST.json"), "w") as f:
        json.dump(m, f, indent=1)
        f.write("\n")
    try:
        import jsonschema
        jsonschema.validate(m, json.load(open("/root/.vp/MANIFEST.schema.json")))
        print("MANIFEST.json valid;", len(checks), "checks,", len(na), "not applicable")
    except ImportError:
        print("jsonschema not available; not validated")

if __name__ == "__main__":
    main()
