package props

import (
	"go/token"
	"go/types"

	"dblint/internal/core"

	"golang.org/x/tools/go/ssa"
)

func init() {
	register(&Spec{ID: "C03", Title: "Each response is delimited by exactly one final DONE and fully drained", Run: runC03,
		Meta: core.Meta{
			Explanation: "R03.20: every allocation in LookupPackage around a DonePackage is a DonePackage itself (three of them), not a distinct struct type that embeds one: tryParsePackage and isDoneFinal assert *DonePackage. R03.21: the packet Conn.ReadFrom hands to WritePacket is allocated inside the read loop (the receive queue keeps pointers to the packets of a partly received package). R03.19 = R01.2 (sendPacket sets EOM from the body being short, nothing else: a full packet flushed early by QueuePackage must not end the message, or the server answers one request twice and the second answer is read as the next response). R03.18 (who-may-write): Channel.lastPkgRx is stored by tryParsePackage and SetLastPkgRx only. R03.17 = R07.10. R03.16 = R15.14 (Byte and the typed readers never index the queue themselves: a fast path that disagrees with Bytes about the position at a packet end reports not-enough-bytes forever and the response is never terminated). R03.13 = R15.4 (PacketQueue.Reset clears queue, both indices and the EOM flag: nothing of one response survives into the next). R03.14 = R02.1 (SetPosition gets the pair one Position() call returned for this attempt, read after the discard). R03.15: on every path of tryParsePackage that reports on the error queue the answer is false. Structural necessary conditions of response delimiting, decided on SSA. R03.1: every test of 'final DONE' in package tds (outside Login, which is C08's) is an exact comparison of DonePackage.Status with TDS_DONE_FINAL; a mask test against the zero-valued constant is recognised as constant-false; isDoneFinal answers true only for an asserted *DonePackage whose Status equals TDS_DONE_FINAL. R03.2: the synthetic DONE(FINAL) in tryParsePackage is sent only when the token read failed, the queue is at EOM and the last delivered package is not a DONE with Status == FINAL (path condition), the function then returns false, and WritePacket resets the rx queue on the EOM edge of a failed attempt; every delivery `packageCh <- pkg` is followed on all paths by lastPkgRx = pkg. R03.3: in NextPackageUntil every path from a callback error to a return either compares the error for identity with io.EOF (the documented multi-result-set shortcut; errors.Is would also swallow wrapped EOFs), or has isDoneFinal(pkg) true, or passes the draining recursive call NextPackageUntil(ctx, wait, nil); in nil-callback mode every return is dominated by isDoneFinal being true or follows the recursive call whose callback is isDoneFinal. R03.5 = R02.4 (AddPacket sets recvEOM exactly under Status&TDS_BUFSTAT_EOM == TDS_BUFSTAT_EOM, a mask test: the EOM packet of a response may carry further status bits). R03.6: every error return of NextPackage other than the closed-channel one is dominated by the non-blocking receive from packageCh, so a drain running under an ended context still empties what was received. R03.7 = R07.1/R02.5: every wire read in every parser reports a short read as ErrNotEnoughBytes (matched by errors.Is); any other error for a package that is merely cut by a packet boundary is queued on errCh in the middle of a response, and the tail of that response is then read as the start of the next one. R03.8 = R02.7 (once a package of the response was consumed, an EED included, every further receive waits: a poll that gives up mid-response leaves its tail for the next request). R03.9 = R02.11 (the tx-side reset after a send must not touch the receive queue: the first packet of the response may already be in it). R03.10: every return of WritePacket behind the AddPacket call is on the !tryParsePackage() edge. R03.11 = R15.11 (Bytes reports not-enough-bytes only once every queued packet is consumed, so after a failed parse IsEOM() tells whether the message ended). R03.12 = R01.4. R03.4: Reset restores the tx side (header type, tx queue, lastPkgTx) and SendRemainingPackets runs it on every exit after the closed check.",
			NotDecided:  "That the first package after the next request belongs to the next response depends on the history of lastPkgRx and is not decided; EED interleavings and packetisations are not explored.",
			Assumptions: []string{"the reader goroutine is the only caller of tryParsePackage (checked: one call site)"},
		}})
}

func runC03(r *core.Run) {
	p := r.Prog
	r.Rule("R03.1", "tests of the final DONE status are exact and non-vacuous", 3, true)
	r.Rule("R03.2", "synthetic DONE(FINAL) only at EOM after a non-final last package; lastPkgRx tracks every delivery", 5, false)
	r.Rule("R03.3", "NextPackageUntil drains the response on callback errors and in nil-callback mode, and only then", 3, false)
	r.Rule("R03.4", "tx side is reset after every message", 2, false)
	r.Rule("R03.5", "end of message is recognised from the EOM bit, whatever other status bits the packet carries (R02.4)", 2, false)
	r.Rule("R03.6", "an already queued package is handed out before any context is consulted (the drain relies on it)", 1, false)
	defer c02AddPacket(r, "R03.5")
	r.Rule("R03.7", "a package cut by a packet boundary is retried, not reported: every short read is ErrNotEnoughBytes (E-ERR, all call sites)", 213, true)
	defer func() { errSites(r, newErrFlow(p), "R03.7") }()
	defer c03QueuedFirst(r, "R03.6")
	r.Rule("R03.8", "NextPackageUntil waits for every package after the first (R02.7)", 1, false)
	defer c02WaitAfterFirst(r, "R03.8")
	r.Rule("R03.9", "only the reader goroutine touches the receive queue (R02.11)", 1, false)
	defer rxOwnership(r, "R03.9")
	r.Rule("R03.10", "after queueing a packet WritePacket stops only on a failed parse attempt (which handles end of message)", 1, false)
	defer c03WritePacketExits(r)
	r.Rule("R03.11", "a failed read leaves the queue at its end (WritePacket's end-of-message decision relies on it) (R15.11)", 1, false)
	defer c15BytesFailsOnlyWhenEmpty(r, "R03.11")
	r.Rule("R03.12", "the request a response belongs to goes out completely: strict partial-packet test in sendPackets (R01.4)", 4, false)
	defer c01SendPackets(r, "R03.12")
	r.Rule("R03.13", "the end-of-message reset restores the whole state of the receive queue (R15.4)", 1, false)
	defer c15Reset(r, "R03.13")
	r.Rule("R03.14", "a failed attempt rolls back to the position read for this very attempt (R02.1)", 4, false)
	defer c02Rollback(r, "R03.14")
	r.Rule("R03.15", "a parse error ends the dissection of the response", 1, false)
	defer parseErrorStops(r, "R03.15")
	r.Rule("R03.16", "single-byte reads go through Bytes: one place steps over packet ends (R15.14)", 20, false)
	defer c15TypedThroughBytes(r, "R03.16")
	r.Rule("R03.17", "no io.ReadFull/ReadAtLeast/Copy/bufio over a BytesChannel (R07.10): a DONE cut by a packet boundary is retried, not zero-filled", 1, false)
	defer noGenericReaderOverQueue(r, "R03.17")
	r.Rule("R03.18", "lastPkgRx is written on delivery (tryParsePackage) and by its setter only", 2, false)
	defer lastPkgRxWriters(r, "R03.18")
	r.Rule("R03.19", "a request is one message: EOM exactly on packets shorter than the live body size (R01.2)", 3, false)
	defer c01SendPacket(r, "R03.19")
	r.Rule("R03.20", "DONE, DONEPROC and DONEINPROC are one type, the one the finality tests assert", 3, false)
	defer doneFamilyOneType(r, "R03.20")
	r.Rule("R03.21", "every received packet is an object of its own", 1, false)
	defer freshPacketPerRead(r, "R03.21")

	fDoneStatus := p.Field("tds", "DonePackage", "Status")
	cFinal := constOf(p, "tds", "TDS_DONE_FINAL")
	login := p.Func("tds", "Channel", "Login")

	// R03.1 scan
	for _, fn := range p.ModuleFuncs() {
		if fn.Pkg == nil || fn.Pkg.Pkg.Path() != core.Module+"/tds" || fn == login {
			continue
		}
		for _, b := range fn.Blocks {
			for _, in := range b.Instrs {
				bo, ok := in.(*ssa.BinOp)
				if !ok {
					continue
				}
				if x, isVac := vacuousMask(bo); isVac {
					if f, _ := core.FieldLoad(x); f == fDoneStatus {
						r.Bad("R03.1", core.FuncName(fn)+": final DONE test", bo.Pos(), "`Status & TDS_DONE_FINAL != TDS_DONE_FINAL` with TDS_DONE_FINAL == 0 is constant false: any DONE is accepted as final")
					}
					continue
				}
				// exact comparisons of Done.Status with FINAL
				for _, sw := range [][2]ssa.Value{{bo.X, bo.Y}, {bo.Y, bo.X}} {
					f, _ := core.FieldLoad(core.Strip(sw[0]))
					c, isC := sw[1].(*ssa.Const)
					if f == fDoneStatus && isC && c.Value != nil && constEq(c.Value, cFinal) && (bo.Op == token.EQL || bo.Op == token.NEQ) {
						r.OK("R03.1", core.FuncName(fn)+": final DONE test", bo.Pos(), "exact comparison of Status with TDS_DONE_FINAL")
					}
				}
			}
		}
	}
	c03IsDoneFinal(r, fDoneStatus)
	c03Synthetic(r, fDoneStatus, "R03.2")
	c03Drain(r)
	c03Reset(r, "R03.4")
}

func c03IsDoneFinal(r *core.Run, fDoneStatus *types.Var) {
	p := r.Prog
	fn := p.Func("tds", "", "isDoneFinal")
	cFinal := constOf(p, "tds", "TDS_DONE_FINAL")
	key := "tds.isDoneFinal answers true only for DONE with Status == FINAL"
	ok := true
	why := ""
	n := 0
	var leaf func(v ssa.Value, depth int)
	leaf = func(v ssa.Value, depth int) {
		if depth > 5 {
			ok, why = false, "too deep"
			return
		}
		switch x := v.(type) {
		case *ssa.Phi:
			for _, e := range x.Edges {
				leaf(e, depth+1)
			}
		case *ssa.Const:
			if x.Value == nil || x.Value.ExactString() != "false" {
				ok, why = false, "returns the constant "+core.Expr(x)
			}
		case *ssa.BinOp:
			n++
			good := false
			if x.Op == token.EQL {
				for _, sw := range [][2]ssa.Value{{x.X, x.Y}, {x.Y, x.X}} {
					f, base := core.FieldLoad(core.Strip(sw[0]))
					c, isC := sw[1].(*ssa.Const)
					if f == fDoneStatus && isC && c.Value != nil && constEq(c.Value, cFinal) {
						// base must be the asserted *DonePackage of the parameter, under ok
						for _, ta := range assertGuards(core.GuardsOf(x.Block()), ptrTo(p, "DonePackage")) {
							if assertedValue(ta) == base && ta.X == ssa.Value(fn.Params[0]) {
								good = true
							}
						}
					}
				}
			}
			if !good {
				ok, why = false, "the answer "+core.Expr(x)+" is not `Status == TDS_DONE_FINAL` on the asserted *DonePackage"
			}
		default:
			ok, why = false, "the answer is "+core.Expr(v)
		}
	}
	for _, ret := range core.Returns(fn) {
		leaf(core.RetVals(ret)[0], 0)
	}
	if n == 0 && ok {
		ok, why = false, "no comparison with TDS_DONE_FINAL found"
	}
	r.Check(ok, "R03.1", key, fn.Pos(), "true only under the *DonePackage assertion and Status == TDS_DONE_FINAL", why)
}

func c03Synthetic(r *core.Run, fDoneStatus *types.Var, rule string) {
	p := r.Prog
	fn := p.Func("tds", "Channel", "tryParsePackage")
	fPackageCh := p.Field("tds", "Channel", "packageCh")
	fLastRx := p.Field("tds", "Channel", "lastPkgRx")
	cFinal := constOf(p, "tds", "TDS_DONE_FINAL")
	isEOM := p.Func("tds", "PacketQueue", "IsEOM")
	doneT := p.Named("tds", "DonePackage")

	var synth []*ssa.Send
	var deliver []*ssa.Send
	// via[s] is the call in tryParsePackage through which a send located in a helper method (same receiver) is
	// reached; nil for sends in tryParsePackage itself. One level of helpers is looked through.
	via := map[*ssa.Send]ssa.CallInstruction{}
	collect := func(f *ssa.Function, call ssa.CallInstruction) {
		for _, b := range f.Blocks {
			for _, in := range b.Instrs {
				s, ok := in.(*ssa.Send)
				if !ok {
					continue
				}
				if f, _ := core.FieldLoad(s.Chan); f != fPackageCh {
					continue
				}
				v := core.Strip(s.X)
				if al, ok := v.(*ssa.Alloc); ok && core.IsNamedType(al.Type(), core.Module+"/tds", doneT.Obj().Name()) {
					synth = append(synth, s)
					if call != nil {
						via[s] = call
					}
				} else if call == nil {
					deliver = append(deliver, s)
				}
			}
		}
	}
	collect(fn, nil)
	for _, c := range core.Calls(fn) {
		h := core.StaticCallee(c)
		if h == nil || h == fn || !core.InModule(h) || len(h.Blocks) == 0 || len(h.Params) == 0 || len(c.Common().Args) == 0 || c.Common().Args[0] != ssa.Value(fn.Params[0]) {
			continue
		}
		if _, isDefer := c.(*ssa.Defer); isDefer {
			continue
		}
		collect(h, c)
	}
	// The synthesis may have been moved to the caller: WritePacket then decides on what tryParsePackage reports, and
	// "the token could not be read" is what a false answer of tryParsePackage has to mean on every one of its paths.
	host := fn
	falseMeansNoToken := true
	if len(synth) == 0 {
		wpHost := p.Func("tds", "Channel", "WritePacket")
		nDeliver := len(deliver)
		collect(wpHost, nil)
		for _, c := range core.Calls(wpHost) {
			h := core.StaticCallee(c)
			if h == nil || h == fn || h == wpHost || !core.InModule(h) || len(h.Blocks) == 0 || len(h.Params) == 0 || len(c.Common().Args) == 0 || c.Common().Args[0] != ssa.Value(wpHost.Params[0]) {
				continue
			}
			if _, isDefer := c.(*ssa.Defer); isDefer {
				continue
			}
			collect(h, c)
		}
		deliver = deliver[:nDeliver]
		if len(synth) > 0 {
			host = wpHost
			for _, ret := range core.Returns(fn) {
				c, isC := core.RetVals(ret)[0].(*ssa.Const)
				if !isC || c.Value == nil || c.Value.ExactString() != "false" {
					continue
				}
				noToken := false
				for _, g := range core.GuardsAt(ret) {
					if x, nn, ok := core.ErrNilTest(g.Cond); ok && nn == g.Pol {
						if ex, isEx := x.(*ssa.Extract); isEx {
							if call, isCall := ex.Tuple.(*ssa.Call); isCall && calleeName(call) == "Byte" {
								noToken = true
							}
						}
					}
				}
				if !noToken {
					falseMeansNoToken = false
				}
			}
		}
	}
	if len(synth) == 0 {
		r.Bad(rule, "tryParsePackage: synthetic DONE", fn.Pos(), "no send of a freshly built DonePackage found: a response whose last DONE is not final (or missing) is never terminated for the consumer")
	}
	for _, s := range synth {
		al := core.Strip(s.X).(*ssa.Alloc)
		// literal: Status is TDS_DONE_FINAL (explicit store of the constant, or left zero == FINAL)
		statusOK := constEq(cFinal, constOf(p, "tds", "TDS_DONE_FINAL"))
		for _, ref := range *al.Referrers() {
			if fa, ok := ref.(*ssa.FieldAddr); ok && core.FieldOfAddr(fa) == fDoneStatus {
				for _, r2 := range *fa.Referrers() {
					if st, ok := r2.(*ssa.Store); ok {
						c, isC := st.Val.(*ssa.Const)
						statusOK = isC && c.Value != nil && constEq(c.Value, cFinal)
					}
				}
			}
		}
		r.Check(statusOK, rule, "tryParsePackage: synthetic DONE has Status FINAL", s.Pos(), "literal &DonePackage{Status: TDS_DONE_FINAL}", "the synthesised DONE does not carry exactly TDS_DONE_FINAL")

		// path condition
		bad := ""
		// the branch decisions of every path from tryParsePackage's entry to the send (through the helper call, if any)
		condsTo := func(f *ssa.Function, target *ssa.BasicBlock) [][]core.EdgeCond {
			var out [][]core.EdgeCond
			if f.Blocks[0] == target {
				return [][]core.EdgeCond{nil}
			}
			core.EnumPaths(f.Blocks[0], func(b *ssa.BasicBlock) bool { return b == target }, nil, 5000, func(pa core.Path, ended bool) {
				if ended {
					out = append(out, pa.Conds)
				}
			})
			return out
		}
		var all [][]core.EdgeCond
		if call := via[s]; call != nil {
			for _, outer := range condsTo(host, call.Block()) {
				for _, inner := range condsTo(s.Parent(), s.Block()) {
					all = append(all, append(append([]core.EdgeCond(nil), outer...), inner...))
				}
			}
		} else {
			all = condsTo(host, s.Block())
		}
		if len(all) == 0 {
			bad = "no path to the synthetic DONE could be enumerated"
		}
		for _, conds := range all {
			byteFailed, eom, notFinal := false, false, false
			for _, c := range conds {
				if x, nn, ok := core.ErrNilTest(c.If.Cond); ok && nn == c.Pol {
					if ex, isEx := x.(*ssa.Extract); isEx {
						if call, isCall := ex.Tuple.(*ssa.Call); isCall && calleeName(call) == "Byte" {
							byteFailed = true
						}
					}
				}
				if call, ok := c.If.Cond.(*ssa.Call); ok && core.StaticCallee(call) == isEOM && c.Pol {
					eom = true
				}
				if call, ok := c.If.Cond.(*ssa.Call); ok && host != fn && core.StaticCallee(call) == fn && !c.Pol && falseMeansNoToken {
					byteFailed = true
				}
				// !ok of the *DonePackage assertion on lastPkgRx
				if ex, ok := c.If.Cond.(*ssa.Extract); ok && ex.Index == 1 && !c.Pol {
					if ta, ok := ex.Tuple.(*ssa.TypeAssert); ok && types.Identical(ta.AssertedType, ptrTo(p, "DonePackage")) {
						if f, _ := core.FieldLoad(ta.X); f == fLastRx {
							notFinal = true
						}
					}
				}
				if bo, ok := c.If.Cond.(*ssa.BinOp); ok {
					for _, sw := range [][2]ssa.Value{{bo.X, bo.Y}, {bo.Y, bo.X}} {
						f, _ := core.FieldLoad(core.Strip(sw[0]))
						cst, isC := sw[1].(*ssa.Const)
						if f == fDoneStatus && isC && cst.Value != nil && constEq(cst.Value, cFinal) {
							if (bo.Op == token.NEQ && c.Pol) || (bo.Op == token.EQL && !c.Pol) {
								notFinal = true
							}
						}
					}
				}
			}
			switch {
			case !byteFailed && host != fn:
				bad = "the synthetic DONE is sent from WritePacket after any failed attempt at end of message, but tryParsePackage also answers false after a parse error it has just reported: an unparsable last package is followed by a synthetic DONE(FINAL), the response looks complete and the error surfaces in the next one"
			case !byteFailed:
				bad = "the synthetic DONE can be sent although reading the next token did not fail"
			case !eom:
				bad = "the synthetic DONE can be sent although the rx queue is not at end of message"
			case !notFinal:
				bad = "the synthetic DONE can be sent although the last delivered package already was a DONE with Status == FINAL: the consumer sees two final DONEs"
			}
		}
		r.Check(bad == "", rule, "tryParsePackage: synthetic DONE path condition", s.Pos(), "every path to the send has: token read failed ∧ IsEOM ∧ last package not DONE(FINAL)", bad)
		// after the send the function returns false
		retFalse := true
		if host != fn {
			r.OK(rule, "tryParsePackage: returns false after the synthetic DONE", s.Pos(), "the synthesis is in WritePacket, after the attempt was reported as failed")
			continue
		}
		after := s.Block()
		if call := via[s]; call != nil {
			after = call.Block()
		}
		for b := range dominatedRegionOrSelf(after) {
			if ret, ok := b.Instrs[len(b.Instrs)-1].(*ssa.Return); ok {
				c, isC := core.RetVals(ret)[0].(*ssa.Const)
				if !isC || c.Value == nil || c.Value.ExactString() != "false" {
					retFalse = false
				}
			}
		}
		r.Check(retFalse, rule, "tryParsePackage: returns false after the synthetic DONE", s.Pos(), "the attempt is reported as failed, WritePacket resets the queue", "after synthesising the final DONE the function reports a parsed package")
	}
	// every delivery is followed by lastPkgRx = pkg on all paths
	for _, s := range deliver {
		okAll := true
		core.EnumPaths(s.Block(), func(b *ssa.BasicBlock) bool { return false }, nil, 2000, func(pa core.Path, ended bool) {
			stored := false
			for i, b := range pa.Blocks {
				for _, in := range b.Instrs {
					if i == 0 && !core.Dominates(s, in) {
						continue
					}
					if st, ok := in.(*ssa.Store); ok {
						if fa, ok := st.Addr.(*ssa.FieldAddr); ok && core.FieldOfAddr(fa) == fLastRx && st.Val == s.X {
							stored = true
						}
					}
				}
			}
			if !stored {
				okAll = false
			}
		})
		r.Check(okAll, rule, "tryParsePackage: lastPkgRx = pkg after delivery", s.Pos(), "every delivered package becomes lastPkgRx", "a package can be delivered without becoming lastPkgRx: the end-of-message logic then judges the response by a stale package (e.g. suppresses the synthetic final DONE because of the previous response's DONE)")
	}
	if len(deliver) == 0 {
		r.Unknown(rule, "tryParsePackage: delivery", fn.Pos(), "no delivery send found")
	}

	// WritePacket: failed attempt at EOM resets the rx queue
	wp := p.Func("tds", "Channel", "WritePacket")
	reset := p.Func("tds", "PacketQueue", "Reset")
	okReset := false
	for _, c := range callsTo(wp, reset) {
		for _, g := range core.GuardsAt(c.(ssa.Instruction)) {
			if call, ok := g.Cond.(*ssa.Call); ok && core.StaticCallee(call) == isEOM && g.Pol {
				okReset = true
			}
		}
	}
	r.Check(okReset, rule, "WritePacket: rx queue reset at EOM", wp.Pos(), "queueRx.Reset() on the IsEOM edge of a failed attempt", "the rx queue is not reset when a message ended: the EOM flag survives into the next response and a second synthetic DONE can be emitted")
}

func dominatedRegionOrSelf(b *ssa.BasicBlock) map[*ssa.BasicBlock]bool { return dominatedRegion(b) }

func c03Drain(r *core.Run) {
	p := r.Prog
	fn := p.Func("tds", "Channel", "NextPackageUntil")
	isDoneFinal := p.Func("tds", "", "isDoneFinal")
	if len(fn.Params) < 4 {
		r.Unknown("R03.3", "NextPackageUntil", fn.Pos(), "unexpected signature")
		return
	}
	cb := fn.Params[3]
	// the call of the callback
	var cbCall *ssa.Call
	for _, c := range core.Calls(fn) {
		if cc, ok := c.(*ssa.Call); ok && cc.Call.Value == ssa.Value(cb) {
			cbCall = cc
		}
	}
	if cbCall == nil {
		r.Unknown("R03.3", "NextPackageUntil: callback call", fn.Pos(), "no call of processPkg found")
		return
	}
	cbErr, _ := errResult(cbCall)
	var failIf *ssa.If
	if cbErr != nil {
		for _, ref := range *cbErr.Referrers() {
			if bo, ok := ref.(*ssa.BinOp); ok {
				if _, _, isT := core.ErrNilTest(bo); isT {
					for _, r2 := range *bo.Referrers() {
						if i, ok := r2.(*ssa.If); ok {
							failIf = i
						}
					}
				}
			}
		}
	}
	if failIf == nil {
		r.Bad("R03.3", "NextPackageUntil: callback error handling", cbCall.Pos(), "the callback's error is not tested")
		return
	}
	_, nn, _ := core.ErrNilTest(failIf.Cond)
	fail := failIf.Block().Succs[1]
	if nn {
		fail = failIf.Block().Succs[0]
	}
	isIdentityEOF := func(cond ssa.Value) bool {
		bo, ok := cond.(*ssa.BinOp)
		if !ok || bo.Op != token.EQL {
			return false
		}
		for _, sw := range [][2]ssa.Value{{bo.X, bo.Y}, {bo.Y, bo.X}} {
			if sw[0] != cbErr {
				continue
			}
			if u, ok := sw[1].(*ssa.UnOp); ok {
				if g, ok := u.X.(*ssa.Global); ok && g.Pkg.Pkg.Path() == "io" && g.Name() == "EOF" {
					return true
				}
			}
		}
		return false
	}
	isDoneFinalTrue := func(cond ssa.Value) bool {
		ex, ok := cond.(*ssa.Extract)
		if !ok || ex.Index != 0 {
			return false
		}
		call, ok := ex.Tuple.(*ssa.Call)
		return ok && core.StaticCallee(call) == isDoneFinal
	}
	bad, over := "", ""
	var badPos, overPos token.Pos
	core.EnumPaths(fail, func(b *ssa.BasicBlock) bool { return false }, nil, 5000, func(pa core.Path, ended bool) {
		last := pa.Blocks[len(pa.Blocks)-1]
		ret, ok := last.Instrs[len(last.Instrs)-1].(*ssa.Return)
		if !ok {
			return
		}
		if pa.Has(isIdentityEOF, true) {
			return
		}
		drainedFinal := false
		for _, b := range pa.Blocks {
			for _, in := range b.Instrs {
				if c, ok := in.(*ssa.Call); ok && core.StaticCallee(c) == fn && core.IsNil(c.Call.Args[len(c.Call.Args)-1]) && !pa.Has(isDoneFinalTrue, false) {
					drainedFinal = true
				}
			}
		}
		if drainedFinal {
			over = "a callback error on the final DONE itself starts the draining call (it is not under the false edge of isDoneFinal(pkg)): the response is already complete, so the drain consumes the whole next response, or blocks until the context ends"
			overPos = ret.Pos()
		}
		if pa.Has(isDoneFinalTrue, true) {
			return
		}
		drained := false
		for _, b := range pa.Blocks {
			for _, in := range b.Instrs {
				if c, ok := in.(*ssa.Call); ok && core.StaticCallee(c) == fn {
					args := c.Call.Args
					if core.IsNil(args[len(args)-1]) {
						drained = true
					}
				}
			}
		}
		if !drained {
			bad = "a callback error can end NextPackageUntil without consuming the rest of the response (no identity test err == io.EOF, isDoneFinal(pkg) not true, no draining call): the leftover packages are read as the start of the next response"
			badPos = ret.Pos()
		}
	})
	if bad != "" {
		r.Bad("R03.3", "NextPackageUntil: drain on callback error", failIf.Pos(), bad, "offending return at "+p.Pos(badPos))
	} else {
		r.OK("R03.3", "NextPackageUntil: drain on callback error", failIf.Pos(), "every path from a callback error to a return drains, or is the err == io.EOF shortcut, or already saw DONE(FINAL)")
	}
	if over != "" {
		r.Bad("R03.3", "NextPackageUntil: no drain after the final DONE", failIf.Pos(), over, "offending return at "+p.Pos(overPos))
	} else {
		r.OK("R03.3", "NextPackageUntil: no drain after the final DONE", failIf.Pos(), "every draining call on the callback-error path lies under the false edge of isDoneFinal(pkg)")
	}

	// nil-callback mode
	var nilIf *ssa.If
	for _, b := range fn.Blocks {
		if iff, ok := b.Instrs[len(b.Instrs)-1].(*ssa.If); ok {
			if bo, ok := iff.Cond.(*ssa.BinOp); ok && bo.Op == token.EQL && bo.X == ssa.Value(cb) && core.IsNil(bo.Y) {
				nilIf = iff
			}
		}
	}
	if nilIf == nil {
		r.Bad("R03.3", "NextPackageUntil: nil-callback mode", fn.Pos(), "no processPkg == nil branch: a nil callback is called (panic) or the drain mode is gone")
		return
	}
	okNil := true
	whyNil := ""
	core.EnumPaths(nilIf.Block().Succs[0], func(b *ssa.BasicBlock) bool { return false }, nil, 2000, func(pa core.Path, ended bool) {
		last := pa.Blocks[len(pa.Blocks)-1]
		if _, ok := last.Instrs[len(last.Instrs)-1].(*ssa.Return); !ok {
			return
		}
		if pa.Has(isDoneFinalTrue, true) {
			return
		}
		rec := false
		for _, b := range pa.Blocks {
			for _, in := range b.Instrs {
				if c, ok := in.(*ssa.Call); ok && core.StaticCallee(c) == fn {
					args := c.Call.Args
					var cfn *ssa.Function
					switch x := args[len(args)-1].(type) {
					case *ssa.MakeClosure:
						cfn = x.Fn.(*ssa.Function)
					case *ssa.Function:
						cfn = x
					}
					if cfn != nil && len(callsTo(cfn, isDoneFinal)) > 0 {
						rec = true
					}
				}
			}
		}
		if !rec {
			okNil, whyNil = false, "in nil-callback mode a return is reachable without isDoneFinal(pkg) being true and without the recursive call that waits for DONE(FINAL)"
		}
	})
	r.Check(okNil, "R03.3", "NextPackageUntil: nil-callback mode drains to DONE(FINAL)", nilIf.Pos(), "returns only after DONE(FINAL) or through the recursive wait for it", whyNil)
}

func c03Reset(r *core.Run, rule string) {
	p := r.Prog
	reset := p.Func("tds", "Channel", "Reset")
	fHdr := p.Field("tds", "Channel", "CurrentHeaderType")
	fLastTx := p.Field("tds", "Channel", "lastPkgTx")
	qReset := p.Func("tds", "PacketQueue", "Reset")
	fQueueTx := p.Field("tds", "Channel", "queueTx")
	cNormal := constOf(p, "tds", "TDS_BUF_NORMAL")
	// restorers: functions that directly restore all three pieces of tx state
	restores := func(fn *ssa.Function) bool {
		hdr, last, q := false, false, false
		for _, b := range fn.Blocks {
			for _, in := range b.Instrs {
				switch x := in.(type) {
				case *ssa.Store:
					if fa, ok := x.Addr.(*ssa.FieldAddr); ok {
						if core.FieldOfAddr(fa) == fHdr {
							if c, isC := x.Val.(*ssa.Const); isC && c.Value != nil && constEq(c.Value, cNormal) {
								hdr = true
							}
						}
						if core.FieldOfAddr(fa) == fLastTx && core.IsNil(x.Val) {
							last = true
						}
					}
				case *ssa.Call:
					if core.StaticCallee(x) == qReset {
						if f, _ := core.FieldLoad(x.Call.Args[0]); f == fQueueTx {
							q = true
						}
					}
				}
			}
		}
		return hdr && last && q
	}
	restorers := map[*ssa.Function]bool{}
	for _, fn := range p.ModuleFuncs() {
		owner := fn
		if fn.Parent() != nil {
			owner = fn.Parent() // a function literal inside a channel method (e.g. a deferred clean-up)
		}
		if rn := core.RecvNamed(owner); rn != nil && rn.Obj().Name() == "Channel" && restores(fn) {
			restorers[fn] = true
		}
	}
	okReset := restorers[reset]
	for _, c := range core.Calls(reset) {
		if f := core.StaticCallee(c); f != nil && restorers[f] && c.Common().Args[0] == ssa.Value(reset.Params[0]) {
			okReset = true
		}
	}
	r.Check(okReset, rule, "Channel.Reset restores the tx side", reset.Pos(), "CurrentHeaderType = TDS_BUF_NORMAL, queueTx.Reset(), lastPkgTx = nil (directly or through its unlocked helper)", "Reset no longer restores header type, tx queue and lastPkgTx: state of one message leaks into the next")

	srp := p.Func("tds", "Channel", "SendRemainingPackets")
	isRestore := func(f *ssa.Function) bool { return f != nil && (f == reset || restorers[f]) }
	deferred := false
	for _, c := range core.Calls(srp) {
		if d, ok := c.(*ssa.Defer); ok && isRestore(core.StaticCallee(d)) {
			deferred = true
		}
	}
	if !deferred {
		all := true
		sp := p.Func("tds", "Channel", "sendPackets")
		for _, c := range callsTo(srp, sp) {
			core.EnumPaths(c.Block(), func(b *ssa.BasicBlock) bool { return false }, nil, 500, func(pa core.Path, ended bool) {
				has := false
				for _, b := range pa.Blocks {
					for _, in := range b.Instrs {
						if cc, ok := in.(*ssa.Call); ok && isRestore(core.StaticCallee(cc)) {
							has = true
						}
					}
				}
				if !has {
					all = false
				}
			})
		}
		deferred = all && len(callsTo(srp, sp)) > 0
	}
	r.Check(deferred, rule, "SendRemainingPackets resets on every exit", srp.Pos(), "the tx state is restored on every exit after the flush", "after flushing a message the channel is not reset on every exit")
}

// c03QueuedFirst: R03.6. NextPackageUntil drains the rest of a response with the context its caller passed, and the
// usual reason for a callback to abort is that this very context ended. The drain still empties what has been
// received because NextPackage looks at the package queue first: every error return of NextPackage other than the
// closed-channel one is dominated by the non-blocking receive from packageCh.
func c03QueuedFirst(r *core.Run, rule string) {
	p := r.Prog
	fn := p.Func("tds", "Channel", "NextPackage")
	fClosed := p.Field("tds", "Channel", "closed")
	fast, _ := nextPackageSelects(fn, p.Field("tds", "Channel", "packageCh"))
	key := "NextPackage: queued package before context errors"
	if fast == nil {
		r.Bad(rule, key, fn.Pos(), "NextPackage has no non-blocking receive from packageCh")
		return
	}
	why := ""
	for _, ret := range core.Returns(fn) {
		rv := core.RetVals(ret)
		if core.IsNil(rv[len(rv)-1]) {
			continue
		}
		closedEdge := false
		for _, g := range core.GuardsAt(ret) {
			if f, _ := core.FieldLoad(g.Cond); f == fClosed && g.Pol {
				closedEdge = true
			}
		}
		if closedEdge || fast.Block().Dominates(ret.Block()) {
			continue
		}
		why = "NextPackage can fail with " + core.Expr(rv[len(rv)-1]) + " (" + p.Pos(ret.Pos()) + ") before it has looked at the package queue: a drain whose context has ended consumes nothing and the rest of the response is read as the start of the next one"
	}
	r.Check(why == "", rule, key, fast.Pos(), "every error return (other than ErrChannelClosed) comes after the non-blocking receive", why)
}

// c03WritePacketExits: R03.10. After a packet was queued, WritePacket stops only on a FAILED parse attempt — that
// attempt is what looks at the end-of-message flag (synthetic final DONE in tryParsePackage, reset of the rx queue in
// WritePacket). A shortcut that returns after a successful parse "because nothing is left" leaves the sticky EOM flag
// set for the next response.
func c03WritePacketExits(r *core.Run) {
	p := r.Prog
	fn := p.Func("tds", "Channel", "WritePacket")
	tpp := p.Func("tds", "Channel", "tryParsePackage")
	add := p.Func("tds", "PacketQueue", "AddPacket")
	adds := callsTo(fn, add)
	tries := callsTo(fn, tpp)
	if len(adds) != 1 || len(tries) == 0 {
		r.Unknown("R03.10", "WritePacket: exits after queueing", fn.Pos(), "AddPacket / tryParsePackage calls not found")
		return
	}
	why := ""
	n := 0
	for _, ret := range core.Returns(fn) {
		if !adds[0].Block().Dominates(ret.Block()) {
			continue
		}
		n++
		failed := false
		for _, g := range core.GuardsAt(ret) {
			for _, t := range tries {
				if g.Cond == t.Value() && !g.Pol {
					failed = true
				}
			}
		}
		if !failed {
			why = "WritePacket can return (" + p.Pos(ret.Pos()) + ") after a packet was queued without a failed parse attempt having been made: the end-of-message handling (reset of the rx queue, synthetic final DONE) is skipped and the EOM flag of this response is still set when the next one arrives"
		}
	}
	r.Check(why == "" && n > 0, "R03.10", "WritePacket: every exit after queueing follows a failed parse attempt", fn.Pos(), "returns only on !tryParsePackage()", why)
}
