#!/bin/sh
# usage: check.sh <property-id> [quick|thorough]
# Rebuilds the analyser if needed (offline) and analyses /repo's current working tree.
set -u
cd "$(dirname "$0")"
export GOFLAGS=-mod=mod GOPROXY=off GOSUMDB=off GOTOOLCHAIN=local
unset GOWORK
prop="$1"; tier="${2:-${VERIF_TIER:-quick}}"
( cd checker && go build -o ../bin/dblint ./cmd/dblint ) || { echo "build of dblint failed"; exit 2; }
exec ./bin/dblint check -property "$prop" -tier "$tier" -repo "${VERIF_REPO:-/repo}" -verif "$(pwd)"
