package props

import (
	"fmt"
	"go/constant"
	"go/token"
	"go/types"
	"sort"

	"dblint/internal/core"

	"golang.org/x/tools/go/ssa"
)

func init() {
	register(&Spec{ID: "C08", Title: "Login succeeds exactly when the server accepted it", Run: runC08,
		Meta: core.Meta{
			Explanation: "R08.20 = R06.26 (a message id of 0x0123 must not compare equal to 0x23). R08.21 = R06.27 (a nonce announced as VARBINARY must not pass the *LongBinaryFieldData assertion). R08.19 = R06.4 (read-side byte accounting, including the locale information of a parameter format: a valid acceptance whose key parameters carry locale information is not rejected). R08.18 = R01.8 (SendRemainingPackets resets on every exit, and nothing else on the send path does: a reset inside QueuePackage's early flush clears lastPkgTx in the middle of the login message). R08.16 = R10.9, R08.17 = R09.3. R08.15 = R02.11. R08.8 also requires the announced size to be parsed with strconv.Atoi or at a width of at least 17 bits. R08.13 = R02.1 (rollback of a failed attempt, unconditional, to the position read for it: a valid acceptance whose reply is split inside a field still succeeds). R08.14 = R06.19 (an ENVCHANGE member with an empty old value is counted in full: the package in front of the LOGINACK ends where it should). R08.12 = R03.15 (tryParsePackage answers false after reporting a parse error: NextPackage prefers queued packages to queued errors, so packages delivered from behind a malformed one would let Login succeed). R08.11 ('never a crash'): C10's E-LEN obligations for every index/slice expression in the ReadFrom(BytesChannel) parsers of package tds, which run in the reader goroutine where the caller of Login cannot recover a panic. R08.10: CapabilityPackage.Capabilities is stored only into a package allocated in the storing function (the constructor); ReadFrom overwrites masks by key, so the all-false default of a type the server did not answer is still there for Login's all-zero test. Guard-dominance check (E-DOM) of Channel.Login against the acceptance script of the property statement (the required-guard table is written from the statement, not from the code). R08.1: every nil-error return of Login is dominated by the script of its flow — plain: LOGINACK asserted, Status == TDS_LOG_SUCCEED, DONE asserted, exact final test on its status; encrypted: LOGINACK asserted with Status == NEGOTIATE, MSG asserted with MsgId == TDS_MSG_SEC_ENCRYPT4, PARAMFMT asserted with exactly 3 formats, PARAMS asserted with exactly 3 fields, DONE asserted, Int4 cipher-suite field asserted with int32 value == 1, two LongBinary fields asserted with []byte values, NextPackageUntil's error nil with a callback that returns (true,nil) only under LOGINACK asserted and Status == SUCCEED, CAPABILITY asserted, Conn.Caps := that package stored, the all-zero mask test, DONE asserted, exact final test. A mask test against the zero-valued TDS_DONE_FINAL is recognised as constant and does not count. R08.2: every asserted package value comes from a NextPackage call whose error is known nil at the return. R08.3: every error-returning call in Login is checked: if it dominates a success return its error is known nil there, otherwise (loop bodies) its failure edge returns a non-nil error. R08.4: every context argument in Login (and its closure) derives from the caller's ctx, and every *Channel method reachable from Login that takes a ctx passes on only contexts derived from its own parameter (the drain inside NextPackageUntil included), so no wait outlives the caller's context. R08.5: every comma-ok assertion in Login is satisfiable in the module's MakeInterface universe. R08.6: the all-zero capability test restarts from `true` for every capability type (the flag's loop-entry value is the constant true inside the outer loop) and its true edge returns an error. R08.7: the reply parsers tolerate every packetisation of the replies — C07's E-ERR obligation over all wire-read call sites is re-run (a parser that reports a short read as a different error makes a valid, merely fragmented acceptance fail). R08.9: in rsaEncrypt the block returned by pem.Decode is dereferenced only under a guard that implies it is non-nil (an explicit nil test, or len(rest) == 0 for the rest exactly as Decode returned it; Login never passes an empty key). R08.8: the packet size the server announces is applied: every iteration of handleSpecialPackage's member loop evaluates the PACKSIZE test (no shortcut skips a member first).",
			NotDecided:  "Reply histories are not explored (no peer is simulated); key sizes, packet size after login (C11) and timing are not decided.",
			Assumptions: []string{"the acceptance script transcribes the property statement", "NextPackage returns the packages in arrival order (C02/C03)"},
		}})
}

func ptrTo(p *core.Prog, name string) types.Type { return types.NewPointer(p.Named("tds", name)) }

func runC08(r *core.Run) {
	p := r.Prog
	r.Rule("R08.1", "success returns of Login are dominated by the acceptance script of their flow", 20, false)
	r.Rule("R08.2", "asserted packages come from NextPackage calls whose error is nil", 6, false)
	r.Rule("R08.3", "no error-returning call in Login is left unchecked on the way to success", 25, true)
	r.Rule("R08.4", "context arguments derive from the caller's ctx", 20, true)
	r.Rule("R08.5", "every comma-ok assertion is satisfiable", 10, true)
	r.Rule("R08.6", "all-zero capability test is per capability type and leads to an error", 1, false)
	r.Rule("R08.7", "the reply parsers tolerate fragmentation: every short read is ErrNotEnoughBytes (E-ERR, all call sites)", 213, true)
	r.Rule("R08.8", "the announced packet size is applied for every PACKSIZE member", 1, false)
	r.Rule("R08.9", "an unusable public key yields an error, not a nil dereference", 1, false)
	r.Rule("R08.10", "the capability masks are created by the constructor only (the defaults back the all-zero test)", 2, false)
	r.Rule("R08.11", "never a crash: indexing and slicing in the package parsers is in range for every reply (E-LEN, R10.1)", 18, false)
	defer c08NoCrash(r)
	defer c08MasksKept(r)
	r.Rule("R08.12", "a reply package that fails to parse ends the dissection of the reply (nothing behind it is delivered)", 1, false)
	defer parseErrorStops(r, "R08.12")
	r.Rule("R08.13", "a reply cut by a packet boundary is parsed again from the position saved for that attempt (R02.1)", 4, false)
	defer c02Rollback(r, "R08.13")
	r.Rule("R08.14", "the member readers of the reply packages report the bytes they consumed (R06.19)", 3, false)
	defer func() { c06ReaderCounts(r, newErrFlow(r.Prog), "R08.14") }()
	r.Rule("R08.15", "a send does not touch the receive queue (R02.11): a reply that starts to arrive while the request is still being flushed is not lost", 1, false)
	defer rxOwnership(r, "R08.15")
	r.Rule("R08.16", "the format pointers taken from the previous package are nil-checked before use (R10.9): never a crash", 2, false)
	defer c10FormatPointers(r, "R08.16")
	r.Rule("R08.17", "the session key is 32 bytes (R09.3): with the nonce it fits every key size the property quantifies over", 1, false)
	defer c09SymKey(r, "R08.17")
	r.Rule("R08.18", "the tx side is reset when a message was flushed, not in the middle of one (R01.8)", 2, false)
	defer c03Reset(r, "R08.18")
	r.Rule("R08.19", "the reply's format readers count every byte they read (R06.4)", 60, true)
	defer func() { c06AccountingAs(r, newErrFlow(r.Prog), "R08.19") }()
	r.Rule("R08.20", "a message id read from the wire keeps its width (R06.26)", 40, false)
	defer wireReadsNotNarrowed(r, "R08.20")
	r.Rule("R08.21", "a parameter announced with one type is not read as another (R06.27)", 30, false)
	defer lookupSiblingsAgree(r, "R08.21")

	login := p.Func("tds", "Channel", "Login")
	nextPkg := p.Func("tds", "Channel", "NextPackage")
	nextUntil := p.Func("tds", "Channel", "NextPackageUntil")

	fStatusLA := p.Field("tds", "LoginAckPackage", "Status")
	fMsgId := p.Field("tds", "MsgPackage", "MsgId")
	fFmts := p.Field("tds", "ParamFmtPackage", "Fmts")
	fDataFields := p.Field("tds", "ParamsPackage", "DataFields")
	fDoneStatus := p.Field("tds", "DonePackage", "Status")
	fCaps := p.Field("tds", "Conn", "Caps")
	cSucceed := constOf(p, "tds", "TDS_LOG_SUCCEED")
	cNegotiate := constOf(p, "tds", "TDS_LOG_NEGOTIATE")
	cEnc4 := constOf(p, "tds", "TDS_MSG_SEC_ENCRYPT4")
	cFinal := constOf(p, "tds", "TDS_DONE_FINAL")

	nPlain, nEnc := 0, 0
	for _, ret := range core.Returns(login) {
		rv := core.RetVals(ret)
		if !core.IsNil(rv[len(rv)-1]) {
			continue
		}
		gs := core.GuardsAt(ret)
		flow := "plain"
		if len(assertGuards(gs, ptrTo(p, "MsgPackage"))) > 0 {
			flow = "encrypted"
			nEnc++
		} else {
			nPlain++
		}
		need := func(ok bool, name, okWhy, badWhy string) {
			r.Check(ok, "R08.1", flow+": "+name, ret.Pos(), okWhy, badWhy)
		}

		// LOGINACK
		las := assertGuards(gs, ptrTo(p, "LoginAckPackage"))
		need(len(las) >= 1, "assertOK(*LoginAckPackage)", "first reply asserted to be a LOGINACK", "success without the first reply being asserted a *LoginAckPackage")
		wantLA := cSucceed
		wantName := "TDS_LOG_SUCCEED"
		if flow == "encrypted" {
			wantLA, wantName = cNegotiate, "TDS_LOG_NEGOTIATE"
		}
		okEq := false
		for _, ta := range las {
			for _, cg := range fieldCmpGuards(gs, assertedValue(ta), fStatusLA) {
				if cg.Equal() && constEq(cg.Cst, wantLA) {
					okEq = true
				}
			}
		}
		need(okEq, "eq(LoginAck.Status, "+wantName+")", "status compared for equality", "success is not dominated by LoginAck.Status == "+wantName+": a failure or wrong acknowledgement is accepted")

		// final DONE
		dns := assertGuards(gs, ptrTo(p, "DonePackage"))
		wantD := 1
		if flow == "encrypted" {
			wantD = 2
		}
		need(len(dns) >= wantD, fmt.Sprintf("assertOK(*DonePackage) x%d", wantD), "DONE replies asserted", fmt.Sprintf("only %d DONE assertions dominate the success return, the flow has %d", len(dns), wantD))
		exact, vac := false, false
		var vacPos token.Pos
		for _, ta := range dns {
			for _, cg := range fieldCmpGuards(gs, assertedValue(ta), fDoneStatus) {
				if cg.Equal() && constEq(cg.Cst, cFinal) {
					exact = true
				}
			}
		}
		for _, g := range gs {
			if x, ok := vacuousMask(g.Cond); ok {
				if f, _ := core.FieldLoad(x); f == fDoneStatus {
					vac = true
					vacPos = g.Cond.Pos()
				}
			}
		}
		switch {
		case exact:
			r.OK("R08.1", flow+": exact final DONE test", ret.Pos(), "Done.Status == TDS_DONE_FINAL dominates the return")
		case vac:
			r.Bad("R08.1", flow+": exact final DONE test", vacPos, "the final-DONE test is `Status & TDS_DONE_FINAL != TDS_DONE_FINAL` with TDS_DONE_FINAL == 0, a constant-false condition: any DONE (e.g. DONE(ERROR)) after the acknowledgement is accepted as final")
		default:
			r.Bad("R08.1", flow+": exact final DONE test", ret.Pos(), "no test of Done.Status against TDS_DONE_FINAL dominates the success return")
		}

		// R08.2 sources of asserted packages
		for _, name := range []string{"LoginAckPackage", "DonePackage", "MsgPackage", "ParamFmtPackage", "ParamsPackage", "CapabilityPackage"} {
			for _, ta := range assertGuards(gs, ptrTo(p, name)) {
				key := flow + ": source of asserted *" + name
				ex, ok := ta.X.(*ssa.Extract)
				if !ok {
					r.Unknown("R08.2", key, ta.Pos(), "asserted value is not the direct result of a call: "+core.Expr(ta.X))
					continue
				}
				call, ok := ex.Tuple.(*ssa.Call)
				if !ok || (core.StaticCallee(call) != nextPkg && core.StaticCallee(call) != nextUntil) {
					r.Bad("R08.2", key, ta.Pos(), "asserted package does not come from NextPackage")
					continue
				}
				r.Check(errNilGuard(gs, call), "R08.2", key, ta.Pos(), "NextPackage error known nil", "the package is examined although NextPackage's error is not known to be nil")
			}
		}

		if flow == "plain" {
			continue
		}
		// encrypted flow
		okMsg := false
		for _, ta := range assertGuards(gs, ptrTo(p, "MsgPackage")) {
			for _, cg := range fieldCmpGuards(gs, assertedValue(ta), fMsgId) {
				if cg.Equal() && constEq(cg.Cst, cEnc4) {
					okMsg = true
				}
			}
		}
		need(okMsg, "eq(Msg.MsgId, TDS_MSG_SEC_ENCRYPT4)", "message id compared for equality", "success is not dominated by MsgId == TDS_MSG_SEC_ENCRYPT4: a wrong message id is accepted")
		lenIs3 := func(tn string, f *types.Var) bool {
			for _, ta := range assertGuards(gs, ptrTo(p, tn)) {
				for _, cg := range lenCmpGuards(gs, assertedValue(ta), f) {
					if cg.Equal() && constEq(cg.Cst, constant.MakeInt64(3)) {
						return true
					}
				}
			}
			return false
		}
		need(len(assertGuards(gs, ptrTo(p, "ParamFmtPackage"))) >= 1, "assertOK(*ParamFmtPackage)", "asserted", "missing")
		need(lenIs3("ParamFmtPackage", fFmts), "lenEq(ParamFmt.Fmts, 3)", "exactly three key parameter formats", "success is not dominated by len(Fmts) == 3: a reply with another number of key parameters is accepted")
		need(len(assertGuards(gs, ptrTo(p, "ParamsPackage"))) >= 1, "assertOK(*ParamsPackage)", "asserted", "missing")
		need(lenIs3("ParamsPackage", fDataFields), "lenEq(Params.DataFields, 3)", "exactly three key parameters", "success is not dominated by len(DataFields) == 3: a reply with another number of key parameters is accepted")
		need(len(assertGuards(gs, ptrTo(p, "Int4FieldData"))) >= 1, "assertOK(*Int4FieldData)", "cipher suite field asserted", "cipher suite parameter type not asserted")
		i32 := assertGuards(gs, types.Typ[types.Int32])
		okOne := false
		for _, ta := range i32 {
			v := assertedValue(ta)
			for _, g := range gs {
				bo, ok := g.Cond.(*ssa.BinOp)
				if !ok {
					continue
				}
				for _, sw := range [][2]ssa.Value{{bo.X, bo.Y}, {bo.Y, bo.X}} {
					if sw[0] == v {
						if c, isC := core.ConstInt64(sw[1]); isC && c == 1 && ((bo.Op == token.EQL && g.Pol) || (bo.Op == token.NEQ && !g.Pol)) {
							okOne = true
						}
					}
				}
			}
		}
		need(len(i32) >= 1 && okOne, "assertOK(int32) && value == 1", "asymmetric type checked", "the asymmetric encryption type is not checked to be int32(1)")
		need(len(assertGuards(gs, ptrTo(p, "LongBinaryFieldData"))) >= 2, "assertOK(*LongBinaryFieldData) x2", "public key and nonce fields asserted", "public key / nonce parameter types not both asserted")
		need(len(assertGuards(gs, types.NewSlice(types.Typ[types.Byte]))) >= 2, "assertOK([]byte) x2", "public key and nonce values asserted", "public key / nonce values not both asserted to be []byte")
		caps := assertGuards(gs, ptrTo(p, "CapabilityPackage"))
		need(len(caps) >= 1, "assertOK(*CapabilityPackage)", "capability reply asserted", "success without a capability reply")
		// Conn.Caps := asserted capability package, dominating the return
		stored := false
		for _, b := range login.Blocks {
			for _, in := range b.Instrs {
				st, ok := in.(*ssa.Store)
				if !ok {
					continue
				}
				fa, ok := st.Addr.(*ssa.FieldAddr)
				if !ok || core.FieldOfAddr(fa) != fCaps {
					continue
				}
				for _, ta := range caps {
					if st.Val == assertedValue(ta) && core.Dominates(st, ret) {
						stored = true
					}
				}
			}
		}
		need(stored, "stores(Conn.Caps := capability reply)", "the server's capabilities replace the requested ones before success", "Conn.Caps is not set to the server's capability package on the success path")
		// NextPackageUntil with the acknowledging closure
		okUntil := false
		for _, c := range callsTo(login, nextUntil) {
			if !core.Dominates(c.(ssa.Instruction), ret) || !errNilGuard(gs, c) {
				continue
			}
			args := c.Common().Args
			var cfn *ssa.Function
			switch x := args[len(args)-1].(type) {
			case *ssa.MakeClosure:
				cfn = x.Fn.(*ssa.Function)
			case *ssa.Function:
				cfn = x
			}
			if cfn == nil {
				continue
			}
			cfn = p.UnboundMethod(cfn) // the callback may be a method value
			if c08Closure(r, cfn, fStatusLA, cSucceed) {
				okUntil = true
			}
		}
		need(okUntil, "errNil(NextPackageUntil(ack closure))", "the success acknowledgement is awaited", "success without waiting for a LOGINACK(SUCCEED) after the key exchange")
	}
	if nPlain == 0 {
		r.Unknown("R08.1", "plain: success return", login.Pos(), "no success return for the plain flow found")
	}
	if nEnc == 0 {
		r.Unknown("R08.1", "encrypted: success return", login.Pos(), "no success return for the encrypted flow found")
	}

	c08Errors(r, login)
	for _, fn := range append([]*ssa.Function{login}, login.AnonFuncs...) {
		checkCtxArgs(r, "R08.4", fn, login.Params)
		checkAssertsSatisfiable(r, "R08.5", fn)
	}
	// the *Channel methods Login waits in (statically reachable from Login, with a ctx parameter of their own): the
	// context they pass on must be the one they were given
	{
		seen := map[*ssa.Function]bool{login: true}
		work := []*ssa.Function{login}
		for len(work) > 0 {
			f := work[len(work)-1]
			work = work[:len(work)-1]
			for _, c := range core.Calls(f) {
				g := core.StaticCallee(c)
				if g == nil || seen[g] || !core.InModule(g) || len(g.Blocks) == 0 {
					continue
				}
				seen[g] = true
				work = append(work, g)
			}
			for _, a := range f.AnonFuncs {
				if !seen[a] {
					seen[a] = true
					work = append(work, a)
				}
			}
		}
		var fs []*ssa.Function
		for f := range seen {
			if f == login || f.Parent() == login {
				continue
			}
			outer := f
			if f.Parent() != nil {
				outer = f.Parent()
			}
			if rn := core.RecvNamed(outer); rn == nil || rn.Obj().Name() != "Channel" || ctxParam(outer) == nil {
				continue
			}
			fs = append(fs, f)
		}
		sort.Slice(fs, func(i, j int) bool { return core.FuncName(fs[i]) < core.FuncName(fs[j]) })
		for _, f := range fs {
			outer := f
			if f.Parent() != nil {
				outer = f.Parent()
			}
			checkCtxArgs(r, "R08.4", f, outer.Params)
		}
	}
	for _, fn := range posexFuncs(p, "zzPosexLogin") {
		c08Errors(r, fn)
		checkCtxArgs(r, "R08.4", fn, fn.Params)
		checkAssertsSatisfiable(r, "R08.5", fn)
	}
	c08AllZero(r, login)
	errSites(r, newErrFlow(p), "R08.7")
	packSizeEveryMember(r, "R08.8")
	c08PemBlock(r, "R08.9")
}

// c08PemBlock: R08.9. pem.Decode returns a nil block (and the whole input as rest) when the key holds no PEM data.
// rsaEncrypt may touch the block only where it is known non-nil: under an explicit nil test, or after `len(rest) > 0`
// was refuted for the UNTOUCHED rest of that Decode call (for a non-empty key a nil block means rest == key, so the
// test catches it; Login never passes an empty key: GoValue maps an empty LONGBINARY to nil and the []byte assertion
// rejects it).
func c08PemBlock(r *core.Run, rule string) {
	p := r.Prog
	fn := p.Func("tds", "", "rsaEncrypt")
	n := 0
	for _, c := range core.Calls(fn) {
		call, ok := c.(*ssa.Call)
		if !ok || !core.IsPkgFunc(call, "encoding/pem", "Decode") {
			continue
		}
		var block, rest ssa.Value
		for _, ref := range *call.Referrers() {
			if ex, ok := ref.(*ssa.Extract); ok {
				if ex.Index == 0 {
					block = ex
				} else {
					rest = ex
				}
			}
		}
		if block == nil {
			continue
		}
		for _, ref := range *block.Referrers() {
			fa, ok := ref.(*ssa.FieldAddr)
			if !ok {
				continue
			}
			n++
			guarded := false
			for _, g := range core.GuardsAt(fa) {
				bo, ok := g.Cond.(*ssa.BinOp)
				if !ok {
					continue
				}
				if bo.X == block && core.IsNil(bo.Y) && ((bo.Op == token.NEQ && g.Pol) || (bo.Op == token.EQL && !g.Pol)) {
					guarded = true
				}
				if lc, ok := bo.X.(*ssa.Call); ok && rest != nil {
					if arg, isLen := isLenCall(lc); isLen && arg == rest {
						k, isC := core.ConstInt64(bo.Y)
						op, pol := bo.Op, g.Pol
						if !pol {
							op = map[token.Token]token.Token{token.LSS: token.GEQ, token.GEQ: token.LSS, token.GTR: token.LEQ, token.LEQ: token.GTR, token.EQL: token.NEQ, token.NEQ: token.EQL}[op]
						}
						if isC && ((k == 0 && (op == token.LEQ || op == token.EQL)) || (k == 1 && op == token.LSS)) {
							guarded = true
						}
					}
				}
			}
			r.Check(guarded, rule, "rsaEncrypt: PEM block used only where it is non-nil", fa.Pos(), "under block != nil, or len(rest) == 0 for the untouched rest of pem.Decode",
				"the PEM block returned by pem.Decode is dereferenced without a guard that implies it is non-nil (pem.Decode returns nil when the key holds no PEM data; only `len(rest) == 0` on the rest exactly as Decode returned it, or a nil test, excludes that): a server sending an unusable key crashes Login with a nil pointer dereference")
		}
	}
	if n == 0 {
		r.Unknown(rule, "rsaEncrypt: PEM block", fn.Pos(), "no use of the block returned by pem.Decode found")
	}
}

// c08Closure: every `return true, nil` is under assertOK(*LoginAckPackage) && Status == SUCCEED.
func c08Closure(r *core.Run, fn *ssa.Function, fStatus *types.Var, cSucceed constant.Value) bool {
	p := r.Prog
	n := 0
	good := true
	for _, ret := range core.Returns(fn) {
		rv := core.RetVals(ret)
		c, isC := rv[0].(*ssa.Const)
		if isC && c.Value != nil && c.Value.ExactString() == "false" {
			continue
		}
		n++
		gs := core.GuardsAt(ret)
		ok := false
		for _, ta := range assertGuards(gs, ptrTo(p, "LoginAckPackage")) {
			if len(fn.Params) >= 1 && ta.X != ssa.Value(fn.Params[len(fn.Params)-1]) {
				continue
			}
			for _, cg := range fieldCmpGuards(gs, assertedValue(ta), fStatus) {
				if cg.Equal() && constEq(cg.Cst, cSucceed) {
					ok = true
				}
			}
		}
		if !ok {
			good = false
		}
		r.Check(ok, "R08.1", "encrypted: ack closure returns true only for LOGINACK(SUCCEED)", ret.Pos(), "dominated by the assertion and Status == TDS_LOG_SUCCEED", "the callback ends the wait for a package that is not a successful login acknowledgement")
	}
	return good && n > 0
}

// c08Errors: R08.3.
func c08Errors(r *core.Run, login *ssa.Function) {
	var succ []*ssa.Return
	for _, ret := range core.Returns(login) {
		rv := core.RetVals(ret)
		if core.IsNil(rv[len(rv)-1]) {
			succ = append(succ, ret)
		}
	}
	for _, c := range core.Calls(login) {
		if _, isDefer := c.(*ssa.Defer); isDefer {
			continue
		}
		e, has := errResult(c)
		if !has {
			continue
		}
		if f := core.StaticCallee(c); f != nil && f.Pkg != nil && (f.Pkg.Pkg.Path() == "fmt" || f.Pkg.Pkg.Path() == "errors") {
			continue // error constructors, not fallible operations
		}
		key := login.Name() + " -> " + calleeKey(c)
		if e == nil {
			r.Bad("R08.3", key, c.Pos(), "the error result is discarded")
			continue
		}
		dominatesSome := false
		bad := false
		for _, ret := range succ {
			if core.Dominates(c.(ssa.Instruction), ret) {
				dominatesSome = true
				if !errNilGuard(core.GuardsAt(ret), c) {
					bad = true
				}
			}
		}
		if dominatesSome {
			r.Check(!bad, "R08.3", key, c.Pos(), "error known nil at every success return it dominates", "a success return is reachable although this call's error is not known to be nil")
			continue
		}
		// local: tested, failure edge returns non-nil
		ok := false
		for _, ref := range *e.Referrers() {
			bo, isB := ref.(*ssa.BinOp)
			if !isB {
				continue
			}
			_, nn, isT := core.ErrNilTest(bo)
			if !isT {
				continue
			}
			for _, r2 := range *bo.Referrers() {
				iff, isIf := r2.(*ssa.If)
				if !isIf {
					continue
				}
				fail := iff.Block().Succs[1]
				if nn {
					fail = iff.Block().Succs[0]
				}
				allRet := len(fail.Preds) == 1
				for b := range dominatedRegion(fail) {
					for _, s := range b.Succs {
						if !dominatedRegion(fail)[s] {
							allRet = false
						}
					}
					if ret, isRet := b.Instrs[len(b.Instrs)-1].(*ssa.Return); isRet {
						rv := core.RetVals(ret)
						if core.IsNil(rv[len(rv)-1]) {
							allRet = false
						}
					}
				}
				if allRet {
					ok = true
				}
			}
		}
		r.Check(ok, "R08.3", key, c.Pos(), "error tested; the failure edge returns an error", "the error of this call is not tested with a failing edge that returns an error")
	}
}

// checkCtxArgs: every context.Context argument passed in fn derives from
// the ctx parameter of the enclosing API function.
func checkCtxArgs(r *core.Run, rule string, fn *ssa.Function, outerParams []*ssa.Parameter) {
	var param ssa.Value
	for _, pa := range outerParams {
		if core.IsContextType(pa.Type()) {
			param = pa
		}
	}
	// closures see the parent's ctx as a free variable
	var free ssa.Value
	for _, fv := range fn.FreeVars {
		if core.IsContextType(fv.Type()) {
			free = fv
		}
		if pt, ok := fv.Type().(*types.Pointer); ok && core.IsContextType(pt.Elem()) {
			free = fv
		}
	}
	if p := ctxParam(fn); p != nil {
		param = p
	}
	for _, c := range core.Calls(fn) {
		f := core.StaticCallee(c)
		if f == nil || !core.InModule(f) {
			continue
		}
		for i, a := range c.Common().Args {
			if !core.IsContextType(a.Type()) {
				continue
			}
			key := core.FuncName(fn) + " -> " + core.FuncName(f) + fmt.Sprintf(" arg%d", i)
			ok := param != nil && ctxDerivedFrom(a, param, 0)
			if !ok && free != nil {
				// load of the captured variable
				if u, isU := a.(*ssa.UnOp); isU && u.X == free {
					ok = true
				}
				if a == free {
					ok = true
				}
			}
			r.Check(ok, rule, key, c.Pos(), "context derives from the caller's ctx", "this call waits on "+core.Expr(a)+", which does not derive from the caller's context: the wait can outlive the caller's deadline or cancellation")
		}
	}
}

// checkAssertsSatisfiable: the asserted concrete type is one the module
// ever stores in an interface.
func checkAssertsSatisfiable(r *core.Run, rule string, fn *ssa.Function) {
	u := makeInterfaceUniverse(r.Prog)
	for _, b := range fn.Blocks {
		for _, in := range b.Instrs {
			ta, ok := in.(*ssa.TypeAssert)
			if !ok {
				continue
			}
			if _, isIface := ta.AssertedType.Underlying().(*types.Interface); isIface {
				continue
			}
			key := core.FuncName(fn) + ": " + core.KExpr(ta.X) + ".(" + core.TypeStr(ta.AssertedType) + ")"
			sat := u["*|"+types.TypeString(ta.AssertedType, nil)]
			if n, ok := ta.X.Type().(*types.Named); ok && n.Obj().Pkg() != nil && len(n.Obj().Pkg().Path()) >= len(core.Module) && n.Obj().Pkg().Path()[:len(core.Module)] == core.Module {
				// a module interface: only conversions to that interface produce its values
				sat = u[types.TypeString(n, nil)+"|"+types.TypeString(ta.AssertedType, nil)]
			}
			r.Check(sat, rule, key, ta.Pos(), "the module converts this type to an interface somewhere",
				"no code in the module ever stores a "+core.TypeStr(ta.AssertedType)+" in an interface: the assertion can never succeed (a producer stores a different type, e.g. the value instead of the pointer)")
		}
	}
}

// c08AllZero: R08.6.
func c08AllZero(r *core.Run, login *ssa.Function) {
	key := "Login: all-zero capability mask test"
	// find an If whose condition is a bool φ located at (or after) an inner loop header, whose true edge returns an error
	found := false
	// Login itself, and helpers it calls with a *CapabilityPackage argument (their error results are covered by R08.3)
	var blocks []*ssa.BasicBlock
	blocks = append(blocks, login.Blocks...)
	seenH := map[*ssa.Function]bool{login: true}
	for _, c := range core.Calls(login) {
		h := core.StaticCallee(c)
		if h == nil || seenH[h] || !core.InModule(h) || len(h.Blocks) == 0 {
			continue
		}
		for _, a := range c.Common().Args {
			if types.Identical(a.Type(), ptrTo(r.Prog, "CapabilityPackage")) && h.Signature.Results().Len() > 0 && core.IsErrorType(h.Signature.Results().At(h.Signature.Results().Len()-1).Type()) {
				seenH[h] = true
				blocks = append(blocks, h.Blocks...)
			}
		}
	}
	for _, b := range blocks {
		iff, ok := b.Instrs[len(b.Instrs)-1].(*ssa.If)
		if !ok {
			continue
		}
		ph, ok := iff.Cond.(*ssa.Phi)
		if !ok || !types.Identical(ph.Type().Underlying(), types.Typ[types.Bool]) {
			continue
		}
		// true edge returns non-nil error
		t := b.Succs[0]
		ret, isRet := t.Instrs[len(t.Instrs)-1].(*ssa.Return)
		if !isRet {
			continue
		}
		rv := core.RetVals(ret)
		if core.IsNil(rv[len(rv)-1]) {
			continue
		}
		// the test sits inside the loop over capability types
		var outerH *ssa.BasicBlock
		var outer map[*ssa.BasicBlock]bool
		for h := b; h != nil; h = h.Idom() {
			if l := core.NaturalLoop(h); l != nil && l[b] && (outer == nil || len(l) > len(outer)) {
				outer, outerH = l, h
			}
		}
		if outer == nil {
			continue
		}
		found = true
		// Walk the φ web of the flag. A φ at the header of the outer loop means the flag's value is carried from
		// one capability type to the next; the flag must restart from the constant true inside the outer loop.
		okInit, sawTrue := true, false
		why := ""
		seen := map[*ssa.Phi]bool{}
		var walk func(v ssa.Value, from *ssa.BasicBlock)
		walk = func(v ssa.Value, from *ssa.BasicBlock) {
			switch x := v.(type) {
			case *ssa.Phi:
				if seen[x] {
					return
				}
				seen[x] = true
				if x.Block() == outerH || !outer[x.Block()] {
					okInit = false
					why = "the flag is carried across iterations of the loop over capability types (φ at " + r.Prog.Pos(x.Pos()) + "): it is not restarted for every type, so a type with a set bit hides a later all-zero type"
					return
				}
				for i, e := range x.Edges {
					walk(e, x.Block().Preds[i])
				}
			case *ssa.Const:
				if x.Value != nil && x.Value.ExactString() == "true" {
					if from != nil && outer[from] {
						sawTrue = true
					} else {
						okInit = false
						why = "the flag is initialised outside the loop over capability types"
					}
				}
			default:
				okInit = false
				why = "the flag depends on " + core.Expr(v)
			}
		}
		walk(ph, nil)
		if okInit && !sawTrue {
			okInit, why = false, "the flag is never initialised to true inside the loop over capability types"
		}
		r.Check(okInit, "R08.6", key, iff.Pos(), "flag restarts from true for each capability type; its true edge returns an error", why)
	}
	if !found {
		r.Bad("R08.6", key, login.Pos(), "no all-zero capability test that returns an error was found in Login")
	}
}

// posexFuncs returns the functions declared in in-memory positive-example
// files whose name starts with prefix.
func posexFuncs(p *core.Prog, prefix string) []*ssa.Function {
	var out []*ssa.Function
	for _, fn := range p.ModuleFuncs() {
		if p.InOverlay(fn.Pos()) && len(fn.Name()) >= len(prefix) && fn.Name()[:len(prefix)] == prefix {
			out = append(out, fn)
		}
	}
	return out
}
