package core

import (
	"go/types"

	"golang.org/x/tools/go/ssa"
)

// EdgeCond is a branch taken along a path.
type EdgeCond struct {
	If  *ssa.If
	Pol bool // true edge taken
}

// Path is an acyclic block sequence with the branch decisions taken.
type Path struct {
	Blocks []*ssa.BasicBlock
	Conds  []EdgeCond
}

// Has reports whether the path takes cond with polarity pol.
func (p Path) Has(match func(cond ssa.Value) bool, pol bool) bool {
	for _, c := range p.Conds {
		if c.Pol == pol && match(c.If.Cond) {
			return true
		}
	}
	return false
}

func (p Path) HasAny(match func(cond ssa.Value) bool) bool {
	for _, c := range p.Conds {
		if match(c.If.Cond) {
			return true
		}
	}
	return false
}

// EnumPaths enumerates acyclic paths that start in block from and stop at
// the first block for which end returns true (that block is included).
// Paths that reach a block without successors (return/panic) before end are
// reported with ended=false. within (optional) restricts the walk. At most
// limit paths are produced; the return value is false if the limit was hit.
func EnumPaths(from *ssa.BasicBlock, end func(*ssa.BasicBlock) bool, within map[*ssa.BasicBlock]bool, limit int, visit func(p Path, ended bool)) bool {
	n := 0
	onPath := map[*ssa.BasicBlock]bool{}
	var blocks []*ssa.BasicBlock
	var conds []EdgeCond
	complete := true
	var rec func(b *ssa.BasicBlock, first bool)
	rec = func(b *ssa.BasicBlock, first bool) {
		if n >= limit {
			complete = false
			return
		}
		blocks = append(blocks, b)
		defer func() { blocks = blocks[:len(blocks)-1] }()
		if !first && end(b) {
			n++
			visit(Path{append([]*ssa.BasicBlock(nil), blocks...), append([]EdgeCond(nil), conds...)}, true)
			return
		}
		if len(b.Succs) == 0 {
			n++
			visit(Path{append([]*ssa.BasicBlock(nil), blocks...), append([]EdgeCond(nil), conds...)}, false)
			return
		}
		onPath[b] = true
		defer func() { onPath[b] = false }()
		for i, s := range b.Succs {
			if onPath[s] && !end(s) {
				continue
			}
			if within != nil && !within[s] && !end(s) {
				continue
			}
			pushed := false
			if iff, ok := b.Instrs[len(b.Instrs)-1].(*ssa.If); ok && b.Succs[0] != b.Succs[1] {
				conds = append(conds, EdgeCond{iff, i == 0})
				pushed = true
			}
			rec(s, false)
			if pushed {
				conds = conds[:len(conds)-1]
			}
		}
	}
	rec(from, true)
	return complete
}

// NaturalLoop returns the natural loop of header h (blocks dominated by h
// that reach h), or nil if h is not a loop header.
func NaturalLoop(h *ssa.BasicBlock) map[*ssa.BasicBlock]bool {
	in := map[*ssa.BasicBlock]bool{}
	var work []*ssa.BasicBlock
	for _, pr := range h.Preds {
		if h.Dominates(pr) {
			if !in[pr] {
				in[pr] = true
				work = append(work, pr)
			}
		}
	}
	if len(work) == 0 {
		return nil
	}
	in[h] = true
	for len(work) > 0 {
		b := work[len(work)-1]
		work = work[:len(work)-1]
		if b == h {
			continue
		}
		for _, pr := range b.Preds {
			if !in[pr] && h.Dominates(pr) {
				in[pr] = true
				work = append(work, pr)
			}
		}
	}
	return in
}

// InnermostLoop returns the header and body of the innermost natural loop
// containing b (nil if none).
func InnermostLoop(b *ssa.BasicBlock) (*ssa.BasicBlock, map[*ssa.BasicBlock]bool) {
	var bestH *ssa.BasicBlock
	var best map[*ssa.BasicBlock]bool
	for h := b; h != nil; h = h.Idom() {
		l := NaturalLoop(h)
		if l != nil && l[b] {
			if best == nil || len(l) < len(best) {
				best, bestH = l, h
			}
		}
	}
	return bestH, best
}

// IsContextErrCall reports whether v is a call x.Err() on a context.Context.
func IsContextErrCall(v ssa.Value) (recv ssa.Value, ok bool) {
	c, isCall := v.(*ssa.Call)
	if !isCall {
		return nil, false
	}
	cc := c.Common()
	if !cc.IsInvoke() || cc.Method.Name() != "Err" {
		return nil, false
	}
	if !IsContextType(cc.Value.Type()) {
		return nil, false
	}
	return cc.Value, true
}

func IsContextType(t types.Type) bool {
	n, ok := t.(*types.Named)
	return ok && n.Obj().Pkg() != nil && n.Obj().Pkg().Path() == "context" && n.Obj().Name() == "Context"
}

// IsNamedType reports whether t (or *t) is the named type pkgpath.name.
func IsNamedType(t types.Type, pkgpath, name string) bool {
	if p, ok := t.(*types.Pointer); ok {
		t = p.Elem()
	}
	n, ok := t.(*types.Named)
	if !ok || n.Obj().Name() != name {
		return false
	}
	if n.Obj().Pkg() == nil {
		return pkgpath == ""
	}
	return n.Obj().Pkg().Path() == pkgpath
}
