// dblint decides repository-specific static rules for SAP/go-dblib.
//
//	dblint check -property C07 [-tier quick|thorough] [-repo /repo] [-verif /verif]
//	dblint list
package main

import (
	"flag"
	"fmt"
	"go/types"
	"os"
	"regexp"
	"runtime/debug"
	"sort"
	"strings"

	"dblint/internal/core"
	"dblint/internal/props"
)

func main() {
	if len(os.Args) < 2 {
		usage()
	}
	switch os.Args[1] {
	case "list":
		var ids []string
		for id := range props.Registry {
			ids = append(ids, id)
		}
		sort.Strings(ids)
		for _, id := range ids {
			fmt.Printf("%s  %s\n", id, props.Registry[id].Title)
		}
	case "dump":
		dumpFunc(os.Args[2:])
	case "funcs":
		// inventory of the top-level functions and methods of a tree (baseline_funcs.txt is generated with it)
		fs := flag.NewFlagSet("funcs", flag.ExitOnError)
		repo := fs.String("repo", "/repo", "repository to analyse")
		fs.Parse(os.Args[2:])
		os.Setenv("DBLINT_NOINLINE", "1")
		prog := core.Load(*repo, nil)
		var names []string
		for _, fn := range prog.ModuleFuncs() {
			if fn.Parent() == nil {
				names = append(names, core.FuncName(fn)+"\t"+core.SigString(fn))
			}
		}
		sort.Strings(names)
		for _, n := range names {
			fmt.Println(n)
		}
	case "fields":
		// inventory of the struct fields of a tree (baseline_fields.txt is generated with it)
		fs := flag.NewFlagSet("fields", flag.ExitOnError)
		repo := fs.String("repo", "/repo", "repository to analyse")
		fs.Parse(os.Args[2:])
		os.Setenv("DBLINT_NOINLINE", "1")
		prog := core.Load(*repo, nil)
		for _, pk := range prog.Pkgs {
			rel := strings.TrimPrefix(strings.TrimPrefix(pk.PkgPath, core.Module), "/")
			scope := pk.Types.Scope()
			for _, name := range scope.Names() {
				tn, ok := scope.Lookup(name).(*types.TypeName)
				if !ok {
					continue
				}
				st, ok := tn.Type().Underlying().(*types.Struct)
				if !ok {
					continue
				}
				for i := 0; i < st.NumFields(); i++ {
					fmt.Printf("%s.%s\t%d\t%s\t%s\n", rel, name, i, st.Field(i).Name(), types.TypeString(st.Field(i).Type(), nil))
				}
			}
		}
	case "doc":
		var ids []string
		for id := range props.Registry {
			ids = append(ids, id)
		}
		sort.Strings(ids)
		for _, id := range ids {
			sp := props.Registry[id]
			fmt.Printf("### %s %s — claimed, `other`\n\n", id, sp.Title)
			intro, items := splitRules(id, sp.Meta.Explanation)
			if intro == "" {
				intro = "Structural necessary conditions of the property, one item per rule."
			}
			fmt.Printf("**Decided.** %s\n\n", intro)
			for _, it := range items {
				fmt.Printf("- %s\n", it)
			}
			fmt.Println()
			fmt.Printf("**Not decided (✘).** %s\n\n", sp.Meta.NotDecided)
			if len(sp.Meta.Assumptions) > 0 {
				fmt.Printf("**Assumes.** %s\n\n", strings.Join(sp.Meta.Assumptions, "; "))
			}
		}
	case "check":
		fs := flag.NewFlagSet("check", flag.ExitOnError)
		prop := fs.String("property", "", "property id (C01..C20)")
		tier := fs.String("tier", "", "quick|thorough (default: $VERIF_TIER or quick)")
		repo := fs.String("repo", "/repo", "repository working tree")
		verif := fs.String("verif", "/verif", "verification directory (evidence, known findings)")
		noposex := fs.Bool("no-posex", false, "do not inject positive examples (debug)")
		fs.Parse(os.Args[2:])
		if *tier == "" {
			*tier = os.Getenv("VERIF_TIER")
		}
		if *tier != "thorough" {
			*tier = "quick"
		}
		os.Exit(check(*prop, *tier, *repo, *verif, *noposex))
	default:
		usage()
	}
}

func usage() {
	fmt.Fprintln(os.Stderr, "usage: dblint check -property Cnn [-tier quick|thorough] | dblint list")
	os.Exit(2)
}

func check(id, tier, repo, verif string, noposex bool) (code int) {
	spec, ok := props.Registry[id]
	if !ok {
		fmt.Fprintf(os.Stderr, "unknown property %q\n", id)
		return 2
	}
	defer func() {
		if e := recover(); e != nil {
			// An analysis error is never "property holds".
			fmt.Printf("ANALYSIS-ERROR property=%s: %v\n", id, e)
			if _, isAE := e.(core.AnalysisError); !isAE {
				debug.PrintStack()
			}
			os.MkdirAll(verif+"/evidence/violations", 0o755)
			path := fmt.Sprintf("%s/evidence/violations/%s-analysis-error.json", verif, id)
			os.WriteFile(path, []byte(fmt.Sprintf("{\"property\":%q,\"analysis_error\":%q}\n", id, fmt.Sprint(e))), 0o644)
			fmt.Printf("VIOLATION property=%s replay=%s\n", id, path)
			code = 1
		}
	}()
	overlay := map[string][]byte{}
	if !noposex {
		overlay = props.PositiveExamples(verif, spec)
	}
	prog, posexDropped := loadWithPosex(repo, overlay)
	run := core.NewRun(id, tier, prog)
	if posexDropped {
		run.NoPosex = true
		run.Note("the in-memory positive examples do not type-check against this tree (a declaration they refer to changed); the rules ran on the tree itself, without the armed-ness self-check")
		fmt.Println("note: positive examples dropped (they do not type-check against this tree); rules run without the armed-ness self-check")
	}
	if len(prog.InlinedHelpers) > 0 {
		run.Note("functions that do not exist in the reviewed tree were inlined into their callers in the analysed SSA form: %s", strings.Join(prog.InlinedHelpers, ", "))
		fmt.Printf("note: new helpers inlined at their call sites: %s\n", strings.Join(prog.InlinedHelpers, ", "))
	}
	if len(prog.Renames) > 0 {
		run.Note("functions/fields of the reviewed tree recognised under a new name (same receiver/struct, same signature/position and type): %s", strings.Join(prog.Renames, "; "))
		fmt.Printf("note: renamed since the reviewed tree: %s\n", strings.Join(prog.Renames, "; "))
	}
	if prog.InlineFailure != "" {
		run.Note("inlining of new helpers was abandoned (%s); the program was analysed as built", prog.InlineFailure)
	}
	run.Stats["module_packages"] = len(prog.Pkgs)
	run.Stats["module_functions"] = len(prog.ModuleFuncs())
	spec.Run(run)
	if tier == "thorough" {
		base := map[string]bool{}
		for _, o := range run.Obls {
			if !o.Armed && o.Status != core.Discharged {
				base[o.Rule+"|"+o.Key] = true
			}
		}
		vs := runVariants(id, repo, verif, base)
		armed, applied := 0, 0
		for _, v := range vs {
			if v.Applied {
				applied++
			}
			if v.Armed {
				armed++
			}
			fmt.Printf("variant %-12s applied=%-5v armed=%-5v %v %s\n", v.Name, v.Applied, v.Armed, v.Rules, v.Note)
		}
		run.Extras["variants"] = vs
		run.Stats["variants_total"] = len(vs)
		run.Stats["variants_applied"] = applied
		run.Stats["variants_armed"] = armed
		nr := runNeutral(id, repo, verif, base)
		fmt.Printf("neutral refactorings: %d kept, %d apply to this tree, %d leave the check unchanged, %d false alarms %v\n", nr.Total, nr.Applied, nr.Silent, len(nr.FalseAlarms), nr.FalseAlarms)
		run.Extras["neutral_refactorings"] = nr
		run.Stats["neutral_applied"] = nr.Applied
		run.Stats["neutral_silent"] = nr.Silent
		if id == "C10" {
			run.Extras["compiler_bce_cross_reference"] = bceCrossRef(run, repo, []string{"./tds/", "./asetypes/", "./asetime/"})
		}
		if id == "C17" {
			run.Extras["compiler_bce_cross_reference"] = bceCrossRef(run, repo, []string{"./dsn/"})
		}
	}
	known := core.LoadKnown(verif + "/known_findings.json")
	meta := spec.Meta
	meta.CheckerCmd = fmt.Sprintf("%s/bin/dblint check -property %s -tier %s", verif, id, tier)
	meta.Trusted = append([]string{"go/types, go/ssa, callgraph/vta+cha of golang.org/x/tools v0.29.0", "Go 1.23.5 type checker"}, meta.Trusted...)
	return run.Finish(verif, known, meta)
}

// loadWithPosex loads the tree with the positive examples injected; if that
// fails although the tree alone loads, the examples are dropped (a changed
// declaration must not turn the self-check into an alarm about the tree).
func loadWithPosex(repo string, overlay map[string][]byte) (p *core.Prog, dropped bool) {
	if len(overlay) == 0 {
		return core.Load(repo, overlay), false
	}
	func() {
		defer func() {
			if e := recover(); e != nil {
				if _, isAE := e.(core.AnalysisError); !isAE {
					panic(e)
				}
				p = nil
			}
		}()
		p = core.Load(repo, overlay)
	}()
	if p != nil {
		return p, false
	}
	return core.Load(repo, nil), true
}

// splitRules cuts the explanation of a property into an introduction and one item per rule (Rnn.k ...), sorted by
// rule number; a clause added later for an existing rule ("R03.3 also ...") follows that rule's first item.
func splitRules(id, text string) (string, []string) {
	re := regexp.MustCompile(`(^|[.)] )(R` + id[1:] + `\.\d+)`)
	locs := re.FindAllStringSubmatchIndex(text, -1)
	if len(locs) == 0 {
		return text, nil
	}
	type item struct {
		k    int
		ord  int
		text string
	}
	var items []item
	var intro []string
	cut := func(from, to int) string { return strings.TrimSpace(text[from:to]) }
	if s := cut(0, locs[0][4]); s != "" {
		intro = append(intro, s)
	}
	for i, l := range locs {
		end := len(text)
		if i+1 < len(locs) {
			end = locs[i+1][4]
		}
		seg := cut(l[4], end)
		var k int
		fmt.Sscanf(text[l[4]:l[5]][len("R"+id[1:]+"."):], "%d", &k)
		// a sentence without a rule number that follows a rule stays with it; an unnumbered general sentence at the
		// end of an inserted block ("Decides ...", "Structural ...") goes to the introduction
		for _, marker := range []string{" Structural necessary conditions", " Structural conditions", " Decides ", " Two rejection clauses", " Call-site and dominance rules", " Lockset and routing rules", " Clauses of the FIFO"} {
			if j := strings.Index(seg, "."+marker); j >= 0 {
				rest := strings.TrimSpace(seg[j+1:])
				// the general sentence runs to its own full stop
				if e := strings.Index(rest, ". "); e >= 0 {
					intro = append(intro, rest[:e+1])
					seg = strings.TrimSpace(seg[:j+1] + " " + rest[e+1:])
				} else {
					intro = append(intro, rest)
					seg = seg[:j+1]
				}
			}
		}
		items = append(items, item{k, i, seg})
	}
	sort.SliceStable(items, func(a, b int) bool {
		if items[a].k != items[b].k {
			return items[a].k < items[b].k
		}
		la, lb := later.MatchString(items[a].text), later.MatchString(items[b].text)
		if la != lb {
			return lb // the original statement of a rule first, clauses added later behind it
		}
		return items[a].ord < items[b].ord
	})
	var out []string
	for _, it := range items {
		out = append(out, it.text)
	}
	return strings.Join(intro, " "), out
}

var later = regexp.MustCompile(`^R\d+\.\d+ (also|\(second clause\)|\(clause\)|\(String\))`)

func init() {
	_ = later
}
