package props

import (
	"fmt"
	"go/token"
	"go/types"

	"dblint/internal/core"

	"golang.org/x/tools/go/ssa"
)

func init() {
	register(&Spec{ID: "C11", Title: "Server messages and environment changes are surfaced exactly once", Run: runC11,
		Meta: core.Meta{
			Explanation: "R11.15: in every function that calls callEnvChangeHooks or callEEDHooks, no sync lock taken earlier in that function reaches the call without a matching non-deferred unlock on some path (may-hold, intra-procedural; the locks the callers hold by design are not its subject). R11.14 = R01.2. R11.13: EEDError.Add, callEnvChangeHooks and callEEDHooks each have a single return, at their end. R11.12 = R02.11 (Channel.queueRx is used on the reader goroutine's path only). R11.11: the width language of EnvChangePackage.WriteTo minus the token (0..n members) is included in that of ReadFrom. R11.10: no return of NextPackageUntil hands back the error value of the processing function itself (also when the callback answers (true, err)); it is returned wrapped, with the collected messages. Call-site and dominance rules over the hook dispatch. R11.1: handleSpecialPackage is called only from tryParsePackage, the call is dominated by pkg.ReadFrom's error being nil (a retried, incomplete parse cannot reach a hook) and it dominates the delivery send. R11.2: the delivery `packageCh <- pkg` is dominated by pass == true. R11.3: inside handleSpecialPackage — on the *EnvChangePackage edge every return yields false; the member loop calls callEnvChangeHooks exactly once per iteration with (member.Type, member.OldValue, member.NewValue) of the iteration's member; Conn.packetSize is stored from Atoi(member.NewValue) only on the Type == TDS_ENV_PACKSIZE edge; on the *EEDPackage edge the informational test is the non-vacuous mask Status&TDS_EED_INFO == TDS_EED_INFO, its true edge returns false without calling hooks, the other edge calls callEEDHooks exactly once and returns true. R11.4: callEEDHooks/callEnvChangeHooks are a single range loop over the registered slice calling each element once while holding the hooks mutex; Register*Hooks append to the same slice under the same mutex and reject nil entries before appending. R11.5: NextPackageUntil collects every *EEDPackage (Add, then continue before the callback); every return on a callback-error path (other than the identity io.EOF shortcut) returns fmt.Errorf(...%w, err) or the *EEDError whose WrappedError was set to it; EEDError.Is delegates to errors.Is(WrappedError, target); EED packages collected by the drain are appended after the earlier ones. R11.7 = R02.7 (a polling NextPackageUntil that has consumed an EED must wait for the rest; giving up drops the collected messages). R11.4 also requires that the hook lists are only ever appended to (never assigned a caller's slice). R11.8 = R07.1. R11.9: EEDError.EEDPackages is written only by append (Add, and the merge in NextPackageUntil); no element store and no sort.* / slices.Sort* call takes it — Error() has a value receiver but shares the backing array with the error the caller holds. R11.6 = C06's R06.5 for the member parser (each ENVCHANGE member is parsed into a fresh struct). R11.1 also requires one package per tryParsePackage invocation (a handled special package must be discarded before the next package is attempted, otherwise a fragmented successor makes it be parsed and reported again). R11.3 also requires that every iteration of the member loop evaluates the PACKSIZE test.",
			NotDecided:  "Exactly-once across packetisations rests on C02/C07 (retry without side effects); panicking hooks and hooks registered concurrently with dispatch are not decided.",
			Assumptions: []string{"hooks do not re-enter the channel"},
		}})
}

func runC11(r *core.Run) {
	p := r.Prog
	r.Rule("R11.1", "special packages are intercepted once, only after a complete parse, before delivery", 2, true)
	r.Rule("R11.2", "delivery only when the special-package handler passes the package", 1, false)
	r.Rule("R11.3", "handleSpecialPackage: env changes applied/reported once per member and never delivered; info EED dropped, others reported once and delivered", 6, false)
	r.Rule("R11.4", "hook lists: one loop, each hook once, one mutex, nil rejected", 6, false)
	r.Rule("R11.5", "NextPackageUntil aggregates EED packages into the error it returns", 4, false)
	r.Rule("R11.6", "ENVCHANGE members are parsed into fresh structs", 1, false)
	r.Rule("R11.7", "NextPackageUntil waits for every package after the first, so no collected message is dropped by a poll (R02.7)", 1, false)
	defer c02WaitAfterFirst(r, "R11.7")
	r.Rule("R11.8", "an environment change or message cut by a packet boundary is retried, not half-reported: every short read is ErrNotEnoughBytes (E-ERR, all call sites)", 213, true)
	defer func() { errSites(r, newErrFlow(r.Prog), "R11.8") }()
	r.Rule("R11.9", "the messages an EEDError carries are only ever appended to (formatting or inspecting the error does not reorder them)", 1, false)
	r.Rule("R11.10", "the callback's error reaches the caller only inside the error that carries the messages", 1, false)
	r.Rule("R11.11", "an ENVCHANGE with any number of members, none included, is parsed (E-SHAPE, R06.1)", 1, false)
	defer c11EnvChangeAnyCount(r)
	defer c11CallbackErrorWrapped(r)
	defer c11EEDReadOnly(r)
	r.Rule("R11.12", "a send or Reset on the channel does not touch the receive queue (R02.11): a half-received ENVCHANGE is not thrown away", 1, false)
	defer rxOwnership(r, "R11.12")
	r.Rule("R11.15", "no lock taken on the way to the hooks is still held when they run", 1, false)
	defer hooksRunUnlocked(r, "R11.15")
	r.Rule("R11.13", "every message and every environment change reaches every hook and the collected error: no early return in front of the loop / the append", 3, false)
	defer func() {
		r.Rule("R11.14", "a packet size change is applied to the framing of the next message: EOM from the LIVE body size (R01.2)", 3, false)
		defer c01SendPacket(r, "R11.14")
		p := r.Prog
		noEarlyReturn(r, "R11.13", p.Func("tds", "EEDError", "Add"), "EEDError.Add appends unconditionally", "a message can be dropped before it is appended (de-duplication on number/procedure/line drops different messages): the returned error does not carry all messages")
		noEarlyReturn(r, "R11.13", p.Func("tds", "Channel", "callEnvChangeHooks"), "callEnvChangeHooks calls the hooks for every change", "an environment change can return before the hooks are called (e.g. for types outside the documented ones): it is swallowed by the library and reported to nobody")
		noEarlyReturn(r, "R11.13", p.Func("tds", "Channel", "callEEDHooks"), "callEEDHooks calls the hooks for every message", "a message can return before the hooks are called")
	}()

	hsp := p.Func("tds", "Channel", "handleSpecialPackage")
	tpp := p.Func("tds", "Channel", "tryParsePackage")
	fPackageCh := p.Field("tds", "Channel", "packageCh")
	pkgIface := p.Named("tds", "Package")

	// R11.1 call sites
	for _, fn := range p.ModuleFuncs() {
		for _, c := range callsTo(fn, hsp) {
			key := core.FuncName(fn) + " -> handleSpecialPackage"
			if fn != tpp {
				r.Bad("R11.1", key, c.Pos(), "hooks are dispatched from a second place: a package can be reported twice")
				continue
			}
			// dominated by ReadFrom error nil
			var rf *ssa.Call
			for _, c2 := range core.Calls(fn) {
				cc := c2.Common()
				if cc.IsInvoke() && cc.Method.Name() == "ReadFrom" {
					if n, ok := cc.Value.Type().(*types.Named); ok && n.Obj() == pkgIface.Obj() {
						rf, _ = c2.(*ssa.Call)
					}
				}
			}
			if rf == nil {
				r.Unknown("R11.1", key, c.Pos(), "pkg.ReadFrom not found")
				continue
			}
			gs := core.GuardsAt(c.(ssa.Instruction))
			r.Check(errNilGuard(gs, rf) && len(c.Common().Args) == 2 && c.Common().Args[1] == rf.Call.Value,
				"R11.1", key, c.Pos(), "called with the package just parsed, only after ReadFrom returned nil", "hooks can run for a package whose parse did not complete (it is retried later and reported again), or for another package")
			// dominates delivery
			n := 0
			for _, b := range fn.Blocks {
				for _, in := range b.Instrs {
					s, ok := in.(*ssa.Send)
					if !ok {
						continue
					}
					if f, _ := core.FieldLoad(s.Chan); f != fPackageCh || s.X != rf.Call.Value {
						continue
					}
					n++
					r.Check(core.Dominates(c.(ssa.Instruction), s), "R11.1", "tryParsePackage: handler before delivery", s.Pos(), "handleSpecialPackage dominates the delivery", "a package is delivered without passing the special-package handler first: hooks run after (or never before) later packages reach the consumer")
					// R11.2 pass == true
					pass := false
					for _, g := range core.GuardsAt(s) {
						if ex, ok := g.Cond.(*ssa.Extract); ok && ex.Tuple == c.Value() && ex.Index == 0 && g.Pol {
							pass = true
						}
					}
					r.Check(pass, "R11.2", "tryParsePackage: delivery under pass == true", s.Pos(), "dominated by the handler's pass result being true", "a package the handler wants to keep inside the library (environment change, informational message) is delivered to the consumer")
				}
			}
			if n == 0 {
				r.Unknown("R11.1", "tryParsePackage: handler before delivery", c.Pos(), "no delivery of the parsed package found")
			}
		}
	}

	onePerAttempt(r, "R11.1")
	c11Handler(r, hsp)
	packSizeEveryMember(r, "R11.3")
	c11Hooks(r)
	c11Until(r, "R11.5")

	// R11.6
	ef := newErrFlow(p)
	ecr := p.Func("tds", "EnvChangePackage", "ReadFrom")
	found := false
	for _, c := range core.Calls(ecr) {
		f := c.Common().StaticCallee()
		if f == nil || !ef.W[f] || f.Signature.Recv() == nil {
			continue
		}
		_, loop := core.InnermostLoop(c.Block())
		al, ok := c.Common().Args[0].(*ssa.Alloc)
		if loop == nil || !ok {
			continue
		}
		found = true
		fresh := loop[al.Block()]
		for _, ref := range *al.Referrers() {
			if st, ok := ref.(*ssa.Store); ok && st.Addr == ssa.Value(al) && loop[st.Block()] && core.Dominates(st, c.(ssa.Instruction)) {
				fresh = true
			}
		}
		r.Check(fresh, "R11.6", "EnvChangePackage.ReadFrom: member struct fresh per iteration", c.Pos(), "allocated inside the loop", "the member struct is reused across members: an empty old/new value reports the previous member's value to the hooks")
	}
	if !found {
		r.Unknown("R11.6", "EnvChangePackage.ReadFrom: member struct fresh per iteration", ecr.Pos(), "member parse call in a loop not found")
	}
}

func c11Handler(r *core.Run, hsp *ssa.Function) {
	p := r.Prog
	callEnv := p.Func("tds", "Channel", "callEnvChangeHooks")
	callEED := p.Func("tds", "Channel", "callEEDHooks")
	fPacketSize := p.Field("tds", "Conn", "packetSize")
	fType := p.Field("tds", "EnvChangePackageField", "Type")
	fOld := p.Field("tds", "EnvChangePackageField", "OldValue")
	fNew := p.Field("tds", "EnvChangePackageField", "NewValue")
	fEEDStatus := p.Field("tds", "EEDPackage", "Status")
	cPack := constOf(p, "tds", "TDS_ENV_PACKSIZE")
	cInfo := constOf(p, "tds", "TDS_EED_INFO")

	isFalse := func(v ssa.Value) bool {
		c, ok := v.(*ssa.Const)
		return ok && c.Value != nil && c.Value.ExactString() == "false"
	}
	isTrue := func(v ssa.Value) bool {
		c, ok := v.(*ssa.Const)
		return ok && c.Value != nil && c.Value.ExactString() == "true"
	}

	// ENVCHANGE edge
	envOK, envWhy := true, ""
	nEnvRet := 0
	for _, ret := range core.Returns(hsp) {
		gs := core.GuardsAt(ret)
		if len(assertGuards(gs, ptrTo(p, "EnvChangePackage"))) == 0 {
			continue
		}
		nEnvRet++
		if !isFalse(core.RetVals(ret)[0]) {
			envOK, envWhy = false, "an environment change package can be passed on to the consumer"
		}
	}
	if nEnvRet == 0 {
		envOK, envWhy = false, "no return under the *EnvChangePackage assertion: environment changes are not intercepted"
	}
	r.Check(envOK, "R11.3", "handleSpecialPackage: ENVCHANGE never delivered", hsp.Pos(), "every return on the *EnvChangePackage edge yields pass == false", envWhy)

	// hooks once per member with the member's fields
	calls := callsTo(hsp, callEnv)
	if len(calls) != 1 {
		r.Bad("R11.3", "handleSpecialPackage: callEnvChangeHooks once per member", hsp.Pos(), "expected exactly one call site of callEnvChangeHooks inside the member loop")
	} else {
		c := calls[0]
		h, loop := core.InnermostLoop(c.Block())
		ok := loop != nil
		why := "callEnvChangeHooks is not inside the member loop"
		if ok {
			// executed exactly once per iteration: its block post-dominates the loop body entry, approximated by:
			// every path from the header back to the header (one iteration) passes the call unless it leaves through a return
			core.EnumPaths(h, func(b *ssa.BasicBlock) bool { return b == h }, loop, 2000, func(pa core.Path, ended bool) {
				if !ended {
					return
				}
				n := 0
				for _, b := range pa.Blocks[:len(pa.Blocks)-1] {
					for _, in := range b.Instrs {
						if cc, isC := in.(*ssa.Call); isC && core.StaticCallee(cc) == callEnv {
							n++
						}
					}
				}
				if n != 1 {
					ok, why = false, "an iteration of the member loop can complete with the hooks called "+map[bool]string{true: "more than once", false: "zero times"}[n > 1]
				}
			})
			// arguments are the fields of the iteration's member
			args := c.Common().Args
			if len(args) == 4 {
				want := []*types.Var{fType, fOld, fNew}
				var base ssa.Value
				for i, w := range want {
					f, b := core.FieldLoad(core.Strip(args[i+1]))
					if f != w {
						ok, why = false, "callEnvChangeHooks is not called with (member.Type, member.OldValue, member.NewValue)"
					}
					if i == 0 {
						base = b
					} else if b != base {
						ok, why = false, "the hook arguments come from different members"
					}
				}
			} else {
				ok, why = false, "unexpected hook signature"
			}
		}
		r.Check(ok, "R11.3", "handleSpecialPackage: callEnvChangeHooks once per member", c.Pos(), "one call per iteration with the iteration member's type, old and new value", why)
	}
	// packet size store
	nStore := 0
	for _, b := range hsp.Blocks {
		for _, in := range b.Instrs {
			st, ok := in.(*ssa.Store)
			if !ok {
				continue
			}
			fa, ok := st.Addr.(*ssa.FieldAddr)
			if !ok || core.FieldOfAddr(fa) != fPacketSize {
				continue
			}
			nStore++
			under := false
			for _, cg := range fieldCmpGuards(core.GuardsAt(st), nil, fType) {
				if cg.Equal() && constEq(cg.Cst, cPack) {
					under = true
				}
			}
			fromAtoi := false
			if ex, ok := st.Val.(*ssa.Extract); ok {
				if call, ok := ex.Tuple.(*ssa.Call); ok && core.IsPkgFunc(call, "strconv", "Atoi") {
					if f, _ := core.FieldLoad(call.Call.Args[0]); f == fNew {
						fromAtoi = errNilGuard(core.GuardsAt(st), call)
					}
				}
			}
			r.Check(under && fromAtoi, "R11.3", "handleSpecialPackage: packetSize := Atoi(member.NewValue) on PACKSIZE", st.Pos(), "stored only for TDS_ENV_PACKSIZE members, from the successfully parsed new value", "Conn.packetSize is changed for another member type, from another value, or from an unparsed value")
		}
	}
	if nStore == 0 {
		r.Bad("R11.3", "handleSpecialPackage: packetSize := Atoi(member.NewValue) on PACKSIZE", hsp.Pos(), "the announced packet size is never applied")
	}

	// EED edge
	eedCalls := callsTo(hsp, callEED)
	okEED, whyEED := len(eedCalls) == 1, "expected exactly one call site of callEEDHooks"
	if okEED {
		c := eedCalls[0]
		gs := core.GuardsAt(c.(ssa.Instruction))
		if len(assertGuards(gs, ptrTo(p, "EEDPackage"))) == 0 {
			okEED, whyEED = false, "callEEDHooks is not under the *EEDPackage assertion"
		}
		// not on the info edge
		nonInfo := false
		for _, g := range gs {
			bo, ok := g.Cond.(*ssa.BinOp)
			if !ok || (bo.Op != token.EQL && bo.Op != token.NEQ) {
				continue
			}
			for _, sw := range [][2]ssa.Value{{bo.X, bo.Y}, {bo.Y, bo.X}} {
				and, ok := sw[0].(*ssa.BinOp)
				if !ok || and.Op != token.AND {
					continue
				}
				f, _ := core.FieldLoad(core.Strip(and.X))
				m, isM := and.Y.(*ssa.Const)
				cst, isC := sw[1].(*ssa.Const)
				if f != fEEDStatus || !isM || !isC || m.Value == nil || cst.Value == nil {
					continue
				}
				if !constEq(m.Value, cInfo) || !constEq(cst.Value, cInfo) {
					continue
				}
				if mv, _ := core.ConstInt64(and.Y); mv == 0 {
					continue // vacuous
				}
				if (bo.Op == token.EQL && !g.Pol) || (bo.Op == token.NEQ && g.Pol) {
					nonInfo = true
				}
			}
		}
		if !nonInfo {
			okEED, whyEED = false, "callEEDHooks is not restricted to the non-informational edge of Status&TDS_EED_INFO == TDS_EED_INFO"
		}
		// after the call: return true
		for b := range dominatedRegion(c.Block()) {
			if ret, ok := b.Instrs[len(b.Instrs)-1].(*ssa.Return); ok {
				if !isTrue(core.RetVals(ret)[0]) {
					okEED, whyEED = false, "a reported message is not delivered to the consumer"
				}
			}
		}
	}
	r.Check(okEED, "R11.3", "handleSpecialPackage: non-info EED reported once and delivered", hsp.Pos(), "one callEEDHooks on the non-informational edge, then pass == true", whyEED)

	// info edge returns false
	infoOK, infoN := true, 0
	for _, ret := range core.Returns(hsp) {
		gs := core.GuardsAt(ret)
		if len(assertGuards(gs, ptrTo(p, "EEDPackage"))) == 0 {
			continue
		}
		info := false
		for _, g := range gs {
			bo, ok := g.Cond.(*ssa.BinOp)
			if !ok {
				continue
			}
			if and, ok := bo.X.(*ssa.BinOp); ok && and.Op == token.AND {
				if f, _ := core.FieldLoad(core.Strip(and.X)); f == fEEDStatus {
					if (bo.Op == token.EQL && g.Pol) || (bo.Op == token.NEQ && !g.Pol) {
						info = true
					}
				}
			}
		}
		if info {
			infoN++
			if !isFalse(core.RetVals(ret)[0]) {
				infoOK = false
			}
		}
	}
	r.Check(infoOK && infoN > 0, "R11.3", "handleSpecialPackage: informational EED never delivered", hsp.Pos(), "the informational edge returns pass == false", "an informational message is delivered as a package (or the informational edge is gone)")
}

func c11Hooks(r *core.Run) {
	p := r.Prog
	type hk struct {
		call, reg string
		field     *types.Var
	}
	for _, h := range []hk{
		{"callEEDHooks", "RegisterEEDHooks", p.Field("tds", "Channel", "eedHooks")},
		{"callEnvChangeHooks", "RegisterEnvChangeHooks", p.Field("tds", "Channel", "envChangeHooks")},
	} {
		callFn := p.Func("tds", "Channel", h.call)
		regFn := p.Func("tds", "Channel", h.reg)
		lockOf := func(fn *ssa.Function) *types.Var {
			for _, c := range core.Calls(fn) {
				if _, isDefer := c.(*ssa.Defer); isDefer {
					continue
				}
				if core.IsMethod(c, "sync", "Mutex", "Lock") && len(c.Common().Args) == 1 {
					if f, _ := core.FieldLoad(c.Common().Args[0]); f != nil {
						return f
					}
				}
			}
			return nil
		}
		hasDeferUnlock := func(fn *ssa.Function, lock *types.Var) bool {
			for _, c := range core.Calls(fn) {
				if d, ok := c.(*ssa.Defer); ok && core.IsMethod(d, "sync", "Mutex", "Unlock") {
					if f, _ := core.FieldLoad(d.Call.Args[0]); f == lock {
						return true
					}
				}
			}
			return false
		}
		l1, l2 := lockOf(callFn), lockOf(regFn)
		r.Check(l1 != nil && l1 == l2 && hasDeferUnlock(callFn, l1) && hasDeferUnlock(regFn, l2), "R11.4", h.call+"/"+h.reg+": same mutex held for the whole body", callFn.Pos(), "Lock at entry, deferred Unlock, same mutex field in both", "registration and dispatch do not hold one and the same mutex for their whole body")

		// dispatch: exactly one dynamic call, inside a range loop over the field, callee is the loop element
		var dyn []*ssa.Call
		for _, c := range core.Calls(callFn) {
			if cc, ok := c.(*ssa.Call); ok && cc.Call.StaticCallee() == nil && !cc.Call.IsInvoke() {
				if _, isB := cc.Call.Value.(*ssa.Builtin); !isB {
					dyn = append(dyn, cc)
				}
			}
		}
		ok, why := len(dyn) == 1, "expected exactly one call of a hook"
		if ok {
			c := dyn[0]
			_, loop := core.InnermostLoop(c.Block())
			if loop == nil {
				ok, why = false, "the hook call is not in a loop over the registered hooks"
			} else {
				// callee = *IndexAddr(load field, i) or Index
				v := c.Call.Value
				var sl ssa.Value
				if u, isU := v.(*ssa.UnOp); isU {
					if ia, isIA := u.X.(*ssa.IndexAddr); isIA {
						sl = ia.X
					}
				}
				if f, _ := core.FieldLoad(sl); f != h.field {
					ok, why = false, "the called function is not an element of "+h.field.Name()
				}
			}
		}
		r.Check(ok, "R11.4", h.call+": each registered hook called once", callFn.Pos(), "single range loop over the slice, one call of the element", why)

		// register: nil check dominates append; append to the same field
		okR, whyR := false, "no append to "+h.field.Name()+" found"
		badStore := ""
		for _, b := range regFn.Blocks {
			for _, in := range b.Instrs {
				st, isS := in.(*ssa.Store)
				if !isS {
					continue
				}
				fa, isFA := st.Addr.(*ssa.FieldAddr)
				if !isFA || core.FieldOfAddr(fa) != h.field {
					continue
				}
				call, isC := st.Val.(*ssa.Call)
				if !isC {
					badStore = "the hook list is assigned " + core.Expr(st.Val) + " instead of being appended to: the channel then shares the backing array of a slice the caller keeps, and a later append by the caller overwrites a registered hook"
					continue
				}
				if bi, isB := call.Call.Value.(*ssa.Builtin); !isB || bi.Name() != "append" {
					badStore = "the hook list is assigned the result of " + calleeKey(call) + ", not of append(list, hooks...)"
					continue
				}
				if f, _ := core.FieldLoad(call.Call.Args[0]); f != h.field {
					okR, whyR = false, "the hooks are appended to a different slice than the one stored"
					continue
				}
				okR = true
			}
		}
		// nil rejection: an If comparing an element of the parameter with nil whose true edge returns an error, in a loop that precedes the append
		nilRej := false
		for _, b := range regFn.Blocks {
			iff, isIf := b.Instrs[len(b.Instrs)-1].(*ssa.If)
			if !isIf {
				continue
			}
			bo, isB := iff.Cond.(*ssa.BinOp)
			if !isB || bo.Op != token.EQL || !core.IsNil(bo.Y) {
				continue
			}
			if _, isSig := bo.X.Type().Underlying().(*types.Signature); !isSig {
				continue
			}
			t := b.Succs[0]
			if ret, isRet := t.Instrs[len(t.Instrs)-1].(*ssa.Return); isRet && !core.IsNil(core.RetVals(ret)[0]) {
				nilRej = true
			}
		}
		if !nilRej {
			// the validation may live in a helper that receives the hooks: the helper compares an element with nil,
			// and the register function turns the helper's answer into an error return
			for _, c := range core.Calls(regFn) {
				h := core.StaticCallee(c)
				hc, isCall := c.(*ssa.Call)
				if h == nil || !isCall || !core.InModule(h) || len(h.Blocks) == 0 {
					continue
				}
				passes := false
				for _, a := range hc.Call.Args {
					if len(regFn.Params) > 1 && a == ssa.Value(regFn.Params[len(regFn.Params)-1]) {
						passes = true
					}
				}
				if !passes {
					continue
				}
				nilTest := false
				for _, b := range h.Blocks {
					if iff, isIf := b.Instrs[len(b.Instrs)-1].(*ssa.If); isIf {
						if bo, isB := iff.Cond.(*ssa.BinOp); isB && (bo.Op == token.EQL || bo.Op == token.NEQ) && core.IsNil(bo.Y) {
							if _, isSig := bo.X.Type().Underlying().(*types.Signature); isSig {
								nilTest = true
							}
						}
					}
				}
				if !nilTest {
					continue
				}
				// an If in regFn on a value computed from the helper's result, one edge of which returns an error
				for _, b := range regFn.Blocks {
					iff, isIf := b.Instrs[len(b.Instrs)-1].(*ssa.If)
					if !isIf {
						continue
					}
					dep := false
					switch x := iff.Cond.(type) {
					case *ssa.BinOp:
						dep = core.Strip(x.X) == ssa.Value(hc) || core.Strip(x.Y) == ssa.Value(hc)
						if ex, isEx := core.Strip(x.X).(*ssa.Extract); isEx && ex.Tuple == ssa.Value(hc) {
							dep = true
						}
					case *ssa.Call:
						dep = x == hc
					case *ssa.Extract:
						dep = x.Tuple == ssa.Value(hc)
					}
					if !dep {
						continue
					}
					for _, sb := range b.Succs {
						if ret, isRet := sb.Instrs[len(sb.Instrs)-1].(*ssa.Return); isRet && !core.IsNil(core.RetVals(ret)[0]) {
							nilRej = true
						}
					}
				}
			}
		}
		// the append happens after the validation loop, not inside it: a rejected call registers nothing
		inLoop := false
		for _, b := range regFn.Blocks {
			for _, in := range b.Instrs {
				if st, isS := in.(*ssa.Store); isS {
					if fa, isFA := st.Addr.(*ssa.FieldAddr); isFA && core.FieldOfAddr(fa) == h.field {
						if _, l := core.InnermostLoop(b); l != nil {
							inLoop = true
						}
					}
				}
			}
		}
		if badStore != "" {
			okR, whyR = false, badStore
		}
		if inLoop {
			okR, whyR = false, "hooks are appended inside the validation loop: a call that is rejected because of a nil hook has already registered the hooks before it, and repeating the call registers them twice"
		}
		r.Check(okR && nilRej, "R11.4", h.reg+": appends under nil rejection", regFn.Pos(), "nil hooks rejected with an error, then appended to the dispatch slice", map[bool]string{true: "nil hooks are not rejected: dispatch would panic in the reader goroutine", false: whyR}[okR])
	}
}

func c11Until(r *core.Run, rule string) {
	p := r.Prog
	fn := p.Func("tds", "Channel", "NextPackageUntil")
	add := p.Func("tds", "EEDError", "Add")
	fWrapped := p.Field("tds", "EEDError", "WrappedError")
	fPkgs := p.Field("tds", "EEDError", "EEDPackages")
	cb := fn.Params[3]
	var cbCall *ssa.Call
	for _, c := range core.Calls(fn) {
		if cc, ok := c.(*ssa.Call); ok && cc.Call.Value == ssa.Value(cb) {
			cbCall = cc
		}
	}
	// EED collected and skipped
	okAdd, whyAdd := false, "no eedError.Add call under the *EEDPackage assertion"
	for _, c := range callsTo(fn, add) {
		gs := core.GuardsAt(c.(ssa.Instruction))
		tas := assertGuards(gs, ptrTo(p, "EEDPackage"))
		if len(tas) == 0 {
			continue
		}
		if c.Common().Args[1] != assertedValue(tas[0]) {
			whyAdd = "Add is not called with the asserted *EEDPackage"
			continue
		}
		okAdd = true
		// the callback is not reachable in the same iteration: the Add block's successors lead back to the loop header without passing cbCall
		h, loop := core.InnermostLoop(c.Block())
		if loop == nil || cbCall == nil {
			okAdd, whyAdd = false, "Add is not inside the receive loop"
			break
		}
		core.EnumPaths(c.Block(), func(b *ssa.BasicBlock) bool { return b == h }, loop, 1000, func(pa core.Path, ended bool) {
			for _, b := range pa.Blocks {
				if b == cbCall.Block() {
					okAdd, whyAdd = false, "an EED package is both collected and handed to the callback"
				}
			}
		})
	}
	r.Check(okAdd, rule, "NextPackageUntil: EED packages collected, not passed to the callback", fn.Pos(), "Add(eed) then continue", whyAdd)

	// returns on the callback-error path
	if cbCall == nil {
		r.Unknown(rule, "NextPackageUntil: callback error carries the messages", fn.Pos(), "callback call not found")
		return
	}
	cbErr, _ := errResult(cbCall)
	var failIf *ssa.If
	for _, ref := range *cbErr.Referrers() {
		if bo, ok := ref.(*ssa.BinOp); ok {
			if _, _, isT := core.ErrNilTest(bo); isT {
				for _, r2 := range *bo.Referrers() {
					if i, ok := r2.(*ssa.If); ok {
						failIf = i
					}
				}
			}
		}
	}
	if failIf == nil {
		r.Bad(rule, "NextPackageUntil: callback error carries the messages", cbCall.Pos(), "callback error not tested")
		return
	}
	_, nn, _ := core.ErrNilTest(failIf.Cond)
	fail := failIf.Block().Succs[1]
	if nn {
		fail = failIf.Block().Succs[0]
	}
	isIdentityEOF := func(cond ssa.Value) bool {
		bo, ok := cond.(*ssa.BinOp)
		if !ok || bo.Op != token.EQL {
			return false
		}
		for _, sw := range [][2]ssa.Value{{bo.X, bo.Y}, {bo.Y, bo.X}} {
			if sw[0] == cbErr {
				if u, ok := sw[1].(*ssa.UnOp); ok {
					if g, ok := u.X.(*ssa.Global); ok && g.Pkg.Pkg.Path() == "io" && g.Name() == "EOF" {
						return true
					}
				}
			}
		}
		return false
	}
	wrapsCb := func(v ssa.Value) bool {
		call, ok := v.(*ssa.Call)
		if !ok {
			return false
		}
		ws, isErrorf := errorfWraps(call)
		if !isErrorf {
			return false
		}
		for _, w := range ws {
			if w == cbErr {
				return true
			}
		}
		return false
	}
	bad := ""
	core.EnumPaths(fail, func(b *ssa.BasicBlock) bool { return false }, nil, 5000, func(pa core.Path, ended bool) {
		last := pa.Blocks[len(pa.Blocks)-1]
		ret, ok := last.Instrs[len(last.Instrs)-1].(*ssa.Return)
		if !ok || pa.Has(isIdentityEOF, true) {
			return
		}
		rv := core.RetVals(ret)
		ev := rv[len(rv)-1]
		if wrapsCb(ev) {
			return
		}
		// *EEDError whose WrappedError was stored with the wrapping error on this path
		if mi, ok := ev.(*ssa.MakeInterface); ok {
			if core.IsNamedType(mi.X.Type(), core.Module+"/tds", "EEDError") {
				stored := false
				for _, b := range pa.Blocks {
					for _, in := range b.Instrs {
						if st, ok := in.(*ssa.Store); ok {
							if fa, ok := st.Addr.(*ssa.FieldAddr); ok && core.FieldOfAddr(fa) == fWrapped && fa.X == mi.X && wrapsCb(st.Val) {
								stored = true
							}
						}
					}
				}
				if stored {
					return
				}
			}
		}
		bad = "on a callback-error path NextPackageUntil returns " + core.Expr(ev) + ", which neither wraps the callback's error with %w nor is the EEDError carrying it: the caller cannot match its own error and the collected messages are lost"
	})
	r.Check(bad == "", rule, "NextPackageUntil: callback error carries the messages", failIf.Pos(), "every such return is fmt.Errorf(%w, err) or the EEDError whose WrappedError is that", bad)

	// drained EED packages appended after the earlier ones
	okApp := false
	for _, b := range fn.Blocks {
		for _, in := range b.Instrs {
			st, ok := in.(*ssa.Store)
			if !ok {
				continue
			}
			fa, ok := st.Addr.(*ssa.FieldAddr)
			if !ok || core.FieldOfAddr(fa) != fPkgs {
				continue
			}
			call, ok := st.Val.(*ssa.Call)
			if !ok {
				continue
			}
			if bi, isB := call.Call.Value.(*ssa.Builtin); isB && bi.Name() == "append" {
				f0, b0 := core.FieldLoad(call.Call.Args[0])
				f1, b1 := core.FieldLoad(call.Call.Args[1])
				if f0 == fPkgs && f1 == fPkgs && b0 == fa.X && b1 != b0 {
					okApp = true
				}
			}
		}
	}
	r.Check(okApp, rule, "NextPackageUntil: drained messages appended in order", fn.Pos(), "eedError.EEDPackages = append(eedError.EEDPackages, final.EEDPackages...)", "messages received while draining are not appended after the earlier ones")

	// EEDError.Is
	is := p.Func("tds", "EEDError", "Is")
	okIs := false
	for _, c := range core.Calls(is) {
		if core.IsPkgFunc(c, "errors", "Is") {
			a := c.Common().Args
			if f, _ := core.FieldLoad(a[0]); f == fWrapped && len(is.Params) == 2 && a[1] == ssa.Value(is.Params[1]) {
				okIs = true
			}
		}
	}
	r.Check(okIs, rule, "EEDError.Is delegates to the wrapped error", is.Pos(), "errors.Is(err.WrappedError, other)", "EEDError.Is does not delegate to errors.Is(WrappedError, target): the aggregated error no longer matches the callback's error")
}

// packSizeEveryMember: every iteration of handleSpecialPackage's member loop
// evaluates `member.Type == TDS_ENV_PACKSIZE` (no shortcut skips a member
// before the packet size is applied), and the PACKSIZE edge reaches the
// store or an error return.
func packSizeEveryMember(r *core.Run, rule string) {
	p := r.Prog
	hsp := p.Func("tds", "Channel", "handleSpecialPackage")
	fType := p.Field("tds", "EnvChangePackageField", "Type")
	cPack := constOf(p, "tds", "TDS_ENV_PACKSIZE")
	var test *ssa.If
	for _, b := range hsp.Blocks {
		if iff, ok := b.Instrs[len(b.Instrs)-1].(*ssa.If); ok {
			if bo, ok := iff.Cond.(*ssa.BinOp); ok {
				f, _ := core.FieldLoad(core.Strip(bo.X))
				c, isC := bo.Y.(*ssa.Const)
				if f == fType && isC && c.Value != nil && constEq(c.Value, cPack) {
					test = iff
				}
			}
		}
	}
	key := "handleSpecialPackage: every member is tested for PACKSIZE"
	if test == nil {
		r.Bad(rule, key, hsp.Pos(), "no test of member.Type against TDS_ENV_PACKSIZE: the announced packet size is never applied")
		return
	}
	h, loop := core.InnermostLoop(test.Block())
	if loop == nil {
		r.Bad(rule, key, test.Pos(), "the PACKSIZE test is not inside the member loop")
		return
	}
	ok := true
	core.EnumPaths(h, func(b *ssa.BasicBlock) bool { return b == h }, loop, 2000, func(pa core.Path, ended bool) {
		if !ended {
			return
		}
		saw := false
		for _, c := range pa.Conds {
			if c.If == test {
				saw = true
			}
		}
		// the header's own "more members?" decision is not an iteration
		if len(pa.Blocks) > 2 && !saw {
			ok = false
		}
	})
	r.Check(ok, rule, key, test.Pos(), "no path through an iteration bypasses the PACKSIZE test", "an iteration of the member loop can complete without testing the member for TDS_ENV_PACKSIZE (a shortcut skips members): a packet size the server announced is not applied and the connection keeps packetising with the old size")
	// ... and a PACKSIZE member either sets Conn.packetSize or ends the handling with an error: no announced size is
	// silently left out (a lower bound, a "changed only" test)
	fPS := p.Field("tds", "Conn", "packetSize")
	applied := true
	var where token.Pos
	isPack := test.Block().Succs[0]
	if bo, isBo := test.Cond.(*ssa.BinOp); isBo && bo.Op == token.NEQ {
		isPack = test.Block().Succs[1]
	}
	core.EnumPaths(isPack, func(b *ssa.BasicBlock) bool { return b == h }, nil, 4000, func(pa core.Path, ended bool) {
		stored := false
		for _, b := range pa.Blocks {
			for _, in := range b.Instrs {
				if st, ok := in.(*ssa.Store); ok {
					if fa, ok := st.Addr.(*ssa.FieldAddr); ok && core.FieldOfAddr(fa) == fPS {
						stored = true
					}
				}
			}
		}
		if stored {
			return
		}
		last := pa.Blocks[len(pa.Blocks)-1]
		if ret, ok := last.Instrs[len(last.Instrs)-1].(*ssa.Return); ok {
			rv := core.RetVals(ret)
			if !core.IsNil(rv[len(rv)-1]) {
				return
			}
		}
		if ended || len(last.Succs) == 0 {
			applied = false
			where = last.Instrs[len(last.Instrs)-1].Pos()
		}
	})
	// ... and the size is parsed at a width that holds every size a server may announce (up to 65535)
	for _, b := range hsp.Blocks {
		for _, in := range b.Instrs {
			st, ok := in.(*ssa.Store)
			if !ok {
				continue
			}
			fa, ok := st.Addr.(*ssa.FieldAddr)
			if !ok || core.FieldOfAddr(fa) != fPS {
				continue
			}
			why := "Conn.packetSize is set from " + core.Expr(st.Val) + ", not from the parsed new value of the member"
			if ex, isEx := core.Strip(st.Val).(*ssa.Extract); isEx && ex.Index == 0 {
				if call, isC := ex.Tuple.(*ssa.Call); isC {
					switch {
					case core.IsPkgFunc(call, "strconv", "Atoi"):
						why = ""
					case core.IsPkgFunc(call, "strconv", "ParseInt"), core.IsPkgFunc(call, "strconv", "ParseUint"):
						bits, isK := core.ConstInt64(call.Call.Args[2])
						if isK && (bits == 0 || bits >= 32 || (bits >= 17) || (bits == 16 && core.IsPkgFunc(call, "strconv", "ParseUint"))) {
							why = ""
						} else {
							why = fmt.Sprintf("the announced packet size is parsed as a %d-bit number: sizes a server may announce (up to 65024) are rejected as out of range and Login fails on a valid acceptance", bits)
						}
					}
				}
			}
			r.Check(why == "", rule, "handleSpecialPackage: the announced size is parsed at full width", st.Pos(), "strconv.Atoi(member.NewValue)", why)
		}
	}
	r.Check(applied, rule, "handleSpecialPackage: a PACKSIZE member sets Conn.packetSize or fails", test.Pos(), "every path from the PACKSIZE test to the next member stores Conn.packetSize or returns an error", "a PACKSIZE member can be handled without Conn.packetSize being set and without an error ("+p.Pos(where)+"): the size the server announced is not the size in force, packets are built larger than the server accepts")
}

// c11EEDReadOnly: R11.9.
func c11EEDReadOnly(r *core.Run) {
	p := r.Prog
	fPk := p.Field("tds", "EEDError", "EEDPackages")
	n := 0
	var derives func(v ssa.Value) bool
	derives = func(v ssa.Value) bool {
		for d := 0; d < 4 && v != nil; d++ {
			if f, _ := core.FieldLoad(v); f == fPk {
				return true
			}
			// a local variable (captured by a closure, hence in memory) that was assigned the list
			if u, ok := v.(*ssa.UnOp); ok && u.Op == token.MUL {
				if al, isAl := u.X.(*ssa.Alloc); isAl {
					for _, ref := range *al.Referrers() {
						if st, isSt := ref.(*ssa.Store); isSt && st.Addr == ssa.Value(al) && st.Val != v {
							if f, _ := core.FieldLoad(st.Val); f == fPk {
								return true
							}
						}
					}
				}
			}
			switch x := v.(type) {
			case *ssa.Slice:
				v = x.X
			case *ssa.MakeInterface:
				v = x.X
			case *ssa.ChangeType:
				v = x.X
			default:
				return false
			}
		}
		return false
	}
	for _, fn := range p.ModuleFuncs() {
		for _, b := range fn.Blocks {
			for _, in := range b.Instrs {
				switch x := in.(type) {
				case *ssa.IndexAddr:
					if !derives(x.X) {
						continue
					}
					for _, ref := range *x.Referrers() {
						if st, ok := ref.(*ssa.Store); ok && st.Addr == ssa.Value(x) {
							n++
							r.Bad("R11.9", core.FuncName(fn)+": element of EEDError.EEDPackages assigned", st.Pos(), "an element of the message list of an EEDError is overwritten: the error the caller holds no longer carries the messages in arrival order")
						}
					}
				case *ssa.Call:
					f := core.StaticCallee(x)
					if f == nil || f.Pkg == nil || (f.Pkg.Pkg.Path() != "sort" && f.Pkg.Pkg.Path() != "slices") {
						continue
					}
					for _, a := range x.Call.Args {
						if derives(a) {
							n++
							r.Bad("R11.9", core.FuncName(fn)+": "+calleeKey(x)+" on EEDError.EEDPackages", x.Pos(), calleeKey(x)+" permutes the message list of the EEDError in place (a value receiver copies the slice header, not the elements): after the error was formatted once, the messages it carries are no longer in the order they arrived")
						}
					}
				}
			}
		}
	}
	r.Check(n == 0, "R11.9", "EEDError.EEDPackages is append-only", token.NoPos, "no element store, no in-place sort", "see the individual reports")
}
