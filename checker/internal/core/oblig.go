package core

import (
	"crypto/sha1"
	"encoding/json"
	"fmt"
	"go/token"
	"os"
	"path/filepath"
	"sort"
	"strings"
	"time"
)

var processStart = time.Now()

type Status string

const (
	Discharged Status = "discharged"
	Violated   Status = "violated"
	Undecided  Status = "undecided"
)

// Obligation is one rule instance. Key identifies the construct (function,
// callee, field, normalised expression) — never a line number.
type Obligation struct {
	Rule   string   `json:"rule"`
	Key    string   `json:"key"`
	Pos    string   `json:"pos"`
	Status Status   `json:"status"`
	Reason string   `json:"reason"`
	Path   []string `json:"path,omitempty"`
	Armed  bool     `json:"positive_example,omitempty"` // located in an in-memory positive example
}

func (o *Obligation) ID() string { return o.Rule + "|" + o.Key }

type RuleInfo struct {
	Name      string `json:"rule"`
	Doc       string `json:"doc"`
	Floor     int    `json:"floor"`
	Instances int    `json:"instances"`
	// NeedArmed: the rule's expected violation count on a healthy tree is 0,
	// so a positive example must be flagged on every run.
	NeedArmed bool `json:"needs_positive_example"`
	ArmedHits int  `json:"positive_examples_flagged"`
}

// Run collects the obligations of one check invocation.
type Run struct {
	Property string
	Tier     string
	Prog     *Prog
	Start    time.Time

	Rules map[string]*RuleInfo
	order []string
	Obls  []*Obligation
	seen  map[string]int
	Stats map[string]int
	Notes []string
	// NoPosex: positive examples were not injected; do not demand that they be flagged.
	NoPosex bool
	Extras  map[string]interface{}
}

func NewRun(prop, tier string, p *Prog) *Run {
	return &Run{Property: prop, Tier: tier, Prog: p, Start: processStart,
		Rules: map[string]*RuleInfo{}, seen: map[string]int{}, Stats: map[string]int{},
		Extras: map[string]interface{}{}}
}

// Rule registers a rule. floor = minimum number of (non-overlay) instances.
func (r *Run) Rule(name, doc string, floor int, needArmed bool) {
	if _, ok := r.Rules[name]; ok {
		return
	}
	r.Rules[name] = &RuleInfo{Name: name, Doc: doc, Floor: floor, NeedArmed: needArmed}
	r.order = append(r.order, name)
}

func (r *Run) add(rule, key string, pos token.Pos, st Status, reason string, path []string) *Obligation {
	ri := r.Rules[rule]
	if ri == nil {
		Fail("internal: rule %s not registered", rule)
	}
	o := &Obligation{Rule: rule, Key: key, Pos: r.Prog.Pos(pos), Status: st, Reason: reason, Path: path}
	if r.Prog.InOverlay(pos) {
		o.Armed = true
		if st != Discharged {
			ri.ArmedHits++
		}
	} else {
		ri.Instances++
		// make keys unique per run but stable: nth occurrence of same key
		id := o.ID()
		r.seen[id]++
		if n := r.seen[id]; n > 1 {
			o.Key = fmt.Sprintf("%s#%d", key, n)
		}
	}
	r.Obls = append(r.Obls, o)
	return o
}

func (r *Run) OK(rule, key string, pos token.Pos, reason string) {
	r.add(rule, key, pos, Discharged, reason, nil)
}
func (r *Run) Bad(rule, key string, pos token.Pos, reason string, path ...string) {
	r.add(rule, key, pos, Violated, reason, path)
}
func (r *Run) Unknown(rule, key string, pos token.Pos, reason string, path ...string) {
	r.add(rule, key, pos, Undecided, reason, path)
}

// Check records Discharged if ok, else Violated.
func (r *Run) Check(ok bool, rule, key string, pos token.Pos, okReason, badReason string) bool {
	if ok {
		r.OK(rule, key, pos, okReason)
	} else {
		r.Bad(rule, key, pos, badReason)
	}
	return ok
}

func (r *Run) Note(format string, a ...interface{}) {
	r.Notes = append(r.Notes, fmt.Sprintf(format, a...))
}

// ---------------------------------------------------------------------
// known findings

type Finding struct {
	Property string `json:"property"`
	Key      string `json:"key"`    // rule|construct
	Status   string `json:"status"` // open | fixed
	Commit   string `json:"commit,omitempty"`
	What     string `json:"what"`
}

type KnownFile struct {
	Comment  string    `json:"comment"`
	Findings []Finding `json:"findings"`
}

func LoadKnown(path string) *KnownFile {
	k := &KnownFile{}
	b, err := os.ReadFile(path)
	if err != nil {
		if os.IsNotExist(err) {
			return k
		}
		Fail("known findings: %v", err)
	}
	if err := json.Unmarshal(b, k); err != nil {
		Fail("known findings: %v", err)
	}
	return k
}

// ---------------------------------------------------------------------
// finishing a run: verdict, output, evidence

type Meta struct {
	Explanation string
	NotDecided  string
	Assumptions []string
	Trusted     []string
	CheckerCmd  string
}

// Finish prints the verdict lines, writes evidence and replay files and
// returns the process exit code.
func (r *Run) Finish(verifDir string, known *KnownFile, meta Meta) int {
	// floors and positive examples
	for _, name := range r.order {
		ri := r.Rules[name]
		if ri.Instances < ri.Floor {
			r.add(name, "floor", token.NoPos, Undecided,
				fmt.Sprintf("rule matched %d instances, fewer than the %d confirmed by hand: the rule no longer sees the code it was written for", ri.Instances, ri.Floor), nil)
			ri.Instances-- // the synthetic obligation is not an instance
		}
		if ri.NeedArmed && ri.ArmedHits == 0 && !r.NoPosex {
			r.add(name, "positive-example", token.NoPos, Undecided,
				"the in-memory positive example for this rule was not flagged: the rule is not armed", nil)
			ri.Instances--
		}
	}

	openKnown := map[string]Finding{}
	for _, f := range known.Findings {
		if f.Property == r.Property && f.Status == "open" {
			openKnown[f.Key] = f
		}
	}

	var viol, kf, disch, total, armed int
	var violObls []*Obligation
	fmt.Printf("== %s tier=%s: %d rules\n", r.Property, r.Tier, len(r.order))
	for _, name := range r.order {
		ri := r.Rules[name]
		fmt.Printf("rule %-8s instances=%-4d floor=%-4d armed=%d  %s\n", ri.Name, ri.Instances, ri.Floor, ri.ArmedHits, ri.Doc)
	}
	usedKnown := map[string]bool{}
	for _, o := range r.Obls {
		if o.Armed {
			armed++
			continue
		}
		total++
		if o.Status == Discharged {
			disch++
			if os.Getenv("DBLINT_LIST") != "" {
				fmt.Printf("DISCHARGED %s|%s at %s: %s\n", o.Rule, o.Key, o.Pos, o.Reason)
			}
			continue
		}
		if f, ok := openKnown[o.ID()]; ok {
			kf++
			usedKnown[o.ID()] = true
			fmt.Printf("KNOWN-FINDING: property=%s %s at %s: %s\n", r.Property, o.ID(), o.Pos, f.What)
			continue
		}
		viol++
		violObls = append(violObls, o)
	}
	for id, f := range openKnown {
		if !usedKnown[id] {
			fmt.Printf("note: known finding %q (%s) was not reproduced on this tree\n", id, f.What)
			r.Note("known finding %s not reproduced on this tree", id)
		}
	}

	// replay files
	vdir := filepath.Join(verifDir, "evidence", "violations")
	os.MkdirAll(vdir, 0o755)
	old, _ := filepath.Glob(filepath.Join(vdir, r.Property+"-*.json"))
	for _, f := range old {
		os.Remove(f)
	}
	for _, o := range violObls {
		h := sha1.Sum([]byte(o.ID()))
		path := filepath.Join(vdir, fmt.Sprintf("%s-%x.json", r.Property, h[:6]))
		b, _ := json.MarshalIndent(map[string]interface{}{
			"property": r.Property, "obligation": o, "tier": r.Tier,
			"how_to_replay": fmt.Sprintf("%s/bin/dblint check -property %s -tier %s  (re-derives the obligation against /repo's current tree)", verifDir, r.Property, r.Tier),
		}, "", " ")
		os.WriteFile(path, b, 0o644)
		fmt.Printf("%s %s at %s: %s\n", strings.ToUpper(string(o.Status)), o.ID(), o.Pos, o.Reason)
		for _, s := range o.Path {
			fmt.Printf("    %s\n", s)
		}
		fmt.Printf("VIOLATION property=%s replay=%s\n", r.Property, path)
	}

	// evidence
	wall := time.Since(r.Start).Seconds()
	var samples []interface{}
	perRule := map[string]int{}
	for _, o := range r.Obls {
		if o.Armed {
			continue
		}
		if o.Status != Discharged || perRule[o.Rule] < 3 {
			perRule[o.Rule]++
			samples = append(samples, o)
		}
		if len(samples) > 120 {
			break
		}
	}
	var rules []*RuleInfo
	for _, n := range r.order {
		rules = append(rules, r.Rules[n])
	}
	var kfl []string
	for id := range usedKnown {
		kfl = append(kfl, id)
	}
	sort.Strings(kfl)
	cov := map[string]interface{}{
		"explanation":           meta.Explanation,
		"not_decided":           meta.NotDecided,
		"obligations":           total,
		"discharged":            disch,
		"known_findings":        kfl,
		"known_finding_count":   kf,
		"unlisted_violations":   viol,
		"positive_example_obls": armed,
		"rules":                 rules,
		"samples":               samples,
		"exhaustive":            true,
		"checker_cmd":           meta.CheckerCmd,
		"trusted_base":          meta.Trusted,
		"analysed":              r.Stats,
		"notes":                 r.Notes,
		"evaluations":           total,
		"distinct_nontrivial":   total,
		"rule":                  "one evaluation = one obligation (rule instance on a named construct of /repo's current tree); all are distinct constructs; non-trivial = the rule had to inspect SSA/types to decide it",
	}
	for k, v := range r.Extras {
		cov[k] = v
	}
	ev := map[string]interface{}{
		"property_id": r.Property,
		"tier":        r.Tier,
		"seed":        0,
		"level":       "other",
		"coverage":    cov,
		"assumptions": meta.Assumptions,
		"wall_s":      wall,
		"violations":  viol,
	}
	b, _ := json.MarshalIndent(ev, "", " ")
	os.MkdirAll(filepath.Join(verifDir, "evidence"), 0o755)
	if err := os.WriteFile(filepath.Join(verifDir, "evidence", r.Property+".json"), b, 0o644); err != nil {
		fmt.Fprintf(os.Stderr, "cannot write evidence: %v\n", err)
		return 2
	}
	fmt.Printf("== %s: obligations=%d discharged=%d known-findings=%d violations=%d positive-examples=%d wall=%.1fs\n",
		r.Property, total, disch, kf, viol, armed, wall)
	if viol > 0 {
		return 1
	}
	return 0
}
