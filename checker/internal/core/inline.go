package core

import (
	"fmt"
	"go/token"
	"go/types"
	"reflect"
	"sort"
	"strings"
	"unicode"
	"unsafe"

	"golang.org/x/tools/go/ssa"
)

// Inlining of NEW helpers.
//
// The rule sets are anchored at the functions of the reviewed tree: they look
// for an instruction inside a named function and reason about its guards,
// its dominators and the paths through that function. Moving a block of such
// a function into a new unexported helper (the most common clean-up) takes
// the instruction, or its guard, out of the anchored function although the
// program does exactly the same.
//
// To make the rules see through that, every static call of a module function
// that (1) does not exist in the reviewed tree (baseline inventory,
// baseline_funcs.txt), (2) is an unexported top-level function or method of
// the same module, (3) is not recursive and (4) contains no defer/recover,
// is replaced — in the SSA form the rules analyse, nothing else — by a copy
// of the callee's body with the parameters replaced by the arguments. This
// is a semantics-preserving transformation of the analysed program
// representation; on the reviewed tree itself no function qualifies and
// nothing is changed. go/ssa offers no public way to edit a function, so the
// unexported bookkeeping fields (block owner, dominator tree) are written
// through reflect/unsafe and the dominator tree is rebuilt with go/ssa's own
// routine.

//go:linkname ssaBuildDomTree golang.org/x/tools/go/ssa.buildDomTree
func ssaBuildDomTree(f *ssa.Function)

func setUnexportedField(structPtr interface{}, name string, val interface{}) {
	v := reflect.ValueOf(structPtr).Elem()
	f := v.FieldByName(name)
	if !f.IsValid() {
		Fail("inline: field %s not found in %T", name, structPtr)
	}
	reflect.NewAt(f.Type(), unsafe.Pointer(f.UnsafeAddr())).Elem().Set(reflect.ValueOf(val))
}

// setBlock sets the (unexported) owning block of an instruction.
func setBlock(in ssa.Instruction, b *ssa.BasicBlock) {
	v := reflect.ValueOf(in).Elem()
	var find func(v reflect.Value) bool
	find = func(v reflect.Value) bool {
		if v.Kind() != reflect.Struct {
			return false
		}
		for i := 0; i < v.NumField(); i++ {
			ft := v.Type().Field(i)
			if ft.Name == "block" && ft.Type == reflect.TypeOf(b) {
				f := v.Field(i)
				reflect.NewAt(f.Type(), unsafe.Pointer(f.UnsafeAddr())).Elem().Set(reflect.ValueOf(b))
				return true
			}
			if ft.Anonymous && find(v.Field(i)) {
				return true
			}
		}
		return false
	}
	if !find(v) {
		Fail("inline: no block field in %T", in)
	}
}

// cloneInstr makes a copy of an instruction whose slices (and select states)
// are its own, with an empty referrer list.
func cloneInstr(in ssa.Instruction) ssa.Instruction {
	ov := reflect.ValueOf(in).Elem()
	nv := reflect.New(ov.Type())
	nv.Elem().Set(ov)
	var deep func(v reflect.Value)
	deep = func(v reflect.Value) {
		switch v.Kind() {
		case reflect.Struct:
			for i := 0; i < v.NumField(); i++ {
				f := v.Field(i)
				ft := v.Type().Field(i)
				if ft.Name == "referrers" {
					reflect.NewAt(f.Type(), unsafe.Pointer(f.UnsafeAddr())).Elem().Set(reflect.Zero(f.Type()))
					continue
				}
				if !ft.IsExported() && !ft.Anonymous {
					continue
				}
				if f.Kind() == reflect.Slice && !f.IsNil() && f.CanSet() {
					c := reflect.MakeSlice(f.Type(), f.Len(), f.Len())
					reflect.Copy(c, f)
					if f.Type().Elem().Kind() == reflect.Ptr && f.Type().Elem().Elem().Kind() == reflect.Struct && f.Type().Elem().Elem().Name() == "SelectState" {
						for j := 0; j < c.Len(); j++ {
							ns := reflect.New(f.Type().Elem().Elem())
							ns.Elem().Set(c.Index(j).Elem())
							c.Index(j).Set(ns)
						}
					}
					f.Set(c)
					continue
				}
				if f.Kind() == reflect.Struct {
					if ft.Anonymous && !ft.IsExported() {
						// embedded register / anInstruction: reach the referrers field
						fa := reflect.NewAt(f.Type(), unsafe.Pointer(f.UnsafeAddr())).Elem()
						deep(fa)
					} else if f.CanSet() {
						deep(f)
					}
				}
			}
		}
	}
	deep(nv.Elem())
	return nv.Interface().(ssa.Instruction)
}

// baselineKey ignores whether a method has a pointer or a value receiver (changing that does not make it a new function).
func baselineKey(name string) string { return strings.Replace(name, "(*", "(", 1) }

func unexportedName(fn *ssa.Function) bool {
	for _, r := range fn.Name() {
		return unicode.IsLower(r) || r == '_'
	}
	return false
}

// inlinable reports whether calls of h may be replaced by its body.
func inlinable(h *ssa.Function, baseline map[string]bool, allowDefers bool) bool {
	if h == nil || !InModule(h) || len(h.Blocks) == 0 || h.Parent() != nil || h.Synthetic != "" || baseline[baselineKey(FuncName(h))] {
		return false
	}
	if len(baseline) == 0 {
		return false
	}
	if (h.Recover != nil && !allowDefers) || h.TypeParams().Len() > 0 || len(h.FreeVars) > 0 {
		return false
	}
	for _, b := range h.Blocks {
		for _, in := range b.Instrs {
			if c, ok := in.(*ssa.Call); ok {
				if bi, isB := c.Call.Value.(*ssa.Builtin); isB && bi.Name() == "recover" {
					return false
				}
			}
		}
	}
	rets := 0
	for _, b := range h.Blocks {
		for _, in := range b.Instrs {
			switch x := in.(type) {
			case *ssa.Defer, *ssa.RunDefers:
				if !allowDefers {
					return false
				}
			case *ssa.Return:
				rets++
			case *ssa.Call:
				if x.Call.StaticCallee() == h {
					return false
				}
			}
		}
	}
	return rets > 0
}

// InlineNewHelpers performs the transformation on every module function and
// returns the names of the helpers that were inlined (sorted).
func (p *Prog) InlineNewHelpers(baseline map[string]bool) []string {
	done := map[string]bool{}
	for round := 0; round < 4; round++ {
		changed := false
		for _, fn := range p.ModuleFuncs() {
			if len(fn.Blocks) == 0 {
				continue
			}
			fnChanged := false
			for again := true; again; {
				again = false
				for _, b := range fn.Blocks {
					for i, in := range b.Instrs {
						call, ok := in.(*ssa.Call)
						if !ok {
							continue
						}
						h := call.Call.StaticCallee()
						// a callee with deferred calls can only be inlined where the call is in tail position of a
						// caller that defers nothing itself: the deferred calls then run at the same point
						if h == fn || !inlinable(h, baseline, tailCall(fn, b, i, call) || lowerableDefers(h) != nil) || p.FuncInOverlay(h) || p.FuncInOverlay(fn) || recursiveWithout(h, fn) {
							continue
						}
						inlineCall(fn, b, i, call, h)
						done[FuncName(h)] = true
						again, fnChanged, changed = true, true, true
						break
					}
					if again {
						break
					}
				}
			}
			if fnChanged {
				finishFunction(fn)
				for i := 0; i < 600; i++ {
					if !(forwardLocalStores(fn) || threadPhiBranches(fn) || threadReturns(fn) || fuseBlocks(fn)) {
						break
					}
					finishFunction(fn)
				}
			}
		}
		if !changed {
			break
		}
	}
	var names []string
	for n := range done {
		names = append(names, n)
	}
	sort.Strings(names)
	p.inlined = done
	return names
}

// tailCall: nothing but `return <results of call>` follows the call, and fn has no deferred calls of its own.
func tailCall(fn *ssa.Function, b *ssa.BasicBlock, idx int, call *ssa.Call) bool {
	if fn.Recover != nil {
		return false
	}
	for _, bb := range fn.Blocks {
		for _, in := range bb.Instrs {
			switch in.(type) {
			case *ssa.Defer, *ssa.RunDefers:
				return false
			}
		}
	}
	for _, in := range b.Instrs[idx+1:] {
		switch x := in.(type) {
		case *ssa.Extract, *ssa.Convert, *ssa.ChangeType, *ssa.Return, *ssa.DebugRef:
			// pure: the callee's deferred calls run, after inlining, behind these instead of before them, which
			// nothing can observe
		case *ssa.BinOp:
			switch x.Op {
			case token.QUO, token.REM, token.SHL, token.SHR:
				return false // may panic
			}
		default:
			return false
		}
	}
	return true
}

// recursiveWithout: h can call itself through static calls that do not pass through fn (a cycle h → … → fn → h
// disappears once h is inlined into fn and is therefore harmless).
func recursiveWithout(h, fn *ssa.Function) bool {
	seen := map[*ssa.Function]bool{fn: true}
	for _, bb := range h.Blocks {
		for _, in := range bb.Instrs {
			if c, ok := in.(ssa.CallInstruction); ok {
				if g := c.Common().StaticCallee(); g != nil && g != fn && InModule(g) && reaches(g, h, seen) {
					return true
				}
			}
		}
	}
	return false
}

// reaches: a can call b through static calls.
func reaches(a, b *ssa.Function, seen map[*ssa.Function]bool) bool {
	if a == b {
		return true
	}
	if seen[a] {
		return false
	}
	seen[a] = true
	for _, bb := range a.Blocks {
		for _, in := range bb.Instrs {
			if c, ok := in.(ssa.CallInstruction); ok {
				if g := c.Common().StaticCallee(); g != nil && InModule(g) && reaches(g, b, seen) {
					return true
				}
			}
		}
	}
	return false
}

func inlineCall(fn *ssa.Function, b *ssa.BasicBlock, idx int, call *ssa.Call, h *ssa.Function) {
	// 1. split b at the call: b keeps Instrs[:idx] and jumps into the copy; cont gets Instrs[idx+1:] and b's successors
	cont := &ssa.BasicBlock{Comment: "inl.cont." + h.Name()}
	setUnexportedField(cont, "parent", fn)
	cont.Instrs = append(cont.Instrs, b.Instrs[idx+1:]...)
	for _, in := range cont.Instrs {
		setBlock(in, cont)
	}
	cont.Succs = b.Succs
	for _, s := range cont.Succs {
		for j, pr := range s.Preds {
			if pr == b {
				s.Preds[j] = cont
			}
		}
	}
	b.Instrs = append([]ssa.Instruction(nil), b.Instrs[:idx]...)
	b.Succs = nil

	// 2. copy the callee
	vmap := map[ssa.Value]ssa.Value{}
	for i, pa := range h.Params {
		vmap[pa] = call.Call.Args[i]
	}
	bmap := map[*ssa.BasicBlock]*ssa.BasicBlock{}
	var nblocks []*ssa.BasicBlock
	for _, hb := range h.Blocks {
		nb := &ssa.BasicBlock{Comment: "inl." + h.Name() + "." + hb.Comment}
		setUnexportedField(nb, "parent", fn)
		bmap[hb] = nb
		nblocks = append(nblocks, nb)
	}
	lower := lowerableDefers(h)
	type retInfo struct {
		block   *ssa.BasicBlock
		results []ssa.Value
	}
	var rets []retInfo
	var cloned []ssa.Instruction
	for _, hb := range h.Blocks {
		nb := bmap[hb]
		for _, pr := range hb.Preds {
			nb.Preds = append(nb.Preds, bmap[pr])
		}
		for _, s := range hb.Succs {
			nb.Succs = append(nb.Succs, bmap[s])
		}
		for _, in := range hb.Instrs {
			if _, isDbg := in.(*ssa.DebugRef); isDbg {
				continue
			}
			if _, isD := in.(*ssa.Defer); isD && lower != nil {
				continue
			}
			if _, isRD := in.(*ssa.RunDefers); isRD && lower != nil {
				// the deferred calls, last one first, as ordinary calls where the helper returns
				for k := len(lower) - 1; k >= 0; k-- {
					c := &ssa.Call{Call: lower[k].Call}
					c.Call.Args = append([]ssa.Value(nil), lower[k].Call.Args...)
					res := lower[k].Call.Signature().Results()
					var t types.Type = res
					if res.Len() == 1 {
						t = res.At(0).Type()
					}
					setRegisterType(c, t)
					setUnexportedPos(c, lower[k].Pos())
					setBlock(c, nb)
					nb.Instrs = append(nb.Instrs, c)
					cloned = append(cloned, c)
				}
				continue
			}
			if ret, isRet := in.(*ssa.Return); isRet {
				rets = append(rets, retInfo{nb, append([]ssa.Value(nil), ret.Results...)})
				continue
			}
			ni := cloneInstr(in)
			setBlock(ni, nb)
			nb.Instrs = append(nb.Instrs, ni)
			cloned = append(cloned, ni)
			if v, isV := in.(ssa.Value); isV {
				vmap[v] = ni.(ssa.Value)
			}
			if al, isAl := ni.(*ssa.Alloc); isAl && !al.Heap {
				fn.Locals = append(fn.Locals, al)
			}
		}
	}
	remap := func(v ssa.Value) ssa.Value {
		if v == nil {
			return nil
		}
		if nv, ok := vmap[v]; ok {
			return nv
		}
		return v
	}
	var rands []*ssa.Value
	for _, ni := range cloned {
		rands = ni.Operands(rands[:0])
		for _, op := range rands {
			*op = remap(*op)
		}
	}
	// 3. returns jump to the continuation; results become φs (or the single value)
	nres := h.Signature.Results().Len()
	results := make([]ssa.Value, nres)
	var phis []ssa.Instruction
	for k := 0; k < nres; k++ {
		if len(rets) == 1 {
			results[k] = remap(rets[0].results[k])
			continue
		}
		ph := &ssa.Phi{Comment: "inl.result"}
		for _, rt := range rets {
			ph.Edges = append(ph.Edges, remap(rt.results[k]))
		}
		setRegisterType(ph, h.Signature.Results().At(k).Type())
		setBlock(ph, cont)
		phis = append(phis, ph)
		results[k] = ph
	}
	for _, rt := range rets {
		j := &ssa.Jump{}
		setBlock(j, rt.block)
		rt.block.Instrs = append(rt.block.Instrs, j)
		rt.block.Succs = []*ssa.BasicBlock{cont}
		cont.Preds = append(cont.Preds, rt.block)
	}
	cont.Instrs = append(phis, cont.Instrs...)
	// 4. b jumps to the copy of the entry block
	j := &ssa.Jump{}
	setBlock(j, b)
	b.Instrs = append(b.Instrs, j)
	entry := bmap[h.Blocks[0]]
	b.Succs = []*ssa.BasicBlock{entry}
	entry.Preds = append(entry.Preds, b)
	// 5. uses of the call's value
	replaceUses := func(old, nv ssa.Value) {
		for _, blk := range append(append([]*ssa.BasicBlock{}, fn.Blocks...), append(nblocks, cont)...) {
			for _, in := range blk.Instrs {
				rands = in.Operands(rands[:0])
				for _, op := range rands {
					if *op == old {
						*op = nv
					}
				}
			}
		}
	}
	if nres == 1 {
		replaceUses(call, results[0])
	} else if nres > 1 {
		for _, blk := range append(append([]*ssa.BasicBlock{}, fn.Blocks...), cont) {
			kept := blk.Instrs[:0:0]
			for _, in := range blk.Instrs {
				if ex, ok := in.(*ssa.Extract); ok && ex.Tuple == ssa.Value(call) {
					replaceUses(ex, results[ex.Index])
					continue
				}
				kept = append(kept, in)
			}
			blk.Instrs = kept
		}
	}
	// 6. splice the new blocks in behind b
	var out []*ssa.BasicBlock
	for _, x := range fn.Blocks {
		out = append(out, x)
		if x == b {
			out = append(out, nblocks...)
			out = append(out, cont)
		}
	}
	fn.Blocks = out
	for i, x := range fn.Blocks {
		x.Index = i
	}
}

// setRegisterType sets the (unexported) type of a value-producing instruction.
// lowerableDefers returns the defer statements of h in execution order when each of them runs exactly once on every
// path to every return (its block dominates all RunDefers and lies on no cycle), nil otherwise or when h defers
// nothing. Such a helper behaves — panics aside — as if the deferred calls were made, last one first, where it
// returns, which is how its inlined copy is written.
func lowerableDefers(h *ssa.Function) []*ssa.Defer {
	if h == nil {
		return nil
	}
	var defers []*ssa.Defer
	var runs []*ssa.BasicBlock
	for _, b := range h.Blocks {
		for _, in := range b.Instrs {
			switch x := in.(type) {
			case *ssa.Defer:
				defers = append(defers, x)
			case *ssa.RunDefers:
				runs = append(runs, b)
			}
		}
	}
	if len(defers) == 0 {
		return nil
	}
	onCycle := func(b *ssa.BasicBlock) bool {
		seen := map[*ssa.BasicBlock]bool{}
		var st []*ssa.BasicBlock
		st = append(st, b.Succs...)
		for len(st) > 0 {
			x := st[len(st)-1]
			st = st[:len(st)-1]
			if x == b {
				return true
			}
			if seen[x] {
				continue
			}
			seen[x] = true
			st = append(st, x.Succs...)
		}
		return false
	}
	for _, d := range defers {
		if onCycle(d.Block()) {
			return nil
		}
		for _, rb := range runs {
			if rb == h.Recover {
				continue
			}
			if !d.Block().Dominates(rb) && d.Block() != rb {
				return nil
			}
		}
	}
	sort.SliceStable(defers, func(i, j int) bool {
		a, b := defers[i], defers[j]
		if a.Block() == b.Block() {
			for _, in := range a.Block().Instrs {
				if in == ssa.Instruction(a) {
					return true
				}
				if in == ssa.Instruction(b) {
					return false
				}
			}
		}
		return a.Block().Dominates(b.Block())
	})
	return defers
}

func setUnexportedPos(c *ssa.Call, pos token.Pos) {
	rv := reflect.ValueOf(c).Elem()
	reg := rv.FieldByName("register")
	f := reg.FieldByName("pos")
	reflect.NewAt(f.Type(), unsafe.Pointer(f.UnsafeAddr())).Elem().Set(reflect.ValueOf(pos))
}

func setRegisterType(v ssa.Value, t types.Type) {
	rv := reflect.ValueOf(v).Elem()
	reg := rv.FieldByName("register")
	if !reg.IsValid() {
		Fail("inline: %T has no register", v)
	}
	f := reg.FieldByName("typ")
	reflect.NewAt(f.Type(), unsafe.Pointer(f.UnsafeAddr())).Elem().Set(reflect.ValueOf(&t).Elem())
}

// finishFunction removes unreachable blocks, renumbers, and rebuilds the
// dominator tree and the def/use lists of fn.
func finishFunction(fn *ssa.Function) {
	folded := false
	reach := map[*ssa.BasicBlock]bool{}
	var walk func(b *ssa.BasicBlock)
	walk = func(b *ssa.BasicBlock) {
		if reach[b] {
			return
		}
		reach[b] = true
		for _, s := range b.Succs {
			walk(s)
		}
	}
	walk(fn.Blocks[0])
	if fn.Recover != nil {
		walk(fn.Recover)
	}
	var blocks []*ssa.BasicBlock
	for _, b := range fn.Blocks {
		if !reach[b] {
			continue
		}
		// drop predecessors that became unreachable (with their φ inputs)
		var preds []*ssa.BasicBlock
		var keep []int
		for i, pr := range b.Preds {
			if reach[pr] {
				preds = append(preds, pr)
				keep = append(keep, i)
			}
		}
		if len(preds) != len(b.Preds) {
			for _, in := range b.Instrs {
				if ph, ok := in.(*ssa.Phi); ok {
					var es []ssa.Value
					for _, i := range keep {
						es = append(es, ph.Edges[i])
					}
					ph.Edges = es
				}
			}
			b.Preds = preds
		}
		blocks = append(blocks, b)
	}
	fn.Blocks = blocks
	for i, b := range fn.Blocks {
		b.Index = i
	}
	// trivial φs (one input, or all inputs the same value) are replaced by that value
	for again := true; again; {
		again = false
		for _, b := range fn.Blocks {
			for i, in := range b.Instrs {
				ph, ok := in.(*ssa.Phi)
				if !ok {
					continue
				}
				var same ssa.Value
				trivial := len(ph.Edges) > 0
				for _, e := range ph.Edges {
					if e == ssa.Value(ph) {
						continue
					}
					if same == nil {
						same = e
					} else if same != e {
						trivial = false
					}
				}
				if !trivial || same == nil {
					continue
				}
				var rands []*ssa.Value
				for _, bb := range fn.Blocks {
					for _, in2 := range bb.Instrs {
						rands = in2.Operands(rands[:0])
						for _, op := range rands {
							if *op == ssa.Value(ph) {
								*op = same
							}
						}
					}
				}
				b.Instrs = append(append([]ssa.Instruction(nil), b.Instrs[:i]...), b.Instrs[i+1:]...)
				again = true
				break
			}
			if again {
				break
			}
		}
	}
	// branches on `nil != nil` / `nil == nil` (left behind when all error inputs of a merged result were threaded
	// away) are folded: the dead edge is removed
	for _, b := range fn.Blocks {
		iff, ok := b.Instrs[len(b.Instrs)-1].(*ssa.If)
		if !ok || len(b.Succs) != 2 {
			continue
		}
		taken := 0 // index of the successor that is taken
		if cst, isC := iff.Cond.(*ssa.Const); isC && cst.Value != nil {
			switch cst.Value.ExactString() {
			case "true":
				taken = 0
			case "false":
				taken = 1
			default:
				continue
			}
		} else {
			bo, ok := iff.Cond.(*ssa.BinOp)
			if !ok || !IsNil(bo.X) || !IsNil(bo.Y) {
				continue
			}
			if _, isC := bo.X.(*ssa.Const); !isC {
				continue
			}
			switch bo.Op.String() {
			case "!=":
				taken = 1
			case "==":
				taken = 0
			default:
				continue
			}
		}
		dead := b.Succs[1-taken]
		live := b.Succs[taken]
		if dead == live {
			continue
		}
		// remove b from dead's predecessors (with φ inputs)
		for i, pr := range dead.Preds {
			if pr == b {
				dead.Preds = append(append([]*ssa.BasicBlock(nil), dead.Preds[:i]...), dead.Preds[i+1:]...)
				for _, in := range dead.Instrs {
					if ph, isP := in.(*ssa.Phi); isP {
						ph.Edges = append(append([]ssa.Value(nil), ph.Edges[:i]...), ph.Edges[i+1:]...)
					}
				}
				break
			}
		}
		j := &ssa.Jump{}
		setBlock(j, b)
		b.Instrs[len(b.Instrs)-1] = j
		b.Succs = []*ssa.BasicBlock{live}
		folded = true
	}
	if folded {
		finishFunction(fn) // remove the blocks that became unreachable and the φs that became trivial
		return
	}
	// def/use
	clear := func(v ssa.Value) {
		if v == nil {
			return
		}
		if r := v.Referrers(); r != nil {
			*r = nil
		}
	}
	for _, pa := range fn.Params {
		clear(pa)
	}
	for _, fv := range fn.FreeVars {
		clear(fv)
	}
	for _, b := range fn.Blocks {
		for _, in := range b.Instrs {
			if v, ok := in.(ssa.Value); ok {
				clear(v)
			}
		}
	}
	var rands []*ssa.Value
	for _, b := range fn.Blocks {
		for _, in := range b.Instrs {
			rands = in.Operands(rands[:0])
			for _, op := range rands {
				if *op == nil {
					continue
				}
				if r := (*op).Referrers(); r != nil {
					*r = append(*r, in)
				}
			}
		}
	}
	ssaBuildDomTree(fn)
	if err := sanity(fn); err != "" {
		Fail("inline: %s is malformed after inlining: %s", FuncName(fn), err)
	}
}

// threadPhiBranches undoes the detours an inlined helper's returns take. `return ..., err` / `return false` inside
// the helper became a jump to the continuation block C, which merges the results in φs and branches on one of them
// (`φerr != nil`, or a bool φ). For every predecessor of C whose input decides that branch statically (a known non-nil
// error, a nil constant, a bool constant) the edge is redirected to the branch target: directly when the target
// needs nothing that C defines, or to a private copy of the target with the φs replaced by that predecessor's inputs
// when the target is a return-only block. This is what the source looked like before the helper was extracted.
// It returns true if fn was changed (the caller re-finishes the function).
func threadPhiBranches(fn *ssa.Function) bool {
	for _, c := range append([]*ssa.BasicBlock(nil), fn.Blocks...) {
		if len(c.Preds) < 2 || len(c.Instrs) < 2 {
			continue
		}
		iff, ok := c.Instrs[len(c.Instrs)-1].(*ssa.If)
		if !ok || len(c.Succs) != 2 || c.Succs[0] == c.Succs[1] {
			continue
		}
		// C = φs, optionally the nil comparison, the If — nothing else
		var phis []*ssa.Phi
		var extra []ssa.Instruction // side-effect-free instructions besides the test: copied per predecessor by fullSplit
		pure := true
		for _, in := range c.Instrs[:len(c.Instrs)-1] {
			switch x := in.(type) {
			case *ssa.Phi:
				phis = append(phis, x)
			case *ssa.BinOp:
				if ssa.Value(x) != iff.Cond {
					switch x.Op {
					case token.QUO, token.REM, token.SHL, token.SHR:
						pure = false
					default:
						extra = append(extra, x)
					}
				}
			case *ssa.Convert, *ssa.ChangeType:
				extra = append(extra, in)
			default:
				pure = false
			}
		}
		if !pure || len(phis) == 0 {
			continue
		}
		// decide(i) = 0/1: index of the successor taken when coming from predecessor i; -1 unknown
		var decide func(i int) int
		if e, trueMeansNonNil, isTest := ErrNilTest(iff.Cond); isTest {
			phiE, isPhi := e.(*ssa.Phi)
			if !isPhi || phiE.Block() != c {
				continue
			}
			decide = func(i int) int {
				in := phiE.Edges[i]
				nonNil := knownNonNilError(in, c.Preds[i], 0)
				isNil := false
				if cst, isC := in.(*ssa.Const); isC && cst.Value == nil {
					isNil = true
				}
				switch {
				case nonNil && trueMeansNonNil, isNil && !trueMeansNonNil:
					return 0
				case nonNil && !trueMeansNonNil, isNil && trueMeansNonNil:
					return 1
				}
				return -1
			}
		} else if bo, isB := iff.Cond.(*ssa.BinOp); isB && intPhiTest(bo, c) != nil {
			// `φ OP const` on an int φ (an "index of …, or -1" helper): decided for constant inputs and for range indices (>= 0)
			phiI := intPhiTest(bo, c)
			k, _ := ConstInt64(bo.Y)
			decide = func(i int) int {
				lo, hi, ok := intRange(phiI.Edges[i])
				if !ok {
					return -1
				}
				holds, known := cmpRange(bo.Op.String(), lo, hi, k)
				if !known {
					return -1
				}
				if holds {
					return 0
				}
				return 1
			}
		} else if phiB, isPhi := iff.Cond.(*ssa.Phi); isPhi && phiB.Block() == c {
			decide = func(i int) int {
				if cst, isC := phiB.Edges[i].(*ssa.Const); isC && cst.Value != nil {
					if cst.Value.ExactString() == "true" {
						return 0
					}
					if cst.Value.ExactString() == "false" {
						return 1
					}
				}
				return -1
			}
		} else {
			continue
		}
		// values defined in C that are used outside C
		definedInC := map[ssa.Value]bool{}
		for _, ph := range phis {
			definedInC[ph] = true
		}
		if v, ok := iff.Cond.(ssa.Value); ok && v != nil {
			if bo, isB := iff.Cond.(*ssa.BinOp); isB {
				definedInC[bo] = true
			}
		}
		usesC := func(b *ssa.BasicBlock) bool {
			var rands []*ssa.Value
			for _, in := range b.Instrs {
				rands = in.Operands(rands[:0])
				for _, op := range rands {
					if definedInC[*op] {
						return true
					}
				}
			}
			return false
		}
		escapes := func(except *ssa.BasicBlock) bool {
			// is a value of C used in a block other than C and `except`?
			for _, b := range fn.Blocks {
				if b == c || b == except {
					continue
				}
				if usesC(b) {
					return true
				}
			}
			return false
		}
		returnOnly := func(b *ssa.BasicBlock) bool {
			if len(b.Instrs) == 0 {
				return false
			}
			if _, isRet := b.Instrs[len(b.Instrs)-1].(*ssa.Return); !isRet {
				return false
			}
			for _, in := range b.Instrs {
				if _, isP := in.(*ssa.Phi); isP {
					return false
				}
			}
			return true
		}
		// Full split: every predecessor decides the branch, both targets are entered from C only, and what C defines
		// is used only below one of the targets. C then disappears: each predecessor goes straight to its target,
		// and the φs of C are replaced below a target by that predecessor's input (or by a φ over the inputs of
		// the predecessors that go there).
		if fullSplit(fn, c, phis, extra, iff, decide) {
			return true
		}
		if len(extra) > 0 {
			continue
		}
		changed := false
		var dropped []int
		for i := range c.Preds {
			k := decide(i)
			if k < 0 {
				continue
			}
			target := c.Succs[k]
			pr := c.Preds[i]
			hasPhi := false
			for _, in := range target.Instrs {
				if _, isP := in.(*ssa.Phi); isP {
					hasPhi = true
				}
			}
			var dest *ssa.BasicBlock
			switch {
			case returnOnly(target) && len(target.Preds) == 1:
				// private copy with the φs replaced by this predecessor's inputs
				nb := &ssa.BasicBlock{Comment: "inl.thr." + target.Comment}
				setUnexportedField(nb, "parent", fn)
				vmap := map[ssa.Value]ssa.Value{}
				for _, ph := range phis {
					vmap[ph] = ph.Edges[i]
				}
				for _, in := range target.Instrs {
					if _, isDbg := in.(*ssa.DebugRef); isDbg {
						continue
					}
					ni := cloneInstr(in)
					setBlock(ni, nb)
					nb.Instrs = append(nb.Instrs, ni)
					if v, isV := in.(ssa.Value); isV {
						vmap[v] = ni.(ssa.Value)
					}
					if al, isAl := ni.(*ssa.Alloc); isAl && !al.Heap {
						fn.Locals = append(fn.Locals, al)
					}
				}
				var rands []*ssa.Value
				for _, ni := range nb.Instrs {
					rands = ni.Operands(rands[:0])
					for _, op := range rands {
						if *op == nil {
							continue
						}
						if nv, ok := vmap[*op]; ok {
							*op = nv
						}
					}
				}
				nb.Preds = []*ssa.BasicBlock{pr}
				fn.Blocks = append(fn.Blocks, nb)
				dest = nb
			case !hasPhi && !escapes(nil):
				// nothing defined in C is needed anywhere else: go to the target directly
				dest = target
				target.Preds = append(target.Preds, pr)
			default:
				continue
			}
			for j, sc := range pr.Succs {
				if sc == c {
					pr.Succs[j] = dest
				}
			}
			dropped = append(dropped, i)
			changed = true
		}
		if !changed {
			continue
		}
		drop := map[int]bool{}
		for _, i := range dropped {
			drop[i] = true
		}
		var preds []*ssa.BasicBlock
		for i, pr := range c.Preds {
			if !drop[i] {
				preds = append(preds, pr)
			}
		}
		for _, ph := range phis {
			var es []ssa.Value
			for i, ev := range ph.Edges {
				if !drop[i] {
					es = append(es, ev)
				}
			}
			ph.Edges = es
		}
		c.Preds = preds
		return true
	}
	return false
}

// threadReturns: a block that merges results in φs and returns (`return h(...)` after inlining h; with deferred
// calls in the caller the results are first spilled to the result variables and the deferred calls run) is
// duplicated into each predecessor with the φs replaced by that predecessor's inputs (tail duplication). The block
// has no successors, so nothing defined in it is used elsewhere.
func threadReturns(fn *ssa.Function) bool {
	for _, c := range append([]*ssa.BasicBlock(nil), fn.Blocks...) {
		if len(c.Preds) < 2 || len(c.Instrs) < 2 || len(c.Instrs) > 24 || len(c.Succs) != 0 {
			continue
		}
		if _, ok := c.Instrs[len(c.Instrs)-1].(*ssa.Return); !ok {
			continue
		}
		var phis []*ssa.Phi
		var body []ssa.Instruction
		for _, in := range c.Instrs {
			if ph, isP := in.(*ssa.Phi); isP {
				phis = append(phis, ph)
			} else if _, isDbg := in.(*ssa.DebugRef); !isDbg {
				body = append(body, in)
			}
		}
		if len(phis) == 0 {
			continue
		}
		for i, pr := range c.Preds {
			nb := &ssa.BasicBlock{Comment: "inl.ret"}
			setUnexportedField(nb, "parent", fn)
			vmap := map[ssa.Value]ssa.Value{}
			for _, ph := range phis {
				vmap[ph] = ph.Edges[i]
			}
			for _, in := range body {
				ni := cloneInstr(in)
				setBlock(ni, nb)
				nb.Instrs = append(nb.Instrs, ni)
				if v, isV := in.(ssa.Value); isV {
					vmap[v] = ni.(ssa.Value)
				}
				if al, isAl := ni.(*ssa.Alloc); isAl && !al.Heap {
					fn.Locals = append(fn.Locals, al)
				}
			}
			var rands []*ssa.Value
			for _, ni := range nb.Instrs {
				rands = ni.Operands(rands[:0])
				for _, op := range rands {
					if *op == nil {
						continue
					}
					if nv, ok := vmap[*op]; ok {
						*op = nv
					}
				}
			}
			nb.Preds = []*ssa.BasicBlock{pr}
			for j, sc := range pr.Succs {
				if sc == c {
					pr.Succs[j] = nb
				}
			}
			fn.Blocks = append(fn.Blocks, nb)
		}
		c.Preds = nil
		for _, ph := range phis {
			ph.Edges = nil
		}
		return true
	}
	return false
}

// fuseBlocks merges a block that ends in an unconditional jump with its successor when it is that successor's only
// predecessor (what go/ssa's own builder does; needed again for the blocks created above).
func fuseBlocks(fn *ssa.Function) bool {
	for _, a := range fn.Blocks {
		if len(a.Succs) != 1 || len(a.Instrs) == 0 {
			continue
		}
		if _, isJ := a.Instrs[len(a.Instrs)-1].(*ssa.Jump); !isJ {
			continue
		}
		b := a.Succs[0]
		if b == a || len(b.Preds) != 1 || b == fn.Blocks[0] || b == fn.Recover {
			continue
		}
		hasPhi := false
		for _, in := range b.Instrs {
			if _, isP := in.(*ssa.Phi); isP {
				hasPhi = true
			}
		}
		if hasPhi {
			continue
		}
		a.Instrs = append(a.Instrs[:len(a.Instrs)-1:len(a.Instrs)-1], b.Instrs...)
		for _, in := range b.Instrs {
			setBlock(in, a)
		}
		a.Succs = b.Succs
		for _, s := range a.Succs {
			for j, pr := range s.Preds {
				if pr == b {
					s.Preds[j] = a
				}
			}
		}
		b.Instrs, b.Succs, b.Preds = nil, nil, nil
		var out []*ssa.BasicBlock
		for _, x := range fn.Blocks {
			if x != b {
				out = append(out, x)
			}
		}
		fn.Blocks = out
		return true
	}
	return false
}

// knownNonNilError: v, as seen at the end of block at, is a non-nil error.
func knownNonNilError(v ssa.Value, at *ssa.BasicBlock, d int) bool {
	if d > 4 || v == nil {
		return false
	}
	switch x := v.(type) {
	case *ssa.Const:
		return false
	case *ssa.MakeInterface:
		return true
	case *ssa.Call:
		return IsPkgFunc(x, "fmt", "Errorf") || IsPkgFunc(x, "errors", "New")
	case *ssa.UnOp:
		if _, isG := x.X.(*ssa.Global); isG {
			return true // a sentinel variable
		}
	case *ssa.Phi:
		for _, e := range x.Edges {
			if !knownNonNilError(e, at, d+1) {
				return false
			}
		}
		return len(x.Edges) > 0
	}
	for _, g := range GuardsOf(at) {
		if e, nn, ok := ErrNilTest(g.Cond); ok && e == v && nn == g.Pol {
			return true
		}
	}
	// the block itself may be the target of the test's edge
	for _, pr := range at.Preds {
		for _, g := range GuardsOnEdge(pr, at) {
			if e, nn, ok := ErrNilTest(g.Cond); ok && e == v && nn == g.Pol && len(at.Preds) == 1 {
				return true
			}
		}
	}
	return false
}

// sanity is a small well-formedness check of the edited function.
func sanity(fn *ssa.Function) string {
	for _, b := range fn.Blocks {
		if b.Parent() != fn {
			return fmt.Sprintf("block %d has a foreign parent", b.Index)
		}
		if len(b.Instrs) == 0 {
			return fmt.Sprintf("block %d is empty", b.Index)
		}
		for i, in := range b.Instrs {
			if in.Block() != b {
				return fmt.Sprintf("instruction %T in block %d belongs to another block", in, b.Index)
			}
			_, isPhi := in.(*ssa.Phi)
			if isPhi && len(in.(*ssa.Phi).Edges) != len(b.Preds) {
				return fmt.Sprintf("φ in block %d has %d inputs for %d predecessors", b.Index, len(in.(*ssa.Phi).Edges), len(b.Preds))
			}
			switch in.(type) {
			case *ssa.Jump, *ssa.If, *ssa.Return, *ssa.Panic:
				if i != len(b.Instrs)-1 {
					return fmt.Sprintf("terminator in the middle of block %d", b.Index)
				}
			default:
				if i == len(b.Instrs)-1 {
					return fmt.Sprintf("block %d does not end in a terminator (%T)", b.Index, in)
				}
			}
		}
		for _, s := range b.Succs {
			found := false
			for _, pr := range s.Preds {
				if pr == b {
					found = true
				}
			}
			if !found {
				return fmt.Sprintf("edge %d→%d lacks the back pointer", b.Index, s.Index)
			}
		}
	}
	return ""
}

// intPhiTest: cond is `φ OP const` with φ an integer φ of block c.
func intPhiTest(bo *ssa.BinOp, c *ssa.BasicBlock) *ssa.Phi {
	ph, ok := bo.X.(*ssa.Phi)
	if !ok || ph.Block() != c {
		return nil
	}
	if _, isC := ConstInt64(bo.Y); !isC {
		return nil
	}
	switch bo.Op.String() {
	case "<", "<=", ">", ">=", "==", "!=":
		return ph
	}
	return nil
}

const bigInt = int64(1) << 40

// intRange: a constant, or the index of a range loop over a slice/array/string (>= 0).
func intRange(v ssa.Value) (lo, hi int64, ok bool) {
	if k, isC := ConstInt64(v); isC {
		return k, k, true
	}
	// go/ssa range index: t2 = t1 + 1 with t1 = φ(-1, t2)
	if add, isAdd := v.(*ssa.BinOp); isAdd && add.Op.String() == "+" {
		if one, isC := ConstInt64(add.Y); isC && one == 1 {
			if ph, isPhi := add.X.(*ssa.Phi); isPhi && len(ph.Edges) == 2 {
				for j, e := range ph.Edges {
					if k, isC := ConstInt64(e); isC && k == -1 && ph.Edges[1-j] == ssa.Value(add) {
						return 0, bigInt, true
					}
				}
			}
		}
	}
	return 0, 0, false
}

// cmpRange: does `x OP k` hold for every (known=true, holds) / no (known=true, !holds) x in [lo, hi]?
func cmpRange(op string, lo, hi, k int64) (holds, known bool) {
	switch op {
	case "<":
		if hi < k {
			return true, true
		}
		if lo >= k {
			return false, true
		}
	case "<=":
		if hi <= k {
			return true, true
		}
		if lo > k {
			return false, true
		}
	case ">":
		if lo > k {
			return true, true
		}
		if hi <= k {
			return false, true
		}
	case ">=":
		if lo >= k {
			return true, true
		}
		if hi < k {
			return false, true
		}
	case "==":
		if lo == hi && lo == k {
			return true, true
		}
		if hi < k || lo > k {
			return false, true
		}
	case "!=":
		if hi < k || lo > k {
			return true, true
		}
		if lo == hi && lo == k {
			return false, true
		}
	}
	return false, false
}

// forwardLocalStores replaces a load of a local that does not escape (its address is only stored through and loaded
// from) by the value stored into it earlier in the same block. go/ssa keeps the results of a function that defers in
// such locals (a deferred closure may change them); in an inlined copy whose deferred calls were lowered they are
// plain temporaries.
func forwardLocalStores(fn *ssa.Function) bool {
	// locals whose address escapes
	escapes := map[*ssa.Alloc]bool{}
	var rands []*ssa.Value
	for _, b := range fn.Blocks {
		for _, in := range b.Instrs {
			rands = in.Operands(rands[:0])
			for _, op := range rands {
				al, ok := (*op).(*ssa.Alloc)
				if !ok {
					continue
				}
				switch x := in.(type) {
				case *ssa.Store:
					if x.Addr == ssa.Value(al) && x.Val != ssa.Value(al) {
						continue
					}
				case *ssa.UnOp:
					if x.Op == token.MUL {
						continue
					}
				case *ssa.DebugRef:
					continue
				}
				escapes[al] = true
			}
		}
	}
	for _, af := range fn.AnonFuncs {
		for _, fv := range af.FreeVars {
			_ = fv
		}
	}
	for _, b := range fn.Blocks {
		for _, in := range b.Instrs {
			if mc, ok := in.(*ssa.MakeClosure); ok {
				for _, bd := range mc.Bindings {
					if al, ok := bd.(*ssa.Alloc); ok {
						escapes[al] = true
					}
				}
			}
		}
	}
	changed := false
	for _, b := range fn.Blocks {
		last := map[*ssa.Alloc]ssa.Value{}
		var out []ssa.Instruction
		for _, in := range b.Instrs {
			switch x := in.(type) {
			case *ssa.Store:
				if al, ok := x.Addr.(*ssa.Alloc); ok && !al.Heap && !escapes[al] {
					last[al] = x.Val
				}
			case *ssa.UnOp:
				if al, ok := x.X.(*ssa.Alloc); ok && x.Op == token.MUL && !al.Heap && !escapes[al] {
					if v, has := last[al]; has {
						// replace every use of the load
						for _, bb := range fn.Blocks {
							for _, in2 := range bb.Instrs {
								rands = in2.Operands(rands[:0])
								for _, op := range rands {
									if *op == ssa.Value(x) {
										*op = v
									}
								}
							}
						}
						changed = true
						continue
					}
				}
			}
			out = append(out, in)
		}
		b.Instrs = out
	}
	return changed
}

func fullSplit(fn *ssa.Function, c *ssa.BasicBlock, phis []*ssa.Phi, extra []ssa.Instruction, iff *ssa.If, decide func(int) int) bool {
	dec := make([]int, len(c.Preds))
	seenPred := map[*ssa.BasicBlock]bool{}
	for i := range c.Preds {
		dec[i] = decide(i)
		if dec[i] < 0 || seenPred[c.Preds[i]] || c.Preds[i] == c {
			return false
		}
		seenPred[c.Preds[i]] = true
	}
	for _, t := range c.Succs {
		if len(t.Preds) != 1 || t == c {
			return false
		}
		for _, in := range t.Instrs {
			if _, isP := in.(*ssa.Phi); isP {
				return false
			}
		}
	}
	var defs []ssa.Value // values of C that may be used below it
	defined := map[ssa.Value]bool{}
	for _, ph := range phis {
		defined[ph] = true
		defs = append(defs, ph)
	}
	for _, in := range extra {
		if v, ok := in.(ssa.Value); ok {
			defined[v] = true
			defs = append(defs, v)
		}
	}
	var condBo ssa.Value
	if bo, isB := iff.Cond.(*ssa.BinOp); isB && bo.Block() == c {
		condBo = bo
	}
	region := func(b *ssa.BasicBlock) int {
		for k, t := range c.Succs {
			if t == b || t.Dominates(b) {
				return k
			}
		}
		return -1
	}
	var rands []*ssa.Value
	for _, b := range fn.Blocks {
		if b == c {
			continue
		}
		for _, in := range b.Instrs {
			rands = in.Operands(rands[:0])
			for _, op := range rands {
				if *op != nil && *op == condBo {
					return false // the comparison itself is used elsewhere
				}
				if !defined[*op] {
					continue
				}
				if _, isPhi := in.(*ssa.Phi); isPhi {
					return false // flows into a later φ: the edge it arrives on is not one of the targets' regions
				}
				if region(b) < 0 {
					return false
				}
			}
		}
	}
	// per predecessor: the values of C as seen when coming from it (φ inputs; the other instructions are copied into
	// a block of their own on that edge)
	vmaps := make([]map[ssa.Value]ssa.Value, len(c.Preds))
	via := make([]*ssa.BasicBlock, len(c.Preds)) // the block that now precedes the target on this way
	for i, pr := range c.Preds {
		vm := map[ssa.Value]ssa.Value{}
		for _, ph := range phis {
			vm[ph] = ph.Edges[i]
		}
		via[i] = pr
		if len(extra) > 0 {
			nb := &ssa.BasicBlock{Comment: "inl.split." + c.Comment}
			setUnexportedField(nb, "parent", fn)
			for _, in := range extra {
				ni := cloneInstr(in)
				setBlock(ni, nb)
				nb.Instrs = append(nb.Instrs, ni)
				if v, ok := in.(ssa.Value); ok {
					vm[v] = ni.(ssa.Value)
				}
			}
			for _, ni := range nb.Instrs {
				rands = ni.Operands(rands[:0])
				for _, op := range rands {
					if nv, ok := vm[*op]; ok && *op != nil {
						*op = nv
					}
				}
			}
			j := &ssa.Jump{}
			setBlock(j, nb)
			nb.Instrs = append(nb.Instrs, j)
			nb.Preds = []*ssa.BasicBlock{pr}
			fn.Blocks = append(fn.Blocks, nb)
			via[i] = nb
		}
		vmaps[i] = vm
	}
	for k, t := range c.Succs {
		var group []int
		for i := range c.Preds {
			if dec[i] == k {
				group = append(group, i)
			}
		}
		repl := map[ssa.Value]ssa.Value{}
		var newPhis []ssa.Instruction
		for _, v := range defs {
			switch len(group) {
			case 0:
			case 1:
				repl[v] = vmaps[group[0]][v]
			default:
				np := &ssa.Phi{Comment: "inl.split"}
				for _, i := range group {
					np.Edges = append(np.Edges, vmaps[i][v])
				}
				setRegisterType(np, v.Type())
				setBlock(np, t)
				newPhis = append(newPhis, np)
				repl[v] = np
			}
		}
		if len(group) > 0 {
			for _, b := range fn.Blocks {
				if b == c || region(b) != k {
					continue
				}
				for _, in := range b.Instrs {
					rands = in.Operands(rands[:0])
					for _, op := range rands {
						if nv, ok := repl[*op]; ok && *op != nil {
							*op = nv
						}
					}
				}
			}
		}
		t.Preds = nil
		for _, i := range group {
			pr := c.Preds[i]
			t.Preds = append(t.Preds, via[i])
			if via[i] != pr {
				via[i].Succs = []*ssa.BasicBlock{t}
			}
			for j, sc := range pr.Succs {
				if sc == c {
					if via[i] != pr {
						pr.Succs[j] = via[i]
					} else {
						pr.Succs[j] = t
					}
				}
			}
		}
		t.Instrs = append(newPhis, t.Instrs...)
	}
	c.Preds = nil
	for _, ph := range phis {
		ph.Edges = nil
	}
	return true
}
