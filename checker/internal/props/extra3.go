package props

import (
	"fmt"
	"go/ast"
	"go/constant"
	"go/token"
	"go/types"
	"math/big"
	"reflect"
	"sort"
	"strings"

	"golang.org/x/tools/go/ssa"

	"dblint/internal/core"
)

// Rules added after seeded round 14 (changes to declarations and to rarely touched functions).

func intBits(t types.Type) int {
	b, ok := t.Underlying().(*types.Basic)
	if !ok || b.Info()&types.IsInteger == 0 {
		return 0
	}
	switch b.Kind() {
	case types.Int8, types.Uint8:
		return 8
	case types.Int16, types.Uint16:
		return 16
	case types.Int32, types.Uint32:
		return 32
	}
	return 64
}

// wireReadsNotNarrowed: the result of a typed read (UintK/IntK of a BytesChannel or PacketQueue) in package tds is
// never converted to an integer type of fewer bits: a named wire type that is narrower than its slot drops the upper
// bytes of what the peer sent.
func wireReadsNotNarrowed(r *core.Run, rule string) {
	p := r.Prog
	n := 0
	for _, fn := range p.ModuleFuncs() {
		if fn.Blocks == nil || fn.Pkg == nil || fn.Pkg.Pkg.Name() != "tds" || p.FuncInOverlay(fn) {
			continue
		}
		for _, c := range core.Calls(fn) {
			obj := core.CalleeObj(c)
			if obj == nil || obj.Pkg() == nil || obj.Pkg().Name() != "tds" {
				continue
			}
			nm := obj.Name()
			if !(strings.HasPrefix(nm, "Uint") || strings.HasPrefix(nm, "Int")) || strings.HasPrefix(nm, "Write") {
				continue
			}
			sig := obj.Type().(*types.Signature)
			if sig.Recv() == nil || sig.Results().Len() != 2 || intBits(sig.Results().At(0).Type()) == 0 {
				continue
			}
			v := c.Value()
			if v == nil {
				continue
			}
			src := intBits(sig.Results().At(0).Type())
			var vals []ssa.Value
			for _, ref := range *v.Referrers() {
				if ex, ok := ref.(*ssa.Extract); ok && ex.Index == 0 {
					vals = append(vals, ex)
				}
			}
			bad := ""
			seen := map[ssa.Value]bool{}
			for len(vals) > 0 {
				x := vals[0]
				vals = vals[1:]
				if seen[x] {
					continue
				}
				seen[x] = true
				for _, ref := range *x.Referrers() {
					switch y := ref.(type) {
					case *ssa.Convert:
						if b := intBits(y.Type()); b != 0 && b < src {
							bad = core.TypeStr(y.Type())
						} else if b != 0 {
							vals = append(vals, y)
						}
					case *ssa.ChangeType:
						vals = append(vals, y)
					}
				}
			}
			n++
			key := core.FuncName(fn) + ": " + nm + " result keeps its width"
			if bad == "" {
				r.OK(rule, key, c.Pos(), "no narrower conversion of the value read")
			} else {
				r.Bad(rule, key, c.Pos(), fmt.Sprintf("the %d-bit value read by %s is converted to %s, which is narrower: the upper bytes the peer sent are dropped, so distinct wire values are taken for the same one (and are written back differently)", src, nm, bad))
			}
		}
	}
	r.Check(n >= 40, rule, "typed reads found", token.NoPos, fmt.Sprintf("%d typed reads", n), fmt.Sprintf("only %d typed reads found", n))
}

// errQueuesBuffered: no error queue of package tds is created without a buffer. The reader goroutine reports errors
// with a plain send; on an unbuffered queue it parks until somebody asks for the error, stops serving every channel,
// and never reaches its exit test after Close.
func errQueuesBuffered(r *core.Run, rule string) {
	p := r.Prog
	n := 0
	for _, fn := range p.ModuleFuncs() {
		if fn.Blocks == nil || fn.Pkg == nil || fn.Pkg.Pkg.Name() != "tds" || p.FuncInOverlay(fn) {
			continue
		}
		i := 0
		for _, b := range fn.Blocks {
			for _, in := range b.Instrs {
				mc, ok := in.(*ssa.MakeChan)
				if !ok {
					continue
				}
				ch, ok := mc.Type().Underlying().(*types.Chan)
				if !ok || !core.IsErrorType(ch.Elem()) {
					continue
				}
				i++
				n++
				sz, isC := core.ConstInt64(mc.Size)
				r.Check(!(isC && sz == 0), rule, fmt.Sprintf("%s: error queue #%d has a buffer", core.FuncName(fn), i), mc.Pos(), "buffered", "an error queue is created without a buffer: the reader goroutine's plain send parks until a caller asks for the error; meanwhile no channel is served, Close of the channel waits for the lock the reader holds, and after Conn.Close the reader never reaches its exit test")
			}
		}
	}
	r.Check(n >= 2, rule, "error queues found", token.NoPos, fmt.Sprintf("%d error queues", n), fmt.Sprintf("only %d error queues found", n))
}

// doneFamilyOneType: every package LookupPackage creates around a DonePackage is a *DonePackage itself (the type the
// finality tests assert), not a distinct type that embeds one.
func doneFamilyOneType(r *core.Run, rule string) {
	p := r.Prog
	fn := p.Func("tds", "", "LookupPackage")
	done := p.Named("tds", "DonePackage")
	n := 0
	for _, b := range fn.Blocks {
		for _, in := range b.Instrs {
			al, ok := in.(*ssa.Alloc)
			if !ok {
				continue
			}
			t := al.Type().(*types.Pointer).Elem()
			if types.Identical(t, done) {
				n++
				r.OK(rule, fmt.Sprintf("LookupPackage: DONE-family package #%d is a *DonePackage", n), al.Pos(), "the asserted type")
				continue
			}
			st, ok := t.Underlying().(*types.Struct)
			if !ok {
				continue
			}
			for i := 0; i < st.NumFields(); i++ {
				f := st.Field(i)
				ft := f.Type()
				if pt, ok := ft.(*types.Pointer); ok {
					ft = pt.Elem()
				}
				if f.Embedded() && types.Identical(ft, done) {
					r.Bad(rule, "LookupPackage: "+core.TypeStr(t)+" is a *DonePackage", al.Pos(), "LookupPackage creates a "+core.TypeStr(t)+", a distinct type that embeds DonePackage: the assertions lastPkgRx.(*DonePackage) do not recognise it, so a response that ends with this token gets a second, synthesised final DONE")
				}
			}
		}
	}
	r.Check(n >= 3, rule, "DONE-family allocations", fn.Pos(), fmt.Sprintf("%d", n), fmt.Sprintf("only %d *DonePackage allocations in LookupPackage (DONE, DONEPROC, DONEINPROC expected)", n))
}

// freshPacketPerRead: the packet Conn.ReadFrom hands to WritePacket is allocated in the same loop iteration.
func freshPacketPerRead(r *core.Run, rule string) {
	p := r.Prog
	fn := p.Func("tds", "Conn", "ReadFrom")
	wp := p.Func("tds", "Channel", "WritePacket")
	n := 0
	for _, c := range callsTo(fn, wp) {
		args := c.Common().Args
		v := core.Strip(args[len(args)-1])
		n++
		al, ok := v.(*ssa.Alloc)
		good := ok && al.Heap && al.Block() != c.Block() && reachesBlock(c.Block(), al.Block()) || ok && al.Block() == c.Block() && len(fn.Blocks) > 0 && reachesBlock(succOrSelf(c.Block()), al.Block())
		r.Check(good, rule, "Conn.ReadFrom: every packet handed to WritePacket is a new object", c.Pos(), "allocated inside the read loop", "the packet handed to WritePacket ("+core.Expr(v)+") is not allocated in the loop: the receive queue keeps pointers to the packets of a package that is only partly received, and the next read overwrites them")
	}
	r.Check(n > 0, rule, "WritePacket call in Conn.ReadFrom", fn.Pos(), "found", "Conn.ReadFrom does not call WritePacket")
}

func succOrSelf(b *ssa.BasicBlock) *ssa.BasicBlock {
	if len(b.Succs) > 0 {
		return b.Succs[0]
	}
	return b
}

// readerFieldsSetOnce: fields of tds.Conn that hold a reader of the transport are assigned by NewConn only.
func readerFieldsSetOnce(r *core.Run, rule string) {
	p := r.Prog
	conn := p.Named("tds", "Conn")
	st := conn.Underlying().(*types.Struct)
	ioReader := readerIface()
	owner := p.Func("tds", "", "NewConn")
	n := 0
	for _, fn := range p.ModuleFuncs() {
		if fn.Blocks == nil || p.FuncInOverlay(fn) {
			continue
		}
		outer := fn
		for outer.Parent() != nil {
			outer = outer.Parent()
		}
		for _, b := range fn.Blocks {
			for _, in := range b.Instrs {
				s, ok := in.(*ssa.Store)
				if !ok {
					continue
				}
				fa, ok := s.Addr.(*ssa.FieldAddr)
				if !ok {
					continue
				}
				f := core.FieldOfAddr(fa)
				if f == nil || !fieldOf(st, f) {
					continue
				}
				if !types.Implements(f.Type(), ioReader) && !types.Implements(types.NewPointer(f.Type()), ioReader) {
					continue
				}
				n++
				r.Check(outer == owner, rule, core.FuncName(outer)+": stores Conn."+f.Name(), s.Pos(), "the constructor", core.FuncName(outer)+" replaces Conn."+f.Name()+" on a live connection: bytes the old reader had already taken from the transport (the packets that arrived together with this one) are lost, so the same bytes parse differently depending on how the transport cut them")
			}
		}
	}
	r.Check(n > 0, rule, "stores of Conn's transport reader", token.NoPos, fmt.Sprintf("%d", n), "no store of a reader field of Conn found")
}

func fieldOf(st *types.Struct, f *types.Var) bool {
	for i := 0; i < st.NumFields(); i++ {
		if st.Field(i) == f {
			return true
		}
	}
	return false
}

func readerIface() *types.Interface {
	bs := types.NewSlice(types.Typ[types.Byte])
	errT := types.Universe.Lookup("error").Type()
	sig := types.NewSignatureType(nil, nil, nil, types.NewTuple(types.NewVar(0, nil, "p", bs)), types.NewTuple(types.NewVar(0, nil, "n", types.Typ[types.Int]), types.NewVar(0, nil, "err", errT)), false)
	i := types.NewInterfaceType([]*types.Func{types.NewFunc(0, nil, "Read", sig)}, nil)
	i.Complete()
	return i
}

// consumedLooksAtBoth: the computed answer of AllPacketsConsumed is given under an equality test of indexPacket with
// an expression of len(queue) (the position is IN the last packet), not on indexData alone.
func consumedLooksAtBoth(r *core.Run, rule string) {
	p := r.Prog
	fn := p.Func("tds", "PacketQueue", "AllPacketsConsumed")
	fIdxPacket := p.Field("tds", "PacketQueue", "indexPacket")
	fIdxData := p.Field("tds", "PacketQueue", "indexData")
	fQueue := p.Field("tds", "PacketQueue", "queue")
	var has func(v ssa.Value, what *types.Var, d int) bool
	has = func(v ssa.Value, what *types.Var, d int) bool {
		if v == nil || d > 5 {
			return false
		}
		if f, _ := core.FieldLoad(v); f != nil && f == what {
			return true
		}
		if what == fQueue && isLenOf(v, fQueue) {
			return true
		}
		switch x := v.(type) {
		case *ssa.BinOp:
			return has(x.X, what, d+1) || has(x.Y, what, d+1)
		case *ssa.Convert:
			return has(x.X, what, d+1)
		}
		return false
	}
	mentions := func(v ssa.Value, what string) bool {
		switch what {
		case "indexData":
			return has(v, fIdxData, 0)
		case "indexPacket":
			return has(v, fIdxPacket, 0)
		}
		return has(v, fQueue, 0)
	}
	isPosTest := func(g core.Guard) bool {
		bo, ok := g.Cond.(*ssa.BinOp)
		if !ok || (bo.Op != token.EQL && bo.Op != token.NEQ) {
			return false
		}
		if (bo.Op == token.EQL) != g.Pol {
			return false
		}
		return has(bo, fIdxPacket, 0) && has(bo, fQueue, 0)
	}
	n := 0
	for _, ret := range core.Returns(fn) {
		for _, v := range core.RetVals(ret) {
			var check func(v ssa.Value, gs []core.Guard, at token.Pos, d int)
			check = func(v ssa.Value, gs []core.Guard, at token.Pos, d int) {
				if _, isC := v.(*ssa.Const); isC || d > 4 {
					return
				}
				if phi, ok := v.(*ssa.Phi); ok {
					for i, e := range phi.Edges {
						pred := phi.Block().Preds[i]
						g2 := append(append([]core.Guard{}, core.GuardsOf(pred)...), core.GuardsOnEdge(pred, phi.Block())...)
						check(e, g2, at, d+1)
					}
					return
				}
				if !mentions(v, "indexData") {
					return
				}
				n++
				ok := false
				for _, g := range gs {
					if isPosTest(g) {
						ok = true
					}
				}
				// the value itself may be `a == b && c == d` folded into one expression by a rewrite
				if bo, isBo := v.(*ssa.BinOp); isBo && !ok {
					ok = mentions(bo, "indexPacket") && mentions(bo, "len(")
				}
				r.Check(ok, rule, "AllPacketsConsumed: the indexData test is made for the last packet", at, "under indexPacket == len(queue)-1", "AllPacketsConsumed answers from indexData ("+core.Expr(v)+") without having established that the position is in the last packet: a read that starts in an earlier packet at an offset equal to the newest packet's length is refused with not-enough-bytes, and at end of message the rest of the response is dropped")
			}
			check(v, core.GuardsOf(ret.Block()), ret.Pos(), 0)
		}
	}
	r.Check(n > 0, rule, "AllPacketsConsumed has a computed answer", fn.Pos(), "found", "no computed answer that looks at indexData was found")
}

// noResetBeforeSend: in no function of package tds can a call that discards the transmit queue (Channel.Reset, reset,
// queueTx.Reset; deferred calls excepted, they run at the exit) be followed by a call that sends on the same path.
func noResetBeforeSend(r *core.Run, rule string) {
	p := r.Prog
	resets := map[*ssa.Function]bool{p.Func("tds", "Channel", "Reset"): true}
	if f := p.TryFunc("tds", "Channel", "reset"); f != nil {
		resets[f] = true
	}
	sends := map[*ssa.Function]bool{}
	for _, nm := range []string{"SendPackage", "QueuePackage", "SendRemainingPackets", "sendPackets"} {
		sends[p.Func("tds", "Channel", nm)] = true
	}
	n := 0
	for _, fn := range p.ModuleFuncs() {
		if fn.Blocks == nil || fn.Pkg == nil || fn.Pkg.Pkg.Name() != "tds" || p.FuncInOverlay(fn) || resets[fn] {
			continue
		}
		var rs, ss []ssa.CallInstruction
		for _, c := range core.Calls(fn) {
			if _, isD := c.(*ssa.Defer); isD {
				continue
			}
			f := core.StaticCallee(c)
			if isTxReset(p, c, 0) {
				rs = append(rs, c)
			}
			if sends[f] {
				ss = append(ss, c)
			}
		}
		for i, rc := range rs {
			n++
			bad := ""
			for _, sc := range ss {
				if after(rc, sc) {
					bad = sc.Common().StaticCallee().Name()
				}
			}
			r.Check(bad == "", rule, fmt.Sprintf("%s: reset #%d is not followed by a send", core.FuncName(fn), i+1), rc.Pos(), "no send call reachable after it", "the transmit queue is discarded and "+bad+" is called afterwards on the same path: bytes of a package that were queued but not yet flushed are lost, the peer sees a truncated message followed by the new one")
		}
	}
	r.Check(n >= 2, rule, "reset calls found", token.NoPos, fmt.Sprintf("%d", n), fmt.Sprintf("only %d reset calls found", n))
}

// after: b can execute after a within one function.
func after(a, b ssa.Instruction) bool {
	if a.Block() == b.Block() {
		ia, ib := -1, -1
		for i, in := range a.Block().Instrs {
			if in == a {
				ia = i
			}
			if in == b {
				ib = i
			}
		}
		if ib > ia {
			return true
		}
	}
	for _, s := range a.Block().Succs {
		if reachesBlock(s, b.Block()) {
			return true
		}
	}
	return false
}

// readFromPassesData: every success return of fieldDataBase.readFrom has read the data bytes.
func readFromPassesData(r *core.Run, rule string) {
	p := r.Prog
	fn := p.Func("tds", "fieldDataBase", "readFrom")
	var data ssa.CallInstruction
	for _, c := range core.Calls(fn) {
		if m := core.InvokeOf(c); m != nil && m.Name() == "Bytes" {
			data = c
		}
	}
	if !r.Check(data != nil, rule, "fieldDataBase.readFrom reads the data with ch.Bytes", fn.Pos(), "found", "no ch.Bytes call in fieldDataBase.readFrom") {
		return
	}
	n := 0
	for _, ret := range core.Returns(fn) {
		vs := core.RetVals(ret)
		if len(vs) != 2 || !core.IsNil(vs[1]) {
			continue
		}
		n++
		r.Check(core.Dominates(data, ret), rule, fmt.Sprintf("fieldDataBase.readFrom: success return #%d has read length and data", n), ret.Pos(), "dominated by the data read", "fieldDataBase.readFrom reports success on a path that has not read the value's length and bytes, which writeTo always writes: the unread bytes are taken for the next column or package")
	}
	r.Check(n > 0, rule, "success returns of fieldDataBase.readFrom", fn.Pos(), "found", "none found")
}

// lookupSiblingsAgree: LookupFieldFmt and LookupFieldData create, for one data type constant, the XFieldFmt and
// XFieldData of the same X.
func lookupSiblingsAgree(r *core.Run, rule string) {
	p := r.Prog
	table := func(fn *ssa.Function, suffix string) map[int64]string {
		out := map[int64]string{}
		// switch lowering: blocks guarded by tag == const; the Alloc in the guarded block
		for _, b := range fn.Blocks {
			for _, in := range b.Instrs {
				al, ok := in.(*ssa.Alloc)
				if !ok || !al.Heap {
					continue
				}
				nt, ok := al.Type().(*types.Pointer).Elem().(*types.Named)
				if !ok || !strings.HasSuffix(nt.Obj().Name(), suffix) {
					continue
				}
				for _, pr := range b.Preds {
					iff, ok := pr.Instrs[len(pr.Instrs)-1].(*ssa.If)
					if !ok || pr.Succs[0] != b {
						continue
					}
					bo, ok := iff.Cond.(*ssa.BinOp)
					if !ok || bo.Op != token.EQL {
						continue
					}
					if c, ok := core.ConstInt64(bo.Y); ok {
						out[c] = strings.TrimSuffix(nt.Obj().Name(), suffix)
					}
				}
			}
		}
		return out
	}
	fm := table(p.Func("tds", "", "LookupFieldFmt"), "FieldFmt")
	dm := table(p.Func("tds", "", "LookupFieldData"), "FieldData")
	var ks []int64
	for k := range fm {
		ks = append(ks, k)
	}
	sort.Slice(ks, func(i, j int) bool { return ks[i] < ks[j] })
	n := 0
	for _, k := range ks {
		d, ok := dm[k]
		if !ok {
			continue
		}
		n++
		r.Check(d == fm[k], rule, fmt.Sprintf("data type %#x: format and data are siblings (%s)", k, fm[k]), p.Func("tds", "", "LookupFieldData").Pos(), "same family", fmt.Sprintf("for data type %#x LookupFieldFmt creates %sFieldFmt but LookupFieldData creates %sFieldData: a value announced with this type is read with the other type's length prefix and passes type assertions meant to reject it", k, fm[k], d))
	}
	r.Check(n >= 30, rule, "format/data table rows compared", token.NoPos, fmt.Sprintf("%d", n), fmt.Sprintf("only %d rows found in both lookup functions", n))
}

// liveSizeGetter: NewChannel hands the connection's PacketSize method itself to both packet queues.
func liveSizeGetter(r *core.Run, rule string) {
	p := r.Prog
	fn := p.Func("tds", "Conn", "NewChannel")
	npq := p.Func("tds", "", "NewPacketQueue")
	want := p.Func("tds", "Conn", "PacketSize")
	n := 0
	for _, c := range callsTo(fn, npq) {
		n++
		a := core.Strip(c.Common().Args[0])
		ok := false
		if mc, isMC := a.(*ssa.MakeClosure); isMC {
			if f, isF := mc.Fn.(*ssa.Function); isF && p.UnboundMethod(f) == want {
				ok = true
			}
		}
		r.Check(ok, rule, fmt.Sprintf("Conn.NewChannel: packet queue #%d asks Conn.PacketSize", n), c.Pos(), "the method value tds.PacketSize", "the queue gets "+core.Expr(a)+" instead of the connection's PacketSize method: after a packet-size change the queue keeps building packets of the size captured at construction while sendPackets compares with the live size, so full packets are flagged end-of-message or sent twice")
	}
	r.Check(n == 2, rule, "NewChannel creates the rx and tx queue", fn.Pos(), "2 NewPacketQueue calls", fmt.Sprintf("%d NewPacketQueue calls", n))
}

// resetOnEveryExit: SendRemainingPackets resets the channel on every exit after the closed test (a deferred call
// registered before the send, or a call that post-dominates it).
func resetOnEveryExit(r *core.Run, rule string) {
	p := r.Prog
	fn := p.Func("tds", "Channel", "SendRemainingPackets")
	send := p.Func("tds", "Channel", "sendPackets")
	sc := callsTo(fn, send)
	if !r.Check(len(sc) > 0, rule, "SendRemainingPackets calls sendPackets", fn.Pos(), "found", "no sendPackets call") {
		return
	}
	var resets []ssa.CallInstruction
	for _, c := range core.Calls(fn) {
		if isTxReset(p, c, 0) {
			resets = append(resets, c)
		}
	}
	ok := false
	for _, c := range resets {
		if d, isD := c.(*ssa.Defer); isD && core.Dominates(d, sc[0]) {
			ok = true
		}
	}
	if !ok {
		// explicit form: every return reachable from the send is preceded by a reset call in a block that dominates it
		ok = true
		any := false
		for _, ret := range core.Returns(fn) {
			if !after(sc[0], ret) {
				continue
			}
			any = true
			has := false
			for _, c := range resets {
				if _, isD := c.(*ssa.Defer); !isD && core.Dominates(c, ret) && after(sc[0], c) {
					has = true
				}
			}
			if !has {
				ok = false
			}
		}
		ok = ok && any
	}
	r.Check(ok, rule, "SendRemainingPackets: the channel is reset on every exit after the flush", sc[0].Pos(), "deferred reset before the flush (or a reset before every return)", "SendRemainingPackets can return after a failed flush without resetting the channel: the unsent tail of the message (password ciphertexts made for the old nonce) stays queued and is sent in front of the next message")
}

// levelConstsTyped: the keys of the isolation level table are constants declared with type ASEIsolationLevel.
func levelConstsTyped(r *core.Run, rule string) {
	p := r.Prog
	pk := p.Pkg("")
	named := p.Named("", "ASEIsolationLevel")
	n := 0
	sc := pk.Types.Scope()
	for _, nm := range sc.Names() {
		c, ok := sc.Lookup(nm).(*types.Const)
		if !ok || !strings.HasPrefix(nm, "ASELevel") || p.InOverlay(c.Pos()) {
			continue
		}
		n++
		r.Check(types.Identical(c.Type(), named), rule, "constant "+nm+" has type ASEIsolationLevel", c.Pos(), "typed", "constant "+nm+" is declared as "+core.TypeStr(c.Type())+": in an interface value, a := declaration or a fmt argument it is a plain integer without String/ToGo, so the same level prints as a number here and as a name where it came from ASEIsolationLevelFromGo")
	}
	r.Check(n >= 5, rule, "level constants found", token.NoPos, fmt.Sprintf("%d", n), fmt.Sprintf("only %d ASELevel* constants found", n))
}

// pow10TablesExact: every package-level array or slice literal of asetypes whose first two elements are 1 and 10 holds
// 10^i at index i.
func pow10TablesExact(r *core.Run, rule string) {
	p := r.Prog
	pk := p.Pkg("asetypes")
	n := 0
	for id, obj := range pk.TypesInfo.Defs {
		v, ok := obj.(*types.Var)
		if !ok || v.Parent() != pk.Types.Scope() || p.InOverlay(id.Pos()) {
			continue
		}
		var elems []constant.Value
		for _, f := range pk.Syntax {
			if f.Pos() <= id.Pos() && id.Pos() < f.End() {
				elems = compositeConsts(pk.TypesInfo, f, id)
			}
		}
		if len(elems) < 3 || elems[0] == nil || elems[1] == nil || elems[0].ExactString() != "1" || elems[1].ExactString() != "10" {
			continue
		}
		n++
		bad := -1
		for i, e := range elems {
			want := new(big.Int).Exp(big.NewInt(10), big.NewInt(int64(i)), nil)
			if e == nil || constant.ToInt(e).ExactString() != want.String() {
				bad = i
				break
			}
		}
		r.Check(bad < 0, rule, "table "+v.Name()+" holds 10^i at index i", v.Pos(), "exact", fmt.Sprintf("element %d of the power-of-ten table %s is not 10^%d: every numeral scaled through this entry (and all later ones) gets a value ten times off", bad, v.Name(), bad))
	}
	r.OK(rule, "asetypes: power-of-ten tables scanned", token.NoPos, fmt.Sprintf("%d tables", n))
}

// aliasKeysUnique: in every struct of the module that carries dsn tags (json + multiref), flattened over embedded
// structs, no alias is claimed by two fields.
func aliasKeysUnique(r *core.Run, rule string) {
	p := r.Prog
	n := 0
	for _, rel := range []string{"dsn", "tds"} {
		pk := p.Pkg(rel)
		sc := pk.Types.Scope()
		for _, nm := range sc.Names() {
			tn, ok := sc.Lookup(nm).(*types.TypeName)
			if !ok || p.InOverlay(tn.Pos()) || tn.IsAlias() {
				continue
			}
			st, ok := tn.Type().Underlying().(*types.Struct)
			if !ok {
				continue
			}
			keys := map[string][]string{}
			hasMulti := false
			var walk func(st *types.Struct, prefix string)
			walk = func(st *types.Struct, prefix string) {
				for i := 0; i < st.NumFields(); i++ {
					f := st.Field(i)
					if s2, ok := f.Type().Underlying().(*types.Struct); ok && f.Type().String() != "time.Time" {
						walk(s2, prefix+f.Name()+".")
						continue
					}
					tag := reflect.StructTag(st.Tag(i))
					js := strings.Split(tag.Get("json"), ",")[0]
					if js == "" {
						continue
					}
					names := []string{js}
					if m := tag.Get("multiref"); m != "" {
						hasMulti = true
						names = append(names, strings.Split(m, ",")...)
					}
					for _, k := range names {
						if k != "" {
							keys[k] = append(keys[k], prefix+f.Name())
						}
					}
				}
			}
			walk(st, "")
			if !hasMulti {
				continue
			}
			n++
			var dups []string
			for k, fs := range keys {
				if len(fs) > 1 {
					dups = append(dups, fmt.Sprintf("%q (%s)", k, strings.Join(fs, ", ")))
				}
			}
			sort.Strings(dups)
			r.Check(len(dups) == 0, rule, rel+"."+nm+": every alias names one field", tn.Pos(), "unique", "alias "+strings.Join(dups, "; ")+" is claimed by two fields: the parsers set only the field merged last, so the host written by FormatURI/FormatSimple is lost on the way back")
		}
	}
	r.Check(n >= 2, rule, "tagged structs found", token.NoPos, fmt.Sprintf("%d", n), fmt.Sprintf("only %d structs with multiref tags found", n))
}

// atomic64Aligned: every struct field used with a 64-bit sync/atomic function lies at an offset that is a multiple of
// 8 under the 32-bit size model.
func atomic64Aligned(r *core.Run, rule string) {
	p := r.Prog
	sizes := types.SizesFor("gc", "386")
	n := 0
	for _, fn := range p.ModuleFuncs() {
		if fn.Blocks == nil || p.FuncInOverlay(fn) {
			continue
		}
		for _, c := range core.Calls(fn) {
			obj := core.CalleeObj(c)
			if obj == nil || obj.Pkg() == nil || obj.Pkg().Path() != "sync/atomic" || !strings.HasSuffix(obj.Name(), "64") || len(c.Common().Args) == 0 {
				continue
			}
			fa, ok := c.Common().Args[0].(*ssa.FieldAddr)
			if !ok {
				continue
			}
			st := fa.X.Type().(*types.Pointer).Elem().Underlying().(*types.Struct)
			var fs []*types.Var
			for i := 0; i < st.NumFields(); i++ {
				fs = append(fs, st.Field(i))
			}
			off := sizes.Offsetsof(fs)[fa.Field]
			n++
			r.Check(off%8 == 0, rule, core.FuncName(fn)+": "+obj.Name()+" on "+st.Field(fa.Field).Name()+" is 8-byte aligned on 32-bit targets", c.Pos(), fmt.Sprintf("offset %d", off), fmt.Sprintf("field %s lies at offset %d on 386/arm/mips: %s panics there with an unaligned 64-bit atomic operation, so no name is ever minted", st.Field(fa.Field).Name(), off, obj.Name()))
		}
	}
	r.Check(n > 0, rule, "64-bit atomic operations on struct fields", token.NoPos, fmt.Sprintf("%d", n), "none found")
}

// hooksRunUnlocked: in the functions that call callEnvChangeHooks / callEEDHooks, no lock taken earlier in the same
// function is still held on some path when the call is made (may-hold; a deferred unlock runs only at the exit). The
// locks the callers hold by design (the channel's read lock, the hook list's own lock inside the dispatcher) are not
// the subject of this rule.
func hooksRunUnlocked(r *core.Run, rule string) {
	p := r.Prog
	n := 0
	// may-hold clause, within the functions that call call*Hooks themselves: a lock taken on SOME path to the call and
	// not released before it (a deferred unlock runs only at the exit)
	isDispatch := func(f *ssa.Function) bool {
		return f != nil && f.Pkg != nil && f.Pkg.Pkg.Name() == "tds" && strings.HasPrefix(f.Name(), "call") && strings.HasSuffix(f.Name(), "Hooks")
	}
	lockName := func(c ssa.CallInstruction) (string, string) {
		if _, isD := c.(*ssa.Defer); isD {
			return "", ""
		}
		obj := core.CalleeObj(c)
		if obj == nil || obj.Pkg() == nil || obj.Pkg().Path() != "sync" || len(c.Common().Args) == 0 {
			return "", ""
		}
		switch obj.Name() {
		case "Lock", "RLock", "Unlock", "RUnlock":
			return obj.Name(), core.KExpr(c.Common().Args[0])
		}
		return "", ""
	}
	for _, fn := range p.ModuleFuncs() {
		if fn.Blocks == nil || fn.Pkg == nil || fn.Pkg.Pkg.Name() != "tds" || p.FuncInOverlay(fn) || isDispatch(fn) {
			continue
		}
		var sites []ssa.CallInstruction
		for _, c := range core.Calls(fn) {
			if isDispatch(core.StaticCallee(c)) {
				sites = append(sites, c)
			}
		}
		if len(sites) == 0 {
			continue
		}
		for _, cs := range sites {
			held := ""
			for _, l := range core.Calls(fn) {
				op, key := lockName(l)
				if op != "Lock" && op != "RLock" {
					continue
				}
				// forward search from l to cs that stops at a matching unlock
				seen := map[*ssa.BasicBlock]bool{}
				var walk func(b *ssa.BasicBlock, from int) bool
				walk = func(b *ssa.BasicBlock, from int) bool {
					for i := from; i < len(b.Instrs); i++ {
						in := b.Instrs[i]
						if in == ssa.Instruction(cs) {
							return true
						}
						if c2, ok := in.(ssa.CallInstruction); ok {
							if op2, key2 := lockName(c2); key2 == key && (op2 == "Unlock" || op2 == "RUnlock") {
								return false
							}
						}
					}
					for _, s := range b.Succs {
						if !seen[s] {
							seen[s] = true
							if walk(s, 0) {
								return true
							}
						}
					}
					return false
				}
				idx := 0
				for i, in := range l.Block().Instrs {
					if in == ssa.Instruction(l) {
						idx = i + 1
					}
				}
				if walk(l.Block(), idx) {
					held = key
				}
			}
			n++
			r.Check(held == "", rule, core.FuncName(fn)+": no lock taken on the way to "+cs.Common().StaticCallee().Name(), cs.Pos(), "none", "the lock "+held+" taken earlier in "+core.FuncName(fn)+" is still held on some path when the hooks are called (a deferred unlock runs only at the exit): a hook that asks the connection for the state it guards blocks the reader goroutine for good")
		}
	}
	r.Check(n >= 1, rule, "hook dispatch sites", token.NoPos, fmt.Sprintf("%d", n), fmt.Sprintf("only %d hook dispatch sites found", n))
}

// compositeConsts returns the constant values of the elements of the composite literal that initialises id (nil
// entries for non-constant elements); nil if id is not initialised by an array or slice literal.
func compositeConsts(info *types.Info, f *ast.File, id *ast.Ident) []constant.Value {
	var out []constant.Value
	ast.Inspect(f, func(n ast.Node) bool {
		vs, ok := n.(*ast.ValueSpec)
		if !ok {
			return true
		}
		for i, nm := range vs.Names {
			if nm != id || i >= len(vs.Values) {
				continue
			}
			cl, ok := vs.Values[i].(*ast.CompositeLit)
			if !ok {
				return false
			}
			switch info.TypeOf(cl).Underlying().(type) {
			case *types.Array, *types.Slice:
			default:
				return false
			}
			for _, e := range cl.Elts {
				if kv, isKV := e.(*ast.KeyValueExpr); isKV {
					e = kv.Value
				}
				if tv, ok := info.Types[e]; ok && tv.Value != nil {
					out = append(out, tv.Value)
				} else {
					out = append(out, nil)
				}
			}
		}
		return false
	})
	return out
}

// byteSizesMatchNames: TDS names the fixed-width numeric types after their width in bytes (INT4, UINT8, FLT8, SINT1);
// asetypes.ByteSizes must list exactly that width for them.
func byteSizesMatchNames(r *core.Run, rule string) {
	p := r.Prog
	pk := p.Pkg("asetypes")
	n := 0
	for _, f := range pk.Syntax {
		ast.Inspect(f, func(nd ast.Node) bool {
			vs, ok := nd.(*ast.ValueSpec)
			if !ok || len(vs.Names) != 1 || vs.Names[0].Name != "ByteSizes" || len(vs.Values) != 1 || p.InOverlay(vs.Pos()) {
				return true
			}
			cl, ok := vs.Values[0].(*ast.CompositeLit)
			if !ok {
				return false
			}
			for _, e := range cl.Elts {
				kv, ok := e.(*ast.KeyValueExpr)
				if !ok {
					continue
				}
				id, ok := kv.Key.(*ast.Ident)
				if !ok {
					continue
				}
				nm := id.Name
				base := strings.TrimRight(nm, "0123456789")
				if base == nm || (base != "INT" && base != "UINT" && base != "SINT" && base != "FLT") {
					continue
				}
				tv := pk.TypesInfo.Types[kv.Value]
				n++
				r.Check(tv.Value != nil && tv.Value.ExactString() == nm[len(base):], rule, "ByteSizes["+nm+"] is the width in the type's name", kv.Pos(), "matches", "ByteSizes lists "+nm+" with a width other than "+nm[len(base):]+" bytes: the reader asks the queue for too few bytes, so a truncated value fails with a conversion error instead of not-enough-bytes (and a complete one is cut)")
			}
			return false
		})
	}
	r.Check(n >= 10, rule, "ByteSizes entries of width-named types", token.NoPos, fmt.Sprintf("%d", n), fmt.Sprintf("only %d found", n))
}

// noNilChannelRegistered: no statement of package tds stores a nil *Channel into Conn.tdsChannels (Conn.ReadFrom
// calls WritePacket on whatever the lookup finds).
func noNilChannelRegistered(r *core.Run, rule string) {
	p := r.Prog
	fld := p.Field("tds", "Conn", "tdsChannels")
	n := 0
	for _, fn := range p.ModuleFuncs() {
		if fn.Blocks == nil || p.FuncInOverlay(fn) {
			continue
		}
		i := 0
		for _, b := range fn.Blocks {
			for _, in := range b.Instrs {
				mu, ok := in.(*ssa.MapUpdate)
				if !ok {
					continue
				}
				f, _ := core.FieldLoad(mu.Map)
				if f != fld {
					continue
				}
				i++
				n++
				r.Check(!core.IsNil(core.Strip(mu.Value)), rule, fmt.Sprintf("%s: channel map update #%d stores a channel", core.FuncName(fn), i), mu.Pos(), "a non-nil channel", "a nil *Channel is stored in Conn.tdsChannels: the reader's lookup still finds the entry, calls WritePacket on it and dies with a nil dereference when the server sends one more packet for that channel")
			}
		}
	}
	r.Check(n >= 1, rule, "updates of Conn.tdsChannels", token.NoPos, fmt.Sprintf("%d", n), "none found")
}

// readErrorsDecideAlone: wherever package tds tests the error of a BytesChannel read against nil, the non-nil edge
// reaches error returns only: the test is not weakened by a second condition (Bytes pads its result to the requested
// length, so a length test beside the error test is always false).
func readErrorsDecideAlone(r *core.Run, rule string) {
	p := r.Prog
	n := 0
	for _, fn := range p.ModuleFuncs() {
		if fn.Blocks == nil || fn.Pkg == nil || fn.Pkg.Pkg.Name() != "tds" || p.FuncInOverlay(fn) {
			continue
		}
		sig := fn.Signature.Results()
		if sig.Len() == 0 || !core.IsErrorType(sig.At(sig.Len()-1).Type()) {
			continue
		}
		k := 0
		for _, c := range core.Calls(fn) {
			m := core.InvokeOf(c)
			if m == nil || m.Pkg() == nil || m.Pkg().Name() != "tds" {
				continue
			}
			nm := m.Name()
			if !(nm == "Bytes" || nm == "Byte" || nm == "String" || strings.HasPrefix(nm, "Uint") || strings.HasPrefix(nm, "Int")) {
				continue
			}
			e, has := errResult(c)
			if !has || e == nil {
				continue
			}
			vals := map[ssa.Value]bool{e: true}
			for ch := true; ch; {
				ch = false
				for v := range vals {
					for _, ref := range *v.Referrers() {
						if phi, ok := ref.(*ssa.Phi); ok && !vals[phi] {
							vals[phi] = true
							ch = true
						}
					}
				}
			}
			why := ""
			tested := false
			for v := range vals {
				for _, ref := range *v.Referrers() {
					bo, ok := ref.(*ssa.BinOp)
					if !ok {
						continue
					}
					_, nn, isT := core.ErrNilTest(bo)
					if !isT {
						continue
					}
					for _, r2 := range *bo.Referrers() {
						iff, ok := r2.(*ssa.If)
						if !ok {
							continue
						}
						tested = true
						s := iff.Block().Succs[1]
						if nn {
							s = iff.Block().Succs[0]
						}
						core.EnumPaths(s, func(b *ssa.BasicBlock) bool { return false }, nil, 2000, func(pa core.Path, ended bool) {
							last := pa.Blocks[len(pa.Blocks)-1]
							ret, isRet := last.Instrs[len(last.Instrs)-1].(*ssa.Return)
							if !isRet {
								return
							}
							rv := core.RetVals(ret)
							if core.IsNil(rv[len(rv)-1]) {
								why = "after the read failed a return without error is reachable (" + p.Pos(ret.Pos()) + ")"
							}
						})
					}
				}
			}
			if !tested {
				continue
			}
			k++
			n++
			r.Check(why == "", rule, fmt.Sprintf("%s: failed read #%d (%s) ends in an error", core.FuncName(fn), k, nm), c.Pos(), "err != nil leads to error returns only", why+": a value whose bytes were not received is decoded from the zero padding and the package is delivered although only part of it arrived")
		}
	}
	r.Check(n >= 100, rule, "tested read errors", token.NoPos, fmt.Sprintf("%d", n), fmt.Sprintf("only %d tested read errors found", n))
}

// zeroBytesSucceed: every not-enough-bytes return of PacketQueue.Bytes is given under a test of the requested count
// (the n == 0 shortcut, or a loop condition on what is still missing): asking for nothing succeeds also at the end of
// the data, so a package that ends with an empty value exactly where the received data ends is complete.
func zeroBytesSucceed(r *core.Run, rule string) {
	p := r.Prog
	fn := p.Func("tds", "PacketQueue", "Bytes")
	np := fn.Params[1]
	var uses func(v ssa.Value, d int) bool
	uses = func(v ssa.Value, d int) bool {
		if v == ssa.Value(np) {
			return true
		}
		if d > 3 {
			return false
		}
		if in, ok := v.(ssa.Instruction); ok {
			if _, isPhi := v.(*ssa.Phi); isPhi {
				return false
			}
			for _, op := range in.Operands(nil) {
				if *op != nil && uses(*op, d+1) {
					return true
				}
			}
		}
		return false
	}
	n := 0
	for _, ret := range core.Returns(fn) {
		rv := core.RetVals(ret)
		if len(rv) != 2 || core.IsNil(rv[1]) {
			continue
		}
		n++
		ok := false
		for _, g := range core.GuardsOf(ret.Block()) {
			if bo, isBo := g.Cond.(*ssa.BinOp); isBo && (uses(bo.X, 0) || uses(bo.Y, 0)) {
				ok = true
			}
		}
		r.Check(ok, rule, fmt.Sprintf("PacketQueue.Bytes: error return #%d is given only when bytes were asked for", n), ret.Pos(), "under a test of n", "Bytes can report not-enough-bytes without having looked at n: Bytes(0) fails at the end of the received data, so a package whose last value is empty and which ends exactly there is rolled back, delivered one packet late, or never when the transport dies")
	}
	r.Check(n > 0, rule, "error returns of Bytes", fn.Pos(), "found", "none")
}

// isTxReset: c discards the transmit queue of a channel: Channel.Reset, Channel.reset (where it exists),
// PacketQueue.Reset on a channel's queueTx, or a function literal that does one of these.
func isTxReset(p *core.Prog, c ssa.CallInstruction, depth int) bool {
	f := core.StaticCallee(c)
	if f == nil {
		if mc, ok := c.Common().Value.(*ssa.MakeClosure); ok {
			f, _ = mc.Fn.(*ssa.Function)
		}
	}
	if f == nil {
		return false
	}
	if f == p.Func("tds", "Channel", "Reset") || (p.TryFunc("tds", "Channel", "reset") != nil && f == p.TryFunc("tds", "Channel", "reset")) {
		return true
	}
	if f == p.Func("tds", "PacketQueue", "Reset") && len(c.Common().Args) > 0 {
		fld, _ := core.FieldLoad(c.Common().Args[0])
		return fld != nil && fld == p.Field("tds", "Channel", "queueTx")
	}
	if f.Parent() != nil && depth < 2 {
		for _, c2 := range core.Calls(f) {
			if isTxReset(p, c2, depth+1) {
				return true
			}
		}
	}
	return false
}
