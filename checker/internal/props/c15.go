package props

import (
	"fmt"
	"go/token"
	"go/types"
	"strings"

	"dblint/internal/core"

	"golang.org/x/tools/go/ssa"
)

func init() {
	register(&Spec{ID: "C15", Title: "The packet queue behaves as a byte FIFO across packet boundaries", Run: runC15,
		Meta: core.Meta{
			Explanation: "R15.19 = R14.24. R15.18: the computed answer of AllPacketsConsumed that looks at indexData is given under an equality test of indexPacket against an expression of len(queue) (R15.5 only asks for some comparison). R15.17: PacketQueue.WriteBytes contains exactly one call of the builtin copy. R15.16: tds.ErrNotEnoughBytes is errors.New(...) and PacketQueue.Read returns the error value of its Bytes call itself. R15.2 also covers String: it returns string(bs) of the very slice Bytes(n) returned for the requested n. R15.15 = R01.9 (PacketQueue.packetSize is stored only by NewPacketQueue and is its parameter itself, not a wrapper that clamps or rounds the size). Clauses of the FIFO property whose truth is in the shape of the code; the step-by-step equality with a flat byte model is not decided. R15.1 (io.Reader / io.Writer clause): in every method of the module with the io.Reader signature the caller's slice is written (operand of copy, of an element store, or handed to a callee that does); PacketQueue.Write hands its slice to WriteBytes. R15.2 (typed read/write sibling table): UintK = Bytes(K/8) + endian.UintK, WriteUintK = make([]byte, K/8) + endian.PutUintK + WriteBytes, IntK/WriteIntK delegate to the unsigned sibling of the same width through a conversion, Byte/WriteByte use one byte, String/WriteString delegate to Bytes/WriteBytes; the package-level `endian` is assigned nowhere after its initialiser. R15.3: Bytes returns only nil/ErrNotEnoughBytes and succeeds only when n bytes were copied (C07 R07.2). R15.4: Reset assigns all four state fields. R15.5: AllPacketsConsumed's answer always depends on the packet index having reached the end of the queue: every non-false answer is a comparison of indexPacket with len(queue), or is computed under such a comparison. R15.6: the live packet size (packetSize()) only sizes NEW packets; free space in the packet being filled is computed from that packet's own header length/body (a size change while a packet is partly filled must not change its capacity). R15.7: DiscardUntilCurrentPosition evaluates its end-of-packet test after the queue was shifted and indexPacket reset, on queue[indexPacket] (the packet under the position). The test includes equality (indexData >= len or == len): a packet consumed exactly to its end is dropped. R15.11: every error return of Bytes lies on the true edge of AllPacketsConsumed() — an empty or exhausted packet in front of further data is stepped over, not reported as the end. R15.14 (E-OWN): none of the typed readers/writers accesses queue, indexPacket or indexData itself. R15.13: every NewPacket call of WriteBytes is guarded by a comparison of indexPacket with len(queue) or by `free bytes == 0` computed from the current packet's own Header.Length. R15.12 (E-OWN): every store to Packet.Data in the module assigns nil, a slice allocated by make in the same function, or a slice of the same packet's Data; storing (a slice of) a caller's buffer would make later reads return whatever the caller writes into it afterwards. R15.8: AddPacket changes nothing but recvEOM and queue = append(queue, packet). R15.10: SetPosition stores both of its parameters into indexPacket/indexData on every path (a position obtained from Position() is always a valid position, including the one just behind the last packet). R15.1 also requires that Read asks Bytes for exactly len(p) bytes of its parameter and copies into that parameter. R15.9 = R02.6 (read results are fresh buffers).",
			NotDecided:  "Copy arithmetic across packets, discard, fill order and position save/restore semantics are not decided.",
			Assumptions: []string{"encoding/binary ByteOrder semantics"},
		}})
}

func runC15(r *core.Run) {
	p := r.Prog
	ef := newErrFlow(p)
	r.Rule("R15.1", "Read fills / Write consumes the caller's buffer", 2, true)
	r.Rule("R15.2", "typed readers and writers are width-consistent siblings over one byte order", 21, false)
	r.Rule("R15.3", "Bytes: nil/ErrNotEnoughBytes only; success only with n bytes", 2, false)
	r.Rule("R15.4", "Reset restores the whole state", 1, false)
	r.Rule("R15.5", "AllPacketsConsumed depends on the packet index reaching the end of the queue", 1, false)
	r.Rule("R15.7", "DiscardUntilCurrentPosition drops the packet under the position only, after the shift", 1, false)
	r.Rule("R15.11", "Bytes reports not-enough-bytes only when every queued packet is consumed", 1, false)
	r.Rule("R15.14", "typed readers and writers touch the stream only through Bytes / WriteBytes", 20, false)
	r.Rule("R15.13", "WriteBytes opens a packet only when none is under the write index or the current one is full", 2, false)
	r.Rule("R15.12", "packet bodies are the queue's own memory: Packet.Data is assigned nil, a fresh make, or a slice of itself", 4, false)
	r.Rule("R15.8", "AddPacket only appends: it neither moves the position nor drops queued packets", 1, false)
	r.Rule("R15.9", "read results do not alias queue storage", 1, false)
	r.Rule("R15.10", "SetPosition restores exactly the given position, unconditionally", 1, false)
	r.Rule("R15.6", "the live packet size only sizes new packets", 1, true)
	r.Rule("R15.15", "written data is laid out in packets of the caller's packet size: NewPacketQueue stores the size function it is given (R01.9)", 4, false)
	defer c01OneSize(r, "R15.15")
	defer c15StringIsBytes(r, "R15.2")
	r.Rule("R15.16", "not-enough-bytes is a plain sentinel and Read hands on the error of Bytes", 2, false)
	defer sentinelsArePlain(r, "R15.16", "ErrNotEnoughBytes")
	defer c15ReadHandsOn(r)
	r.Rule("R15.17", "WriteBytes copies the caller's bytes into packets in one place", 1, false)
	defer oneCopySite(r, "R15.17")
	r.Rule("R15.18", "AllPacketsConsumed tests indexData only for the last packet", 1, false)
	defer consumedLooksAtBoth(r, "R15.18")
	r.Rule("R15.19", "reading nothing succeeds everywhere (R14.24)", 1, false)
	defer zeroBytesSucceed(r, "R15.19")

	// R15.1: every module method with signature Read([]byte) (int, error)
	for _, fn := range p.ModuleFuncs() {
		if fn.Name() != "Read" || fn.Signature.Recv() == nil || len(fn.Params) != 2 {
			continue
		}
		sl, ok := fn.Params[1].Type().Underlying().(*types.Slice)
		if !ok || !types.Identical(sl.Elem(), types.Typ[types.Byte]) {
			continue
		}
		res := fn.Signature.Results()
		if res.Len() != 2 || !core.IsErrorType(res.At(1).Type()) {
			continue
		}
		written := sliceWritten(fn.Params[1], 0)
		r.Check(written, "R15.1", core.FuncName(fn)+": fills p", fn.Pos(), "the parameter slice is the destination of copy / an element store / a writing callee",
			"Read never writes into the caller's buffer (it only rebinds its own parameter): io.Reader users receive zeros")
	}
	wr := p.Func("tds", "PacketQueue", "Write")
	wb := p.Func("tds", "PacketQueue", "WriteBytes")
	okW := false
	for _, c := range callsTo(wr, wb) {
		if c.Common().Args[1] == ssa.Value(wr.Params[1]) {
			okW = true
		}
	}
	r.Check(okW, "R15.1", "(*tds.PacketQueue).Write: hands p to WriteBytes", wr.Pos(), "WriteBytes(p)", "Write does not queue the caller's bytes")

	c15Siblings(r)
	c07Bytes15(r, ef)
	c15Reset(r, "R15.4")
	c15Consumed(r)
	c15PacketSize(r, "R15.6")
	c15Discard(r, "R15.7")
	c15BytesFailsOnlyWhenEmpty(r, "R15.11")
	c15DataOwnership(r)
	c15NewPacketGuards(r)
	c15TypedThroughBytes(r, "R15.14")
	c15AddPacket(r)
	c15SetPosition(r, "R15.10")
	c15ReadExact(r)
	okF, whyF := bytesReturnsFresh(p)
	r.Check(okF, "R15.9", "PacketQueue.Bytes returns a buffer of its own", p.Func("tds", "PacketQueue", "Bytes").Pos(), "make([]byte, n) allocated by the call", whyF)
}

// sliceWritten: the slice value is written through in this function.
func sliceWritten(v ssa.Value, depth int) bool {
	if depth > 3 {
		return false
	}
	refs := v.Referrers()
	if refs == nil {
		return false
	}
	for _, ref := range *refs {
		switch u := ref.(type) {
		case *ssa.Call:
			if bi, ok := u.Call.Value.(*ssa.Builtin); ok && bi.Name() == "copy" && len(u.Call.Args) == 2 && u.Call.Args[0] == v {
				return true
			}
			if f := u.Call.StaticCallee(); f != nil && f.Blocks != nil {
				for i, a := range u.Call.Args {
					if a == v && i < len(f.Params) && sliceWritten(f.Params[i], depth+1) {
						return true
					}
				}
			}
			if u.Call.IsInvoke() {
				// e.g. r.Read(p) on an io.Reader: the callee fills it
				if u.Call.Method.Name() == "Read" {
					for _, a := range u.Call.Args {
						if a == v {
							return true
						}
					}
				}
			}
			if f := u.Call.StaticCallee(); f != nil && f.Pkg != nil && f.Pkg.Pkg.Path() == "io" && (f.Name() == "ReadFull" || f.Name() == "ReadAtLeast") {
				return true
			}
		case *ssa.IndexAddr:
			if u.X == v {
				for _, r2 := range *u.Referrers() {
					if st, ok := r2.(*ssa.Store); ok && st.Addr == ssa.Value(u) {
						return true
					}
				}
			}
		case *ssa.Slice:
			if u.X == v && sliceWritten(u, depth+1) {
				return true
			}
		}
	}
	return false
}

func c15Siblings(r *core.Run) {
	p := r.Prog
	endian := p.Global("tds", "endian")
	// endian never stored outside init
	stores := 0
	for _, fn := range p.ModuleFuncs() {
		for _, b := range fn.Blocks {
			for _, in := range b.Instrs {
				if st, ok := in.(*ssa.Store); ok && st.Addr == ssa.Value(endian) && fn.Name() != "init" {
					stores++
					r.Bad("R15.2", "tds.endian reassigned in "+core.FuncName(fn), st.Pos(), "the byte order changes at run time: values written before and read after the change disagree")
				}
			}
		}
	}
	if stores == 0 {
		r.OK("R15.2", "tds.endian assigned only by its initialiser", endian.Pos(), "no store outside init")
	}
	bytesFn := p.Func("tds", "PacketQueue", "Bytes")
	wbFn := p.Func("tds", "PacketQueue", "WriteBytes")
	widths := map[string]int64{"16": 2, "32": 4, "64": 8}
	usesEndian := func(c ssa.CallInstruction, method string) bool {
		cc := c.Common()
		if !cc.IsInvoke() || cc.Method.Name() != method {
			return false
		}
		u, ok := cc.Value.(*ssa.UnOp)
		return ok && u.X == ssa.Value(endian)
	}
	readsWidth := func(fn *ssa.Function, k string, w int64) bool {
		for _, c := range callsTo(fn, bytesFn) {
			if n, isC := core.ConstInt64(c.Common().Args[1]); isC && n == w {
				for _, c2 := range core.Calls(fn) {
					if usesEndian(c2, "Uint"+k) {
						return true
					}
				}
			}
		}
		return false
	}
	writesWidth := func(fn *ssa.Function, k string, w int64) bool {
		for _, c2 := range core.Calls(fn) {
			if usesEndian(c2, "PutUint"+k) {
				buf := c2.Common().Args[0]
				if n, isC := core.MakeLen(buf); isC && n == w {
					for _, c3 := range callsTo(fn, wbFn) {
						if c3.Common().Args[1] == buf {
							return true
						}
					}
				}
			}
		}
		return false
	}
	for k, w := range widths {
		// reader
		rd := p.Func("tds", "PacketQueue", "Uint"+k)
		r.Check(readsWidth(rd, k, w), "R15.2", "Uint"+k+" = Bytes("+fmtInt(w)+") + endian.Uint"+k, rd.Pos(), "width and decoder agree", "Uint"+k+" does not read "+fmtInt(w)+" bytes and decode them with endian.Uint"+k)
		// writer
		wrf := p.Func("tds", "PacketQueue", "WriteUint"+k)
		r.Check(writesWidth(wrf, k, w), "R15.2", "WriteUint"+k+" = make("+fmtInt(w)+") + endian.PutUint"+k+" + WriteBytes", wrf.Pos(), "width and encoder agree", "WriteUint"+k+" does not encode into a "+fmtInt(w)+"-byte buffer with endian.PutUint"+k+" and queue exactly that buffer")
		// the signed variants: through the unsigned sibling of the same width, or the same read/write themselves
		ri := p.Func("tds", "PacketQueue", "Int"+k)
		r.Check(len(callsTo(ri, rd)) == 1 || readsWidth(ri, k, w), "R15.2", "Int"+k+" delegates to Uint"+k, ri.Pos(), "same width through a conversion", "Int"+k+" neither delegates to Uint"+k+" nor reads "+fmtInt(w)+" bytes with endian.Uint"+k+" itself: it consumes a different number of bytes than WriteInt"+k+" produces")
		wi := p.Func("tds", "PacketQueue", "WriteInt"+k)
		r.Check(len(callsTo(wi, wrf)) == 1 || writesWidth(wi, k, w), "R15.2", "WriteInt"+k+" delegates to WriteUint"+k, wi.Pos(), "same width through a conversion", "WriteInt"+k+" neither delegates to WriteUint"+k+" nor encodes "+fmtInt(w)+" bytes with endian.PutUint"+k+" itself")
	}
	// one-byte family
	byteFn := p.Func("tds", "PacketQueue", "Byte")
	ok1 := false
	for _, c := range callsTo(byteFn, bytesFn) {
		if n, isC := core.ConstInt64(c.Common().Args[1]); isC && n == 1 {
			ok1 = true
		}
	}
	r.Check(ok1, "R15.2", "Byte = Bytes(1)", byteFn.Pos(), "one byte", "Byte does not read exactly one byte")
	for _, pr := range [][2]string{{"Uint8", "Byte"}, {"Int8", "Byte"}, {"WriteUint8", "WriteByte"}, {"WriteInt8", "WriteUint8"}, {"WriteByte", "WriteBytes"}, {"String", "Bytes"}, {"WriteString", "WriteBytes"}} {
		a, b := p.Func("tds", "PacketQueue", pr[0]), p.Func("tds", "PacketQueue", pr[1])
		r.Check(len(callsTo(a, b)) == 1, "R15.2", pr[0]+" delegates to "+pr[1], a.Pos(), "single delegation", pr[0]+" does not delegate to "+pr[1])
	}
	// WriteByte writes exactly one byte
	wbyte := p.Func("tds", "PacketQueue", "WriteByte")
	okb := false
	for _, c := range callsTo(wbyte, wbFn) {
		if len(variadicElems(c.Common().Args[1])) == 1 {
			okb = true
		}
	}
	r.Check(okb, "R15.2", "WriteByte queues a one-byte slice", wbyte.Pos(), "[]byte{b}", "WriteByte does not queue exactly one byte")
}

func c07Bytes15(r *core.Run, ef *errFlow) {
	// re-run C07's Bytes rule under R15.3
	sub := core.NewRun(r.Property, r.Tier, r.Prog)
	sub.Rule("R07.2", "", 0, false)
	c07Bytes(sub, ef)
	for _, o := range sub.Obls {
		key := strings.Replace(o.Key, "R07.2", "R15.3", 1)
		switch o.Status {
		case core.Discharged:
			r.OK("R15.3", key, token.NoPos, o.Reason+" ("+o.Pos+")")
		default:
			r.Bad("R15.3", key, token.NoPos, o.Reason+" ("+o.Pos+")")
		}
	}
}

func c15Reset(r *core.Run, rule string) {
	p := r.Prog
	fn := p.Func("tds", "PacketQueue", "Reset")
	want := map[string]bool{}
	byObj := map[*types.Var]string{}
	for _, n := range []string{"queue", "indexPacket", "indexData", "recvEOM"} {
		want[n] = false
		byObj[p.Field("tds", "PacketQueue", n)] = n
	}
	for _, b := range fn.Blocks {
		for _, in := range b.Instrs {
			if st, ok := in.(*ssa.Store); ok {
				if fa, ok := st.Addr.(*ssa.FieldAddr); ok && fa.X == ssa.Value(fn.Params[0]) {
					name := byObj[core.FieldOfAddr(fa)]
					if _, has := want[name]; has && name != "" {
						zero := false
						switch v := st.Val.(type) {
						case *ssa.Const:
							zero = v.Value == nil || v.Value.ExactString() == "0" || v.Value.ExactString() == "false"
						case *ssa.Slice, *ssa.MakeSlice:
							zero = true
						}
						if zero {
							want[name] = true
						}
					}
				}
			}
		}
	}
	missing := ""
	for k, v := range want {
		if !v {
			missing += k + " "
		}
	}
	r.Check(missing == "", rule, "PacketQueue.Reset clears queue, indexPacket, indexData, recvEOM", fn.Pos(), "all four fields reset", "Reset leaves "+missing+"untouched: state of one message leaks into the next")
}

func c15Consumed(r *core.Run) {
	p := r.Prog
	fn := p.Func("tds", "PacketQueue", "AllPacketsConsumed")
	fIdxPacket := p.Field("tds", "PacketQueue", "indexPacket")
	fQueue := p.Field("tds", "PacketQueue", "queue")
	// cond relates indexPacket to len(queue) (possibly len(queue)-1, or both sides being compared to 0 with len == 0)
	mentions := func(v ssa.Value) (idx, ln bool) {
		var walk func(v ssa.Value, d int)
		walk = func(v ssa.Value, d int) {
			if d > 4 || v == nil {
				return
			}
			if f, _ := core.FieldLoad(v); f == fIdxPacket {
				idx = true
			}
			if isLenOf(v, fQueue) {
				ln = true
			}
			if bo, ok := v.(*ssa.BinOp); ok {
				walk(bo.X, d+1)
				walk(bo.Y, d+1)
			}
		}
		walk(v, 0)
		return
	}
	relatesIndexToEnd := func(v ssa.Value) bool {
		bo, ok := v.(*ssa.BinOp)
		if !ok {
			return false
		}
		i, l := mentions(bo)
		return i && l
	}
	ok, why := true, ""
	var leaf func(v ssa.Value, blk *ssa.BasicBlock, d int)
	leaf = func(v ssa.Value, blk *ssa.BasicBlock, d int) {
		if d > 5 {
			return
		}
		switch x := v.(type) {
		case *ssa.Phi:
			for i, e := range x.Edges {
				leaf(e, x.Block().Preds[i], d+1)
			}
		case *ssa.Const:
			if x.Value != nil && x.Value.ExactString() == "false" {
				return
			}
			// `true`: must be under a guard relating the index to the end — or the empty-queue triple test
			good := false
			for _, g := range core.GuardsOf(blk) {
				if relatesIndexToEnd(g.Cond) {
					good = true
				}
				// len(queue) == 0 && indexPacket == 0: both present among the guards
			}
			li, ll := false, false
			for _, g := range core.GuardsOf(blk) {
				i, l := mentions(g.Cond)
				li, ll = li || i, ll || l
			}
			if li && ll {
				good = true
			}
			if !good {
				ok, why = false, "AllPacketsConsumed can answer true without having compared the packet index with the length of the queue"
			}
		default:
			if relatesIndexToEnd(v) {
				return
			}
			good := false
			for _, g := range core.GuardsOf(blk) {
				if relatesIndexToEnd(g.Cond) && g.Pol {
					good = true
				}
				// the early-return form: `if indexPacket != len(queue)-1 { return false }`
				if bo, isBo := g.Cond.(*ssa.BinOp); isBo && bo.Op == token.NEQ && !g.Pol && relatesIndexToEnd(g.Cond) {
					good = true
				}
			}
			if !good {
				ok, why = false, "the answer "+core.Expr(v)+" is computed without the packet index having been compared with the end of the queue: data in later packets is reported as consumed (Bytes then fails with unread bytes queued, IsEOM answers true too early)"
			}
		}
	}
	for _, ret := range core.Returns(fn) {
		leaf(core.RetVals(ret)[0], ret.Block(), 0)
	}
	r.Check(ok, "R15.5", "AllPacketsConsumed: every non-false answer is tied to indexPacket vs len(queue)", fn.Pos(), "all answers compare (or are guarded by a comparison of) indexPacket with len(queue)", why)
}

func c15PacketSize(r *core.Run, rule string) {
	p := r.Prog
	fPS := p.Field("tds", "PacketQueue", "packetSize")
	np := p.Func("tds", "", "NewPacket")
	for _, fn := range p.ModuleFuncs() {
		if fn.Pkg == nil || fn.Pkg.Pkg.Path() != core.Module+"/tds" {
			continue
		}
		for _, c := range core.Calls(fn) {
			cc, ok := c.(*ssa.Call)
			if !ok {
				continue
			}
			f, _ := core.FieldLoad(cc.Call.Value)
			if f != fPS {
				continue
			}
			key := core.FuncName(fn) + ": use of queue.packetSize()"
			good := true
			for _, ref := range *cc.Referrers() {
				if _, isDbg := ref.(*ssa.DebugRef); isDbg {
					continue
				}
				c2, isCall := ref.(ssa.CallInstruction)
				if !isCall || core.StaticCallee(c2) != np {
					good = false
				}
			}
			r.Check(good, rule, key, cc.Pos(), "only passed to NewPacket", "the live packet size is used for something other than sizing a new packet (e.g. the free space of the packet being filled): when the size changes while a packet is partly filled, writes are truncated or run past the packet's body")
		}
	}
}

// c15Discard: the end-of-packet test in DiscardUntilCurrentPosition looks at
// the packet under the (reset) position, i.e. it is evaluated after the
// queue was shifted by indexPacket and indexPacket was set to 0, and it
// indexes the queue with indexPacket.
func c15Discard(r *core.Run, rule string) {
	p := r.Prog
	fn := p.Func("tds", "PacketQueue", "DiscardUntilCurrentPosition")
	fQueue := p.Field("tds", "PacketQueue", "queue")
	fIdxP := p.Field("tds", "PacketQueue", "indexPacket")
	fIdxD := p.Field("tds", "PacketQueue", "indexData")
	var shift, zero *ssa.Store
	for _, b := range fn.Blocks {
		for _, in := range b.Instrs {
			st, ok := in.(*ssa.Store)
			if !ok {
				continue
			}
			fa, ok := st.Addr.(*ssa.FieldAddr)
			if !ok {
				continue
			}
			if core.FieldOfAddr(fa) == fQueue {
				if sl, isSl := st.Val.(*ssa.Slice); isSl && sl.Low != nil {
					if f, _ := core.FieldLoad(sl.Low); f == fIdxP && shift == nil {
						shift = st
					}
				}
			}
			if core.FieldOfAddr(fa) == fIdxP {
				if c, isC := core.ConstInt64(st.Val); isC && c == 0 {
					zero = st
				}
			}
		}
	}
	key := "DiscardUntilCurrentPosition: end-of-packet test after the shift, on the packet under the position"
	if shift == nil || zero == nil {
		r.Bad(rule, key, fn.Pos(), "the queue is not shifted by indexPacket with indexPacket reset to 0")
		return
	}
	// the comparison indexData >= len(queue[k].Data)
	ok, why := false, "no end-of-packet test found"
	for _, b := range fn.Blocks {
		iff, isIf := b.Instrs[len(b.Instrs)-1].(*ssa.If)
		if !isIf {
			continue
		}
		bo, isB := iff.Cond.(*ssa.BinOp)
		if !isB {
			continue
		}
		if f, _ := core.FieldLoad(bo.X); f != fIdxD {
			continue
		}
		x, isLen := isLenCall(bo.Y)
		if !isLen {
			continue
		}
		// x = queue[k].Data
		var idx ssa.Value
		if u, isU := x.(*ssa.UnOp); isU {
			if fa, isFA := u.X.(*ssa.FieldAddr); isFA {
				if u2, isU2 := fa.X.(*ssa.UnOp); isU2 {
					if ia, isIA := u2.X.(*ssa.IndexAddr); isIA {
						idx = ia.Index
					}
				}
			}
		}
		if idx == nil {
			continue
		}
		fi, _ := core.FieldLoad(idx)
		switch {
		case !core.Dominates(shift, iff) || !core.Dominates(zero, iff):
			ok, why = false, "the end-of-packet test is evaluated before the queue is shifted: it looks at the oldest packet instead of the packet under the position, so that packet can be dropped with unread bytes"
		case fi != fIdxP:
			ok, why = false, "the end-of-packet test does not index the queue with indexPacket"
		case bo.Op == token.GTR || bo.Op == token.LEQ:
			ok, why = false, "the end-of-packet test is strict (indexData "+bo.Op.String()+" len(Data)): a packet consumed exactly to its end stays in the queue, so a full packet that was sent is sent again with the next flush (and a parsed one is parsed again)"
		default:
			ok = true
		}
	}
	r.Check(ok, rule, key, fn.Pos(), "shift, indexPacket = 0, then indexData >= len(queue[indexPacket].Data)", why)
}

// c15AddPacket: the only field AddPacket may change besides recvEOM is the
// queue, and only by appending the new packet.
func c15AddPacket(r *core.Run) {
	p := r.Prog
	fn := p.Func("tds", "PacketQueue", "AddPacket")
	fQueue := p.Field("tds", "PacketQueue", "queue")
	fEOM := p.Field("tds", "PacketQueue", "recvEOM")
	ok, why := true, ""
	for _, b := range fn.Blocks {
		for _, in := range b.Instrs {
			st, isSt := in.(*ssa.Store)
			if !isSt {
				continue
			}
			fa, isFA := st.Addr.(*ssa.FieldAddr)
			if !isFA || fa.X != ssa.Value(fn.Params[0]) {
				continue
			}
			f := core.FieldOfAddr(fa)
			switch f {
			case fEOM:
			case fQueue:
				call, isC := st.Val.(*ssa.Call)
				isAppend := false
				if isC {
					if bi, isB := call.Call.Value.(*ssa.Builtin); isB && bi.Name() == "append" {
						f0, _ := core.FieldLoad(call.Call.Args[0])
						isAppend = f0 == fQueue
					}
				}
				if !isAppend {
					ok, why = false, "AddPacket replaces the queue by something other than append(queue, packet): queued, possibly unread packets are dropped, and a saved position no longer restores them"
				}
			default:
				ok, why = false, "AddPacket changes "+f.Name()+": adding a packet moves the read position, so a position saved before is no longer valid"
			}
		}
	}
	r.Check(ok, "R15.8", "AddPacket only appends", fn.Pos(), "stores: queue = append(queue, packet); recvEOM", why)
}

func c15SetPosition(r *core.Run, rule string) {
	p := r.Prog
	fn := p.Func("tds", "PacketQueue", "SetPosition")
	fIdxP := p.Field("tds", "PacketQueue", "indexPacket")
	fIdxD := p.Field("tds", "PacketQueue", "indexData")
	ok, why := true, ""
	nret := 0
	core.EnumPaths(fn.Blocks[0], func(b *ssa.BasicBlock) bool { return false }, nil, 200, func(pa core.Path, ended bool) {
		last := pa.Blocks[len(pa.Blocks)-1]
		if _, isRet := last.Instrs[len(last.Instrs)-1].(*ssa.Return); !isRet || last == fn.Recover {
			return
		}
		nret++
		sp, sd := false, false
		for _, b := range pa.Blocks {
			for _, in := range b.Instrs {
				st, isSt := in.(*ssa.Store)
				if !isSt {
					continue
				}
				fa, isFA := st.Addr.(*ssa.FieldAddr)
				if !isFA {
					continue
				}
				if core.FieldOfAddr(fa) == fIdxP && len(fn.Params) == 3 && st.Val == ssa.Value(fn.Params[1]) {
					sp = true
				}
				if core.FieldOfAddr(fa) == fIdxD && len(fn.Params) == 3 && st.Val == ssa.Value(fn.Params[2]) {
					sd = true
				}
			}
		}
		if !sp || !sd {
			ok, why = false, "SetPosition can return without restoring the given position (a conditional guard ignores some positions): restoring a position saved by Position() — e.g. the one just behind the last packet — silently does nothing and consumed bytes are read again"
		}
	})
	r.Check(ok && nret > 0, rule, "SetPosition stores both indices on every path", fn.Pos(), "indexPacket, indexData := parameters, unconditionally", why)
}

func c15ReadExact(r *core.Run) {
	p := r.Prog
	fn := p.Func("tds", "PacketQueue", "Read")
	bytesFn := p.Func("tds", "PacketQueue", "Bytes")
	if len(fn.Params) != 2 {
		return
	}
	pp := fn.Params[1]
	okLen, okCopy := false, false
	for _, c := range callsTo(fn, bytesFn) {
		if x, isLen := isLenCall(c.Common().Args[1]); isLen && x == ssa.Value(pp) {
			okLen = true
		}
	}
	for _, c := range core.Calls(fn) {
		cc, ok := c.(*ssa.Call)
		if !ok {
			continue
		}
		if bi, isB := cc.Call.Value.(*ssa.Builtin); isB && bi.Name() == "copy" && cc.Call.Args[0] == ssa.Value(pp) {
			okCopy = true
		}
	}
	r.Check(okLen && okCopy, "R15.1", "(*tds.PacketQueue).Read: asks for len(p) bytes and copies into p", fn.Pos(), "Bytes(len(p)); copy(p, ...)", "Read does not request exactly len(p) bytes of the caller's buffer and copy into that buffer: with enough bytes queued it returns fewer than len(p) bytes with a nil error and leaves the tail of the buffer untouched")
}

// c15BytesFailsOnlyWhenEmpty: R15.11.
func c15BytesFailsOnlyWhenEmpty(r *core.Run, rule string) {
	p := r.Prog
	fn := p.Func("tds", "PacketQueue", "Bytes")
	apc := p.Func("tds", "PacketQueue", "AllPacketsConsumed")
	why, n := "", 0
	for _, ret := range core.Returns(fn) {
		rv := core.RetVals(ret)
		if core.IsNil(rv[len(rv)-1]) {
			continue
		}
		n++
		under := false
		for _, g := range core.GuardsAt(ret) {
			if c, ok := g.Cond.(*ssa.Call); ok && core.StaticCallee(c) == apc && g.Pol {
				under = true
			}
		}
		if !under {
			why = "Bytes can fail (" + p.Pos(ret.Pos()) + ") although AllPacketsConsumed() did not answer true: bytes queued behind an empty or exactly exhausted packet become unreadable and the position is stuck in front of them"
		}
	}
	r.Check(why == "" && n > 0, rule, "Bytes: error returns only under AllPacketsConsumed()", fn.Pos(), fmt.Sprintf("%d error return(s), all on the true edge of AllPacketsConsumed()", n), why)
}

// c15DataOwnership: R15.12.
func c15DataOwnership(r *core.Run) {
	p := r.Prog
	fData := p.Field("tds", "Packet", "Data")
	for _, fn := range p.ModuleFuncs() {
		for _, b := range fn.Blocks {
			for _, in := range b.Instrs {
				st, ok := in.(*ssa.Store)
				if !ok {
					continue
				}
				fa, ok := st.Addr.(*ssa.FieldAddr)
				if !ok || core.FieldOfAddr(fa) != fData {
					continue
				}
				key := core.FuncName(fn) + ": Packet.Data assigned"
				v := st.Val
				good := core.IsNil(v)
				if _, isMk := core.MakeLen(v); isMk {
					good = true
				}
				if _, isMS := v.(*ssa.MakeSlice); isMS {
					good = true
				}
				if sl, isSl := v.(*ssa.Slice); isSl {
					if f, base := core.FieldLoad(sl.X); f == fData && base == fa.X {
						good = true // trimming the packet's own body
					}
					if _, isAl := sl.X.(*ssa.Alloc); isAl {
						good = true // make lowered to new [k]T + slice
					}
				}
				r.Check(good, "R15.12", key, st.Pos(), "nil, a fresh make, or a slice of the packet's own Data", "a packet body is set to "+core.Expr(v)+", memory the queue does not own: what is read back later is whatever the owner of that buffer has written into it in the meantime, not the bytes that were written to the queue")
			}
		}
	}
}

// c15NewPacketGuards: R15.13. WriteBytes opens a new packet only because no packet exists under the write index
// (a comparison of indexPacket with len(queue)) or because the packet under the index is full (a comparison with 0 of
// a value computed from that packet's Header.Length). Any other trigger — e.g. the read-side notion "all packets
// consumed", which is also true for an exactly full last packet — opens a spare packet and the bytes that follow are
// written out of order.
func c15NewPacketGuards(r *core.Run) {
	p := r.Prog
	fn := p.Func("tds", "PacketQueue", "WriteBytes")
	np := p.Func("tds", "", "NewPacket")
	fIdxP := p.Field("tds", "PacketQueue", "indexPacket")
	fQueue := p.Field("tds", "PacketQueue", "queue")
	fLen := p.Field("tds", "PacketHeader", "Length")
	var derives func(v ssa.Value, f *types.Var, d int) bool
	derives = func(v ssa.Value, f *types.Var, d int) bool {
		if d > 6 || v == nil {
			return false
		}
		if g, _ := core.FieldLoad(v); g == f {
			return true
		}
		switch x := v.(type) {
		case *ssa.BinOp:
			return derives(x.X, f, d+1) || derives(x.Y, f, d+1)
		case *ssa.Convert:
			return derives(x.X, f, d+1)
		case *ssa.Phi:
			for _, e := range x.Edges {
				if derives(e, f, d+1) {
					return true
				}
			}
		case *ssa.Call:
			if arg, isLen := isLenCall(x); isLen {
				return derives(arg, f, d+1)
			}
		}
		return false
	}
	// calls in fn (and in helpers of the queue it calls with the same receiver) that create a packet
	n := 0
	for _, c := range callsTo(fn, np) {
		n++
		good := false
		for _, g := range core.GuardsAt(c.(ssa.Instruction)) {
			bo, ok := g.Cond.(*ssa.BinOp)
			if !ok {
				continue
			}
			if (derives(bo.X, fIdxP, 0) && derives(bo.Y, fQueue, 0)) || (derives(bo.Y, fIdxP, 0) && derives(bo.X, fQueue, 0)) {
				good = true // no packet under the index
			}
			if k, isC := core.ConstInt64(bo.Y); isC && k == 0 && derives(bo.X, fLen, 0) {
				good = true // the packet under the index is full
			}
		}
		r.Check(good, "R15.13", "WriteBytes: a packet is opened only when none is under the index or the current one is full", c.Pos(), "guarded by indexPacket vs len(queue), or by free bytes == 0", "a new packet is appended on a condition that is neither `indexPacket == len(queue)` nor `free bytes of the current packet == 0`: after a write that ended exactly on a packet boundary a spare packet is opened and the following bytes land out of order")
	}
	if n == 0 {
		// packet creation moved into a helper: check the helper's call sites instead
		for _, c := range core.Calls(fn) {
			h := core.StaticCallee(c)
			if h == nil || !core.InModule(h) || len(callsTo(h, np)) == 0 {
				continue
			}
			n++
			good := false
			for _, g := range core.GuardsAt(c.(ssa.Instruction)) {
				bo, ok := g.Cond.(*ssa.BinOp)
				if !ok {
					continue
				}
				if (derives(bo.X, fIdxP, 0) && derives(bo.Y, fQueue, 0)) || (derives(bo.Y, fIdxP, 0) && derives(bo.X, fQueue, 0)) {
					good = true
				}
				if k, isC := core.ConstInt64(bo.Y); isC && k == 0 && derives(bo.X, fLen, 0) {
					good = true
				}
			}
			r.Check(good, "R15.13", "WriteBytes: a packet is opened only when none is under the index or the current one is full", c.Pos(), "guarded by indexPacket vs len(queue), or by free bytes == 0", "a new packet is appended on a condition that is neither `indexPacket == len(queue)` nor `free bytes of the current packet == 0`")
		}
	}
	if n == 0 {
		r.Unknown("R15.13", "WriteBytes: packet creation", fn.Pos(), "no NewPacket call found in WriteBytes or its helpers")
	}
}

// c15TypedThroughBytes: R15.14. The typed readers and writers (Byte, UintK, IntK, String, Read, Write, WriteByte,
// WriteUintK, WriteIntK, WriteString) work on the byte stream only through Bytes / WriteBytes: none of them touches
// the queue, the packet index or the data index itself. A fast path that serves a value straight from the current
// packet has to repeat the position bookkeeping of Bytes (step to the next packet at a packet end, report missing
// bytes) and is where the stream gets out of step.
func c15TypedThroughBytes(r *core.Run, rule string) {
	p := r.Prog
	pq := p.Named("tds", "PacketQueue")
	fields := map[*types.Var]bool{
		p.Field("tds", "PacketQueue", "queue"):       true,
		p.Field("tds", "PacketQueue", "indexPacket"): true,
		p.Field("tds", "PacketQueue", "indexData"):   true,
	}
	core_ := map[string]bool{"Reset": true, "AddPacket": true, "Position": true, "SetPosition": true, "DiscardUntilCurrentPosition": true,
		"AllPacketsConsumed": true, "IsEOM": true, "Bytes": true, "WriteBytes": true}
	n := 0
	for _, fn := range p.ModuleFuncs() {
		if fn.Blocks == nil || core.RecvNamed(fn) == nil || core.RecvNamed(fn).Obj() != pq.Obj() || fn.Parent() != nil {
			continue
		}
		name := fn.Name()
		typed := name == "Byte" || name == "String" || name == "Read" || name == "Write" || strings.HasPrefix(name, "Uint") || strings.HasPrefix(name, "Int") || strings.HasPrefix(name, "Write")
		if !typed || core_[name] {
			continue
		}
		n++
		bad := ""
		var pos = fn.Pos()
		for _, b := range fn.Blocks {
			for _, in := range b.Instrs {
				if fa, ok := in.(*ssa.FieldAddr); ok && fields[core.FieldOfAddr(fa)] {
					bad = name + " accesses PacketQueue." + core.FieldOfAddr(fa).Name() + " directly instead of going through Bytes/WriteBytes: the position bookkeeping at packet ends (and the not-enough-bytes report) is duplicated here and can disagree with the one every other read relies on"
					pos = fa.Pos()
				}
			}
		}
		r.Check(bad == "", rule, "PacketQueue."+name+" works through Bytes/WriteBytes only", pos, "no direct access to queue / indexPacket / indexData", bad)
	}
	if n < 20 {
		r.Unknown(rule, "typed readers and writers", token.NoPos, fmt.Sprintf("only %d typed readers/writers found", n))
	}
}
