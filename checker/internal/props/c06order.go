package props

import (
	"fmt"
	"go/token"
	"go/types"
	"sort"
	"strings"

	"dblint/internal/core"

	"golang.org/x/tools/go/ssa"
)

// R06.9 field order. E-SHAPE compares widths, so it is blind to a swap of
// two neighbouring fields of the same width — and a swap made in reader AND
// writer also survives the library's own round trip. For the packages below
// the order in which the fields appear on the wire is transcribed from the
// TDS 5.0 functional specification (field names are the repository's); on
// every CFG path of ReadFrom the fields are assigned from wire reads in that
// order, and on every path of WriteTo they are handed to the channel writers
// in that order. Fields not listed (and length prefixes computed from several
// fields) are ignored.
var specFieldOrder = []struct {
	typ    string
	fields []string
	ref    string
}{
	{"CurInfoPackage", []string{"CursorID", "Name", "Command", "Status", "RowNum", "TotalRows", "RowCount"}, "TDS_CURINFO/CURINFO3: Length CursorId [NameLen Name] Command Status [RowNum TotalRows] [RowCnt]"},
	{"ErrorPackage", []string{"ErrorNumber", "State", "Class", "ErrorMsg", "ServerName", "ProcName", "LineNr"}, "TDS_ERROR: Length MsgNumber State Class MsgLen Msg ServerLen Server ProcLen Proc LineNum"},
	{"EEDPackage", []string{"MsgNumber", "State", "Class", "SQLState", "Status", "TranState", "Msg", "ServerName", "ProcName", "LineNr"}, "TDS_EED: Length MsgNumber State Class SQLStateLen SQLState Status TranState MsgLen Msg ServerLen Server ProcLen Proc LineNum"},
	{"DonePackage", []string{"Status", "TranState", "Count"}, "TDS_DONE: Status TranState Count"},
	{"LoginAckPackage", []string{"Length", "Status", "Version", "NameLength", "ProgramName", "ProgramVersion"}, "TDS_LOGINACK: Length Status TDSVersion NameLen ProgName ProgVersion"},
	{"MsgPackage", []string{"Status", "MsgId"}, "TDS_MSG: Length Status MsgId"},
	{"DynamicPackage", []string{"Type", "Status", "ID", "Stmt"}, "TDS_DYNAMIC/DYNAMIC2: Length Type Status IdLen Id [StmtLen Stmt]"},
	{"CurDeclarePackage", []string{"Name", "Options", "Status", "Stmt"}, "TDS_CURDECLARE/2/3: Length NameLen Name Options Status StmtLen Stmt NumColumns {ColLen Col}*"},
	{"CurClosePackage", []string{"CursorID", "Name", "Options"}, "TDS_CURCLOSE: Length CursorId [NameLen Name] Options"},
	{"CurDeletePackage", []string{"CursorID", "Name", "Status", "TableName"}, "TDS_CURDELETE: Length CursorId [NameLen Name] Status TableNameLen TableName"},
	{"CurFetchPackage", []string{"CursorID", "Name", "Type", "RowNumber"}, "TDS_CURFETCH: Length CursorId [NameLen Name] Type [RowNum]"},
	{"CurOpenPackage", []string{"CursorID", "Name", "Status"}, "TDS_CUROPEN: Length CursorId [NameLen Name] Status"},
	{"CurUpdatePackage", []string{"CursorID", "Name", "Status", "TableName", "Stmt"}, "TDS_CURUPDATE: Length CursorId [NameLen Name] Status TableNameLen TableName [StmtLen Stmt]"},
	{"LanguagePackage", []string{"Status", "Cmd"}, "TDS_LANGUAGE: Length Status Text"},
	{"OptionCmdPackage", []string{"Cmd", "Option", "OptionArg"}, "TDS_OPTIONCMD: Length Command Option ArgLength OptionArg"},
	{"EnvChangePackageField", []string{"Type", "NewValue", "OldValue"}, "TDS_ENVCHANGE member: Type NewValLen NewValue OldValLen OldValue"},
}

func c06FieldOrder(r *core.Run, ef *errFlow, pkgs []pkgCodec) {
	p := r.Prog
	sb := newShapeBuilder(p, ef)
	for _, so := range specFieldOrder {
		var pc *pkgCodec
		for i := range pkgs {
			if pkgs[i].name == so.typ {
				pc = &pkgs[i]
			}
		}
		if pc == nil {
			// a codec that is not a Package (a member codec): resolve it by name
			if obj := p.TryObj("tds", so.typ); obj != nil {
				if named, ok := obj.Type().(*types.Named); ok {
					pc = &pkgCodec{name: so.typ, named: named, read: methodFn(p, named, "ReadFrom"), write: methodFn(p, named, "WriteTo")}
				}
			}
		}
		if pc == nil {
			r.Unknown("R06.9", so.typ+": field order", token.NoPos, "type not found among the package codecs")
			continue
		}
		st, ok := pc.named.Underlying().(*types.Struct)
		if !ok {
			r.Unknown("R06.9", so.typ+": field order", token.NoPos, "not a struct")
			continue
		}
		idx := map[*types.Var]int{}
		for i, name := range so.fields {
			found := false
			for j := 0; j < st.NumFields(); j++ {
				if st.Field(j).Name() == name {
					idx[st.Field(j)] = i
					found = true
				}
			}
			if !found {
				r.Unknown("R06.9", so.typ+": field order", token.NoPos, "field "+name+" of the specification table not found in the struct")
			}
		}

		// value derives from a wire read
		var fromRead func(v ssa.Value, d int) bool
		fromRead = func(v ssa.Value, d int) bool {
			if d > 5 || v == nil {
				return false
			}
			switch x := v.(type) {
			case *ssa.Extract:
				return fromRead(x.Tuple, d+1)
			case *ssa.Call:
				if _, isL := sb.letterOf(x); isL {
					return true
				}
				for _, a := range x.Call.Args {
					if fromRead(a, d+1) {
						return true
					}
				}
			case *ssa.Convert:
				return fromRead(x.X, d+1)
			case *ssa.ChangeType:
				return fromRead(x.X, d+1)
			case *ssa.MakeInterface:
				return fromRead(x.X, d+1)
			case *ssa.BinOp:
				return fromRead(x.X, d+1) || fromRead(x.Y, d+1)
			case *ssa.Phi:
				for _, e := range x.Edges {
					if fromRead(e, d+1) {
						return true
					}
				}
			}
			return false
		}
		// the package field an argument of a channel write is taken from (directly, converted, its len(), or a method of it)
		var directField func(v ssa.Value, d int) *types.Var
		directField = func(v ssa.Value, d int) *types.Var {
			if d > 4 || v == nil {
				return nil
			}
			v = core.Strip(v)
			if f, _ := core.FieldLoad(v); f != nil {
				if _, listed := idx[f]; listed {
					return f
				}
				return nil
			}
			switch x := v.(type) {
			case *ssa.Convert:
				return directField(x.X, d+1)
			case *ssa.ChangeType:
				return directField(x.X, d+1)
			case *ssa.UnOp:
				if x.Op == token.MUL {
					return directField(x.X, d+1)
				}
			case *ssa.Slice:
				return directField(x.X, d+1)
			case *ssa.Call:
				if arg, isLen := isLenCall(x); isLen {
					return directField(arg, d+1)
				}
				if len(x.Call.Args) > 0 && !x.Call.IsInvoke() {
					return directField(x.Call.Args[0], d+1)
				}
			}
			return nil
		}

		check := func(fn *ssa.Function, what string, event func(in ssa.Instruction) *types.Var) {
			key := fmt.Sprintf("%s.%s: fields in the order of the specification", so.typ, what)
			if fn == nil || len(fn.Blocks) == 0 {
				r.Unknown("R06.9", key, token.NoPos, "no body")
				return
			}
			bad := ""
			var badPos token.Pos
			nEvents := 0
			seen := map[*types.Var]bool{}
			complete := core.EnumPaths(fn.Blocks[0], func(b *ssa.BasicBlock) bool { return false }, nil, 20000, func(pa core.Path, ended bool) {
				last, lastName := -1, ""
				for _, b := range pa.Blocks {
					for _, in := range b.Instrs {
						f := event(in)
						if f == nil {
							continue
						}
						nEvents++
						seen[f] = true
						i := idx[f]
						if i < last && bad == "" {
							bad = fmt.Sprintf("%s handles %s after %s, the specification has it before (%s): fields of equal width are exchanged on the wire although the library's own round trip still agrees", what, f.Name(), lastName, so.ref)
							badPos = in.Pos()
						}
						if i > last {
							last, lastName = i, f.Name()
						}
					}
				}
			})
			switch {
			case !complete:
				r.Unknown("R06.9", key, fn.Pos(), "too many paths")
			case nEvents == 0:
				r.Unknown("R06.9", key, fn.Pos(), "no field of the specification table is handled: the rule does not see the codec")
			case len(seen) != len(idx):
				var miss []string
				for f := range idx {
					if !seen[f] {
						miss = append(miss, f.Name())
					}
				}
				sort.Strings(miss)
				r.Unknown("R06.9", key, fn.Pos(), what+" never handles "+strings.Join(miss, ", ")+" in a way the rule recognises")
			case bad != "":
				r.Bad("R06.9", key, badPos, bad)
			default:
				r.OK("R06.9", key, fn.Pos(), "order on every path: "+strings.Join(so.fields, " "))
			}
		}
		check(pc.read, "ReadFrom", func(in ssa.Instruction) *types.Var {
			st, ok := in.(*ssa.Store)
			if !ok {
				return nil
			}
			fa, ok := st.Addr.(*ssa.FieldAddr)
			if !ok {
				return nil
			}
			f := core.FieldOfAddr(fa)
			if _, listed := idx[f]; !listed || !fromRead(st.Val, 0) {
				return nil
			}
			return f
		})
		check(pc.write, "WriteTo", func(in ssa.Instruction) *types.Var {
			c, ok := in.(*ssa.Call)
			if !ok {
				return nil
			}
			if _, isL := sb.letterOf(c); !isL || len(c.Call.Args) == 0 {
				return nil
			}
			return directField(c.Call.Args[len(c.Call.Args)-1], 0)
		})
	}
}

// R06.10: a slice that is filled with append must start empty. `x = make([]T, n)` followed by `x = append(x, v)`
// leaves n zero values in front of the appended ones (the classic make/append slip): a reader doing that returns a
// package with twice the elements and its writer then emits a different count and length than was read.
func c06AppendAfterMake(r *core.Run) {
	p := r.Prog
	n := 0
	for _, fn := range p.ModuleFuncs() {
		if fn.Pkg == nil || fn.Pkg.Pkg.Path() != core.Module+"/tds" || r.Prog.IsGenerated(fn.Pos()) {
			continue
		}
		nonEmptyMake := func(v ssa.Value) (ssa.Value, bool) {
			if ms, ok := v.(*ssa.MakeSlice); ok {
				if c, isC := core.ConstInt64(ms.Len); !isC || c != 0 {
					return ms, true
				}
			}
			if k, ok := core.MakeLen(v); ok && k != 0 {
				// make([]T, k) with a constant k is lowered to new [k]T + slice; a slice LITERAL looks the same but is initialised
				if sl, isSl := v.(*ssa.Slice); isSl {
					if al, isAl := sl.X.(*ssa.Alloc); isAl && al.Comment == "makeslice" {
						return v, true
					}
				}
			}
			return nil, false
		}
		for _, c := range core.Calls(fn) {
			call, ok := c.(*ssa.Call)
			if !ok {
				continue
			}
			bi, isB := call.Call.Value.(*ssa.Builtin)
			if !isB || bi.Name() != "append" {
				continue
			}
			n++
			base := call.Call.Args[0]
			var origin ssa.Value
			seen := map[ssa.Value]bool{}
			var walk func(v ssa.Value, d int)
			walk = func(v ssa.Value, d int) {
				if d > 6 || seen[v] || origin != nil {
					return
				}
				seen[v] = true
				if m, ok := nonEmptyMake(v); ok {
					origin = m
					return
				}
				if ph, ok := v.(*ssa.Phi); ok {
					for _, e := range ph.Edges {
						walk(e, d+1)
					}
					return
				}
				if f, b := core.FieldLoad(v); f != nil {
					// stores to the same field of the same object in this function that dominate the append
					for _, bb := range fn.Blocks {
						for _, in := range bb.Instrs {
							st, ok := in.(*ssa.Store)
							if !ok {
								continue
							}
							fa, ok := st.Addr.(*ssa.FieldAddr)
							if ok && core.FieldOfAddr(fa) == f && fa.X == b && core.Dominates(st, call) {
								if m, isM := nonEmptyMake(st.Val); isM {
									origin = m
								}
							}
						}
					}
				}
			}
			walk(base, 0)
			if origin != nil {
				r.Bad("R06.10", core.FuncName(fn)+": append to "+core.KExpr(base), call.Pos(), "append to a slice that was made with a non-zero length ("+core.Expr(origin)+" at "+p.Pos(origin.Pos())+"): the result starts with that many zero values, so a package read this way carries more elements than were on the wire and is written back with a different count and length")
			}
		}
	}
	r.Check(n > 0, "R06.10", "slices filled by append start empty", token.NoPos, fmt.Sprintf("%d append calls in package tds, none onto a slice made with a non-zero length", n), "no append calls seen")
}
