#!/bin/bash
# usage: import_seed.sh Cnn mN  — verifies a sub-agent's seeded change in its scratch worktree and copies it to /verif/seeded/Cnn-mN/
export GOFLAGS=-mod=mod GOPROXY=off GOSUMDB=off GOTOOLCHAIN=local; unset GOWORK
id=$1; m=$2; wt=/tmp/wt/$id; src=$wt/_out/$m; dst=/verif/seeded/$id-$m
[ -f $src/patch.diff ] || { echo "$id $m: no patch"; exit 2; }
cd $wt && git checkout -q -- . && git clean -fdq -e _out
demo=$(ls $src/*_test.go 2>/dev/null | head -1)
[ -n "$demo" ] || { echo "$id $m: no demo test"; exit 2; }
# where to place it: from the demo's package clause
pk=$(grep -m1 -E '^package ' $demo | awk '{print $2}' | sed 's/_test$//')
case "$pk" in dblib) dir=. ;; *) dir=$pk ;; esac
rel=$dir/$(basename $demo); [ "$dir" = "." ] && rel=$(basename $demo)
[ "$dir" = "." ] && pkg=. || pkg=./$dir/
run=$(grep -oE -- '-run [A-Za-z0-9_|^$]+' $src/demo_path.txt | head -1)
grep -q -- '-race' $src/demo_path.txt && run="-race $run"   # demonstrations whose oracle is the race detector
cp $demo $wt/$rel
t0=$(date +%s)
go test -vet=off -count=1 -timeout 120s $run $pkg > /tmp/wt/$id.$m.clean.log 2>&1; clean=$?
git apply $src/patch.diff || { echo "$id $m: patch does not apply"; exit 3; }
go build ./... > /tmp/wt/$id.$m.build.log 2>&1; build=$?
rm -f $wt/$rel
go test -vet=off -count=1 -timeout 300s ./... > /tmp/wt/$id.$m.suite.log 2>&1; suite=$?
cp $demo $wt/$rel
go test -vet=off -count=1 -timeout 120s $run $pkg > /tmp/wt/$id.$m.patched.log 2>&1; patched=$?
rm -f $wt/$rel; git checkout -q -- .
ok=no; [ $clean = 0 ] && [ $build = 0 ] && [ $suite = 0 ] && [ $patched != 0 ] && ok=yes
echo "$id $m: demo_on_clean=$clean build=$build suite_with_patch=$suite demo_with_patch=$patched => confirmed=$ok ($(( $(date +%s)-t0 ))s)"
if [ $ok = yes ]; then
  mkdir -p $dst && cp $src/patch.diff $demo $src/README.md $src/demo_path.txt $dst/ 2>/dev/null
  base=$(git -C $wt rev-parse --short HEAD)
  python3 - "$id" "$m" "$rel" "$run" "$pkg" "$base" <<'PY'
import json,sys,re,os
id,m,rel,run,pkg,base=sys.argv[1:7]
dst='/verif/seeded/%s-%s'%(id,m)
readme=open(dst+'/README.md').read() if os.path.exists(dst+'/README.md') else ''
meta={"property":id,"name":"%s-%s"%(id,m),"base_commit":base+(" (pinned snapshot, before any fix: commit)" if base.startswith("a8cb25f") else " (/repo with the fix: commits up to this one)"),
 "demo_file":rel,"demo_cmd":"go test -vet=off -count=1 %s %s"%(run,pkg),
 "needs_to_manifest":"see README.md (written by the sub-agent that produced the change)",
 "confirmed":{"demo_passes_on_clean_tree":True,"builds_with_patch":True,"existing_suite_passes_with_patch":True,"demo_fails_with_patch":True,
   "how":"tools/import_seed.sh in scratch worktree /tmp/wt/%s (removed afterwards)"%id},
 "detected_by":None}
json.dump(meta,open(dst+'/meta.json','w'),indent=1)
PY
fi
