package props

import (
	"fmt"
	"go/token"
	"go/types"

	"dblint/internal/core"

	"golang.org/x/tools/go/ssa"
)

func init() {
	register(&Spec{ID: "C14", Title: "Transport failure yields a clean prefix and then an error", Run: runC14,
		Meta: core.Meta{
			Explanation: "R14.24: every error return of PacketQueue.Bytes is guarded by a condition computed from the requested count n (today the n == 0 shortcut), so Bytes(0) succeeds on an exhausted queue. R14.23: in every function of package tds that returns an error, the non-nil edge of each nil-test of a BytesChannel read's error (followed through phis) reaches error returns only - no second condition beside the test can let a zero-padded result through. R14.21 = R02.11, R14.22 = R13.7. R14.19: every nil return of Logout is under the nil edge of its receive call's error. R14.20: SendRemainingPackets calls sendPackets once and returns its error value. R14.17: the delivery of a HeaderOnlyPackage in WritePacket is under Header.Length == PacketHeaderSize. R14.18: every return of Packet.WriteTo behind the Write returns the count that Write reported. R14.16 = R03.6 (NextPackage looks at the package queue before it can fail on a context: packages from completely received packets are delivered before the error). R14.15: tds.ErrEOFAfterZeroRead, ErrNotEnoughBytes, ErrChannelClosed and ErrNoPackageReady are initialised with errors.New — Conn.ReadFrom and tryParsePackage tell the conditions apart with errors.Is, and a sentinel that wraps io.EOF is taken for an orderly end with a complete packet. Decides that the error path from the transport to the consumer is unbroken and that only completely received packets are parsed. R14.1: every transport read (io.Reader.Read / io.ReadFull on the connection) in PacketHeader.ReadFrom and Packet.ReadFrom has its error tested at once and every failure return carries the read error (%w), the error itself or ErrEOFAfterZeroRead — never nil. R14.2: a nil-error return of Packet.ReadFrom is dominated by totalBytes == Header.Length, a nil-error return of PacketHeader.ReadFrom by the full-header read succeeding; every return of Packet.ReadFrom whose error may satisfy errors.Is(err, io.EOF) (which Conn.ReadFrom treats as an orderly end and still parses the packet) lies only on paths where the body is complete or the error is not EOF. R14.3: every CFG cycle that contains a transport read tests a context's Err() with an exit, and every way back to the loop head after a failed read passes a context Err() test (bounded partial-body wait). R14.4: in Conn.ReadFrom every path to WritePacket(packet) has err == nil or errors.Is(err, io.EOF), and conversely every path with err == nil or EOF reaches WritePacket (or reports an unknown channel on Conn.errCh) before it loops or returns; the complementary path sends an error wrapping err on Conn.errCh; the loop ends after an EOF. R14.5: NextPackage receives from Conn.errCh in its blocking select and returns a non-nil error wrapping the received value. R14.6: in NextPackage every path to the blocking select (which offers the error queues) first passes the non-blocking receive from packageCh: packages parsed from completely received packets are delivered before the transport error that followed them. R14.9: in Packet.ReadFrom every context whose Err() decides whether an EOF-like read ends the wait is, on every path, the result of context.WithTimeout(ctx, timeout) with the function's timeout parameter — a wait that is only armed by the first body byte never ends when the peer dies between header and body. R14.10: PacketHeader.ReadFrom, Packet.ReadFrom and Conn.ReadFrom never compare an error with io.EOF by == / != — transports and the readers' own %w wrapping hand on EOFs that only errors.Is recognises, and a missed EOF is either reported instead of the complete packet it came with or (zero-byte EOF) never turned into ErrEOFAfterZeroRead, so the reader ends without queueing an error. R14.11 = R03.2 (the synthetic final DONE is emitted only when the queue is at end of MESSAGE — IsEOM, not merely `all packets consumed` — so a transport that dies on a packet boundary yields an error, not a final DONE). R14.12: in sendPackets the error edge of every sendPacket call reaches a return of a non-nil error without going round the loop again (a `break` that only leaves the select lets the next packet overwrite the error and the message goes out with a hole). R14.13 = R11.5 (every error return of NextPackageUntil returns the error it received, fmt.Errorf(...%w, err), or the EEDError whose WrappedError was set to that error). R14.8: Conn.errCh and Channel.errCh are sent to only on the reader goroutine's path (functions statically reachable from (*Conn).ReadFrom); a consumer-side function (e.g. a failed request write in sendPacket) that also sends there blocks its caller — without looking at the caller's context — as soon as the bounded queue is full, which on a dead transport it is. R14.7: every return of the reader goroutine is under `connection context done` or `errors.Is(err, io.EOF)`; a reader that gives up on other errors stops refilling Conn.errCh and only the first waiter learns that the transport died.",
			NotDecided:  "Which prefix of packages is delivered, the spurious-DONE clause and elapsed time are not decided (crash points are not enumerated).",
			Assumptions: []string{"io.ReadFull returns err == nil only when the buffer was filled (standard library contract)"},
		}})
}

func isReaderRead(c ssa.CallInstruction) bool {
	cc := c.Common()
	if cc.IsInvoke() && cc.Method.Name() == "Read" && core.IsNamedType(cc.Value.Type(), "io", "Reader") {
		return true
	}
	if cc.IsInvoke() && cc.Method.Name() == "Read" && core.IsNamedType(cc.Value.Type(), "io", "ReadWriteCloser") {
		return true
	}
	return core.IsPkgFunc(c, "io", "ReadFull") || core.IsPkgFunc(c, "io", "ReadAtLeast")
}

func runC14(r *core.Run) {
	p := r.Prog
	r.Rule("R14.1", "transport read errors are tested at once and never turned into success", 2, true)
	r.Rule("R14.2", "only completely received packets are returned without error; EOF-like errors only with a complete body", 3, false)
	r.Rule("R14.3", "every loop around a transport read is bounded by a context/timeout test", 1, true)
	r.Rule("R14.4", "Conn.ReadFrom parses a packet if and only if err == nil or EOF, reports every other error on Conn.errCh", 4, false)
	r.Rule("R14.5", "NextPackage surfaces Conn.errCh errors, to waiting and to polling consumers", 2, false)
	r.Rule("R14.6", "queued packages are delivered before a queued error (prefix, then error)", 1, false)
	r.Rule("R14.7", "the reader goroutine only ends when the connection context is done or after an EOF", 2, false)
	r.Rule("R14.8", "only the reader goroutine reports on the error queues; request writes return their error", 1, false)
	defer c14ErrQueueWriters(r)
	r.Rule("R14.9", "the wait for the rest of a packet is bounded by the read timeout from the first byte on", 1, false)
	defer c14TimeoutArmed(r, "R14.9")
	r.Rule("R14.10", "the transport readers recognise io.EOF with errors.Is, never by identity", 3, false)
	defer c14EOFByIs(r)
	r.Rule("R14.11", "no spurious final DONE: the synthetic DONE(FINAL) needs the EOM packet to have arrived (R03.2)", 5, false)
	defer func() { c03Synthetic(r, r.Prog.Field("tds", "DonePackage", "Status"), "R14.11") }()
	r.Rule("R14.12", "a failed packet write ends the request with that error at once", 1, false)
	defer c14SendFailureReturns(r, "R14.12")
	r.Rule("R14.13", "NextPackageUntil hands the transport error on (wrapped), it does not replace it by its own end-of-response signal (R11.5)", 4, false)
	defer c11Until(r, "R14.13")
	r.Rule("R14.15", "the distinguished error conditions are plain sentinels (errors.New): none of them wraps io.EOF or another error", 4, false)
	defer sentinelsArePlain(r, "R14.15", "ErrEOFAfterZeroRead", "ErrNotEnoughBytes", "ErrChannelClosed", "ErrNoPackageReady")
	r.Rule("R14.16", "an already queued package is handed out before any context is consulted (R03.6): prefix, then error", 1, false)
	defer c03QueuedFirst(r, "R14.16")
	r.Rule("R14.17", "a packet is header-only when its header says so (Length == PacketHeaderSize), not when its body is empty", 1, false)
	defer headerOnlyByLength(r, "R14.17")
	r.Rule("R14.18", "Packet.WriteTo reports the count of the transport write (sendPacket checks it against the header length)", 1, false)
	defer writeToReturnsCount(r, "R14.18")
	r.Rule("R14.19", "Logout reports success only after the server's answer was received", 1, false)
	defer logoutNeedsAnswer(r, "R14.19")
	r.Rule("R14.20", "SendRemainingPackets flushes once and returns that result", 1, false)
	defer singleFlush(r, "R14.20")
	r.Rule("R14.21", "a send does not touch the receive queue (R02.11): no package is assembled from a packet whose first part was thrown away", 1, false)
	defer rxOwnership(r, "R14.21")
	r.Rule("R14.22", "no re-acquisition of a held RWMutex through a callee (R13.7): a failed write is reported, not parked behind a pending Close", 40, true)
	defer func() { c13Reacquire(r, newLockAnalysis(r.Prog, "tds"), "R14.22") }()
	r.Rule("R14.23", "a failed read never yields a value: the error test stands alone", 100, false)
	defer readErrorsDecideAlone(r, "R14.23")
	r.Rule("R14.24", "a package that ends with an empty value at the end of the data is complete", 1, false)
	defer zeroBytesSucceed(r, "R14.24")

	eofZero := p.Global("tds", "ErrEOFAfterZeroRead")
	isEOFZero := func(v ssa.Value) bool {
		u, ok := v.(*ssa.UnOp)
		return ok && u.Op == token.MUL && u.X == ssa.Value(eofZero)
	}

	// R14.1 + R14.3 over every tds function that reads the transport
	nreads := 0
	for _, fn := range p.ModuleFuncs() {
		if fn.Pkg == nil || fn.Pkg.Pkg.Path() != core.Module+"/tds" {
			continue
		}
		for _, c := range core.Calls(fn) {
			if !isReaderRead(c) {
				continue
			}
			nreads++
			key := core.FuncName(fn) + " -> " + calleeKey(c)
			e, has := errResult(c)
			if !has || e == nil {
				r.Bad("R14.1", key, c.Pos(), "the error of a transport read is discarded")
				continue
			}
			c14ReadSite(r, "R14.1", fn, c, e, key, isEOFZero)
			c14Loop(r, fn, c, e, key)
		}
	}
	r.Stats["transport_read_sites"] = nreads

	c14Complete(r, "R14.2", isEOFZero)
	c14Conn(r, "R14.4")
	c14NextPackage(r, "R14.5")
	c14Order(r)
	c14ReaderExits(r)
}

func c14ReadSite(r *core.Run, rule string, fn *ssa.Function, c ssa.CallInstruction, e ssa.Value, key string, isEOFZero func(ssa.Value) bool) {
	// the error must be tested (err != nil) in the same block, before anything else reads
	var test *ssa.BinOp
	tail := false
	for _, ref := range *e.Referrers() {
		if bo, ok := ref.(*ssa.BinOp); ok {
			if _, _, isNil := core.ErrNilTest(bo); isNil {
				test = bo
			}
		}
		if ret, ok := ref.(*ssa.Return); ok {
			rv := core.RetVals(ret)
			if rv[len(rv)-1] == e {
				tail = true
			}
		}
	}
	if test == nil && tail {
		r.OK(rule, key, c.Pos(), "read error returned as is")
		return
	}
	if test == nil {
		r.Bad(rule, key, c.Pos(), "the error of the transport read is not tested against nil right after the read")
		return
	}
	var iff *ssa.If
	for _, ref := range *test.Referrers() {
		if i, ok := ref.(*ssa.If); ok {
			iff = i
		}
	}
	if iff == nil {
		// e.g. `err != nil || n != 8`
		r.Unknown(rule, key, test.Pos(), "nil test of the transport error is not a direct branch condition")
		return
	}
	// every path from the read to the next transport read or to a return passes the test
	skipped := false
	core.EnumPaths(c.Block(), func(b *ssa.BasicBlock) bool {
		if b == iff.Block() {
			return true
		}
		for _, in := range b.Instrs {
			if cc, ok := in.(ssa.CallInstruction); ok && isReaderRead(cc) {
				return true
			}
		}
		return false
	}, nil, 4000, func(pa core.Path, ended bool) {
		if c.Block() == iff.Block() {
			return
		}
		last := pa.Blocks[len(pa.Blocks)-1]
		if last != iff.Block() {
			skipped = true
		}
	})
	if skipped {
		r.Bad(rule, key, c.Pos(), "a path from the transport read reaches a return or the next read without testing the read error")
		return
	}
	_, trueNonNil, _ := core.ErrNilTest(test)
	fail := iff.Block().Succs[1]
	if trueNonNil {
		fail = iff.Block().Succs[0]
	}
	// every return reachable on the failure side without passing the read again must carry a non-nil error derived from e
	bad := ""
	var badPos token.Pos
	nret := 0
	core.EnumPaths(fail, func(b *ssa.BasicBlock) bool { return b == c.Block() }, nil, 4000, func(pa core.Path, ended bool) {
		if ended {
			return // looped back to the read (R14.3's business)
		}
		last := pa.Blocks[len(pa.Blocks)-1]
		ret, ok := last.Instrs[len(last.Instrs)-1].(*ssa.Return)
		if !ok {
			return
		}
		nret++
		rv := core.RetVals(ret)
		ev := rv[len(rv)-1]
		if core.IsNil(ev) {
			bad, badPos = "a failed transport read can end in a nil-error return", ret.Pos()
			return
		}
		if ev == e || isEOFZero(ev) {
			return
		}
		if call, ok := ev.(*ssa.Call); ok {
			if ws, isErrorf := errorfWraps(call); isErrorf {
				for _, w := range ws {
					if w == e {
						return
					}
				}
				bad, badPos = "the transport error is formatted without %w: the cause (EOF, reset, timeout) is lost to errors.Is", ret.Pos()
				return
			}
		}
		// a context error is acceptable too (ctx.Err() returned)
		if _, isCtx := core.IsContextErrCall(ev); isCtx {
			return
		}
		bad, badPos = "failure return carries "+core.Expr(ev)+", not the transport error", ret.Pos()
	})
	if bad != "" {
		r.Bad(rule, key, c.Pos(), bad, "offending return at "+r.Prog.Pos(badPos))
	} else if nret == 0 {
		r.Bad(rule, key, c.Pos(), "no return on the failure side of the transport read")
	} else {
		r.OK(rule, key, c.Pos(), "tested at once; all failure returns carry the transport error or ErrEOFAfterZeroRead")
	}
}

func condHasContextErr(cond ssa.Value) bool {
	bo, ok := cond.(*ssa.BinOp)
	if !ok {
		return false
	}
	if _, ok := core.IsContextErrCall(bo.X); ok {
		return true
	}
	if _, ok := core.IsContextErrCall(bo.Y); ok {
		return true
	}
	return false
}

func c14Loop(r *core.Run, fn *ssa.Function, c ssa.CallInstruction, e ssa.Value, key string) {
	h, loop := core.InnermostLoop(c.Block())
	if loop == nil {
		if core.IsPkgFunc(c, "io", "ReadFull") || !r.Prog.InOverlay(c.Pos()) {
			// not in a loop: nothing to bound
			r.OK("R14.3", key+" (no loop)", c.Pos(), "the read is not inside a cycle")
		}
		return
	}
	// (i) the cycle contains a context Err() test with an exit from the loop
	hasExit := false
	for b := range loop {
		iff, ok := b.Instrs[len(b.Instrs)-1].(*ssa.If)
		if !ok || !condHasContextErr(iff.Cond) {
			continue
		}
		for _, s := range b.Succs {
			if !loop[s] {
				hasExit = true
			}
			// or leads to an exit through a further condition (err != nil && m == 0)
			if loop[s] {
				if i2, ok := s.Instrs[len(s.Instrs)-1].(*ssa.If); ok {
					_ = i2
					for _, s2 := range s.Succs {
						if !loop[s2] {
							hasExit = true
						}
					}
				}
			}
		}
	}
	if !hasExit {
		r.Bad("R14.3", key, c.Pos(), "the loop around this transport read has no context/timeout test that leaves the loop: a peer that stops sending (or an EOF that is retried) makes it spin or wait forever")
		return
	}
	// (ii) every path from the failed-read edge back to the loop head passes a context Err() test
	var test *ssa.BinOp
	for _, ref := range *e.Referrers() {
		if bo, ok := ref.(*ssa.BinOp); ok && loop[bo.Block()] {
			if _, _, isNil := core.ErrNilTest(bo); isNil {
				test = bo
			}
		}
	}
	if test == nil {
		r.Unknown("R14.3", key, c.Pos(), "no nil test of the read error in the loop")
		return
	}
	_, trueNonNil, _ := core.ErrNilTest(test)
	var iff *ssa.If
	for _, ref := range *test.Referrers() {
		if i, ok := ref.(*ssa.If); ok {
			iff = i
		}
	}
	if iff == nil {
		r.Unknown("R14.3", key, c.Pos(), "read error test is not a branch condition")
		return
	}
	blk := iff.Block()
	fail := blk.Succs[1]
	if trueNonNil {
		fail = blk.Succs[0]
	}
	bad := false
	complete := core.EnumPaths(fail, func(b *ssa.BasicBlock) bool { return b == h }, loop, 4000, func(pa core.Path, ended bool) {
		if !ended {
			return
		}
		if !pa.HasAny(condHasContextErr) {
			bad = true
		}
	})
	if !complete {
		r.Unknown("R14.3", key, c.Pos(), "too many paths")
		return
	}
	r.Check(!bad, "R14.3", key, c.Pos(), "the loop tests a context on every iteration and every retry after a failed read passes a timeout test",
		"after a failed read the loop can continue without consulting any context/timeout: the wait for the rest of a packet is unbounded")
}

func c14Complete(r *core.Run, rule string, isEOFZero func(ssa.Value) bool) {
	p := r.Prog
	fn := p.Func("tds", "Packet", "ReadFrom")
	lengthF := p.Field("tds", "PacketHeader", "Length")
	isLenCmp := func(cond ssa.Value) (eq bool, ok bool) {
		bo, isb := cond.(*ssa.BinOp)
		if !isb || (bo.Op != token.EQL && bo.Op != token.NEQ) {
			return false, false
		}
		for _, side := range []ssa.Value{bo.X, bo.Y} {
			if f, _ := core.FieldLoad(core.Strip(side)); f == lengthF {
				return bo.Op == token.EQL, true
			}
		}
		return false, false
	}
	// Other ways of writing "the body is complete" that are accepted:
	//   counter == len(packet.Data)            (a counter of body bytes against the body's length)
	//   len(rest) == 0                         (rest: the part of packet.Data still to be filled) — provided rest
	//                                          is advanced by the count of every read on every way back to the read
	dataF := p.Field("tds", "Packet", "Data")
	lenArg := func(v ssa.Value) ssa.Value {
		c, ok := core.Strip(v).(*ssa.Call)
		if !ok {
			return nil
		}
		if bi, isB := c.Call.Value.(*ssa.Builtin); !isB || bi.Name() != "len" {
			return nil
		}
		return c.Call.Args[0]
	}
	var readCount ssa.Value
	restWhy := ""
	restOK := func(v ssa.Value, ph *ssa.Phi, seen map[ssa.Value]bool) bool {
		ok, why := restSliceAdvanced(ph, readCount, dataF)
		if !ok {
			restWhy = why
		}
		return ok
	}
	isAltComplete := func(cond ssa.Value) (eq bool, ok bool) {
		bo, isb := cond.(*ssa.BinOp)
		if !isb || (bo.Op != token.EQL && bo.Op != token.NEQ) {
			return false, false
		}
		for _, sw := range [][2]ssa.Value{{bo.X, bo.Y}, {bo.Y, bo.X}} {
			la := lenArg(sw[0])
			if la == nil {
				continue
			}
			if f, _ := core.FieldLoad(core.Strip(la)); f == dataF {
				return bo.Op == token.EQL, true
			}
			if sl, isS := la.(*ssa.Slice); isS && sl.High == nil && sl.Low != nil && core.Strip(sl.Low) == readCount {
				la = sl.X // the rest after this read's bytes
			}
			if ph, isP := la.(*ssa.Phi); isP {
				if z, isC := core.ConstInt64(sw[1]); isC && z == 0 {
					if restOK(ph, ph, map[ssa.Value]bool{}) {
						return bo.Op == token.EQL, true
					}
				}
			}
		}
		return false, false
	}
	complete := func(conds []core.EdgeCond) bool {
		for _, c := range conds {
			if eq, ok := isLenCmp(c.If.Cond); ok && eq == c.Pol {
				return true
			}
			if eq, ok := isAltComplete(c.If.Cond); ok && eq == c.Pol {
				return true
			}
		}
		return false
	}
	isEOFIs := func(cond ssa.Value) bool {
		c, ok := cond.(*ssa.Call)
		if !ok || !core.IsPkgFunc(c, "errors", "Is") || len(c.Call.Args) != 2 {
			return false
		}
		u, ok := c.Call.Args[1].(*ssa.UnOp)
		if !ok {
			return false
		}
		g, ok := u.X.(*ssa.Global)
		return ok && g.Pkg.Pkg.Path() == "io" && g.Name() == "EOF"
	}
	// the body read
	var read ssa.CallInstruction
	for _, c := range core.Calls(fn) {
		if isReaderRead(c) {
			read = c
		}
	}
	if read == nil {
		r.Unknown(rule, "(*tds.Packet).ReadFrom", fn.Pos(), "no transport read of the body found")
		return
	}
	e, _ := errResult(read)
	if rv := read.Value(); rv != nil {
		for _, ref := range *rv.Referrers() {
			if ex, ok := ref.(*ssa.Extract); ok && ex.Index == 0 {
				readCount = ex
			}
		}
	}
	// enumerate paths from the read's block to every return
	type agg struct {
		ret      *ssa.Return
		bad      string
		nilPaths int
	}
	res := map[*ssa.Return]*agg{}
	core.EnumPaths(read.Block(), func(b *ssa.BasicBlock) bool { return false }, nil, 20000, func(pa core.Path, ended bool) {
		last := pa.Blocks[len(pa.Blocks)-1]
		ret, ok := last.Instrs[len(last.Instrs)-1].(*ssa.Return)
		if !ok {
			return
		}
		a := res[ret]
		if a == nil {
			a = &agg{ret: ret}
			res[ret] = a
		}
		rv := core.RetVals(ret)
		ev := rv[len(rv)-1]
		if core.IsNil(ev) {
			a.nilPaths++
			if !complete(pa.Conds) {
				a.bad = "a nil-error return is reachable without the test totalBytes == Header.Length succeeding: an incomplete packet would be parsed"
				if restWhy != "" {
					a.bad = "completeness is tested on the rest of the body, but " + restWhy
				}
			}
			return
		}
		mayBeEOF := ev == e
		if call, ok := ev.(*ssa.Call); ok {
			if ws, isErrorf := errorfWraps(call); isErrorf {
				for _, w := range ws {
					if w == e {
						mayBeEOF = true
					}
				}
			}
		}
		if !mayBeEOF {
			return
		}
		notEOF := pa.Has(isEOFIs, false)
		if !notEOF && !complete(pa.Conds) {
			a.bad = "this return hands back an error that may satisfy errors.Is(err, io.EOF) while the body is incomplete; Conn.ReadFrom treats such an error as an orderly end and parses the zero-padded packet"
		}
	})
	n := 0
	for ret, a := range res {
		rv := core.RetVals(ret)
		ev := rv[len(rv)-1]
		key := "(*tds.Packet).ReadFrom return " + core.KExpr(ev)
		n++
		if a.bad != "" {
			r.Bad(rule, key, ret.Pos(), a.bad)
		} else {
			r.OK(rule, key, ret.Pos(), "nil only with a complete body; EOF-like errors only with a complete body or not at all")
		}
	}
	if n == 0 {
		r.Unknown(rule, "(*tds.Packet).ReadFrom", fn.Pos(), "no returns after the body read")
	}

	// header: nil error of PacketHeader.ReadFrom only after a full read
	hf := p.Func("tds", "PacketHeader", "ReadFrom")
	var hread ssa.CallInstruction
	for _, c := range core.Calls(hf) {
		if isReaderRead(c) {
			hread = c
		}
	}
	if hread == nil {
		r.Unknown(rule, "(*tds.PacketHeader).ReadFrom", hf.Pos(), "no transport read found")
		return
	}
	full := core.IsPkgFunc(hread, "io", "ReadFull")
	he, _ := errResult(hread)
	okAll := true
	why := ""
	for _, ret := range core.Returns(hf) {
		rv := core.RetVals(ret)
		ev := rv[len(rv)-1]
		if isEOFZero(ev) || ev == he {
			continue
		}
		if call, ok := ev.(*ssa.Call); ok {
			if _, isErrorf := errorfWraps(call); isErrorf {
				continue
			}
		}
		// success-capable return (nil or result of header.Write): needs err == nil dominance
		dom := false
		cnt := false
		for _, g := range core.GuardsAt(ret) {
			if x, nn, ok := core.ErrNilTest(g.Cond); ok && x == he && g.Pol != nn {
				dom = true
			}
			if bo, ok := g.Cond.(*ssa.BinOp); ok {
				if c8, isC := core.ConstInt64(bo.Y); isC && c8 == 8 && ((bo.Op == token.NEQ && !g.Pol) || (bo.Op == token.EQL && g.Pol)) {
					cnt = true
				}
			}
		}
		if !dom {
			okAll, why = false, "a success return of the header reader is not dominated by the read error being nil"
		} else if !full && !cnt {
			okAll, why = false, "a single Read may return fewer than 8 bytes with a nil error; the success return is not dominated by n == PacketHeaderSize"
		}
	}
	r.Check(okAll, rule, "(*tds.PacketHeader).ReadFrom success", hf.Pos(), "header parsed only after all 8 bytes were read without error", why)
}

func c14Conn(r *core.Run, rule string) {
	p := r.Prog
	fn := p.Func("tds", "Conn", "ReadFrom")
	errCh := p.Field("tds", "Conn", "errCh")
	pread := p.Func("tds", "Packet", "ReadFrom")
	wp := p.Func("tds", "Channel", "WritePacket")
	var rd, wr ssa.CallInstruction
	for _, c := range core.Calls(fn) {
		if core.StaticCallee(c) == pread {
			rd = c
		}
		if core.StaticCallee(c) == wp {
			wr = c
		}
	}
	if rd == nil || wr == nil {
		r.Unknown(rule, "(*tds.Conn).ReadFrom", fn.Pos(), "packet.ReadFrom / WritePacket calls not found")
		return
	}
	e, _ := errResult(rd)
	isErrNil := func(cond ssa.Value) (nonNilOnTrue bool, ok bool) {
		x, nn, isT := core.ErrNilTest(cond)
		if isT && x == e {
			return nn, true
		}
		return false, false
	}
	isEOFIs := func(cond ssa.Value) bool {
		c, ok := cond.(*ssa.Call)
		if !ok || !core.IsPkgFunc(c, "errors", "Is") || len(c.Call.Args) != 2 || c.Call.Args[0] != e {
			return false
		}
		u, ok := c.Call.Args[1].(*ssa.UnOp)
		if !ok {
			return false
		}
		g, ok := u.X.(*ssa.Global)
		return ok && g.Pkg.Pkg.Path() == "io" && g.Name() == "EOF"
	}
	// the packet handed to WritePacket is the one just read
	samePacket := len(wr.Common().Args) == 2 && len(rd.Common().Args) >= 1 && wr.Common().Args[1] == rd.Common().Args[0]
	r.Check(samePacket, rule, "WritePacket receives the packet just read", wr.Pos(), "same *Packet value", "WritePacket is handed a different packet than the one ReadFrom filled")

	badParse, badReport, badDrop := "", "", ""
	h, loop := core.InnermostLoop(rd.Block())
	core.EnumPaths(rd.Block(), func(b *ssa.BasicBlock) bool { return b == wr.Block() || b == h }, nil, 5000, func(pa core.Path, ended bool) {
		last := pa.Blocks[len(pa.Blocks)-1]
		errNil, errNonNil, eof, notEOF := false, false, false, false
		for _, c := range pa.Conds {
			if nn, ok := isErrNil(c.If.Cond); ok {
				if c.Pol == nn {
					errNonNil = true
				} else {
					errNil = true
				}
			}
			if isEOFIs(c.If.Cond) {
				if c.Pol {
					eof = true
				} else {
					notEOF = true
				}
			}
		}
		if ended && last == wr.Block() {
			if !(errNil || eof) {
				badParse = "WritePacket is reachable although packet.ReadFrom failed with an error other than EOF: an incomplete packet is parsed"
			}
			return
		}
		if !(errNonNil && notEOF) {
			// err == nil or EOF: the packet is complete; it is routed (the other end of this enumeration) or its
			// channel is unknown and that is reported on Conn.errCh
			reported := false
			for _, b := range pa.Blocks {
				for _, in := range b.Instrs {
					if s, ok := in.(*ssa.Send); ok {
						if f, _ := core.FieldLoad(s.Chan); f == errCh {
							reported = true
						}
					}
				}
			}
			if !reported {
				badDrop = "a packet that packet.ReadFrom returned completely (err == nil, or io.EOF together with the last bytes) can leave the loop body without being handed to WritePacket: the last packet of a response is lost when the peer closes right behind it"
			}
		}
		if errNonNil && notEOF {
			// must have sent on errCh a value wrapping e
			sent := false
			for _, b := range pa.Blocks {
				for _, in := range b.Instrs {
					if s, ok := in.(*ssa.Send); ok {
						if f, _ := core.FieldLoad(s.Chan); f == errCh {
							if call, ok := s.X.(*ssa.Call); ok {
								if ws, isErrorf := errorfWraps(call); isErrorf {
									for _, w := range ws {
										if w == e {
											sent = true
										}
									}
								}
							}
							if s.X == e {
								sent = true
							}
						}
					}
				}
			}
			if !sent {
				badReport = "a transport error other than EOF is not sent (wrapped with %w) on Conn.errCh: the consumer never learns that the connection failed"
			}
		}
	})
	_ = loop
	r.Check(badParse == "", rule, "WritePacket only after err == nil or EOF", wr.Pos(), "every path to WritePacket has err == nil or errors.Is(err, io.EOF)", badParse)
	r.Check(badDrop == "", rule, "every completely received packet is routed", rd.Pos(), "paths with err == nil or EOF reach WritePacket (or report an unknown channel)", badDrop)
	r.Check(badReport == "", rule, "non-EOF read errors reach Conn.errCh", rd.Pos(), "every such path sends fmt.Errorf(...%w, err) on Conn.errCh", badReport)

	// after WritePacket: EOF ends the reader
	ends := false
	for b := range dominatedRegion(wr.Block()) {
		if iff, ok := b.Instrs[len(b.Instrs)-1].(*ssa.If); ok && isEOFIs(iff.Cond) {
			if _, ok := b.Succs[0].Instrs[len(b.Succs[0].Instrs)-1].(*ssa.Return); ok {
				ends = true
			}
		}
	}
	r.Check(ends, rule, "reader ends after EOF", wr.Pos(), "errors.Is(err, io.EOF) after WritePacket returns", "after an EOF the reader loop does not end")
}

func c14NextPackage(r *core.Run, rule string) {
	p := r.Prog
	fn := p.Func("tds", "Channel", "NextPackage")
	errCh := p.Field("tds", "Conn", "errCh")
	found := false
	ok := false
	for _, b := range fn.Blocks {
		for _, in := range b.Instrs {
			sel, isSel := in.(*ssa.Select)
			if !isSel || !sel.Blocking {
				continue
			}
			for i, st := range sel.States {
				if st.Dir != types.RecvOnly {
					continue
				}
				if f, _ := core.FieldLoad(st.Chan); f != errCh {
					continue
				}
				found = true
				// the branch for index i returns an error wrapping the received value
				rets := selectBranchReturns(sel, i)
				good := len(rets) > 0
				for _, ret := range rets {
					rv := core.RetVals(ret)
					ev := rv[len(rv)-1]
					call, isCall := ev.(*ssa.Call)
					if !isCall {
						good = false
						continue
					}
					ws, isErrorf := errorfWraps(call)
					wraps := false
					for _, w := range ws {
						if ex, ok := w.(*ssa.Extract); ok && ex.Tuple == ssa.Value(sel) {
							wraps = true
						}
						if ta, ok := w.(*ssa.TypeAssert); ok {
							if ex, ok := ta.X.(*ssa.Extract); ok && ex.Tuple == ssa.Value(sel) {
								wraps = true
							}
						}
					}
					if !isErrorf || !wraps {
						good = false
					}
				}
				ok = good
			}
		}
	}
	if !found {
		r.Bad(rule, "(*tds.Channel).NextPackage", fn.Pos(), "the blocking select of NextPackage does not receive from Conn.errCh: a dead connection is never reported to a waiting consumer")
		return
	}
	r.Check(ok, rule, "(*tds.Channel).NextPackage", fn.Pos(), "case err := <-tdsConn.errCh returns fmt.Errorf(...%w, err)", "the Conn.errCh case does not return an error wrapping the received transport error")
	// a polling consumer (wait == false) is told "no package ready" only by a select that also offers the error
	// queues: a return of ErrNoPackageReady ahead of it hides a dead connection from the consumer for good
	noPkg := p.Global("tds", "ErrNoPackageReady")
	whyPoll := ""
	for _, ret := range core.Returns(fn) {
		rv := core.RetVals(ret)
		u, isU := core.Strip(rv[len(rv)-1]).(*ssa.UnOp)
		if !isU || u.X != ssa.Value(noPkg) {
			continue
		}
		consulted := false
		for _, b := range fn.Blocks {
			for _, in := range b.Instrs {
				sel, isSel := in.(*ssa.Select)
				if !isSel || !core.Dominates(sel, ret) {
					continue
				}
				for _, st := range sel.States {
					if f, _ := core.FieldLoad(st.Chan); f == errCh && st.Dir == types.RecvOnly {
						consulted = true
					}
				}
			}
		}
		if !consulted {
			whyPoll = "NextPackage returns ErrNoPackageReady (" + p.Pos(ret.Pos()) + ") without having offered the error queues in a select: a consumer polling with wait == false gets the queued packages and then \"no package ready\" forever, the transport error is never reported"
		}
	}
	r.Check(whyPoll == "", rule, "(*tds.Channel).NextPackage: polling sees queued errors", fn.Pos(), "ErrNoPackageReady only reaches the caller through the select that receives from the error queues", whyPoll)
}

// selectBranchReturns returns the Return instructions reached when the
// select chose state idx (following the If chain on the select index).
func selectBranchReturns(sel *ssa.Select, idx int) []*ssa.Return {
	var index *ssa.Extract
	for _, ref := range *sel.Referrers() {
		if ex, ok := ref.(*ssa.Extract); ok && ex.Index == 0 {
			index = ex
		}
	}
	if index == nil {
		return nil
	}
	var start *ssa.BasicBlock
	for _, ref := range *index.Referrers() {
		bo, ok := ref.(*ssa.BinOp)
		if !ok || bo.Op != token.EQL {
			continue
		}
		c, isC := core.ConstInt64(bo.Y)
		if !isC || int(c) != idx {
			continue
		}
		for _, r2 := range *bo.Referrers() {
			if iff, ok := r2.(*ssa.If); ok {
				start = iff.Block().Succs[0]
			}
		}
	}
	if start == nil {
		return nil
	}
	var out []*ssa.Return
	for b := range dominatedRegion(start) {
		if ret, ok := b.Instrs[len(b.Instrs)-1].(*ssa.Return); ok {
			out = append(out, ret)
		}
	}
	return out
}

// c14Order: in NextPackage every path to the blocking select (which offers
// the error queues) passes the non-blocking receive from packageCh first, so
// packages parsed from completely received packets are handed out before the
// transport error that followed them.
func c14Order(r *core.Run) {
	p := r.Prog
	fn := p.Func("tds", "Channel", "NextPackage")
	fPkgCh := p.Field("tds", "Channel", "packageCh")
	fast, blocking := nextPackageSelects(fn, fPkgCh)
	key := "NextPackage: queued packages before queued errors"
	if blocking == nil || fast == nil {
		r.Bad("R14.6", key, fn.Pos(), "NextPackage has no non-blocking receive from packageCh ahead of its blocking select: when a package and a transport error are both queued, select picks at random and the error can overtake packages from completely received packets")
		return
	}
	ok := true
	core.EnumPaths(fn.Blocks[0], func(b *ssa.BasicBlock) bool { return b == blocking.Block() }, nil, 500, func(pa core.Path, ended bool) {
		if !ended {
			return
		}
		through := false
		for _, b := range pa.Blocks {
			if b == fast.Block() {
				through = true
			}
		}
		if !through {
			ok = false
		}
	})
	r.Check(ok, "R14.6", key, blocking.Pos(), "every path to the blocking select passes the non-blocking packageCh receive", "the blocking select can be reached without first trying packageCh (the fast path is conditional): a queued transport error can overtake packages that were already parsed from completely received packets")
}

// c14ReaderExits: every return of Conn.ReadFrom is dominated by the
// connection context being done or by errors.Is(err, io.EOF) after the
// packet was delivered. A reader that gives up on other errors stops
// refilling Conn.errCh: only the first waiter learns that the transport died.
func c14ReaderExits(r *core.Run) {
	p := r.Prog
	fn := p.Func("tds", "Conn", "ReadFrom")
	fCtx := p.Field("tds", "Conn", "ctx")
	n := 0
	for _, ret := range core.Returns(fn) {
		n++
		okExit := false
		for _, g := range core.GuardsAt(ret) {
			if g.Pol && condHasContextErr(g.Cond) {
				bo := g.Cond.(*ssa.BinOp)
				if rc, ok := core.IsContextErrCall(bo.X); ok {
					if f, _ := core.FieldLoad(rc); f == fCtx {
						okExit = true
					}
				}
			}
			if c, ok := g.Cond.(*ssa.Call); ok && g.Pol && core.IsPkgFunc(c, "errors", "Is") {
				if u, ok := c.Call.Args[1].(*ssa.UnOp); ok {
					if gl, ok := u.X.(*ssa.Global); ok && gl.Pkg.Pkg.Path() == "io" && gl.Name() == "EOF" {
						okExit = true
					}
				}
			}
		}
		key := "Conn.ReadFrom: return"
		r.Check(okExit, "R14.7", key, ret.Pos(), "under ctx.Err() != nil or errors.Is(err, io.EOF)", "the reader goroutine returns on a path that is neither 'connection context done' nor 'EOF after a delivered packet': after that nothing refills Conn.errCh, so only one waiter is told that the transport failed and every other receive blocks until its own context ends")
	}
	if n == 0 {
		r.Unknown("R14.7", "Conn.ReadFrom: return", fn.Pos(), "no returns")
	}
}

// nextPackageSelects finds the non-blocking receive from packageCh and the
// blocking select of NextPackage.
func nextPackageSelects(fn *ssa.Function, fPkgCh *types.Var) (fast, blocking *ssa.Select) {
	for _, b := range fn.Blocks {
		for _, in := range b.Instrs {
			sel, ok := in.(*ssa.Select)
			if !ok {
				continue
			}
			hasPkg := false
			for _, st := range sel.States {
				if f, _ := core.FieldLoad(st.Chan); f == fPkgCh && st.Dir == types.RecvOnly {
					hasPkg = true
				}
			}
			if sel.Blocking {
				blocking = sel
			} else if hasPkg {
				fast = sel
			}
		}
	}
	return
}

// c14ErrQueueWriters: R14.8.
func c14ErrQueueWriters(r *core.Run) {
	p := r.Prog
	queues := map[*types.Var]string{
		p.Field("tds", "Conn", "errCh"):    "Conn.errCh",
		p.Field("tds", "Channel", "errCh"): "Channel.errCh",
	}
	reader := readerPathFuncs(p)
	n := 0
	for _, fn := range p.ModuleFuncs() {
		for _, b := range fn.Blocks {
			for _, in := range b.Instrs {
				var ch ssa.Value
				var pos token.Pos
				switch x := in.(type) {
				case *ssa.Send:
					ch, pos = x.Chan, x.Pos()
				case *ssa.Select:
					for _, st := range x.States {
						if st.Dir == types.SendOnly {
							if f, _ := core.FieldLoad(st.Chan); queues[f] != "" && !reader[fn] && !x.Blocking {
								continue // a non-blocking attempt cannot park the caller
							}
							ch, pos = st.Chan, x.Pos()
						}
					}
				}
				if ch == nil {
					continue
				}
				f, _ := core.FieldLoad(ch)
				name := queues[f]
				if name == "" {
					continue
				}
				n++
				if !reader[fn] {
					r.Bad("R14.8", core.FuncName(fn)+": send on "+name+" outside the reader goroutine", pos, core.FuncName(fn)+" is not on the reader goroutine's path but sends on the bounded error queue "+name+": on a dead transport the reader has already filled the queue, so this send parks the consumer's own call (no context is consulted) instead of returning the error")
				}
			}
		}
	}
	r.Check(n > 0, "R14.8", "error queues are written by the reader goroutine only", token.NoPos, fmt.Sprintf("%d sends on Conn.errCh/Channel.errCh, all on the reader path", n), "no send on the error queues seen: the rule does not see the code")
}

// c14TimeoutArmed: R14.9.
func c14TimeoutArmed(r *core.Run, rule string) {
	p := r.Prog
	fn := p.Func("tds", "Packet", "ReadFrom")
	var ctxP, toP *ssa.Parameter
	for _, pa := range fn.Params {
		if core.IsContextType(pa.Type()) {
			ctxP = pa
		}
		if core.IsNamedType(pa.Type(), "time", "Duration") {
			toP = pa
		}
	}
	if ctxP == nil || toP == nil {
		r.Unknown(rule, "Packet.ReadFrom: timeout context", fn.Pos(), "ctx / timeout parameters not found")
		return
	}
	var armed func(v ssa.Value, seen map[ssa.Value]bool) (bool, string)
	armed = func(v ssa.Value, seen map[ssa.Value]bool) (bool, string) {
		if seen[v] {
			return true, ""
		}
		seen[v] = true
		switch x := v.(type) {
		case *ssa.Phi:
			for _, e := range x.Edges {
				if ok, why := armed(e, seen); !ok {
					return false, why
				}
			}
			return len(x.Edges) > 0, ""
		case *ssa.Extract:
			if c, ok := x.Tuple.(*ssa.Call); ok && core.IsPkgFunc(c, "context", "WithTimeout") && x.Index == 0 {
				if core.Strip(c.Call.Args[1]) == ssa.Value(toP) {
					return true, ""
				}
				return false, "a WithTimeout whose duration is not the timeout parameter"
			}
		case *ssa.UnOp:
			// a variable captured by a closure lives in an Alloc: every value stored into it counts
			if al, ok := x.X.(*ssa.Alloc); ok && x.Op == token.MUL {
				n := 0
				for _, ref := range *al.Referrers() {
					if st, isSt := ref.(*ssa.Store); isSt && st.Addr == ssa.Value(al) {
						n++
						if ok2, why := armed(st.Val, seen); !ok2 {
							return false, why
						}
					}
				}
				return n > 0, "never assigned"
			}
		}
		return false, core.Expr(v)
	}
	n := 0
	for _, c := range core.Calls(fn) {
		call, ok := c.(*ssa.Call)
		if !ok {
			continue
		}
		recv, isErr := core.IsContextErrCall(call)
		if !isErr || core.Strip(recv) == ssa.Value(ctxP) {
			continue // the caller's own context is tested separately (R14.3)
		}
		n++
		ok2, why := armed(core.Strip(recv), map[ssa.Value]bool{})
		r.Check(ok2, rule, "Packet.ReadFrom: the context that ends the EOF wait carries the read timeout on every path", call.Pos(), "context.WithTimeout(ctx, timeout) on every path", "the context consulted here can be "+why+", which carries no read timeout: when the peer dies at that point (e.g. between header and first body byte) the read loop spins for ever and no error is queued")
	}
	if n == 0 {
		r.Bad(rule, "Packet.ReadFrom: the context that ends the EOF wait carries the read timeout on every path", fn.Pos(), "Packet.ReadFrom consults no timeout context: a peer that stops sending in the middle of a packet is never detected")
	}
}

// c14EOFByIs: R14.10.
func c14EOFByIs(r *core.Run) {
	p := r.Prog
	isEOF := func(v ssa.Value) bool {
		u, ok := v.(*ssa.UnOp)
		if !ok {
			return false
		}
		g, ok := u.X.(*ssa.Global)
		return ok && g.Pkg != nil && g.Pkg.Pkg.Path() == "io" && g.Name() == "EOF"
	}
	for _, fn := range []*ssa.Function{p.Func("tds", "PacketHeader", "ReadFrom"), p.Func("tds", "Packet", "ReadFrom"), p.Func("tds", "Conn", "ReadFrom")} {
		bad := ""
		var pos = fn.Pos()
		for _, b := range fn.Blocks {
			for _, in := range b.Instrs {
				bo, ok := in.(*ssa.BinOp)
				if !ok || (bo.Op != token.EQL && bo.Op != token.NEQ) {
					continue
				}
				if isEOF(bo.X) || isEOF(bo.Y) {
					bad = "an error is compared with io.EOF by " + bo.Op.String() + ": an EOF that arrives wrapped (by the transport, or by this package's own %w) is not recognised"
					pos = bo.Pos()
				}
			}
		}
		r.Check(bad == "", "R14.10", core.FuncName(fn)+": io.EOF recognised by errors.Is", pos, "no identity comparison with io.EOF", bad)
	}
}

// c14SendFailureReturns: R14.12.
func c14SendFailureReturns(r *core.Run, rule string) {
	p := r.Prog
	fn := p.Func("tds", "Channel", "sendPackets")
	sp := p.Func("tds", "Channel", "sendPacket")
	n := 0
	for _, c := range callsTo(fn, sp) {
		n++
		e, _ := errResult(c)
		why := ""
		var iff *ssa.If
		nonNilOnTrue := false
		if e != nil {
			for _, ref := range *e.Referrers() {
				if bo, ok := ref.(*ssa.BinOp); ok {
					if _, nn, isT := core.ErrNilTest(bo); isT {
						for _, r2 := range *bo.Referrers() {
							if i, ok := r2.(*ssa.If); ok {
								iff, nonNilOnTrue = i, nn
							}
						}
					}
				}
			}
		}
		if iff == nil {
			why = "the error of sendPacket is not tested"
		} else {
			from := iff.Block().Succs[1]
			if nonNilOnTrue {
				from = iff.Block().Succs[0]
			}
			h, _ := core.InnermostLoop(c.Block())
			check := func(pa core.Path, ended bool) {
				last := pa.Blocks[len(pa.Blocks)-1]
				if h != nil && last == h && len(pa.Blocks) > 1 {
					why = "after a failed sendPacket the loop over the queued packets goes on: later packets are still written and the error can be overwritten or lost, so the caller is told the request went out"
					return
				}
				ret, isRet := last.Instrs[len(last.Instrs)-1].(*ssa.Return)
				if !isRet {
					return
				}
				if rv := core.RetVals(ret); len(rv) == 0 || core.IsNil(rv[len(rv)-1]) {
					why = "a path from the failed sendPacket returns nil"
				}
			}
			if len(from.Succs) == 0 {
				check(core.Path{Blocks: []*ssa.BasicBlock{from}}, false)
			} else if from == h {
				why = "after a failed sendPacket the loop over the queued packets goes on"
			} else {
				core.EnumPaths(from, func(b *ssa.BasicBlock) bool { return b == h }, nil, 500, check)
			}
		}
		r.Check(why == "", rule, "sendPackets: a failed sendPacket returns its error at once", c.Pos(), "error edge → return fmt.Errorf(...%w, err)", why)
	}
	if n == 0 {
		r.Unknown(rule, "sendPackets: sendPacket call", fn.Pos(), "no sendPacket call found")
	}
}

// restSliceAdvanced: ph is "the part of packet.Data still to be filled" of a read loop — its inputs are packet.Data
// itself and ph[n:] with n the count of the loop's read, and no way back to the read leaves it as it was.
func restSliceAdvanced(ph *ssa.Phi, readCount ssa.Value, dataF *types.Var) (bool, string) {
	why := ""
	skipped := "on a way back to the read (a `continue`) the rest of the body is not advanced by the bytes that read delivered: they are counted as received and overwritten by the next read — the packet is declared complete with garbled content"
	seen := map[ssa.Value]bool{}
	var ok func(v ssa.Value) bool
	ok = func(v ssa.Value) bool {
		if seen[v] {
			return true
		}
		seen[v] = true
		if f, _ := core.FieldLoad(core.Strip(v)); f == dataF {
			return true
		}
		switch x := v.(type) {
		case *ssa.Slice:
			if x.High == nil && x.Max == nil && x.Low != nil && readCount != nil && core.Strip(x.Low) == readCount {
				if x.X == ssa.Value(ph) {
					return true
				}
				if p2, isP := x.X.(*ssa.Phi); isP {
					return ok(p2)
				}
			}
			why = "the rest of the body is re-sliced as " + core.Expr(v) + ", not advanced by the count of the read"
			return false
		case *ssa.Phi:
			for _, e := range x.Edges {
				if e == ssa.Value(ph) {
					why = skipped
					return false
				}
				if !ok(e) {
					return false
				}
			}
			return true
		}
		why = "the rest of the body is " + core.Expr(v)
		return false
	}
	if ok(ph) {
		return true, ""
	}
	return false, why
}

// c14ReadSites: R14.1 for every transport read of package tds, under the rule name of another property.
func c14ReadSites(r *core.Run, rule string) {
	p := r.Prog
	eofZero := p.Global("tds", "ErrEOFAfterZeroRead")
	isEOFZero := func(v ssa.Value) bool {
		u, ok := v.(*ssa.UnOp)
		return ok && u.Op == token.MUL && u.X == ssa.Value(eofZero)
	}
	for _, fn := range p.ModuleFuncs() {
		if fn.Pkg == nil || fn.Pkg.Pkg.Path() != core.Module+"/tds" {
			continue
		}
		for _, c := range core.Calls(fn) {
			if !isReaderRead(c) {
				continue
			}
			key := core.FuncName(fn) + " -> " + calleeKey(c)
			e, has := errResult(c)
			if !has || e == nil {
				r.Bad(rule, key, c.Pos(), "the error of a transport read is discarded")
				continue
			}
			c14ReadSite(r, rule, fn, c, e, key, isEOFZero)
		}
	}
}
