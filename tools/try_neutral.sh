#!/bin/bash
# usage: try_neutral.sh <patch.diff> <label>
# Applies a behaviour-preserving patch to a scratch copy of /repo and runs ALL claimed checks on the copy.
# Any unlisted violation is a false alarm of the checker.
patch=$(realpath "$1"); label="$2"
tmp=$(mktemp -d /tmp/dblint-neutral.XXXXXX); out=$(mktemp -d /tmp/dblint-neutral-out.XXXXXX)
trap 'rm -rf $tmp $out' EXIT
rsync -a --exclude=.git /repo/ $tmp/
( cd $tmp && patch -p1 -s -f --no-backup-if-mismatch -i "$patch" ) || { echo "$label PATCH-DOES-NOT-APPLY"; exit 0; }
cp /verif/known_findings.json $out/
bin=${DBLINT:-/verif/bin/dblint}
fired=""
for id in $(python3 -c "import json; print(' '.join(c['property_id'] for c in json.load(open('/verif/MANIFEST.json'))['checks']))"); do
  o=$($bin check -property $id -repo $tmp -verif $out 2>&1); c=$?
  if [ $c != 0 ]; then fired="$fired $id"; echo "$o" | grep -E '^(VIOLATED|UNDECIDED|ANALYSIS-ERROR)' | sed "s/^/    [$label $id] /" | cut -c1-400; fi
done
echo "$label fired:${fired:- none}"
