package props

import (
	"go/token"
	"go/types"

	"dblint/internal/core"

	"golang.org/x/tools/go/ssa"
)

func init() {
	register(&Spec{ID: "C18", Title: "Pooled names are unique among concurrent holders", Run: runC18,
		Meta: core.Meta{
			Explanation: "R18.6: every struct field passed to a 64-bit sync/atomic function lies at an offset divisible by 8 under the 32-bit size model (types.SizesFor gc/386). R18.5 also covers ID: it returns *name.id itself. R18.5: Name.Name returns the name field itself and Name.String returns Name() or the field. Uniqueness among holders follows from three structural premises plus the documented semantics of sync.Pool (an item Put once is returned by at most one Get) and of atomic addition (distinct results); the premises are what is checked. R18.1: pool.idCounter is touched only by its initialiser (constant 0) and by one atomic add of the constant 1 inside sync.Pool.New, and the id handed out is THE RESULT of that add, stored behind a freshly allocated pointer (never 0; no separate load that another goroutine's add could precede). R18.2: idPool.Put has a single call site, in (*pool).Release, dominated by name != nil and name.id != nil, its argument is name.id, and every path from it to the return stores the zero Name into *name (so a second Release sees id == nil and cannot Put again). R18.4: Acquire returns a Name allocated by that very call (a recycled Name object would make a stale pointer's second Release clear another holder's name and free its id). R18.3: idPool.Get has a single call site, in Acquire; the id stored in the new Name and the id formatted into its text are the same SSA value and the format is pool.format; Name.id and Name.name are written nowhere else in the module.",
			NotDecided:  "Linearizability over schedules, concurrent Release of the same *Name from two goroutines, and (*Name)(nil).Release() are not decided.",
			Assumptions: []string{"sync.Pool never returns one stored item to two Gets", "atomic add results are pairwise distinct until wrap-around of uint64"},
		}})
}

func runC18(r *core.Run) {
	p := r.Prog
	r.Rule("R18.1", "ids are minted by one atomic add whose result is the id", 1, true)
	r.Rule("R18.2", "an id is put back at most once per holder", 1, true)
	r.Rule("R18.4", "every holder gets its own, freshly allocated Name", 1, false)
	r.Rule("R18.5", "the accessors hand out the text and the id as they are", 3, false)
	defer accessorsReturnField(r, "R18.5")
	defer idAsMinted(r, "R18.5")
	r.Rule("R18.6", "the id counter can be incremented atomically on every target", 1, false)
	defer atomic64Aligned(r, "R18.6")
	r.Rule("R18.3", "a name's text and id come from one Get; Name fields are written nowhere else", 3, true)

	fCounter := p.Field("namepool", "pool", "idCounter")
	fIdPool := p.Field("namepool", "pool", "idPool")
	fNameId := p.Field("namepool", "Name", "id")
	fNameName := p.Field("namepool", "Name", "name")
	fFormat := p.Field("namepool", "pool", "format")
	release := p.Func("namepool", "pool", "Release")
	acquire := p.Func("namepool", "pool", "Acquire")

	// R18.1
	adds := 0
	for _, fn := range p.ModuleFuncs() {
		for _, b := range fn.Blocks {
			for _, in := range b.Instrs {
				fa, ok := in.(*ssa.FieldAddr)
				if !ok || core.FieldOfAddr(fa) != fCounter {
					continue
				}
				for _, ref := range *fa.Referrers() {
					key := core.FuncName(fn) + ": use of pool.idCounter"
					switch u := ref.(type) {
					case *ssa.Store:
						c, isC := core.ConstInt64(u.Val)
						r.Check(u.Addr == ssa.Value(fa) && isC && c == 0, "R18.1", key+" (init)", u.Pos(), "initialised to the constant 0", "idCounter is assigned outside its initialiser")
					case ssa.CallInstruction:
						f := core.StaticCallee(u)
						isAdd := f != nil && f.Pkg != nil && f.Pkg.Pkg.Path() == "sync/atomic" && (f.Name() == "AddUint64" || f.Name() == "Add")
						if !isAdd {
							r.Bad("R18.1", key, u.Pos(), "idCounter is accessed by "+calleeKey(u)+": a separate load (or non-atomic access) can observe a value another goroutine has just minted, so two holders get the same id")
							continue
						}
						adds++
						args := u.Common().Args
						one, isOne := core.ConstInt64(args[len(args)-1])
						// the result is stored into a fresh alloc that is returned (boxed) by the enclosing function
						resOK := false
						if val := u.Value(); val != nil {
							for _, r2 := range *val.Referrers() {
								if st, isSt := r2.(*ssa.Store); isSt {
									if al, isAl := st.Addr.(*ssa.Alloc); isAl && al.Heap {
										for _, ret := range core.Returns(fn) {
											if core.Strip(core.RetVals(ret)[0]) == ssa.Value(al) {
												resOK = true
											}
										}
									}
								}
							}
						}
						r.Check(isOne && one == 1 && resOK, "R18.1", key+" (atomic add)", u.Pos(), "atomic add of 1; its result is the id returned behind a fresh pointer", "the id handed out is not the result of the atomic add of 1 itself")
					case *ssa.UnOp:
						r.Bad("R18.1", key, u.Pos(), "idCounter is read non-atomically")
					}
				}
			}
		}
	}
	if adds != 1 {
		r.Bad("R18.1", "exactly one atomic add mints ids", token.NoPos, "expected exactly one atomic add on idCounter")
	}

	// R18.2 / R18.3: Put / Get call sites
	isPoolCall := func(c ssa.CallInstruction, method string) bool {
		if !core.IsMethod(c, "sync", "Pool", method) || c.Common().IsInvoke() {
			return false
		}
		f, _ := core.FieldLoad(c.Common().Args[0])
		return f == fIdPool
	}
	for _, fn := range p.ModuleFuncs() {
		for _, c := range core.Calls(fn) {
			if isPoolCall(c, "Put") {
				key := core.FuncName(fn) + ": idPool.Put"
				if fn != release {
					r.Bad("R18.2", key, c.Pos(), "ids are put back from a second place: one id can be in the pool twice and be handed to two holders")
					continue
				}
				name := fn.Params[1]
				gs := core.GuardsAt(c.(ssa.Instruction))
				nameNonNil, idNonNil := false, false
				for _, g := range gs {
					bo, ok := g.Cond.(*ssa.BinOp)
					if !ok || !((bo.Op == token.EQL && !g.Pol) || (bo.Op == token.NEQ && g.Pol)) || !core.IsNil(bo.Y) {
						continue
					}
					if bo.X == ssa.Value(name) {
						nameNonNil = true
					}
					if f, base := core.FieldLoad(bo.X); f == fNameId && base == ssa.Value(name) {
						idNonNil = true
					}
				}
				argOK := false
				if f, base := core.FieldLoad(core.Strip(c.Common().Args[1])); f == fNameId && base == ssa.Value(name) {
					argOK = true
				}
				cleared := true
				core.EnumPaths(c.Block(), func(b *ssa.BasicBlock) bool { return false }, nil, 200, func(pa core.Path, ended bool) {
					z := false
					for i, b := range pa.Blocks {
						for _, in := range b.Instrs {
							if i == 0 && !core.Dominates(c.(ssa.Instruction), in) {
								continue
							}
							if st, ok := in.(*ssa.Store); ok && st.Addr == ssa.Value(name) {
								z = true
							}
							if st, ok := in.(*ssa.Store); ok {
								if fa, ok := st.Addr.(*ssa.FieldAddr); ok && core.FieldOfAddr(fa) == fNameId && fa.X == ssa.Value(name) && core.IsNil(st.Val) {
									z = true
								}
							}
						}
					}
					if !z {
						cleared = false
					}
				})
				switch {
				case !nameNonNil:
					r.Bad("R18.2", key, c.Pos(), "Put is not dominated by name != nil")
				case !idNonNil:
					r.Bad("R18.2", key, c.Pos(), "Put is not dominated by name.id != nil: releasing a name twice puts a nil id (or the same id twice) into the pool, and a later Acquire dereferences nil or two holders share an id")
				case !argOK:
					r.Bad("R18.2", key, c.Pos(), "the value put back is not name.id")
				case !cleared:
					r.Bad("R18.2", key, c.Pos(), "after Put the name is not cleared on every path: a second Release puts the same id back again")
				default:
					r.OK("R18.2", key, c.Pos(), "guarded by name != nil && name.id != nil, puts name.id, then *name = Name{}")
				}
			}
			if isPoolCall(c, "Get") {
				key := core.FuncName(fn) + ": idPool.Get"
				if fn != acquire {
					r.Bad("R18.3", key, c.Pos(), "ids are taken from the pool in a second place")
					continue
				}
				// id := Get().(*uint64); Name{name: Sprintf(pool.format, *id), id: id}
				var id ssa.Value
				for _, ref := range *c.Value().Referrers() {
					if ta, ok := ref.(*ssa.TypeAssert); ok {
						id = ta
					}
				}
				okId, okText := false, false
				nText, nTextOK := 0, 0
				for _, b := range fn.Blocks {
					for _, in := range b.Instrs {
						st, ok := in.(*ssa.Store)
						if !ok {
							continue
						}
						fa, ok := st.Addr.(*ssa.FieldAddr)
						if !ok {
							continue
						}
						if core.FieldOfAddr(fa) == fNameId && st.Val == id {
							okId = true
						}
						if core.FieldOfAddr(fa) == fNameName {
							nText++
							if call, ok := st.Val.(*ssa.Call); ok && core.IsPkgFunc(call, "fmt", "Sprintf") {
								ff, _ := core.FieldLoad(call.Call.Args[0])
								els := variadicElems(call.Call.Args[1])
								if ff == fFormat && len(els) == 1 {
									if u, ok := core.Strip(els[0]).(*ssa.UnOp); ok && u.Op == token.MUL && u.X == id {
										nTextOK++
									}
								}
							}
						}
					}
				}
				okText = nText > 0 && nText == nTextOK // EVERY assignment of the text, on every path
				r.Check(id != nil && okId && okText, "R18.3", key, c.Pos(), "Name{name: Sprintf(pool.format, *id), id: id} for the id just taken", "the name's text is not the pool's format applied to the very id stored in the name")
			}
		}
	}
	// R18.4: Acquire returns a Name allocated by this call
	fresh := len(core.Returns(acquire)) > 0
	for _, ret := range core.Returns(acquire) {
		al, ok := core.RetVals(ret)[0].(*ssa.Alloc)
		if !ok || !al.Heap {
			fresh = false
		}
	}
	r.Check(fresh, "R18.4", "Acquire returns a freshly allocated Name", acquire.Pos(), "&Name{...} allocated per call", "Acquire hands out a Name object that is not allocated by this call (e.g. recycled through a pool): a holder's second Release of its old pointer clears the name of the next holder and puts that holder's id back")
	// Name.id / Name.name written nowhere else
	for _, fn := range p.ModuleFuncs() {
		for _, b := range fn.Blocks {
			for _, in := range b.Instrs {
				st, ok := in.(*ssa.Store)
				if !ok {
					continue
				}
				fa, ok := st.Addr.(*ssa.FieldAddr)
				if !ok {
					continue
				}
				f := core.FieldOfAddr(fa)
				if f != fNameId && f != fNameName {
					continue
				}
				key := core.FuncName(fn) + ": write of Name." + f.Name()
				allowed := fn == acquire || (fn == release && (core.IsNil(st.Val) || isZeroString(st.Val)))
				r.Check(allowed, "R18.3", key, st.Pos(), "written by Acquire (or cleared by Release)", "a name's id or text is modified outside Acquire/Release: text and id can disagree or two names can share an id")
			}
		}
	}
}

func isZeroString(v ssa.Value) bool {
	c, ok := v.(*ssa.Const)
	if !ok || c.Value == nil {
		return ok
	}
	b, isB := c.Type().Underlying().(*types.Basic)
	return isB && b.Kind() == types.String && c.Value.ExactString() == `""`
}
