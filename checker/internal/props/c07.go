package props

import (
	"fmt"
	"go/token"
	"go/types"

	"dblint/internal/core"

	"golang.org/x/tools/go/ssa"
)

func init() {
	register(&Spec{ID: "C07", Title: "Incomplete package data is always reported as 'not enough bytes'", Run: runC07,
		Meta: core.Meta{
			Explanation: "R07.19 = R14.23. R07.17 = the String clause of R15.2 (String returns string(bs), err of its Bytes call on every path: String(0) at the end of the data succeeds as Bytes(0) does). R07.18 (E-CONST): asetypes.ByteSizes lists for INTk, UINTk, SINTk and FLTk exactly k bytes, the width TDS names them after. R07.16 = R15.10. R07.13 = R15.6, R07.14 = R02.4, R07.15 = R15.7 (the retry of a truncated attempt relies on the queue keeping every unread byte and on end-of-message meaning the EOM bit). R07.12 (who-may-call): DiscardUntilCurrentPosition is called only by Channel.WritePacket, Channel.sendPackets and PacketQueue's own methods — never by a parser, whose attempt WritePacket may still have to roll back. R07.11 = R15.14 (Byte/UintK/IntK/String never index the queue themselves: a fast path that does not step to the next packet panics when a re-parse resumes at a packet end). R07.10: PacketQueue.Read returns the full count together with ErrNotEnoughBytes; io.ReadFull/ReadAtLeast/ReadAll/Copy*/bufio discard the error of a read that filled the buffer, so no call of them in the module takes a BytesChannel (or an implementation) as its reader. R07.9 = R02.11: the bytes of a truncated package stay in Channel.queueRx for the retry, so nothing but the reader goroutine's own code may touch that queue. R07.8 = R03.2: the channel's record of the last received package (lastPkgRx, which the next package's LastPkg consults) is assigned only from a package that was delivered, after the delivery — a half-read package of a failed attempt must not become the predecessor of its own retry. Error-discipline typestate over SSA (E-ERR). W = the BytesChannel read methods plus every module function that calls into W and returns an error (fixpoint; interface invokes of Package/FieldFmt/FieldData.ReadFrom belong to W through their implementations). R07.1: for EVERY call into W made inside W, the error result is tested against nil before the next wire read and every return on the failure side returns ErrNotEnoughBytes, the error itself or fmt.Errorf with %w bound to one of them, or the error is returned as is; any other use (dropped, overwritten, %v/%s, errors.New, stored) is a violation. R07.2: every return of PacketQueue.Bytes carries nil or ErrNotEnoughBytes, and a nil-error return with data is dominated by the test that the copied count reached n. R07.3: in tryParsePackage the error of pkg.ReadFrom reaches errors.Is(.,ErrNotEnoughBytes) and its true edge returns false without sending on errCh/packageCh. R07.4: every arm of LookupPackage returns a freshly allocated package and no function in W stores to a package-level variable, so a failed attempt leaves no residue for the retry. R07.5: every module function outside W that performs wire reads is one of the enumerated consumers. R07.6: on the failure side of a call into W the other results of that call (invalid, typically nil, when the error is non-nil) are only passed on, never dereferenced — otherwise a truncated package panics instead of reporting ErrNotEnoughBytes. R07.7: the retry mechanism leaves no residue — C02's R02.1 rule set (rollback to the attempt's own saved position, Reset of the rx queue — which also clears recvEOM — on the end-of-message edge, one package per attempt) is re-run here.",
			NotDecided:  "Panics on truncated data are C10's rule set. A parser that reads too little and succeeds is not detected here (C06's shape inclusion covers the shape part). Value equality of the retried parse is not decided beyond R07.4.",
			Assumptions: []string{"errors.Is follows %w chains (standard library)", "BytesChannel has the single implementation PacketQueue, whose read methods all funnel into Bytes (checked in C15)"},
		}})
}

func runC07(r *core.Run) {
	p := r.Prog
	ef := newErrFlow(p)
	r.Rule("R07.1", "every call into a wire-reading function propagates failure as ErrNotEnoughBytes (E-ERR)", 213, true)
	r.Rule("R07.2", "PacketQueue.Bytes returns only nil/ErrNotEnoughBytes; success only when n bytes were copied", 2, false)
	r.Rule("R07.3", "tryParsePackage retries exactly on errors.Is(err, ErrNotEnoughBytes), without reporting", 1, false)
	r.Rule("R07.4", "fresh package object per parse attempt; no global state written by parsers", 30, true)
	r.Rule("R07.6", "results of a failed read are not dereferenced (no panic on a truncated package)", 3, false)
	r.Rule("R07.7", "the retry leaves no residue: rollback to the attempt's own position, reset of the rx queue at end of message", 4, false)
	r.Rule("R07.5", "wire reads outside error-returning functions only in enumerated consumers", 1, true)
	r.Rule("R07.8", "a failed attempt leaves no trace in the channel: lastPkgRx is set only from delivered packages (R03.2)", 5, false)
	defer func() { c03Synthetic(r, r.Prog.Field("tds", "DonePackage", "Status"), "R07.8") }()
	r.Rule("R07.9", "only the reader goroutine touches the receive queue (R02.11)", 1, false)
	r.Rule("R07.10", "no io.ReadFull/ReadAtLeast/Copy/bufio over a BytesChannel (they drop the short-read error of a filled buffer)", 1, false)
	r.Rule("R07.11", "typed readers reach the stream through Bytes only: one place decides not-enough-bytes and steps over packet ends (R15.14)", 20, false)
	defer c15TypedThroughBytes(r, "R07.11")
	defer noGenericReaderOverQueue(r, "R07.10")
	defer rxOwnership(r, "R07.9")
	r.Rule("R07.12", "queue packets are discarded only where no saved position is alive (WritePacket after a complete parse, sendPackets)", 2, false)
	defer c07DiscardOwner(r, "R07.12")
	r.Rule("R07.13", "the live packet size only sizes new packets (R15.6)", 1, true)
	defer c15PacketSize(r, "R07.13")
	r.Rule("R07.14", "AddPacket appends in arrival order; recvEOM from the EOM bit only (R02.4)", 2, false)
	defer c02AddPacket(r, "R07.14")
	r.Rule("R07.15", "DiscardUntilCurrentPosition drops the packet under the position only when it is used up (R15.7)", 1, false)
	defer c15Discard(r, "R07.15")
	r.Rule("R07.16", "SetPosition restores exactly the given position, unconditionally (R15.10): the rollback of a truncated attempt", 1, false)
	defer c15SetPosition(r, "R07.16")
	r.Rule("R07.17", "String reports not-enough-bytes exactly when Bytes does (R15.2)", 1, false)
	defer c15StringIsBytes(r, "R07.17")
	r.Rule("R07.18", "a fixed-width value asks the queue for its full width", 10, false)
	defer byteSizesMatchNames(r, "R07.18")
	r.Rule("R07.19", "a failed read never yields a value (R14.23)", 100, false)
	defer readErrorsDecideAlone(r, "R07.19")

	errSites(r, ef, "R07.1")

	// R07.5 consumers
	allowedConsumers := map[*ssa.Function]string{
		p.Func("tds", "Channel", "tryParsePackage"): "the retry loop itself (R07.3)",
	}
	for fn := range ef.Consumers {
		name := core.FuncName(fn)
		if why, ok := allowedConsumers[fn]; ok {
			r.OK("R07.5", name, fn.Pos(), "enumerated consumer: "+why)
		} else {
			r.Bad("R07.5", name, fn.Pos(), "performs wire reads but does not return an error: a short read cannot be reported as ErrNotEnoughBytes")
		}
	}

	c07Bytes(r, ef)
	c07Retry(r, ef, "R07.3")
	c07Fresh(r, ef)
	failedResultsUnused(r, ef, "R07.6")
	c02Rollback(r, "R07.7")
}

func c07Bytes(r *core.Run, ef *errFlow) {
	p := r.Prog
	fn := p.Func("tds", "PacketQueue", "Bytes")
	if len(fn.Params) != 2 {
		r.Unknown("R07.2", "PacketQueue.Bytes", fn.Pos(), "unexpected signature")
		return
	}
	n := fn.Params[1]
	for _, ret := range core.Returns(fn) {
		ev := core.RetVals(ret)[1]
		key := "(*tds.PacketQueue).Bytes return"
		switch {
		case ef.isENEB(ev):
			r.OK("R07.2", key+" ErrNotEnoughBytes", ret.Pos(), "returns the sentinel")
		case core.IsNil(ev):
			// success: either under n == 0, or dominated by "copied == n"
			okDom := false
			why := ""
			for _, g := range core.GuardsAt(ret) {
				bo, ok := g.Cond.(*ssa.BinOp)
				if !ok {
					continue
				}
				var other ssa.Value
				if bo.X == ssa.Value(n) {
					other = bo.Y
				} else if bo.Y == ssa.Value(n) {
					other = bo.X
				} else {
					continue
				}
				if c, isC := core.ConstInt64(other); isC && c == 0 && bo.Op == token.EQL && g.Pol {
					okDom, why = true, "under n == 0 (empty read)"
				}
				if _, isC := other.(*ssa.Const); !isC {
					eq := (bo.Op == token.EQL && g.Pol) || (bo.Op == token.NEQ && !g.Pol)
					// copied >= n (the exit of `for copied < n`), written from either side
					op, pol := bo.Op, g.Pol
					if !pol {
						op = map[token.Token]token.Token{token.LSS: token.GEQ, token.GEQ: token.LSS, token.GTR: token.LEQ, token.LEQ: token.GTR}[op]
					}
					if bo.X == ssa.Value(n) { // n op other  →  other op' n
						op = map[token.Token]token.Token{token.LSS: token.GTR, token.GTR: token.LSS, token.LEQ: token.GEQ, token.GEQ: token.LEQ}[op]
					}
					if op == token.GEQ {
						eq = true
					}
					if eq {
						okDom, why = true, "dominated by "+core.Expr(bo)+" being true: all n bytes were copied"
					}
				}
			}
			if okDom {
				r.OK("R07.2", key+" nil", ret.Pos(), why)
			} else {
				r.Bad("R07.2", key+" nil", ret.Pos(), "a nil-error return is not dominated by the test that the number of copied bytes equals n: a read that runs out of data part-way can succeed with zero padding")
			}
		default:
			r.Bad("R07.2", key+" other", ret.Pos(), "returns an error other than ErrNotEnoughBytes: "+core.Expr(ev))
		}
	}
}

func c07Retry(r *core.Run, ef *errFlow, rule string) {
	p := r.Prog
	fn := p.Func("tds", "Channel", "tryParsePackage")
	pkgIface := p.Named("tds", "Package")
	key := "(*tds.Channel).tryParsePackage"
	var rf *ssa.Call
	for _, c := range core.Calls(fn) {
		cc := c.Common()
		if cc.IsInvoke() && cc.Method.Name() == "ReadFrom" {
			if n, ok := cc.Value.Type().(*types.Named); ok && n.Obj() == pkgIface.Obj() {
				rf, _ = c.(*ssa.Call)
			}
		}
	}
	if rf == nil {
		r.Unknown(rule, key, fn.Pos(), "no pkg.ReadFrom invoke found")
		return
	}
	// find errors.Is(rfErr, ENEB)
	var is *ssa.Call
	for _, ref := range *rf.Referrers() {
		if c, ok := ref.(*ssa.Call); ok && core.IsPkgFunc(c, "errors", "Is") && len(c.Call.Args) == 2 && c.Call.Args[0] == ssa.Value(rf) && ef.isENEB(c.Call.Args[1]) {
			is = c
		}
	}
	if is == nil {
		r.Bad(rule, key, rf.Pos(), "the error of pkg.ReadFrom is not examined with errors.Is(err, ErrNotEnoughBytes): a fragmented package is reported as a parse error or retried wrongly")
		return
	}
	// the errors.Is call must sit on the err != nil side, its true edge returns false without sends
	var iff *ssa.If
	for _, ref := range *is.Referrers() {
		if i, ok := ref.(*ssa.If); ok {
			iff = i
		}
	}
	if iff == nil {
		r.Unknown(rule, key, is.Pos(), "errors.Is result does not branch directly")
		return
	}
	// path-wise (the two sides may share their tail, e.g. `if !errors.Is(...) { errCh <- ... }; return false`):
	// every path from the ErrNotEnoughBytes edge to the exit has no send and returns false; every path from the other
	// edge reports on errCh
	ok := true
	why := ""
	fErrCh := p.Field("tds", "Channel", "errCh")
	walk := func(from *ssa.BasicBlock, retry bool) {
		visit := func(pa core.Path, ended bool) {
			sent, sentErr := false, false
			var ret *ssa.Return
			for _, b := range pa.Blocks {
				for _, in := range b.Instrs {
					switch x := in.(type) {
					case *ssa.Send:
						sent = true
						if f, _ := core.FieldLoad(x.Chan); f != nil && f == fErrCh {
							sentErr = true
						}
					case *ssa.Return:
						ret = x
					}
				}
			}
			if retry {
				if sent {
					ok, why = false, "something is sent on the retry path"
				}
				if ret == nil {
					ok, why = false, "retry path continues parsing"
				} else if c, isC := core.RetVals(ret)[0].(*ssa.Const); !isC || c.Value == nil || c.Value.ExactString() != "false" {
					ok, why = false, "retry path does not return false"
				}
			} else if !sentErr {
				ok, why = false, "a parse error other than not-enough-bytes is not reported on errCh"
			}
		}
		if len(from.Succs) == 0 {
			visit(core.Path{Blocks: []*ssa.BasicBlock{from}}, false)
			return
		}
		core.EnumPaths(from, func(b *ssa.BasicBlock) bool { return false }, nil, 500, visit)
	}
	walk(iff.Block().Succs[0], true)
	walk(iff.Block().Succs[1], false)
	r.Check(ok, rule, key, is.Pos(), "errors.Is(err, ErrNotEnoughBytes) → return false with no send; other errors → errCh", why)
}

func c07Fresh(r *core.Run, ef *errFlow) { freshRule(r, ef, "R07.4") }

func freshRule(r *core.Run, ef *errFlow, rule string) {
	p := r.Prog
	lp := p.Func("tds", "", "LookupPackage")
	for _, ret := range core.Returns(lp) {
		v := core.RetVals(ret)[0]
		if core.IsNil(v) {
			continue
		}
		fresh, what := freshValue(v, 0)
		key := "LookupPackage returns " + core.TypeStr(core.Strip(v).Type())
		if fresh {
			r.OK(rule, key, ret.Pos(), what)
		} else {
			r.Bad(rule, key, ret.Pos(), "the package handed to a parse attempt is not freshly allocated ("+what+"): a failed attempt leaves partial state for the retry")
		}
	}
	// tryParsePackage obtains pkg from LookupPackage in the same invocation
	tp := p.Func("tds", "Channel", "tryParsePackage")
	calls := 0
	for _, c := range core.Calls(tp) {
		if core.StaticCallee(c) == lp {
			calls++
		}
	}
	r.Check(calls == 1, rule, "tryParsePackage calls LookupPackage", tp.Pos(), "one LookupPackage call per attempt", fmt.Sprintf("%d LookupPackage calls in tryParsePackage", calls))
	// ... and the package whose ReadFrom is attempted is that very object, on every path (not one kept from the attempt
	// that failed: the queue is rewound to the token, an object that remembers how far it got parses the bytes of
	// the first field as those of a later one)
	pkgIface := p.Named("tds", "Package")
	for _, c := range core.Calls(tp) {
		cc := c.Common()
		if !cc.IsInvoke() || cc.Method.Name() != "ReadFrom" {
			continue
		}
		if n, ok := cc.Value.Type().(*types.Named); !ok || n.Obj() != pkgIface.Obj() {
			continue
		}
		why := ""
		for _, leaf := range phiLeaves(cc.Value, nil) {
			ex, ok := core.Strip(leaf).(*ssa.Extract)
			if ok {
				if lc, isC := ex.Tuple.(*ssa.Call); isC && core.StaticCallee(lc) == lp {
					continue
				}
			}
			why = "the package a parse attempt fills can be " + core.Expr(leaf) + " rather than the object LookupPackage created for this attempt: state of the attempt that ran out of bytes survives into the retry"
		}
		r.Check(why == "", rule, "tryParsePackage: the attempt fills the package created for it", c.Pos(), "pkg := LookupPackage(token) of this invocation", why)
	}

	// no stores to package-level variables inside W
	for _, fn := range ef.SortedW() {
		if fn.Blocks == nil {
			continue
		}
		bad := false
		for _, b := range fn.Blocks {
			for _, in := range b.Instrs {
				var addr ssa.Value
				switch x := in.(type) {
				case *ssa.Store:
					addr = x.Addr
				case *ssa.MapUpdate:
					addr = x.Map
				default:
					continue
				}
				if g := rootGlobal(addr); g != nil {
					bad = true
					r.Bad(rule, core.FuncName(fn)+" writes "+g.Name(), in.Pos(), "a parser writes package-level state; a failed (truncated) attempt is not side-effect free")
				}
			}
		}
		if !bad {
			r.OK(rule, core.FuncName(fn)+" writes no globals", fn.Pos(), "no store rooted at a package-level variable")
		}
	}
}

// rootGlobal follows address computations to a package-level variable.
func rootGlobal(v ssa.Value) *ssa.Global {
	for i := 0; i < 8; i++ {
		switch x := v.(type) {
		case *ssa.Global:
			return x
		case *ssa.FieldAddr:
			v = x.X
		case *ssa.IndexAddr:
			v = x.X
		case *ssa.UnOp:
			if x.Op != token.MUL {
				return nil
			}
			v = x.X
		default:
			return nil
		}
	}
	return nil
}

// freshValue: v is a new allocation made in this function (or by a
// constructor that allocates).
func freshValue(v ssa.Value, depth int) (bool, string) {
	if depth > 3 {
		return false, "too deep"
	}
	v = core.Strip(v)
	switch x := v.(type) {
	case *ssa.Alloc:
		return true, "composite literal allocated per call"
	case *ssa.Extract:
		return freshValue(x.Tuple, depth+1)
	case *ssa.Call:
		f := x.Call.StaticCallee()
		if f == nil || f.Blocks == nil {
			return false, "result of a dynamic call"
		}
		// every non-nil return of the constructor must be fresh
		n := 0
		for _, ret := range core.Returns(f) {
			rv := core.RetVals(ret)[0]
			if core.IsNil(rv) {
				continue
			}
			if ok, _ := freshValue(rv, depth+1); !ok {
				return false, "constructor " + core.FuncName(f) + " returns a value that is not freshly allocated"
			}
			n++
		}
		if n == 0 {
			return false, "constructor returns nothing"
		}
		return true, "constructor " + core.FuncName(f) + " allocates"
	case *ssa.UnOp:
		if g := rootGlobal(x); g != nil {
			return false, "loaded from package-level variable " + g.Name()
		}
	case *ssa.Global:
		return false, "package-level variable " + x.Name()
	}
	return false, core.Expr(v)
}

// errSites runs the E-ERR obligation for every call into W made inside W.
func errSites(r *core.Run, ef *errFlow, rule string) {
	p := r.Prog
	r.Stats["W_functions"] = len(ef.W)
	forms := map[string]int{}
	for _, fn := range ef.SortedW() {
		if !core.InModule(fn) || fn.Blocks == nil {
			continue
		}
		for _, c := range core.Calls(fn) {
			if !ef.IsWCall(c) {
				continue
			}
			key := core.FuncName(fn) + " -> " + calleeKey(c)
			v := ef.CheckSite(fn, c)
			if v.ok {
				forms[v.form]++
				r.OK(rule, key, c.Pos(), v.reason)
			} else {
				r.Bad(rule, key, c.Pos(), v.reason, "offending use at "+p.Pos(v.pos))
			}
		}
	}
	for f, n := range forms {
		r.Stats[rule+"_form_"+f] = n
	}
}
