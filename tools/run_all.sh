#!/bin/sh
# runs every claimed check (quick, or $1=thorough) on /repo and prints one line each
tier="${1:-quick}"
cd /verif
for id in $(python3 -c "import json; print(' '.join(c['property_id'] for c in json.load(open('MANIFEST.json'))['checks']))"); do
  out=$(./check.sh $id $tier 2>&1); code=$?
  echo "$id exit=$code $(echo "$out" | tail -1)"
  [ $code != 0 ] && echo "$out" | grep -E '^(VIOLATED|UNDECIDED|ANALYSIS)' | head -5
done
