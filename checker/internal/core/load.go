// Package core holds what every rule set shares: loading /repo's current
// working tree into a type-checked SSA program, resolving anchor symbols,
// recording obligations and writing evidence.
package core

import (
	_ "embed"
	"fmt"
	"go/ast"
	"go/constant"
	"go/token"
	"go/types"
	"os"
	"path/filepath"
	"sort"
	"strings"

	"golang.org/x/tools/go/callgraph"
	"golang.org/x/tools/go/callgraph/cha"
	"golang.org/x/tools/go/callgraph/vta"
	"golang.org/x/tools/go/packages"
	"golang.org/x/tools/go/ssa"
	"golang.org/x/tools/go/ssa/ssautil"
)

const Module = "github.com/SAP/go-dblib"

// Prog is the loaded, type-checked program of /repo plus SSA.
type Prog struct {
	Repo    string
	Fset    *token.FileSet
	Pkgs    []*packages.Package          // module packages only, sorted by path
	ByPath  map[string]*packages.Package // all packages (deps too)
	SSA     *ssa.Program
	Overlay map[string]bool // absolute file names that exist only in memory

	cg       *callgraph.Graph
	cgCHA    *callgraph.Graph
	all      map[*ssa.Function]bool
	modFuncs []*ssa.Function
	inlined  map[string]bool

	// InlinedHelpers lists the functions that do not exist in the reviewed tree and whose calls were replaced by
	// their bodies in the analysed SSA form (see inline.go).
	InlinedHelpers []string
	InlineFailure  string // non-empty if the inlining had to be abandoned
	// Renames lists "old -> new" for functions and fields of the reviewed tree that were recognised under a new name.
	Renames []string
	renamed map[string]*ssa.Function
}

//go:embed baseline_funcs.txt
var baselineFuncsTxt string

// BaselineFuncs is the inventory of top-level functions and methods of the reviewed tree.
func BaselineFuncs() map[string]bool {
	m := map[string]bool{}
	for k := range baselineSigs() {
		m[k] = true
	}
	return m
}

// baselineSigs: function (pointer/value receiver not distinguished) -> signature of the reviewed tree.
func baselineSigs() map[string]string {
	m := map[string]string{}
	for _, l := range strings.Split(baselineFuncsTxt, "\n") {
		if l = strings.TrimSpace(l); l == "" || strings.HasPrefix(l, "#") {
			continue
		}
		name, sig, _ := strings.Cut(l, "\t")
		m[baselineKey(name)] = sig
	}
	return m
}

//go:embed baseline_fields.txt
var baselineFieldsTxt string

// SigString renders a signature without its receiver, package-qualified.
func SigString(fn *ssa.Function) string {
	sig := fn.Signature
	return types.TypeString(types.NewSignatureType(nil, nil, nil, sig.Params(), sig.Results(), sig.Variadic()), nil)
}

// recvKey is the part of a function key in front of the function's own name.
func recvKey(key string) string {
	if i := strings.LastIndex(key, "."); i >= 0 {
		return key[:i]
	}
	return ""
}

// detectRenames pairs functions of the reviewed tree that no longer exist with functions that are new, when
// receiver (or package) and signature are identical and the pairing is unique both ways: a rename. The renamed
// function stands in for the old name as an anchor and is not treated as a new helper.
func (p *Prog) detectRenames() {
	p.renamed = map[string]*ssa.Function{}
	base := baselineSigs()
	if len(base) == 0 {
		return
	}
	cur := map[string]*ssa.Function{}
	for _, fn := range p.ModuleFuncs() {
		if fn.Parent() == nil && !p.FuncInOverlay(fn) {
			cur[baselineKey(FuncName(fn))] = fn
		}
	}
	type cand struct {
		key string
		fn  *ssa.Function
	}
	var removed []string
	for k := range base {
		if cur[k] == nil {
			removed = append(removed, k)
		}
	}
	var added []cand
	for k, fn := range cur {
		if _, ok := base[k]; !ok {
			added = append(added, cand{k, fn})
		}
	}
	sort.Strings(removed)
	sort.Slice(added, func(i, j int) bool { return added[i].key < added[j].key })
	for _, rk := range removed {
		var match []cand
		for _, a := range added {
			if recvKey(a.key) == recvKey(rk) && SigString(a.fn) == base[rk] {
				match = append(match, a)
			}
		}
		if len(match) != 1 {
			continue
		}
		// unique the other way round too
		n := 0
		for _, rk2 := range removed {
			if recvKey(rk2) == recvKey(match[0].key) && base[rk2] == SigString(match[0].fn) {
				n++
			}
		}
		if n == 1 {
			p.renamed[rk] = match[0].fn
			p.Renames = append(p.Renames, rk+" -> "+match[0].key)
		}
	}
}

// AnalysisError is raised (as panic) for conditions that must never be
// reported as "property holds": unresolved anchors, type errors.
type AnalysisError struct{ Msg string }

func (e AnalysisError) Error() string { return e.Msg }

func Fail(format string, a ...interface{}) {
	panic(AnalysisError{fmt.Sprintf(format, a...)})
}

// Load loads ./... of repo. overlay maps repo-relative file names to
// contents that are added in memory only (positive examples).
func Load(repo string, overlay map[string][]byte) *Prog {
	abs, err := filepath.Abs(repo)
	if err != nil {
		Fail("abs(%s): %v", repo, err)
	}
	env := []string{}
	for _, kv := range os.Environ() {
		if strings.HasPrefix(kv, "GOWORK=") || strings.HasPrefix(kv, "GOFLAGS=") ||
			strings.HasPrefix(kv, "GOPROXY=") || strings.HasPrefix(kv, "GOSUMDB=") ||
			strings.HasPrefix(kv, "GOTOOLCHAIN=") {
			continue
		}
		env = append(env, kv)
	}
	env = append(env, "GOWORK=off", "GOFLAGS=-mod=mod", "GOPROXY=off", "GOSUMDB=off", "GOTOOLCHAIN=local")
	ov := map[string][]byte{}
	ovset := map[string]bool{}
	for rel, src := range overlay {
		p := filepath.Join(abs, rel)
		ov[p] = src
		ovset[p] = true
	}
	cfg := &packages.Config{
		Mode:    packages.LoadAllSyntax,
		Dir:     abs,
		Env:     env,
		Tests:   false,
		Overlay: ov,
	}
	pkgs, err := packages.Load(cfg, "./...")
	if err != nil {
		Fail("packages.Load: %v", err)
	}
	p := &Prog{Repo: abs, ByPath: map[string]*packages.Package{}, Overlay: ovset}
	nerr := 0
	packages.Visit(pkgs, nil, func(pk *packages.Package) {
		p.ByPath[pk.PkgPath] = pk
		if strings.HasPrefix(pk.PkgPath, Module) {
			for _, e := range pk.Errors {
				fmt.Fprintf(os.Stderr, "load error: %v\n", e)
				nerr++
			}
		}
	})
	if nerr > 0 {
		Fail("%d load/type errors in module packages", nerr)
	}
	for _, pk := range pkgs {
		if strings.HasPrefix(pk.PkgPath, Module) {
			p.Pkgs = append(p.Pkgs, pk)
		}
	}
	sort.Slice(p.Pkgs, func(i, j int) bool { return p.Pkgs[i].PkgPath < p.Pkgs[j].PkgPath })
	if len(p.Pkgs) < 14 {
		Fail("only %d module packages loaded (expected >= 14)", len(p.Pkgs))
	}
	if len(pkgs) > 0 {
		p.Fset = pkgs[0].Fset
	}
	prog, _ := ssautil.AllPackages(pkgs, ssa.InstantiateGenerics)
	prog.Build()
	p.SSA = prog
	p.detectRenames()
	if os.Getenv("DBLINT_NOINLINE") == "" {
		failed := ""
		func() {
			defer func() {
				if e := recover(); e != nil {
					failed = fmt.Sprint(e)
				}
			}()
			bl := BaselineFuncs()
			for _, fn := range p.renamed {
				bl[baselineKey(FuncName(fn))] = true
			}
			p.InlinedHelpers = p.InlineNewHelpers(bl)
			p.modFuncs = nil
		}()
		if failed != "" {
			// the edited SSA form cannot be trusted: analyse the program as it was built
			fmt.Fprintf(os.Stderr, "note: inlining of new helpers failed (%s); analysing the program without it\n", failed)
			os.Setenv("DBLINT_NOINLINE", "1")
			q := Load(repo, overlay)
			os.Unsetenv("DBLINT_NOINLINE")
			q.InlineFailure = failed
			return q
		}
	}
	return p
}

// Pkg returns the module package with the given path relative to the module
// root ("" = root package, "tds", "asetypes", ...).
func (p *Prog) Pkg(rel string) *packages.Package {
	path := Module
	if rel != "" {
		path += "/" + rel
	}
	pk := p.ByPath[path]
	if pk == nil {
		Fail("anchor: package %s not loaded", path)
	}
	return pk
}

func (p *Prog) SSAPkg(rel string) *ssa.Package {
	pk := p.Pkg(rel)
	sp := p.SSA.Package(pk.Types)
	if sp == nil {
		Fail("anchor: no SSA package for %s", pk.PkgPath)
	}
	return sp
}

// Obj looks up a package-level object.
func (p *Prog) Obj(rel, name string) types.Object {
	o := p.Pkg(rel).Types.Scope().Lookup(name)
	if o == nil {
		Fail("anchor: %s.%s not found", rel, name)
	}
	return o
}

// TryObj is Obj without failing.
func (p *Prog) TryObj(rel, name string) types.Object {
	path := Module
	if rel != "" {
		path += "/" + rel
	}
	pk := p.ByPath[path]
	if pk == nil {
		return nil
	}
	return pk.Types.Scope().Lookup(name)
}

// Named returns the named type rel.name.
func (p *Prog) Named(rel, name string) *types.Named {
	o := p.Obj(rel, name)
	tn, ok := o.(*types.TypeName)
	if !ok {
		Fail("anchor: %s.%s is not a type", rel, name)
	}
	n, ok := tn.Type().(*types.Named)
	if !ok {
		Fail("anchor: %s.%s is not a named type", rel, name)
	}
	return n
}

// Field returns the field object typ.field (typ must be a struct).
func (p *Prog) Field(rel, typ, field string) *types.Var {
	n := p.Named(rel, typ)
	st, ok := n.Underlying().(*types.Struct)
	if !ok {
		Fail("anchor: %s.%s is not a struct", rel, typ)
	}
	for i := 0; i < st.NumFields(); i++ {
		if st.Field(i).Name() == field {
			return st.Field(i)
		}
	}
	// renamed since the reviewed tree? same struct, same position, same type, and the old name is gone
	for _, l := range strings.Split(baselineFieldsTxt, "\n") {
		parts := strings.Split(strings.TrimSpace(l), "\t")
		if len(parts) != 4 || parts[0] != rel+"."+typ || parts[2] != field {
			continue
		}
		var idx int
		fmt.Sscanf(parts[1], "%d", &idx)
		if idx < st.NumFields() && types.TypeString(st.Field(idx).Type(), nil) == parts[3] {
			// the candidate's name must itself be new (not another field of the reviewed struct)
			known := false
			for _, l2 := range strings.Split(baselineFieldsTxt, "\n") {
				p2 := strings.Split(strings.TrimSpace(l2), "\t")
				if len(p2) == 4 && p2[0] == parts[0] && p2[2] == st.Field(idx).Name() {
					known = true
				}
			}
			if !known {
				note := rel + "." + typ + "." + field + " -> " + st.Field(idx).Name()
				seen := false
				for _, r := range p.Renames {
					if r == note {
						seen = true
					}
				}
				if !seen {
					p.Renames = append(p.Renames, note)
				}
				return st.Field(idx)
			}
		}
	}
	Fail("anchor: field %s.%s.%s not found", rel, typ, field)
	return nil
}

// Func resolves a function or method: Func("tds","","LookupPackage"),
// Func("tds","Channel","Login") (pointer or value receiver).
func (p *Prog) Func(rel, recv, name string) *ssa.Function {
	f := p.TryFunc(rel, recv, name)
	if f == nil {
		Fail("anchor: function %s.%s.%s not found", rel, recv, name)
	}
	return f
}

func (p *Prog) TryFunc(rel, recv, name string) *ssa.Function {
	if f := p.tryFunc(rel, recv, name); f != nil {
		return f
	}
	// renamed since the reviewed tree?
	pkgName := rel
	if i := strings.LastIndex(rel, "/"); i >= 0 {
		pkgName = rel[i+1:]
	}
	if rel == "" {
		pkgName = "dblib"
	}
	key := pkgName + "." + name
	if recv != "" {
		key = "(" + pkgName + "." + recv + ")." + name
	}
	return p.renamed[key]
}

func (p *Prog) tryFunc(rel, recv, name string) *ssa.Function {
	path := Module
	if rel != "" {
		path += "/" + rel
	}
	pk := p.ByPath[path]
	if pk == nil {
		return nil
	}
	if recv == "" {
		sp := p.SSA.Package(pk.Types)
		if sp == nil {
			return nil
		}
		return sp.Func(name)
	}
	o := pk.Types.Scope().Lookup(recv)
	if o == nil {
		return nil
	}
	n, ok := o.Type().(*types.Named)
	if !ok {
		return nil
	}
	for _, t := range []types.Type{n, types.NewPointer(n)} {
		ms := p.SSA.MethodSets.MethodSet(t)
		if sel := ms.Lookup(pk.Types, name); sel != nil {
			// only methods declared on this type, not promoted
			fn := p.SSA.MethodValue(sel)
			if fn != nil && fn.Synthetic == "" {
				return fn
			}
			if fn != nil && len(sel.Index()) == 1 {
				return fn
			}
		}
	}
	return nil
}

// ConstInt returns the integer value of a package-level constant.
func (p *Prog) ConstInt(rel, name string) int64 {
	o := p.Obj(rel, name)
	c, ok := o.(*types.Const)
	if !ok {
		Fail("anchor: %s.%s is not a constant", rel, name)
	}
	v, ok := constant.Int64Val(constant.ToInt(c.Val()))
	if !ok {
		Fail("anchor: %s.%s is not an integer constant", rel, name)
	}
	return v
}

// Global returns the SSA global for a package-level variable.
func (p *Prog) Global(rel, name string) *ssa.Global {
	sp := p.SSAPkg(rel)
	g, ok := sp.Members[name].(*ssa.Global)
	if !ok {
		Fail("anchor: global %s.%s not found", rel, name)
	}
	return g
}

// InModule reports whether fn is a source function of the module.
func InModule(fn *ssa.Function) bool {
	if fn == nil {
		return false
	}
	pk := fn.Pkg
	if pk == nil && fn.Origin() != nil {
		pk = fn.Origin().Pkg
	}
	if pk == nil {
		if fn.Parent() != nil {
			return InModule(fn.Parent())
		}
		// synthetic wrappers (promoted methods, bound methods) have no package: use the receiver's
		if fn.Signature.Recv() != nil {
			t := fn.Signature.Recv().Type()
			if p, ok := t.(*types.Pointer); ok {
				t = p.Elem()
			}
			if n, ok := t.(*types.Named); ok && n.Obj().Pkg() != nil {
				return strings.HasPrefix(n.Obj().Pkg().Path(), Module)
			}
		}
		return false
	}
	return strings.HasPrefix(pk.Pkg.Path(), Module)
}

// AllFuncs returns every function of the SSA program.
func (p *Prog) AllFuncs() map[*ssa.Function]bool {
	if p.all == nil {
		p.all = ssautil.AllFunctions(p.SSA)
	}
	return p.all
}

// IsNewHelper: fn does not exist in the reviewed tree and its calls were replaced by its body (for a new exported
// function, which stays in ModuleFuncs as an entry point of its own; rules about "where in the caller" skip it).
func (p *Prog) IsNewHelper(fn *ssa.Function) bool { return fn != nil && p.inlined[FuncName(fn)] }

// ModuleFuncs returns the module's source functions (incl. closures) sorted
// by position; functions declared in overlay files are included.
func (p *Prog) ModuleFuncs() []*ssa.Function {
	if p.modFuncs != nil {
		return p.modFuncs
	}
	seen := map[*ssa.Function]bool{}
	var out []*ssa.Function
	var add func(fn *ssa.Function)
	add = func(fn *ssa.Function) {
		if fn == nil || seen[fn] || fn.Blocks == nil || fn.Synthetic != "" {
			return
		}
		if p.inlined[FuncName(fn)] && unexportedName(fn) {
			return // a new helper whose calls were all replaced by its body: analysed at its call sites (a new exported
			// function is inlined into its callers too, but stays an entry point of its own)
		}
		seen[fn] = true
		out = append(out, fn)
		for _, a := range fn.AnonFuncs {
			add(a)
		}
	}
	for _, pk := range p.Pkgs {
		sp := p.SSA.Package(pk.Types)
		if sp == nil {
			continue
		}
		for _, m := range sp.Members {
			switch x := m.(type) {
			case *ssa.Function:
				add(x)
				if x.Synthetic != "" {
					// the package initialiser itself is synthetic, but closures in variable initialisers are source code
					for _, a := range x.AnonFuncs {
						add(a)
					}
				}
			case *ssa.Type:
				n, ok := x.Type().(*types.Named)
				if !ok {
					continue
				}
				for _, t := range []types.Type{n, types.NewPointer(n)} {
					ms := p.SSA.MethodSets.MethodSet(t)
					for i := 0; i < ms.Len(); i++ {
						add(p.SSA.MethodValue(ms.At(i)))
					}
				}
			}
		}
	}
	sort.Slice(out, func(i, j int) bool {
		pi, pj := p.Fset.Position(out[i].Pos()), p.Fset.Position(out[j].Pos())
		if pi.Filename != pj.Filename {
			return pi.Filename < pj.Filename
		}
		if pi.Line != pj.Line {
			return pi.Line < pj.Line
		}
		return out[i].String() < out[j].String()
	})
	p.modFuncs = out
	return out
}

// CallGraph returns the VTA call graph (seeded by CHA).
func (p *Prog) CallGraph() *callgraph.Graph {
	if p.cg == nil {
		p.cgCHA = cha.CallGraph(p.SSA)
		p.cg = vta.CallGraph(p.AllFuncs(), p.cgCHA)
	}
	return p.cg
}

func (p *Prog) CHA() *callgraph.Graph {
	p.CallGraph()
	return p.cgCHA
}

// Pos renders a position relative to the repo root: "tds/channel.go:12:3".
func (p *Prog) Pos(pos token.Pos) string {
	if !pos.IsValid() {
		return "-"
	}
	ps := p.Fset.Position(pos)
	rel, err := filepath.Rel(p.Repo, ps.Filename)
	if err != nil {
		rel = ps.Filename
	}
	return fmt.Sprintf("%s:%d:%d", rel, ps.Line, ps.Column)
}

// InOverlay reports whether pos lies in a memory-only file.
func (p *Prog) InOverlay(pos token.Pos) bool {
	if !pos.IsValid() {
		return false
	}
	return p.Overlay[p.Fset.Position(pos).Filename]
}

// FuncInOverlay reports whether fn (or its enclosing function) is declared
// in a memory-only file.
func (p *Prog) FuncInOverlay(fn *ssa.Function) bool {
	for fn != nil {
		if p.InOverlay(fn.Pos()) {
			return true
		}
		fn = fn.Parent()
	}
	return false
}

// IsGenerated reports whether the file containing pos carries a
// "Code generated" header.
func (p *Prog) IsGenerated(pos token.Pos) bool {
	if !pos.IsValid() {
		return false
	}
	name := p.Fset.Position(pos).Filename
	for _, pk := range p.Pkgs {
		for i, f := range pk.CompiledGoFiles {
			if f == name && i < len(pk.Syntax) {
				return ast.IsGenerated(pk.Syntax[i])
			}
		}
	}
	return false
}

// FuncName gives a stable, readable name: "tds.(*Channel).Login",
// "tds.LookupPackage", closures as "tds.(*Channel).Login$1".
func FuncName(fn *ssa.Function) string {
	if fn == nil {
		return "<nil>"
	}
	s := fn.String()
	s = strings.ReplaceAll(s, Module+"/", "")
	s = strings.ReplaceAll(s, Module+".", "dblib.")
	s = strings.ReplaceAll(s, "("+Module+")", "dblib")
	return s
}

// FileOf returns the syntax file that contains pos.
func (p *Prog) FileOf(pos token.Pos) (*ast.File, *packages.Package) {
	for _, pk := range p.Pkgs {
		for _, f := range pk.Syntax {
			if f.Pos() <= pos && pos <= f.End() {
				return f, pk
			}
		}
	}
	return nil, nil
}
