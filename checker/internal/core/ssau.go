package core

import (
	"fmt"
	"go/constant"
	"go/token"
	"go/types"
	"sort"
	"strings"

	"golang.org/x/tools/go/ssa"
)

// StaticCallee returns the statically known callee of a call instruction
// (nil for interface invokes and dynamic calls).
func StaticCallee(c ssa.CallInstruction) *ssa.Function {
	return c.Common().StaticCallee()
}

// InvokeOf returns the interface method object when c is an interface
// method invocation.
func InvokeOf(c ssa.CallInstruction) *types.Func {
	cc := c.Common()
	if cc.IsInvoke() {
		return cc.Method
	}
	return nil
}

// CalleeObj returns the types.Func called (static or invoke), or nil.
func CalleeObj(c ssa.CallInstruction) *types.Func {
	if m := InvokeOf(c); m != nil {
		return m
	}
	if f := StaticCallee(c); f != nil {
		if o, ok := f.Object().(*types.Func); ok {
			return o
		}
	}
	return nil
}

// IsPkgFunc reports whether c statically calls pkgpath.name (a package
// level function), e.g. ("fmt","Errorf").
func IsPkgFunc(c ssa.CallInstruction, pkgpath, name string) bool {
	f := StaticCallee(c)
	if f == nil || f.Pkg == nil || f.Signature.Recv() != nil {
		return false
	}
	return f.Pkg.Pkg.Path() == pkgpath && f.Name() == name
}

// IsMethod reports whether c calls (statically or by invoke) a method
// named name whose receiver's named type is pkgpath.typ.
func IsMethod(c ssa.CallInstruction, pkgpath, typ, name string) bool {
	o := CalleeObj(c)
	if o == nil || o.Name() != name {
		return false
	}
	sig := o.Type().(*types.Signature)
	if sig.Recv() == nil {
		return false
	}
	t := sig.Recv().Type()
	if p, ok := t.(*types.Pointer); ok {
		t = p.Elem()
	}
	n, ok := t.(*types.Named)
	if !ok {
		return false
	}
	if n.Obj().Pkg() == nil {
		return pkgpath == "" && n.Obj().Name() == typ
	}
	return n.Obj().Pkg().Path() == pkgpath && n.Obj().Name() == typ
}

// RecvNamed returns the named receiver type of fn (nil if none).
func RecvNamed(fn *ssa.Function) *types.Named {
	if fn == nil || fn.Signature.Recv() == nil {
		return nil
	}
	t := fn.Signature.Recv().Type()
	if p, ok := t.(*types.Pointer); ok {
		t = p.Elem()
	}
	n, _ := t.(*types.Named)
	return n
}

// ConstInt64 returns the integer value of an SSA constant.
func ConstInt64(v ssa.Value) (int64, bool) {
	c, ok := v.(*ssa.Const)
	if !ok || c.Value == nil {
		return 0, false
	}
	if c.Value.Kind() != constant.Int {
		return 0, false
	}
	return constant.Int64Val(c.Value)
}

func IsNil(v ssa.Value) bool {
	c, ok := v.(*ssa.Const)
	return ok && c.Value == nil
}

// Strip removes value-preserving wrappers (ChangeType, Convert between
// integer types, MakeInterface, ChangeInterface).
func Strip(v ssa.Value) ssa.Value {
	for {
		switch x := v.(type) {
		case *ssa.ChangeType:
			v = x.X
		case *ssa.Convert:
			v = x.X
		case *ssa.MakeInterface:
			v = x.X
		case *ssa.ChangeInterface:
			v = x.X
		default:
			return v
		}
	}
}

// FieldLoad: if v is a load of a struct field (UnOp* of FieldAddr, or
// Field of a struct value) it returns the field object and the base.
func FieldLoad(v ssa.Value) (*types.Var, ssa.Value) {
	switch x := v.(type) {
	case *ssa.UnOp:
		if x.Op == token.MUL {
			if fa, ok := x.X.(*ssa.FieldAddr); ok {
				return FieldOfAddr(fa), fa.X
			}
		}
	case *ssa.Field:
		st := x.X.Type().Underlying().(*types.Struct)
		return st.Field(x.Field), x.X
	}
	return nil, nil
}

func FieldOfAddr(fa *ssa.FieldAddr) *types.Var {
	t := fa.X.Type().Underlying().(*types.Pointer).Elem().Underlying().(*types.Struct)
	return t.Field(fa.Field)
}

// Dominates reports whether instruction a dominates instruction b (same
// function). Within a block, by order.
func Dominates(a, b ssa.Instruction) bool {
	ba, bb := a.Block(), b.Block()
	if ba == bb {
		for _, in := range ba.Instrs {
			if in == a {
				return true
			}
			if in == b {
				return false
			}
		}
		return false
	}
	return ba.Dominates(bb)
}

// Guard is a branch condition known to hold at a program point.
type Guard struct {
	Cond ssa.Value
	Pol  bool // true: Cond holds; false: !Cond holds
	If   *ssa.If
}

// GuardsOf returns the conditions that hold on entry to block b because b is
// dominated by exactly one out-edge of an If (walks the dominator chain).
func GuardsOf(b *ssa.BasicBlock) []Guard {
	var gs []Guard
	for x := b; x != nil; x = x.Idom() {
		p := x.Idom()
		if p == nil {
			break
		}
		if g, ok := edgeGuard(p, x); ok {
			gs = append(gs, g)
			gs = append(gs, expandShortCircuit(g, 0)...)
		}
	}
	return gs
}

// expandShortCircuit: a guard on the value of a short-circuit expression
// evaluated as a value (go/ssa lowers `a && b && c` outside an if condition,
// e.g. in a tagless switch case, to φ(false, false, c)): if the φ is known
// true (resp. false for ||) control came through the one predecessor that
// does not contribute the constant, so that operand has the same truth value
// and everything that guards that predecessor holds as well. All conditions
// are SSA values, hence still valid where the guard is used.
func expandShortCircuit(g Guard, depth int) []Guard {
	ph, ok := g.Cond.(*ssa.Phi)
	if !ok || depth > 4 {
		return nil
	}
	k := -1
	for i, e := range ph.Edges {
		c, isC := e.(*ssa.Const)
		if isC && c.Value != nil && c.Value.ExactString() == map[bool]string{true: "false", false: "true"}[g.Pol] {
			continue // this edge contributes the short-circuit constant, excluded by the guard's polarity
		}
		if k >= 0 {
			return nil
		}
		k = i
	}
	if k < 0 {
		return nil
	}
	pred := ph.Block().Preds[k]
	inner := Guard{ph.Edges[k], g.Pol, g.If}
	out := []Guard{inner}
	out = append(out, expandShortCircuit(inner, depth+1)...)
	out = append(out, GuardsOf(pred)...)
	return out
}

// edgeGuard: x is immediately dominated by p; if every predecessor path into
// x comes through exactly one out-edge of p's If, return it.
func edgeGuard(p, x *ssa.BasicBlock) (Guard, bool) {
	if len(p.Instrs) == 0 {
		return Guard{}, false
	}
	iff, ok := p.Instrs[len(p.Instrs)-1].(*ssa.If)
	if !ok {
		return Guard{}, false
	}
	t, f := p.Succs[0], p.Succs[1]
	if t == f {
		return Guard{}, false
	}
	// x is reached only via t (t dominates x and t has p as only pred), or only via f
	tOnly := len(t.Preds) == 1 && t.Dominates(x)
	fOnly := len(f.Preds) == 1 && f.Dominates(x)
	if tOnly && !fOnly {
		return Guard{iff.Cond, true, iff}, true
	}
	if fOnly && !tOnly {
		return Guard{iff.Cond, false, iff}, true
	}
	return Guard{}, false
}

// GuardsAt returns the guards that hold at instruction in.
func GuardsAt(in ssa.Instruction) []Guard { return GuardsOf(in.Block()) }

// ErrNilTest recognises `e != nil` / `e == nil` on an error-typed value and
// returns e and whether the *true* edge means "e is non-nil".
func ErrNilTest(cond ssa.Value) (e ssa.Value, trueMeansNonNil bool, ok bool) {
	b, isb := cond.(*ssa.BinOp)
	if !isb || (b.Op != token.NEQ && b.Op != token.EQL) {
		return nil, false, false
	}
	var x ssa.Value
	if IsNil(b.Y) {
		x = b.X
	} else if IsNil(b.X) {
		x = b.Y
	} else {
		return nil, false, false
	}
	if !IsErrorType(x.Type()) {
		return nil, false, false
	}
	return x, b.Op == token.NEQ, true
}

var errorType = types.Universe.Lookup("error").Type()

func IsErrorType(t types.Type) bool { return types.Identical(t, errorType) }

// Calls returns all call instructions (Call, Go, Defer) of fn in block order.
func Calls(fn *ssa.Function) []ssa.CallInstruction {
	var out []ssa.CallInstruction
	for _, b := range fn.Blocks {
		for _, in := range b.Instrs {
			if c, ok := in.(ssa.CallInstruction); ok {
				out = append(out, c)
			}
		}
	}
	return out
}

// Returns returns the Return instructions of fn.
func Returns(fn *ssa.Function) []*ssa.Return {
	var out []*ssa.Return
	for _, b := range fn.Blocks {
		if len(b.Instrs) == 0 || b == fn.Recover {
			continue
		}
		if r, ok := b.Instrs[len(b.Instrs)-1].(*ssa.Return); ok {
			out = append(out, r)
		}
	}
	return out
}

// Expr renders an SSA value as a short, position-free expression, used in
// obligation keys and diagnostics. Field chains render as access paths.
func Expr(v ssa.Value) string { return expr(v, 0) }

// KExpr renders like Expr but without names a behaviour-preserving rename
// could change: parameters as $i, free variables as $free, local variables
// as local. Used for obligation keys (and thereby known-findings keys).
func KExpr(v ssa.Value) string {
	keyMode = true
	defer func() { keyMode = false }()
	return expr(v, 0)
}

var keyMode bool

func expr(v ssa.Value, d int) string {
	if v == nil {
		return "<nil>"
	}
	if d > 6 {
		return "…"
	}
	switch x := v.(type) {
	case *ssa.Const:
		if x.Value == nil {
			return "nil"
		}
		return x.Value.ExactString()
	case *ssa.Parameter:
		if keyMode && x.Parent() != nil {
			for i, pa := range x.Parent().Params {
				if pa == x {
					return fmt.Sprintf("$%d", i)
				}
			}
		}
		return x.Name()
	case *ssa.FreeVar:
		if keyMode {
			return "$free"
		}
		return x.Name()
	case *ssa.Global:
		return x.Name()
	case *ssa.Function:
		return FuncName(x)
	case *ssa.FieldAddr:
		return "&" + strings.TrimPrefix(expr(x.X, d+1), "&") + "." + FieldOfAddr(x).Name()
	case *ssa.Field:
		st := x.X.Type().Underlying().(*types.Struct)
		return expr(x.X, d+1) + "." + st.Field(x.Field).Name()
	case *ssa.UnOp:
		if x.Op == token.MUL {
			s := expr(x.X, d+1)
			if strings.HasPrefix(s, "&") {
				return s[1:]
			}
			return "*" + s
		}
		return x.Op.String() + expr(x.X, d+1)
	case *ssa.BinOp:
		return "(" + expr(x.X, d+1) + " " + x.Op.String() + " " + expr(x.Y, d+1) + ")"
	case *ssa.Convert:
		return types.TypeString(x.Type(), shortQual) + "(" + expr(x.X, d+1) + ")"
	case *ssa.ChangeType:
		return expr(x.X, d+1)
	case *ssa.MakeInterface:
		return expr(x.X, d+1)
	case *ssa.ChangeInterface:
		return expr(x.X, d+1)
	case *ssa.IndexAddr:
		return "&" + strings.TrimPrefix(expr(x.X, d+1), "&") + "[" + expr(x.Index, d+1) + "]"
	case *ssa.Index:
		return expr(x.X, d+1) + "[" + expr(x.Index, d+1) + "]"
	case *ssa.Lookup:
		return expr(x.X, d+1) + "[" + expr(x.Index, d+1) + "]"
	case *ssa.Slice:
		lo, hi := "", ""
		if x.Low != nil {
			lo = expr(x.Low, d+1)
		}
		if x.High != nil {
			hi = expr(x.High, d+1)
		}
		return strings.TrimPrefix(expr(x.X, d+1), "&") + "[" + lo + ":" + hi + "]"
	case *ssa.Call:
		cc := x.Common()
		var name string
		if cc.IsInvoke() {
			name = expr(cc.Value, d+1) + "." + cc.Method.Name()
		} else if f := cc.StaticCallee(); f != nil {
			name = FuncName(f)
			if f.Signature.Recv() != nil && len(cc.Args) > 0 {
				name = expr(cc.Args[0], d+1) + "." + f.Name()
				var as []string
				for _, a := range cc.Args[1:] {
					as = append(as, expr(a, d+1))
				}
				return name + "(" + strings.Join(as, ", ") + ")"
			}
		} else if b, ok := cc.Value.(*ssa.Builtin); ok {
			name = b.Name()
		} else {
			name = expr(cc.Value, d+1)
		}
		var as []string
		for _, a := range cc.Args {
			as = append(as, expr(a, d+1))
		}
		return name + "(" + strings.Join(as, ", ") + ")"
	case *ssa.Extract:
		return expr(x.Tuple, d+1) + fmt.Sprintf("#%d", x.Index)
	case *ssa.Phi:
		var as []string
		for _, e := range x.Edges {
			if e == v {
				as = append(as, "self")
				continue
			}
			as = append(as, expr(e, d+2))
		}
		if keyMode {
			// the order of a φ's inputs follows the order of the branches in the source: not part of a key
			sort.Strings(as)
		}
		return "φ(" + strings.Join(as, ", ") + ")"
	case *ssa.Alloc:
		if x.Comment != "" {
			if keyMode {
				switch x.Comment {
				case "complit", "varargs", "slicelit", "makeslice", "new":
				default:
					return "&local"
				}
			}
			return "&" + x.Comment
		}
		return "alloc"
	case *ssa.TypeAssert:
		return expr(x.X, d+1) + ".(" + types.TypeString(x.AssertedType, shortQual) + ")"
	case *ssa.MakeSlice:
		return "make(" + types.TypeString(x.Type(), shortQual) + ", " + expr(x.Len, d+1) + ")"
	case *ssa.MakeClosure:
		return "closure(" + FuncName(x.Fn.(*ssa.Function)) + ")"
	case *ssa.Builtin:
		return x.Name()
	case *ssa.Next:
		return "next(" + expr(x.Iter, d+1) + ")"
	case *ssa.Range:
		return "range " + expr(x.X, d+1)
	}
	return v.Name()
}

func shortQual(p *types.Package) string { return p.Name() }

// TypeStr renders a type with short package qualifiers.
func TypeStr(t types.Type) string { return types.TypeString(t, shortQual) }

// RetVals returns the values a Return hands back, looking through go/ssa's
// result spilling in functions that have defers (results are stored to
// allocs, defers run, then the allocs are re-loaded).
func RetVals(ret *ssa.Return) []ssa.Value {
	out := make([]ssa.Value, len(ret.Results))
	for i, v := range ret.Results {
		out[i] = v
		u, ok := v.(*ssa.UnOp)
		if !ok || u.Op != token.MUL {
			continue
		}
		al, ok := u.X.(*ssa.Alloc)
		if !ok {
			continue
		}
		instrs := ret.Block().Instrs
		for j := len(instrs) - 1; j >= 0; j-- {
			if st, ok := instrs[j].(*ssa.Store); ok && st.Addr == ssa.Value(al) {
				out[i] = st.Val
				break
			}
		}
	}
	return out
}

// MakeLen returns the constant length of a slice created by make([]T, k)
// (go/ssa lowers a constant-size make to `new [k]T` + slice).
func MakeLen(v ssa.Value) (int64, bool) {
	switch x := v.(type) {
	case *ssa.MakeSlice:
		return ConstInt64(x.Len)
	case *ssa.Slice:
		if x.Low != nil {
			return 0, false
		}
		if al, ok := x.X.(*ssa.Alloc); ok {
			if arr, ok := al.Type().Underlying().(*types.Pointer).Elem().Underlying().(*types.Array); ok {
				if x.High == nil {
					return arr.Len(), true
				}
				if h, ok := ConstInt64(x.High); ok && h <= arr.Len() {
					return h, true
				}
			}
		}
	}
	return 0, false
}

// GuardsOnEdge returns the conditions known to hold when control passes
// from pred to succ (the guards of pred plus pred's own branch decision).
func GuardsOnEdge(pred, succ *ssa.BasicBlock) []Guard {
	gs := append([]Guard(nil), GuardsOf(pred)...)
	if len(pred.Instrs) > 0 {
		if iff, ok := pred.Instrs[len(pred.Instrs)-1].(*ssa.If); ok && pred.Succs[0] != pred.Succs[1] {
			if succ == pred.Succs[0] {
				gs = append(gs, Guard{iff.Cond, true, iff})
				gs = append(gs, expandShortCircuit(Guard{iff.Cond, true, iff}, 0)...)
			} else if succ == pred.Succs[1] {
				gs = append(gs, Guard{iff.Cond, false, iff})
				gs = append(gs, expandShortCircuit(Guard{iff.Cond, false, iff}, 0)...)
			}
		}
	}
	return gs
}

// NarrowedIn reports whether the chain of conversions Strip removes from v contains an integer conversion to a type
// of fewer bits than v itself has (the value arrives with fewer significant bits than its destination could hold).
func NarrowedIn(v ssa.Value) bool {
	bits := func(t types.Type) int {
		b, ok := t.Underlying().(*types.Basic)
		if !ok || b.Info()&types.IsInteger == 0 {
			return 0
		}
		switch b.Kind() {
		case types.Int8, types.Uint8:
			return 8
		case types.Int16, types.Uint16:
			return 16
		case types.Int32, types.Uint32:
			return 32
		}
		return 64
	}
	dst := bits(v.Type())
	for {
		switch x := v.(type) {
		case *ssa.ChangeType:
			v = x.X
		case *ssa.Convert:
			if b := bits(x.Type()); dst != 0 && b != 0 && b < dst {
				return true
			}
			v = x.X
		case *ssa.MakeInterface:
			v = x.X
		case *ssa.ChangeInterface:
			v = x.X
		default:
			return false
		}
	}
}

// UnboundMethod: for the wrapper go/ssa creates for a method value (x.m used as a func value) it returns the method
// itself; any other function is returned unchanged.
func (p *Prog) UnboundMethod(fn *ssa.Function) *ssa.Function {
	if fn == nil || !strings.HasPrefix(fn.Synthetic, "bound method wrapper") {
		return fn
	}
	if obj, ok := fn.Object().(*types.Func); ok {
		if m := p.SSA.FuncValue(obj); m != nil {
			return m
		}
	}
	return fn
}
