package props

import (
	"fmt"
	"go/token"
	"go/types"
	"strings"

	"dblint/internal/core"

	"golang.org/x/tools/go/ssa"
)

func init() {
	register(&Spec{ID: "C12", Title: "Logical channels are isolated and correctly routed under concurrency", Run: runC12,
		Meta: core.Meta{
			Explanation: "R12.25: no error queue (chan error) of package tds is created with a constant zero buffer: the reader goroutine reports errors with a plain send. R12.23 = R08.8, R12.24 = R15.7. R12.21 = R14.5, R12.22 = R01.17. R12.19 = R13.7 (a recursive RLock deadlocks as soon as a Close asks for the write lock between the two acquisitions, and the reader then stalls every channel). R12.20 = R15.4. R12.18 = R14.1 (every failure return after a transport read carries the read error itself or wrapped with %w — Conn.ReadFrom routes the last packet of a stream on errors.Is(err, io.EOF)). R12.17 = R13.3 (every use of packageCh/errCh in the channel's methods is dominated by the not-closed edge of the `closed` test taken under the channel lock). R12.16: every non-constant store of Channel.curPacketNr dominates a Packet.WriteTo in the same innermost loop (numbers are not handed out ahead of the send loop). R12.15 = R01.15 (PacketHeader.Read/Write put and take the 16-bit channel id at offset 4 with the big-endian two-byte codec). R12.14 = R13.9 (no function holds Conn.tdsChannelsLock across an operation that can block on a package/error queue: a reader parked on one channel's full queue would block NewChannel and Close of every other channel). R12.13 = R02.11 (no function outside the reader goroutine's path uses Channel.queueRx: a partly received package is not thrown away by a send on the same channel). Lockset and routing rules; schedules are not explored. R12.1 (E-LOCK, guarded-by table confirmed by reading): Conn.tdsChannels is read only under tdsChannelsLock (R or W) and written only under W (objects under construction exempt); Conn.tdsChannelCurFreeId is touched only through sync/atomic or under W; Channel.closed is read under the channel's RWMutex and written under W; the hook slices are accessed under one mutex. The must-lockset is computed per function over SSA (Lock/RLock add, Unlock/RUnlock remove, deferred unlocks keep the lock to the exit, unexported callees inherit the meet over their call sites). R12.2: in Conn.ReadFrom the receiver of WritePacket is the comma-ok result of tdsChannels[int(packet.Header.Channel)] for the packet just read, and the !ok edge reports on Conn.errCh and continues. R12.3: sendPacket stamps Header.Channel from channelId and Header.PacketNr from curPacketNr on the channelId > 0 edge and advances curPacketNr by one modulo 2^bits(PacketNr). R12.4: NewChannel registers the channel under the id it stores in channelId; Close deletes that id under the write lock. R12.5: the set-up acknowledgement test in NewChannel uses a type assertion that some producer can satisfy and is followed by the PROTACK test. R12.7: the id returned by getValidChannelId is computed from the result of the atomic add on tdsChannelCurFreeId (or is the id of the recursive attempt) and the counter is never read by a separate atomic load. R12.8 = R01.7: Packet.WriteTo hands the serialised packet to the transport in exactly one Write (channels share the transport without a send lock; two writes let another channel's packet land between header and body). R12.9: no `go` statement occurs in any function statically reachable from (*Conn).ReadFrom — a hand-over finished by a helper goroutine lets packages of one channel overtake each other. R12.10 = R14.4 (every path of the reader loop with a completely received packet reaches WritePacket or reports the unknown channel on Conn.errCh — no kind of packet is dropped silently). R12.11: no function of package tds (outside init) stores into an element of a package-level array/slice of basic elements or hands (a slice of) one to a call — such a buffer is shared by the reader goroutines of all connections and by all sending channels. R12.12 = R02.1 (in WritePacket the position restored after a failed attempt is the one saved immediately before that attempt; a position saved once per packet lets a delivered package be parsed and delivered again). R12.6: WritePacket tests `closed` under the channel lock before it touches the queues. R12.4 also requires that the registration in tdsChannels dominates the sending of the set-up packet (the acknowledgement can be routed as soon as the packet is out).",
			NotDecided:  "Interleavings and data races on fields used by one goroutine per channel by contract (curPacketNr, CurrentHeaderType, packetSize) are not decided; the race detector is another technique family.",
			Assumptions: []string{"sync.RWMutex / sync/atomic semantics", "fields outside the guarded-by table are confined to one goroutine by the library's contract"},
		}})
}

type guardedField struct {
	field   *types.Var
	lock    string // lock field name relative to the field's owner ("" = embedded RWMutex of the owner)
	atomic  bool   // accesses through sync/atomic are fine
	mapLike bool
}

func runC12(r *core.Run) {
	p := r.Prog
	la := newLockAnalysis(p, "tds")
	r.Rule("R12.1", "guarded-by: shared fields are accessed under their lock (E-LOCK)", 15, true)
	r.Rule("R12.2", "routing by the header's channel id under the read lock", 2, false)
	r.Rule("R12.3", "outgoing packets carry channel id and consecutive packet numbers", 3, false)
	r.Rule("R12.4", "registration and removal use the channel's own id; registration precedes the set-up packet", 3, false)
	r.Rule("R12.5", "logical channel set-up acknowledgement can be recognised", 2, false)
	r.Rule("R12.6", "packets for a closed channel are dropped under the lock", 1, false)
	r.Rule("R12.7", "an id is reserved in one atomic step", 1, false)
	r.Rule("R12.8", "a packet reaches the shared transport in one Write call (R01.7)", 1, false)
	r.Rule("R12.9", "packages are handed over by the reader goroutine itself, one after the other (no goroutine is started on the reader path)", 1, false)
	defer c12NoGoOnReaderPath(r, "R12.9")
	r.Rule("R12.10", "every completely received packet is routed or, for an unknown channel, reported (R14.4)", 4, false)
	defer c14Conn(r, "R12.10")
	r.Rule("R12.11", "no package-level scratch buffer is shared between connections or channels", 1, false)
	defer c12NoSharedBuffers(r)
	r.Rule("R12.12", "packages reach their channel once and in order: rollback to the position saved for the same attempt (R02.1)", 4, false)
	r.Rule("R12.13", "the receive queue belongs to the reader goroutine: a send or Reset on the channel does not touch it (R02.11)", 1, false)
	defer rxOwnership(r, "R12.13")
	r.Rule("R12.14", "the channel-map lock is not held across a delivery that can block on a full queue (R13.9)", 1, false)
	defer c13NoBlockUnderMapLock(r, la, "R12.14")
	defer c02Rollback(r, "R12.12")
	r.Rule("R12.15", "the channel id is serialised into and parsed from header bytes 4..5, both of them (R01.15)", 2, false)
	defer c01HeaderLayout(r, "R12.15")
	r.Rule("R12.16", "a packet number is taken in the iteration that writes the packet", 1, false)
	defer c12NumberWithWrite(r)
	r.Rule("R12.17", "closed is tested under the lock before a queue is used; Close tears down in order (R13.3)", 7, false)
	defer c13Closed(r, la, "R12.17")
	r.Rule("R12.18", "a transport error keeps its cause (%w): the reader tells the orderly end with a complete packet from a failure (R14.1)", 2, true)
	defer c14ReadSites(r, "R12.18")
	r.Rule("R12.19", "no re-acquisition of a held RWMutex through a callee, deferred calls included (R13.7)", 40, true)
	defer c13Reacquire(r, la, "R12.19")
	r.Rule("R12.20", "the end-of-message reset restores the whole state of the receive queue (R15.4)", 1, false)
	defer c15Reset(r, "R12.20")
	r.Rule("R12.21", "NextPackage surfaces Conn.errCh errors to waiting and to polling consumers (R14.5): a packet for an unknown channel is reported", 2, false)
	defer c14NextPackage(r, "R12.21")
	r.Rule("R12.22", "the wire image of a packet has exactly Header.Length bytes (R01.17): the peer frames the shared stream by it", 1, false)
	defer c01PacketImage(r, "R12.22")
	r.Rule("R12.23", "what a channel's own package causes is reported on that channel (R08.8): a PACKSIZE member sets the size or fails the package", 2, false)
	defer packSizeEveryMember(r, "R12.23")
	r.Rule("R12.24", "a sent packet leaves the transmit queue (R15.7): the peer sees every packet once", 1, false)
	defer c15Discard(r, "R12.24")
	r.Rule("R12.25", "a parse error on one channel does not park the reader all channels share", 2, false)
	defer errQueuesBuffered(r, "R12.25")

	table := []guardedField{
		{p.Field("tds", "Conn", "tdsChannels"), "tdsChannelsLock", false, true},
		{p.Field("tds", "Conn", "tdsChannelCurFreeId"), "tdsChannelsLock", true, false},
		{p.Field("tds", "Channel", "closed"), "RWMutex", false, false},
		{p.Field("tds", "Channel", "eedHooks"), "envChangeHooksLock", false, false},
		{p.Field("tds", "Channel", "envChangeHooks"), "envChangeHooksLock", false, false},
	}
	c12Guarded(r, la, table)
	c12Routing(r, "R12.2")
	c12Stamping(r, "R12.3")
	c12Registration(r, la)
	c12Setup(r)
	c12ClosedCheck(r, la)
	c12IdFromAdd(r, "R12.7")
	c01SingleWrite(r, "R12.8")
}

// c12IdFromAdd: R12.7. A channel id is reserved in ONE atomic step: the id getValidChannelId hands out is computed
// from the RESULT of the atomic add on tdsChannelCurFreeId, and the counter is never read by a separate atomic load
// (two creators could load the same value before either adds).
func c12IdFromAdd(r *core.Run, rule string) {
	p := r.Prog
	fn := p.Func("tds", "Conn", "getValidChannelId")
	fCtr := p.Field("tds", "Conn", "tdsChannelCurFreeId")
	isCtr := func(v ssa.Value) bool {
		fa, ok := v.(*ssa.FieldAddr)
		return ok && core.FieldOfAddr(fa) == fCtr
	}
	atomicOn := func(c ssa.CallInstruction, prefix string) bool {
		f := core.StaticCallee(c)
		return f != nil && f.Pkg != nil && f.Pkg.Pkg.Path() == "sync/atomic" && strings.HasPrefix(f.Name(), prefix) && len(c.Common().Args) > 0 && isCtr(c.Common().Args[0])
	}
	for _, f := range p.ModuleFuncs() {
		for _, c := range core.Calls(f) {
			if atomicOn(c, "Load") {
				r.Bad(rule, core.FuncName(f)+": separate load of tdsChannelCurFreeId", c.Pos(), "the id counter is read with an atomic load of its own: read and advance are two steps, so two concurrent NewChannel calls can obtain the same id")
			}
			for _, op := range []string{"CompareAndSwap", "Store", "Swap", "And", "Or"} {
				if atomicOn(c, op) {
					r.Bad(rule, core.FuncName(f)+": tdsChannelCurFreeId modified by atomic."+op, c.Pos(), "the id counter is moved by something other than the reserving add: an id that was handed out (and for which the server may still send packets) can be handed out again")
				}
			}
			if atomicOn(c, "Add") && f != fn {
				r.Bad(rule, core.FuncName(f)+": tdsChannelCurFreeId advanced outside getValidChannelId", c.Pos(), "the id counter is advanced in a second place")
			}
		}
	}
	var fromAdd func(v ssa.Value, d int) bool
	fromAdd = func(v ssa.Value, d int) bool {
		if d > 8 {
			return false
		}
		switch x := v.(type) {
		case *ssa.Convert:
			return fromAdd(x.X, d+1)
		case *ssa.ChangeType:
			return fromAdd(x.X, d+1)
		case *ssa.BinOp:
			if _, isC := core.ConstInt64(x.Y); isC && (x.Op == token.SUB || x.Op == token.ADD) {
				return fromAdd(x.X, d+1)
			}
		case *ssa.Phi:
			for _, e := range x.Edges {
				if !fromAdd(e, d+1) {
					return false
				}
			}
			return len(x.Edges) > 0
		case *ssa.Extract:
			if c, ok := x.Tuple.(*ssa.Call); ok && core.StaticCallee(c) == fn {
				return true // the id of the recursive attempt
			}
		case *ssa.Call:
			return atomicOn(x, "Add")
		}
		return false
	}
	ok, n := true, 0
	for _, ret := range core.Returns(fn) {
		rv := core.RetVals(ret)
		if len(rv) != 2 || !core.IsNil(rv[1]) {
			continue
		}
		n++
		if !fromAdd(rv[0], 0) {
			ok = false
		}
	}
	// a direct `return tds.getValidChannelId()` returns the call's tuple: accepted as the recursive attempt
	r.Check(ok && n > 0, rule, "getValidChannelId: the id is the result of the atomic add", fn.Pos(), "id = atomic.AddUint32(&tdsChannelCurFreeId, 1) - 1 (or the id of the recursive attempt)",
		"the id handed out is not computed from the result of the atomic add on the counter: reserving an id is not one atomic step and two concurrent NewChannel calls can obtain the same id")
}

func c12Guarded(r *core.Run, la *lockAnalysis, table []guardedField) {
	p := r.Prog
	for _, fn := range la.funcs {
		for _, b := range fn.Blocks {
			for _, in := range b.Instrs {
				fa, ok := in.(*ssa.FieldAddr)
				if !ok {
					continue
				}
				fv := core.FieldOfAddr(fa)
				var gf *guardedField
				for i := range table {
					if table[i].field == fv {
						gf = &table[i]
					}
				}
				if gf == nil {
					continue
				}
				root, _, okPath := accessPath(fa.X)
				if _, isAlloc := root.(*ssa.Alloc); isAlloc && okPath {
					// object under construction (not yet shared)
					r.OK("R12.1", core.FuncName(fn)+": "+fv.Name()+" (under construction)", fa.Pos(), "field of an object allocated in this function")
					continue
				}
				baseKey, okKey := lockKey(fn, fa.X)
				want := baseKey + "." + gf.lock
				// classify the accesses through this address
				for _, ref := range *fa.Referrers() {
					mode := byte(0)
					var pos token.Pos
					var at ssa.Instruction
					switch u := ref.(type) {
					case *ssa.Store:
						if u.Addr == ssa.Value(fa) {
							mode, pos, at = 'W', u.Pos(), u
						}
					case *ssa.UnOp:
						if u.Op == token.MUL {
							mode, pos, at = 'R', u.Pos(), u
							if gf.mapLike {
								for _, r2 := range *u.Referrers() {
									switch m := r2.(type) {
									case *ssa.MapUpdate:
										if m.Map == ssa.Value(u) {
											mode, pos, at = 'W', m.Pos(), m
										}
									case *ssa.Call:
										if bi, isB := m.Call.Value.(*ssa.Builtin); isB && bi.Name() == "delete" {
											mode, pos, at = 'W', m.Pos(), m
										}
									}
								}
							}
						}
					case ssa.CallInstruction:
						if f := core.StaticCallee(u); f != nil && f.Pkg != nil && f.Pkg.Pkg.Path() == "sync/atomic" {
							if gf.atomic {
								r.OK("R12.1", core.FuncName(fn)+": "+fv.Name()+" atomic", u.Pos(), "accessed through sync/atomic")
							} else {
								r.Bad("R12.1", core.FuncName(fn)+": "+fv.Name()+" atomic", u.Pos(), "mixed atomic and lock-protected access")
							}
							continue
						}
					}
					if mode == 0 {
						continue
					}
					key := core.FuncName(fn) + ": " + fv.Name() + " " + map[byte]string{'R': "read", 'W': "write"}[mode]
					if pos == token.NoPos {
						pos = fa.Pos()
					}
					if !okKey {
						r.Unknown("R12.1", key, pos, "access through a value whose lock cannot be named: "+core.Expr(fa.X))
						continue
					}
					ls := la.At(at)
					held, has := ls[want]
					switch {
					case !has:
						what := "read"
						if mode == 'W' {
							what = "written"
						}
						r.Bad("R12.1", key, pos, fv.Name()+" is "+what+" without holding "+gf.lock+" (lockset "+ls.String()+"); another goroutine accesses it under that lock concurrently")
					case mode == 'W' && held != modeW:
						r.Bad("R12.1", key, pos, fv.Name()+" is written while "+gf.lock+" is held only for reading")
					default:
						r.OK("R12.1", key, pos, "under "+want+"/"+string(held))
					}
				}
			}
		}
	}
	_ = p
}

func c12Routing(r *core.Run, rule string) {
	p := r.Prog
	fn := p.Func("tds", "Conn", "ReadFrom")
	wp := p.Func("tds", "Channel", "WritePacket")
	fChannels := p.Field("tds", "Conn", "tdsChannels")
	fHdrChannel := p.Field("tds", "PacketHeader", "Channel")
	fErrCh := p.Field("tds", "Conn", "errCh")
	calls := callsTo(fn, wp)
	if len(calls) != 1 {
		r.Unknown(rule, "Conn.ReadFrom: WritePacket call", fn.Pos(), "expected one WritePacket call")
		return
	}
	c := calls[0]
	args := c.Common().Args
	ok, why := false, "the receiver of WritePacket is not the comma-ok lookup tdsChannels[int(packet.Header.Channel)] of the packet being delivered"
	var lookup *ssa.Lookup
	if ex, isEx := args[0].(*ssa.Extract); isEx && ex.Index == 0 {
		if lk, isL := ex.Tuple.(*ssa.Lookup); isL && lk.CommaOk {
			if f, _ := core.FieldLoad(lk.X); f == fChannels {
				// index: int(packet.Header.Channel) with packet == args[1]
				idx := core.Strip(lk.Index)
				if f2, base := core.FieldLoad(idx); f2 == fHdrChannel {
					root, _, _ := accessPath(base)
					if root == args[1] || base == args[1] {
						ok = true
						lookup = lk
					} else if fa, isFA := base.(*ssa.FieldAddr); isFA && fa.X == args[1] {
						ok = true
						lookup = lk
					}
				}
			}
		}
	}
	if ok {
		// dominated by ok == true
		dom := false
		for _, g := range core.GuardsAt(c.(ssa.Instruction)) {
			if ex, isEx := g.Cond.(*ssa.Extract); isEx && ex.Tuple == ssa.Value(lookup) && ex.Index == 1 && g.Pol {
				dom = true
			}
		}
		if !dom {
			ok, why = false, "WritePacket is not dominated by the lookup's ok result"
		}
	}
	r.Check(ok, rule, "Conn.ReadFrom: packet delivered to the channel named in its header", c.Pos(), "receiver = tdsChannels[int(packet.Header.Channel)], ok == true", why)
	if lookup == nil {
		return
	}
	// !ok edge: send on Conn.errCh then continue (no return, no WritePacket)
	okMiss, whyMiss := false, "the !ok edge does not report on Conn.errCh"
	for _, ref := range *lookup.Referrers() {
		ex, isEx := ref.(*ssa.Extract)
		if !isEx || ex.Index != 1 {
			continue
		}
		for _, r2 := range *ex.Referrers() {
			iff, isIf := r2.(*ssa.If)
			if !isIf {
				continue
			}
			miss := iff.Block().Succs[1]
			for b := range dominatedRegion(miss) {
				for _, in := range b.Instrs {
					if s, isS := in.(*ssa.Send); isS {
						if f, _ := core.FieldLoad(s.Chan); f == fErrCh {
							okMiss = true
						}
					}
					if _, isRet := in.(*ssa.Return); isRet {
						okMiss, whyMiss = false, "a packet for an unknown channel ends the reader goroutine"
					}
				}
			}
		}
	}
	r.Check(okMiss, rule, "Conn.ReadFrom: unknown channel reported and ignored", fn.Pos(), "send on Conn.errCh, then continue", whyMiss)
}

func c12Stamping(r *core.Run, rule string) {
	p := r.Prog
	fn := p.Func("tds", "Channel", "sendPacket")
	fChannelId := p.Field("tds", "Channel", "channelId")
	fCur := p.Field("tds", "Channel", "curPacketNr")
	fHdrChannel := p.Field("tds", "PacketHeader", "Channel")
	fHdrNr := p.Field("tds", "PacketHeader", "PacketNr")
	var write ssa.CallInstruction
	pw := p.Func("tds", "Packet", "WriteTo")
	for _, c := range callsTo(fn, pw) {
		write = c
	}
	if write == nil {
		r.Unknown(rule, "sendPacket", fn.Pos(), "Packet.WriteTo call not found")
		return
	}
	stores := func(field *types.Var) []*ssa.Store {
		var out []*ssa.Store
		for _, b := range fn.Blocks {
			for _, in := range b.Instrs {
				if st, ok := in.(*ssa.Store); ok {
					if fa, ok := st.Addr.(*ssa.FieldAddr); ok && core.FieldOfAddr(fa) == field {
						out = append(out, st)
					}
				}
			}
		}
		return out
	}
	underIdPositive := func(in ssa.Instruction) bool {
		for _, cg := range fieldCmpGuards(core.GuardsAt(in), nil, fChannelId) {
			z, _ := core.ConstInt64(ssa.NewConst(cg.Cst, types.Typ[types.Int]))
			if z == 0 && ((cg.Op == token.GTR && cg.Pol) || (cg.Op == token.LEQ && !cg.Pol) || (cg.Op == token.NEQ && cg.Pol) || (cg.Op == token.EQL && !cg.Pol)) {
				return true
			}
		}
		return false
	}
	// Channel
	okCh, whyCh := false, "Header.Channel is not set from channelId before the write"
	for _, st := range stores(fHdrChannel) {
		if f, _ := core.FieldLoad(core.Strip(st.Val)); f == fChannelId && underIdPositive(st) {
			okCh = true
			if core.NarrowedIn(st.Val) {
				okCh, whyCh = false, "the channel id passes through a narrower integer type on its way into the header ("+core.Expr(st.Val)+"): packets of a channel with an id of 256 or more carry id mod 256 and are delivered to another channel"
				break
			}
		}
	}
	r.Check(okCh, rule, "sendPacket: Header.Channel := channelId", fn.Pos(), "stored from channelId on the channelId > 0 edge", whyCh)
	okNr, whyNr := false, "Header.PacketNr is not set from curPacketNr before the write"
	for _, st := range stores(fHdrNr) {
		if f, _ := core.FieldLoad(core.Strip(st.Val)); f == fCur && underIdPositive(st) {
			okNr = true
		}
	}
	r.Check(okNr, rule, "sendPacket: Header.PacketNr := curPacketNr", fn.Pos(), "stored from curPacketNr on the channelId > 0 edge", whyNr)
	// increment modulo 2^bits
	bitsOf := func(t types.Type) int64 {
		if b, ok := t.Underlying().(*types.Basic); ok {
			switch b.Kind() {
			case types.Uint8, types.Int8:
				return 8
			case types.Uint16, types.Int16:
				return 16
			}
		}
		return 0
	}
	mod := int64(1) << bitsOf(fHdrNr.Type())
	okInc, whyInc := false, "curPacketNr is not advanced"
	n := 0
	for _, st := range stores(fCur) {
		n++
		rem, isRem := st.Val.(*ssa.BinOp)
		if !isRem || rem.Op != token.REM {
			whyInc = "curPacketNr is not reduced modulo the packet number range"
			continue
		}
		m, isC := core.ConstInt64(rem.Y)
		add, isAdd := rem.X.(*ssa.BinOp)
		if !isC || !isAdd || add.Op != token.ADD {
			continue
		}
		one, isOne := core.ConstInt64(add.Y)
		f, _ := core.FieldLoad(add.X)
		if f != fCur || !isOne || one != 1 {
			whyInc = "curPacketNr is not advanced by exactly one"
			continue
		}
		if m != mod {
			whyInc = "curPacketNr wraps modulo " + itoa(m) + ", but PacketNr has " + itoa(mod) + " values: the sequence skips a number every wrap-around"
			continue
		}
		okInc = underIdPositive(st)
	}
	if n > 1 {
		okInc, whyInc = false, "curPacketNr is advanced more than once per packet"
	}
	r.Check(okInc, rule, "sendPacket: curPacketNr advances by one modulo 2^bits(PacketNr)", fn.Pos(), "(curPacketNr + 1) % "+itoa(mod), whyInc)
}

func itoa(i int64) string {
	return strings.TrimSpace(strings.Replace(strings.Repeat(" ", 0)+fmtInt(i), "+", "", -1))
}

func fmtInt(i int64) string {
	if i == 0 {
		return "0"
	}
	neg := i < 0
	if neg {
		i = -i
	}
	var b []byte
	for i > 0 {
		b = append([]byte{byte('0' + i%10)}, b...)
		i /= 10
	}
	if neg {
		b = append([]byte{'-'}, b...)
	}
	return string(b)
}

func c12Registration(r *core.Run, la *lockAnalysis) {
	p := r.Prog
	nc := p.Func("tds", "Conn", "NewChannel")
	cl := p.Func("tds", "Channel", "Close")
	fChannels := p.Field("tds", "Conn", "tdsChannels")
	fChannelId := p.Field("tds", "Channel", "channelId")
	// NewChannel: MapUpdate(tdsChannels, key, val) with val.channelId := key
	// registration events in NewChannel: a map update of tdsChannels, or a call of a helper that performs one with
	// its parameters on every path (one level of helpers is looked through)
	type regEvent struct {
		at       ssa.Instruction
		key, val ssa.Value
	}
	var events []regEvent
	updatesIn := func(fn *ssa.Function) []*ssa.MapUpdate {
		var out []*ssa.MapUpdate
		for _, b := range fn.Blocks {
			for _, in := range b.Instrs {
				if mu, isMU := in.(*ssa.MapUpdate); isMU {
					if f, _ := core.FieldLoad(mu.Map); f == fChannels {
						out = append(out, mu)
					}
				}
			}
		}
		return out
	}
	for _, mu := range updatesIn(nc) {
		events = append(events, regEvent{mu, mu.Key, mu.Value})
	}
	for _, c := range core.Calls(nc) {
		h := core.StaticCallee(c)
		if h == nil || h == nc || !core.InModule(h) || len(h.Blocks) == 0 {
			continue
		}
		if _, isCall := c.(*ssa.Call); !isCall {
			continue
		}
		for _, mu := range updatesIn(h) {
			onAll := true
			for _, ret := range core.Returns(h) {
				if !core.Dominates(mu, ret) {
					onAll = false
				}
			}
			ki, vi := -1, -1
			for i, pa := range h.Params {
				if mu.Key == ssa.Value(pa) {
					ki = i
				}
				if mu.Value == ssa.Value(pa) {
					vi = i
				}
			}
			if onAll && ki >= 0 && vi >= 0 {
				args := c.Common().Args
				events = append(events, regEvent{c.(ssa.Instruction), args[ki], args[vi]})
			}
		}
	}
	ok, why := false, "no registration in tdsChannels found"
	for _, ev := range events {
		// the value's channelId store
		al, isAl := ev.val.(*ssa.Alloc)
		if !isAl {
			why = "registered value is not the channel built here"
			continue
		}
		for _, ref := range *al.Referrers() {
			if fa, isFA := ref.(*ssa.FieldAddr); isFA && core.FieldOfAddr(fa) == fChannelId {
				for _, r2 := range *fa.Referrers() {
					if st, isSt := r2.(*ssa.Store); isSt && st.Val == ev.key {
						ok = true
					}
				}
			}
		}
		if !ok {
			why = "the channel is registered under a key that differs from the id stored in channelId: packets are routed to the wrong channel"
		}
	}
	r.Check(ok, "R12.4", "NewChannel registers under its own id", nc.Pos(), "tdsChannels[id] = &Channel{channelId: id}", why)
	// the registration dominates the set-up packet: the acknowledgement can be routed as soon as the packet is out
	sp := p.Func("tds", "Channel", "sendPacket")
	okOrder, whyOrder := true, ""
	for _, c := range callsTo(nc, sp) {
		regBefore := false
		for _, ev := range events {
			if core.Dominates(ev.at, c.(ssa.Instruction)) {
				regBefore = true
			}
		}
		if !regBefore {
			okOrder, whyOrder = false, "the set-up packet is sent before the channel is registered in tdsChannels: a fast acknowledgement is routed while the channel is still unknown (\"invalid channel\") and the set-up fails although the server accepted it"
		}
	}
	r.Check(okOrder, "R12.4", "NewChannel registers before sending the set-up packet", nc.Pos(), "the map update dominates sendPacket(setup)", whyOrder)
	okDel, whyDel := false, "Close does not delete the channel from tdsChannels"
	for _, c := range core.Calls(cl) {
		cc, isC := c.(*ssa.Call)
		if !isC {
			continue
		}
		if bi, isB := cc.Call.Value.(*ssa.Builtin); !isB || bi.Name() != "delete" {
			continue
		}
		f, _ := core.FieldLoad(cc.Call.Args[0])
		kf, kb := core.FieldLoad(cc.Call.Args[1])
		if f == fChannels && kf == fChannelId && kb == ssa.Value(cl.Params[0]) {
			okDel = true
		} else {
			whyDel = "Close deletes a key other than its own channelId"
		}
	}
	r.Check(okDel, "R12.4", "Close removes its own id", cl.Pos(), "delete(tdsChannels, tdsChan.channelId)", whyDel)
}

func c12Setup(r *core.Run) {
	p := r.Prog
	nc := p.Func("tds", "Conn", "NewChannel")
	checkAssertsSatisfiable(r, "R12.5", nc)
	// PROTACK test dominates the success return for channelId > 0
	fMsgType := p.Field("tds", "PacketHeader", "MsgType")
	cProt := constOf(p, "tds", "TDS_BUF_PROTACK")
	ok := false
	for _, ret := range core.Returns(nc) {
		rv := core.RetVals(ret)
		if !core.IsNil(rv[len(rv)-1]) {
			continue
		}
		for _, g := range core.GuardsAt(ret) {
			bo, isB := g.Cond.(*ssa.BinOp)
			if !isB {
				continue
			}
			// MsgType == PROTACK, or MsgType&PROTACK == PROTACK
			for _, sw := range [][2]ssa.Value{{bo.X, bo.Y}, {bo.Y, bo.X}} {
				cst, isC := sw[1].(*ssa.Const)
				if !isC || cst.Value == nil || !constEq(cst.Value, cProt) {
					continue
				}
				x := sw[0]
				if and, isAnd := x.(*ssa.BinOp); isAnd && and.Op == token.AND {
					x = and.X
				}
				if f, _ := core.FieldLoad(core.Strip(x)); f == fMsgType {
					if (bo.Op == token.EQL && g.Pol) || (bo.Op == token.NEQ && !g.Pol) {
						ok = true
					}
				}
			}
		}
	}
	r.Check(ok, "R12.5", "NewChannel: success for id > 0 needs the PROTACK acknowledgement", nc.Pos(), "a success return is dominated by the PROTACK test on the acknowledging header", "no success return is dominated by the PROTACK test: set-up succeeds without the server's acknowledgement (or can never succeed)")
}

func c12ClosedCheck(r *core.Run, la *lockAnalysis) {
	p := r.Prog
	wp := p.Func("tds", "Channel", "WritePacket")
	ok, why := closedPrologue(p, la, wp)
	r.Check(ok, "R12.6", "WritePacket drops packets for a closed channel", wp.Pos(), "closed tested under the channel lock before the queues are touched", why)
}

// closedPrologue: every use of packageCh/errCh/queueRx/queueTx/tdsConn.conn in
// fn is dominated by a test of `closed` (false edge) made while the channel
// lock is held.
func closedPrologue(p *core.Prog, la *lockAnalysis, fn *ssa.Function) (bool, string) {
	fClosed := p.Field("tds", "Channel", "closed")
	sensitive := map[*types.Var]bool{
		p.Field("tds", "Channel", "packageCh"): true, p.Field("tds", "Channel", "errCh"): true,
		p.Field("tds", "Channel", "queueRx"): true, p.Field("tds", "Channel", "queueTx"): true,
	}
	// the closed test
	var tests []*ssa.If
	for _, b := range fn.Blocks {
		if iff, ok := b.Instrs[len(b.Instrs)-1].(*ssa.If); ok {
			if f, base := core.FieldLoad(iff.Cond); f == fClosed && len(fn.Params) > 0 && base == ssa.Value(fn.Params[0]) {
				ls := la.At(iff)
				if _, held := ls["p0.RWMutex"]; held {
					tests = append(tests, iff)
				}
			}
		}
	}
	if len(tests) == 0 {
		return false, "no test of `closed` under the channel lock: after Close the method touches queues and Go channels that Close has torn down (a send on the nil packageCh blocks the reader goroutine forever)"
	}
	helpers := sensitiveHelpers(p, la, sensitive)
	for _, b := range fn.Blocks {
		for _, in := range b.Instrs {
			what := ""
			if fa, ok := in.(*ssa.FieldAddr); ok && sensitive[core.FieldOfAddr(fa)] && fa.X == ssa.Value(fn.Params[0]) {
				what = core.FieldOfAddr(fa).Name()
			}
			if c, ok := in.(ssa.CallInstruction); ok {
				if f := core.StaticCallee(c); f != nil && helpers[f] && len(c.Common().Args) > 0 && c.Common().Args[0] == ssa.Value(fn.Params[0]) {
					what = "helper " + f.Name()
				}
			}
			if what == "" {
				continue
			}
			dom := false
			for _, t := range tests {
				notClosed := t.Block().Succs[1]
				if len(notClosed.Preds) == 1 && notClosed.Dominates(in.Block()) {
					dom = true
				}
			}
			if _, isDefer := in.(*ssa.Defer); isDefer {
				for _, t := range tests {
					notClosed := t.Block().Succs[1]
					if len(notClosed.Preds) == 1 && notClosed.Dominates(in.Block()) {
						dom = true
					}
				}
			}
			if !dom {
				return false, "a use of " + what + " is not dominated by the not-closed edge of the `closed` test"
			}
		}
	}
	return true, ""
}

// sensitiveHelpers: unexported *Channel methods that (transitively) touch
// the queues or Go channels of their receiver.
func sensitiveHelpers(p *core.Prog, la *lockAnalysis, sensitive map[*types.Var]bool) map[*ssa.Function]bool {
	out := map[*ssa.Function]bool{}
	for changed := true; changed; {
		changed = false
		for _, fn := range la.funcs {
			rn := core.RecvNamed(fn)
			if out[fn] || rn == nil || rn.Obj().Name() != "Channel" || token.IsExported(fn.Name()) || fn.Parent() != nil {
				continue
			}
			for _, b := range fn.Blocks {
				for _, in := range b.Instrs {
					if fa, ok := in.(*ssa.FieldAddr); ok && sensitive[core.FieldOfAddr(fa)] && fa.X == ssa.Value(fn.Params[0]) {
						out[fn], changed = true, true
					}
					if c, ok := in.(ssa.CallInstruction); ok {
						if f := core.StaticCallee(c); f != nil && out[f] && !out[fn] {
							out[fn], changed = true, true
						}
					}
				}
			}
		}
	}
	return out
}

// c12NoGoOnReaderPath: R12.9.
func c12NoGoOnReaderPath(r *core.Run, rule string) {
	p := r.Prog
	reader := readerPathFuncs(p)
	n := 0
	for fn := range reader {
		n++
		for _, b := range fn.Blocks {
			for _, in := range b.Instrs {
				if g, ok := in.(*ssa.Go); ok {
					r.Bad(rule, core.FuncName(fn)+": goroutine started on the reader path", g.Pos(), "the reader goroutine's path starts another goroutine ("+core.Expr(g.Call.Value)+"): what it delivers or routes is no longer ordered with respect to the packages the reader hands over itself, so packages of one channel can reach the consumer out of the order the server sent them")
				}
			}
		}
	}
	r.Check(n >= 3, rule, "reader path is a single goroutine", token.NoPos, fmt.Sprintf("%d functions reachable from (*Conn).ReadFrom, no go statement", n), "the reader path was not found")
}

// c12NoSharedBuffers: R12.11. Every connection has its own reader goroutine and every channel its own callers, so
// package-level byte buffers (or other package-level arrays/slices) must not be written by the packet and package
// code: a scratch buffer that is "only used by the reader" is shared by the readers of ALL connections of the process.
// Flagged: a store into an element of a package-level array/slice of package tds, or such an array/slice (or a slice
// of it) handed to a call, outside init.
func c12NoSharedBuffers(r *core.Run) {
	p := r.Prog
	n := 0
	isBuf := func(g *ssa.Global) bool {
		if g.Pkg == nil || g.Pkg.Pkg.Path() != core.Module+"/tds" {
			return false
		}
		pt, ok := g.Type().(*types.Pointer)
		if !ok {
			return false
		}
		switch t := pt.Elem().Underlying().(type) {
		case *types.Array:
			_, isBasic := t.Elem().Underlying().(*types.Basic)
			return isBasic
		case *types.Slice:
			_, isBasic := t.Elem().Underlying().(*types.Basic)
			return isBasic
		}
		return false
	}
	for _, fn := range p.ModuleFuncs() {
		if fn.Pkg == nil || fn.Pkg.Pkg.Path() != core.Module+"/tds" || fn.Name() == "init" || p.IsGenerated(fn.Pos()) {
			continue
		}
		for _, b := range fn.Blocks {
			for _, in := range b.Instrs {
				var g *ssa.Global
				var what string
				switch x := in.(type) {
				case *ssa.IndexAddr:
					base := x.X
					if u, ok := base.(*ssa.UnOp); ok {
						base = u.X
					}
					if gg, ok := base.(*ssa.Global); ok && isBuf(gg) {
						for _, ref := range *x.Referrers() {
							if st, isSt := ref.(*ssa.Store); isSt && st.Addr == ssa.Value(x) {
								g, what = gg, "an element of it is assigned"
							}
						}
					}
				case *ssa.Slice:
					base := x.X
					if u, ok := base.(*ssa.UnOp); ok {
						base = u.X
					}
					if gg, ok := base.(*ssa.Global); ok && isBuf(gg) {
						for _, ref := range *x.Referrers() {
							if _, isCall := ref.(ssa.CallInstruction); isCall {
								g, what = gg, "a slice of it is handed to "+calleeKey(ref.(ssa.CallInstruction))
							}
							if _, isPhi := ref.(*ssa.Phi); isPhi {
								g, what = gg, "a slice of it is used as a working buffer"
							}
						}
					}
				}
				if g != nil {
					n++
					r.Bad("R12.11", core.FuncName(fn)+": package-level buffer "+g.Name(), in.Pos(), "the package-level buffer tds."+g.Name()+" is written ("+what+"): all connections and channels of the process share it, so two readers (or senders) working at the same time overwrite each other's bytes — packets are decoded with another connection's header or sent with another channel's body")
				}
			}
		}
	}
	r.Check(n == 0, "R12.11", "no package-level buffer is written by packet or package code", token.NoPos, "no store into, and no slice handed out of, a package-level array/slice of basic elements in package tds", "see the individual reports")
}
