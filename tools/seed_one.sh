#!/bin/bash
# usage: seed_one.sh <seeded/Cnn-mK>  — applies the seeded change to a scratch copy of /repo (falls back to the pinned
# snapshot a8cb25f when a later fix: commit rewrote the lines), runs ALL claimed quick checks on the copy and writes
# the result to <dir>/meta.json:detected_by. Prints one MATRIX.md row.
d=${1%/}; name=$(basename $d); prop=${name%%-*}
patch=$(realpath $d/patch.diff)
tmp=$(mktemp -d /tmp/dblint-seed.XXXXXX); out=$(mktemp -d /tmp/dblint-seed-out.XXXXXX)
trap 'rm -rf $tmp $out' EXIT
rsync -a --exclude=.git /repo/ $tmp/
base=head
if ! ( cd $tmp && patch -p1 -s -f --dry-run -i "$patch" >/dev/null 2>&1 ); then
  rm -rf $tmp; mkdir $tmp; git -C /repo archive a8cb25f | tar -x -C $tmp; base=a8cb25f
fi
( cd $tmp && patch -p1 -s -f --no-backup-if-mismatch -i "$patch" >/dev/null 2>&1 ) || { echo "| $name | PATCH DOES NOT APPLY | - | - |"; exit 0; }
cp /verif/known_findings.json $out/
log=$out/log.txt
for id in $(python3 -c "import json; print(' '.join(c['property_id'] for c in json.load(open('/verif/MANIFEST.json'))['checks']))"); do
  o=$(${DBLINT:-/verif/bin/dblint} check -property $id -repo $tmp -verif $out 2>&1); c=$?
  echo "--- $id exit=$c" >> $log
  echo "$o" | grep -E '^(VIOLATED|UNDECIDED|ANALYSIS-ERROR)' >> $log
done
python3 - "$name" "$prop" "$base" "$log" <<'PY'
import sys,json,re
name,prop,base,log=sys.argv[1:5]
cur=None; fired={}; rules={}
for l in open(log):
    m=re.match(r'--- (C\d+) exit=(\d+)',l)
    if m: cur=m.group(1); fired[cur]=int(m.group(2))!=0; rules[cur]=[]; continue
    m=re.match(r'(VIOLATED|UNDECIDED) (R[\d.]+)\|',l)
    if m and cur: rules[cur].append(m.group(2))
    if l.startswith('ANALYSIS-ERROR') and cur: rules[cur].append('ANALYSIS-ERROR')
own=fired.get(prop,False)
others=[k for k,v in fired.items() if v and k!=prop]
p='/verif/seeded/%s/meta.json'%name
meta=json.load(open(p))
meta['detected_by']={'own_property_check':own,'checks_that_fire':[k for k,v in fired.items() if v],'rules':{k:sorted(set(v)) for k,v in rules.items() if v},'on_pinned_snapshot':base!='head'}
json.dump(meta,open(p,'w'),indent=1)
ownr=sorted(set(rules.get(prop,[])))
dag='†' if base!='head' else ''
print('| %s%s | %s | %s | %s |'%(name,dag,'**caught**' if own else 'not caught',', '.join(ownr) or '-', ', '.join(others) or '-'))
PY
