#!/bin/sh
# usage: try_seed.sh <patch.diff> <property-id>...
# Applies the patch to /repo (git apply), runs the quick checks, reverts (git checkout -- .).
# If the patch no longer applies to /repo's HEAD (a fix: commit touched the same lines) it is
# applied to a scratch worktree of the pinned base commit instead, analysed there
# (VERIF_REPO), and the worktree is removed.
patch="$(realpath "$1")"; shift
BASE=a8cb25f
cd /repo || exit 2
if git apply --check "$patch" 2>/dev/null; then
  git apply "$patch"; where=/repo
else
  where=/tmp/seedbase.$$
  git worktree add -q --detach $where $BASE || exit 3
  ( cd $where && git apply "$patch" ) || { echo "PATCH DOES NOT APPLY EVEN TO BASE: $patch"; git worktree remove --force $where; exit 3; }
  echo "(patch conflicts with a fix: commit; analysed on base $BASE + patch in $where)"
fi
for p in "$@"; do
  out=$(VERIF_REPO=$where /verif/check.sh "$p" quick 2>&1); code=$?
  echo "--- $p exit=$code"
  echo "$out" | grep -E '^(VIOLATED|UNDECIDED|KNOWN-FINDING|ANALYSIS-ERROR|==.*obligations)' | head -${TRY_SEED_LINES:-20}
done
if [ $where = /repo ]; then git checkout -- . && git status --short | head; else git worktree remove --force $where; fi
