#!/bin/bash
# Runs every confirmed seeded change against ALL claimed quick checks (each on its own scratch copy of /repo, in
# parallel; /repo itself is not touched) and rewrites seeded/*/meta.json:detected_by and seeded/MATRIX.md.
# usage: tools/seed_matrix.sh [parallelism]
cd /verif
./check.sh C20 quick >/dev/null 2>&1   # make sure bin/dblint is current
ls -d seeded/C*-m*/ | xargs -P "${1:-12}" -n 1 tools/seed_one.sh > /tmp/dblint-matrix.rows
{ echo "| seeded change | own property's check | rules of that check that fire | other checks that fire |"; echo "|---|---|---|---|"; sort -V /tmp/dblint-matrix.rows; } > seeded/MATRIX.md
rm -f /tmp/dblint-matrix.rows
grep -c 'caught\*\*' seeded/MATRIX.md | sed 's/^/caught by own check: /'; grep -c 'not caught' seeded/MATRIX.md | sed 's/^/not caught: /'
