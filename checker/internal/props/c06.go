package props

import (
	"fmt"
	"go/ast"
	"go/constant"
	"go/token"
	"go/types"
	"sort"
	"strings"

	"dblint/internal/core"

	"golang.org/x/tools/go/ssa"
)

func init() {
	register(&Spec{ID: "C06", Title: "Package encodings are self-consistent and match their wire layout", Run: runC06,
		Meta: core.Meta{
			Explanation: "R06.29 = R07.18. R06.26: in package tds the value of a typed read (UintK/IntK of a BytesChannel or PacketQueue) is never converted to an integer type of fewer bits than were read (a named wire type narrower than its slot drops the upper bytes the peer sent). R06.27: for every data type constant, LookupFieldFmt creates XFieldFmt and LookupFieldData creates XFieldData of the same X (sibling tables). R06.28: every success return of fieldDataBase.readFrom is dominated by its ch.Bytes call (writeTo always writes length and data after the status byte). R06.25: valueMask.isEmpty takes no sub-slice of the mask. R06.4 also requires that the format readers that report a byte count (ReadFromField) account for every variable-length read. R06.24: no argument of WriteUint32 in ParamFmtPackage.WriteToField passes through a narrower integer conversion. R06.22 (exhaustiveness, table confirmed by reading): the type switch of ParamsPackage.LastPkg asserts *ParamFmtPackage, *RowFmtPackage, *ParamsPackage, *RowPackage, *OrderByPackage and *OrderBy2Package. R06.23: the store of fieldFmtBase.maxLength in readFromBase dominates every success return. R06.20: every writeString call of LoginConfig.pack has its error examined. R06.21: in fieldDataBase.writeTo the last argument of writeLengthBytes is len(bs) of the slice handed to WriteBytes. R06.18 = R07.1 (E-ERR at all wire-read call sites: a package the writer produced and a packet boundary cut is retried, not mis-decoded or reported as a parse error). R06.19: for the loop-free readers that return a byte count (status, precision, scale, ENVCHANGE member) the count returned on every success path equals, as a linear form over the lengths read from the wire, the widths consumed on that path. R06.17: in CapabilityPackage.ReadFrom every update of Capabilities stores a value built by a call on the bytes just read from the channel. R06.16 (sibling agreement): readFromStatus and writeToStatus leave the status byte out under the same condition on the format status (same expression, same polarity). R06.15 (sibling-table agreement): every arm of LookupFieldFmt for a data type constant X creates exactly one <X>FieldFmt (names compared case-insensitively; the convention holds for all arms of the reviewed tree) — reader and writer share this table, so E-SHAPE cannot see a wrong entry. Decides agreement of writer and reader on the SEQUENCE OF FIELD WIDTHS (wire shape), not on values. R06.1 (E-SHAPE): for every tds type with both ReadFrom and WriteTo on a BytesChannel — packages per `wide` variant, and every distinct FieldFmt/FieldData codec pair — the SSA-derived automaton of the writer's successful executions (letters 1,2,4,8 = typed widths, S = variable run, FMT/DAT = interface-dispatched field codecs; static helpers inlined; error sides of `err != nil` pruned) minus the leading token byte is language-included in the reader's automaton; a shortest counterexample names the write site and where the reader stood. R06.2 (E-CONST): the token a writer emits is one LookupPackage maps to the same type and `wide` flag. R06.3: server-only readers (ROWFMT, ROWFMT2, ORDERBY, ORDERBY2) and TDS_ERROR accept the layout written down from the TDS 5.0 specification. R06.4: read-side byte accounting — between two wire reads of a reader that checks a declared length, the counter grows by exactly the width just read. R06.5: per-iteration parse targets are fresh (a struct filled by ReadFrom inside a loop is allocated or zeroed inside that loop). R06.6: the login record helper writeString rejects oversized fields before writing (the write is dominated by a length test against padTo whose failing edge returns an error). R06.7 (write-side length formula): for writers without loops or delegated field codecs, on every success path (branch decisions on syntactically equal conditions kept consistent) the value written as the length prefix, as a linear form const + Σ len(field), equals the sum of the widths written after it; a prefix computed from anything else (e.g. a rune count) is a violation, and the nine writers the rule applied to on the reviewed tree are its floor. R06.9 (field order): E-SHAPE compares widths and is blind to a swap of neighbouring fields of equal width, also when reader and writer are changed together; for CURINFO, ERROR, EED, DONE, LOGINACK, MSG, DYNAMIC, CURDECLARE, CURCLOSE, CURDELETE, CURFETCH, CUROPEN, CURUPDATE, LANGUAGE, OPTIONCMD and the ENVCHANGE member the order of the fields on the wire is transcribed from the TDS 5.0 specification, and on every CFG path ReadFrom assigns the fields from wire reads, and WriteTo hands them to the channel writers, in that order (every listed field must be seen). R06.11 (ParamFmtPackage.WriteTo, the one writer whose length prefix is accumulated in a loop): per `wide` variant, as linear forms over len(e.Name()), len(e.LocaleInfo()) and the element codec's own byte count, (a) what WriteToField reports equals the widths it writes on every success path, (b) the per-element increment of the pre-computed length equals that, (c) the initial value equals the fixed bytes between the length field and the elements. Premise, not checked: FormatByteLength() of a field format equals what its WriteTo writes. R06.12 (all packages with a reader and a writer): whenever ReadFrom assigns field f from the wire before field g and never the other way round, WriteTo does not send g before f on all its paths — a one-sided swap of equally wide fields, which the width comparison cannot see. R06.13 (E-CONST): for every data type listed in asetypes.ByteSizes the setMaxLength constant of its arm in LookupFieldFmt equals the listed size (the writer produces MaxLength bytes, format and readers assume ByteSize bytes; a fixed-length format carries no length on the wire). R06.14: for every package with a reader and a writer, each field that WriteTo hands to the channel on every success path is assigned from the wire on every success path of ReadFrom (a reader that stores a value only under a condition on another field drops what was written). R06.10: no append in package tds extends a slice that the same function made with a non-zero length (directly, through a loop φ, or through a field stored before the append) — `make([]T, n)` + append yields n zero elements in front of the parsed ones, which the writer then serialises with a different count and length. R06.8 (purity): nothing reachable through static calls from a package's WriteTo stores through a pointer parameter or into a package variable — serialising must not change what is serialised next time.",
			NotDecided:  "Field values, capability bit positions, login record offsets, length maxima, and the numeric value of written length prefixes (the EED writer's length base 11 vs 16 is outside these rules) are not decided.",
			Assumptions: []string{"the five layout lines of R06.3 transcribe the TDS 5.0 functional specification", "branch correlation is ignored on both sides equally (both languages only grow)"},
		}})
}

// shapeExempt: types outside the token-dispatched codec scheme, one reason each.
var shapeExempt = map[string]string{
	"TokenlessPackage": "carries raw bytes including its own first byte (tryParsePackage writes the token byte back in); it has no token and its reader consumes the rest of the message",
}

type pkgCodec struct {
	name    string
	named   *types.Named
	read    *ssa.Function
	write   *ssa.Function
	variant *types.Var
}

func methodFn(p *core.Prog, n *types.Named, name string) *ssa.Function {
	for _, t := range []types.Type{types.NewPointer(n), n} {
		ms := p.SSA.MethodSets.MethodSet(t)
		for i := 0; i < ms.Len(); i++ {
			sel := ms.At(i)
			if sel.Obj().Name() != name {
				continue
			}
			// resolve promoted methods to the declaring function
			fobj := sel.Obj().(*types.Func)
			if f := p.SSA.FuncValue(fobj); f != nil {
				return f
			}
		}
	}
	return nil
}

func chanCodecSig(ef *errFlow, f *ssa.Function, nres int) bool {
	if f == nil {
		return false
	}
	sig := f.Signature
	if sig.Params().Len() != 1 || !ef.isBytesChannelType(sig.Params().At(0).Type()) {
		return false
	}
	return sig.Results().Len() == nres && core.IsErrorType(sig.Results().At(nres-1).Type())
}

// lookupTable extracts token -> (type, wide) from LookupPackage's switch.
type lookupEntry struct {
	tok   int64
	name  string
	typ   *types.Named
	wide  bool
	pos   token.Pos
	other bool // default arm / constructor without static type info
}

func lookupTable(p *core.Prog) ([]lookupEntry, token.Pos) {
	pk := p.Pkg("tds")
	fd := funcDecl(pk, p.Obj("tds", "LookupPackage"))
	if fd == nil {
		core.Fail("anchor: LookupPackage declaration not found")
	}
	var out []lookupEntry
	ast.Inspect(fd.Body, func(nd ast.Node) bool {
		cc, ok := nd.(*ast.CaseClause)
		if !ok || len(cc.Body) == 0 {
			return true
		}
		ret, ok := cc.Body[len(cc.Body)-1].(*ast.ReturnStmt)
		if !ok || len(ret.Results) == 0 {
			return true
		}
		var typ *types.Named
		wide := false
		e := ast.Unparen(ret.Results[0])
		if u, ok := e.(*ast.UnaryExpr); ok && u.Op == token.AND {
			if cl, ok := u.X.(*ast.CompositeLit); ok {
				if tv, ok := pk.TypesInfo.Types[cl]; ok {
					typ, _ = tv.Type.(*types.Named)
					if typ == nil {
						if a, ok := tv.Type.(*types.Alias); ok {
							typ, _ = types.Unalias(a).(*types.Named)
						}
					}
				}
				for _, el := range cl.Elts {
					if kv, ok := el.(*ast.KeyValueExpr); ok {
						if id, ok := kv.Key.(*ast.Ident); ok && id.Name == "wide" {
							if tv := pk.TypesInfo.Types[kv.Value]; tv.Value != nil {
								wide = constant.BoolVal(tv.Value)
							}
						}
					}
				}
			}
		} else if tv, ok := pk.TypesInfo.Types[e]; ok {
			t := tv.Type
			if tup, ok := t.(*types.Tuple); ok && tup.Len() > 0 {
				t = tup.At(0).Type()
			}
			if pt, ok := t.(*types.Pointer); ok {
				typ, _ = types.Unalias(pt.Elem()).(*types.Named)
			}
		}
		for _, ce := range cc.List {
			tv := pk.TypesInfo.Types[ce]
			if tv.Value == nil {
				continue
			}
			v, _ := constant.Int64Val(constant.ToInt(tv.Value))
			out = append(out, lookupEntry{tok: v, name: exprString(ce), typ: typ, wide: wide, pos: ce.Pos()})
		}
		return true
	})
	return out, fd.Pos()
}

func runC06(r *core.Run) {
	p := r.Prog
	ef := newErrFlow(p)
	r.Rule("R06.1", "writer's wire shape (minus token) ⊆ reader's wire shape, per type and wide variant (E-SHAPE)", 30, true)
	r.Rule("R06.2", "writer's token is the one LookupPackage maps to the same type/variant (E-CONST)", 20, true)
	r.Rule("R06.3", "server-only readers accept the TDS 5.0 layout", 5, false)
	r.Rule("R06.4", "read-side byte accounting: counter grows by the width just read", 60, true)
	r.Rule("R06.5", "structs parsed inside a loop are fresh per iteration", 1, true)
	r.Rule("R06.6", "writeString rejects oversized login fields before writing", 1, false)
	r.Rule("R06.8", "serialising does not modify the package (writers and the helpers they call are pure)", 30, false)
	r.Rule("R06.9", "fields are read and written in the order of the TDS 5.0 specification (same-width neighbours; also when reader and writer agree with each other)", 32, false)
	r.Rule("R06.10", "slices filled by append start empty (no make with a length followed by append)", 1, false)
	r.Rule("R06.11", "a length prefix accumulated per element equals what the element writer writes (ParamFmtPackage)", 3, false)
	r.Rule("R06.12", "reader and writer of a package handle its fields in the same order (every package, no specification needed)", 10, false)
	r.Rule("R06.13", "the width a fixed-length type is written with (LookupFieldFmt) equals its width in asetypes.ByteSizes", 10, false)
	r.Rule("R06.14", "a field the writer sends on every path is assigned by the reader on every path", 10, false)
	r.Rule("R06.15", "LookupFieldFmt gives every data type the format codec named after it", 40, false)
	defer c06FmtTable(r)
	r.Rule("R06.16", "reader and writer of the per-value status byte decide alike whether it is present", 1, false)
	defer c06StatusSiblings(r)
	r.Rule("R06.17", "a capability mask is as long as the server sent it", 1, false)
	defer c06MaskFromWire(r)
	r.Rule("R06.19", "a reader that reports a byte count reports what it consumed", 3, false)
	defer func() { c06ReaderCounts(r, newErrFlow(r.Prog), "R06.19") }()
	r.Rule("R06.20", "every fixed-width field of the login record is written or the record is rejected", 10, false)
	defer packChecksEveryField(r, "R06.20")
	r.Rule("R06.21", "the length in front of a variable-length value is the length of the bytes written", 1, false)
	defer lengthPrefixIsLen(r, "R06.21")
	r.Rule("R06.22", "ParamsPackage.LastPkg has an arm for every package that can precede a row", 6, false)
	defer lastPkgCoversFormats(r, "R06.22")
	r.Rule("R06.23", "the maximal length of a column format is what the wire says (also 0)", 1, false)
	defer func() {
		r.Rule("R06.24", "a 32-bit field is written without passing through a narrower type", 1, false)
		defer statusNotNarrowed(r, "R06.24")
		r.Rule("R06.25", "a capability type is written whenever any of its capabilities is set", 1, false)
		defer isEmptyLooksAtAll(r, "R06.25")
		r.Rule("R06.26", "a value read from the wire keeps its width", 40, false)
		defer wireReadsNotNarrowed(r, "R06.26")
		r.Rule("R06.27", "format and data of one data type are siblings", 30, false)
		defer lookupSiblingsAgree(r, "R06.27")
		r.Rule("R06.28", "a field value is read as it is written: status, length, data", 1, false)
		defer readFromPassesData(r, "R06.28")
		r.Rule("R06.29", "fixed-width values have the width TDS names them after (R07.18)", 10, false)
		defer byteSizesMatchNames(r, "R06.29")
		p := r.Prog
		rfb := p.Func("tds", "fieldFmtBase", "readFromBase")
		var rd ssa.Instruction
		for _, c := range callsTo(rfb, p.Func("tds", "", "readLengthBytes")) {
			rd = c.(ssa.Instruction)
		}
		storeUnconditional(r, "R06.23", rfb, p.Field("tds", "fieldFmtBase", "maxLength"), rd, "readFromBase: maxLength := the length read", "the maximal length read from the wire is stored only under a condition (e.g. only when non-zero): a format that announces 0 reads back with the type's default, and written again it differs from what was read")
	}()
	r.Rule("R06.18", "a reader that runs out of bytes says so: every short read surfaces as ErrNotEnoughBytes (E-ERR, all call sites)", 213, true)
	defer func() { errSites(r, newErrFlow(r.Prog), "R06.18") }()
	r.Rule("R06.7", "write-side length formula: the declared length equals the bytes written after it (straight-line writers)", 9, false)

	tds := p.Pkg("tds")
	table, _ := lookupTable(p)
	r.Stats["LookupPackage_cases"] = len(table)
	tokenVals := map[int64]string{}
	tokT := p.Named("tds", "Token")
	for _, name := range tds.Types.Scope().Names() {
		if c, ok := tds.Types.Scope().Lookup(name).(*types.Const); ok && types.Identical(c.Type(), tokT) {
			v, _ := constant.Int64Val(constant.ToInt(c.Val()))
			tokenVals[v] = name
		}
	}

	// enumerate codecs
	var pkgs []pkgCodec
	type famKey struct{ r, w *ssa.Function }
	fams := map[famKey][]string{}
	names := tds.Types.Scope().Names()
	sort.Strings(names)
	for _, name := range names {
		tn, ok := tds.Types.Scope().Lookup(name).(*types.TypeName)
		if !ok || tn.IsAlias() {
			continue
		}
		n, ok := tn.Type().(*types.Named)
		if !ok {
			continue
		}
		if _, isStruct := n.Underlying().(*types.Struct); !isStruct {
			continue
		}
		rf, wf := methodFn(p, n, "ReadFrom"), methodFn(p, n, "WriteTo")
		switch {
		case chanCodecSig(ef, rf, 1) && chanCodecSig(ef, wf, 1):
			pc := pkgCodec{name: name, named: n, read: rf, write: wf}
			st := n.Underlying().(*types.Struct)
			for i := 0; i < st.NumFields(); i++ {
				if st.Field(i).Name() == "wide" && types.Identical(st.Field(i).Type(), types.Typ[types.Bool]) {
					pc.variant = st.Field(i)
				}
			}
			// declared on this type (not promoted from an embedded package type)
			if core.RecvNamed(rf) == nil || core.RecvNamed(rf).Obj() != n.Obj() {
				continue
			}
			pkgs = append(pkgs, pc)
		case chanCodecSig(ef, rf, 2) && chanCodecSig(ef, wf, 2):
			k := famKey{rf, wf}
			fams[k] = append(fams[k], name)
		}
	}
	r.Stats["package_types"] = len(pkgs)
	r.Stats["field_codec_families"] = len(fams)

	shapes := map[string]string{}
	for _, pc := range pkgs {
		variants := []bool{false}
		if pc.variant != nil {
			variants = []bool{false, true}
		}
		for _, wide := range variants {
			vname := pc.name
			if pc.variant != nil {
				vname = fmt.Sprintf("%s[wide=%v]", pc.name, wide)
			}
			wn, wprob := codecNFA(p, ef, pc.write, pc.variant, wide)
			rn, rprob := codecNFA(p, ef, pc.read, pc.variant, wide)
			wHas, rHas := len(wn.accept) > 0, len(rn.accept) > 0
			if wprob != "" || rprob != "" {
				r.Unknown("R06.1", vname, pc.write.Pos(), wprob+rprob)
				continue
			}
			// tokens LookupPackage maps to this type/variant
			var K []int64
			for _, e := range table {
				if e.typ != nil && e.wide == wide && (e.typ.Obj() == pc.named.Obj() || methodFn(p, e.typ, "ReadFrom") == pc.read) {
					K = append(K, e.tok)
				}
			}
			if !wHas && !rHas {
				continue
			}
			if !wHas {
				shapes[vname+" (reader only)"] = rn.sampleWord()
				continue
			}
			if reason, ex := shapeExempt[pc.name]; ex {
				r.Note("exempt from R06.1/R06.2: %s: %s", pc.name, reason)
				continue
			}
			if !wn.hasLetters() {
				r.OK("R06.2", vname, pc.write.Pos(), "the writer writes nothing at all (stub): nothing to dispatch")
				continue
			}
			// R06.2 token
			consts, allStart, fpos := firstWriteConsts(p, ef, pc.write, pc.variant, wide)
			tokOK := allStart && len(consts) > 0
			why := ""
			for _, c := range consts {
				if len(K) > 0 {
					in := false
					for _, k := range K {
						if k == c {
							in = true
						}
					}
					if !in {
						tokOK = false
						why = fmt.Sprintf("writes token 0x%02x (%s) but LookupPackage maps this type/variant to %s", c, tokenVals[c], tokNames(K, tokenVals))
					}
				} else if _, isTok := tokenVals[c]; !isTok {
					tokOK = false
					why = fmt.Sprintf("first byte 0x%02x is not a TDS token", c)
				} else {
					// a type LookupPackage does not produce must not use a token that dispatches elsewhere
					for _, e := range table {
						if e.tok == c && e.typ != nil {
							tokOK = false
							why = fmt.Sprintf("writes token %s, which LookupPackage dispatches to %s, not to this type", tokenVals[c], e.typ.Obj().Name())
						}
					}
				}
			}
			if !allStart || len(consts) == 0 {
				why = "the writer does not start with a 1-byte constant token on every path: what it writes cannot be dispatched by LookupPackage"
			}
			if fpos == token.NoPos {
				fpos = pc.write.Pos()
			}
			if tokOK {
				r.OK("R06.2", vname, fpos, "token "+tokNames(consts, tokenVals)+" dispatches to this type/variant")
			} else {
				r.Bad("R06.2", vname, fpos, why)
			}
			if !rHas {
				shapes[vname+" (writer only)"] = wn.sampleWord()
				continue
			}
			wcmp := wn
			if tokOK {
				wcmp = wn.dropFirstByte()
			}
			shapes[vname] = "W: " + wcmp.sampleWord() + " | R: " + rn.sampleWord()
			if cex := included(wcmp, rn); cex != nil {
				path := []string{"written widths: " + strings.Join(cex.Word, " ")}
				for i, ps := range cex.WPos {
					path = append(path, fmt.Sprintf("  write #%d (%s) at %s", i+1, cex.Word[i], p.Pos(ps)))
				}
				for _, ps := range cex.ReadPos {
					path = append(path, "  reader was ready for the read at "+p.Pos(ps))
				}
				r.Bad("R06.1", vname, pc.write.Pos(), "a byte sequence the writer produces is not accepted by the reader: "+cex.Why, path...)
			} else {
				r.OK("R06.1", vname, pc.write.Pos(), "every width sequence of WriteTo is accepted by ReadFrom")
			}
		}
	}
	// field codec families
	var fkeys []famKey
	for k := range fams {
		fkeys = append(fkeys, k)
	}
	sort.Slice(fkeys, func(i, j int) bool { return core.FuncName(fkeys[i].r) < core.FuncName(fkeys[j].r) })
	for _, k := range fkeys {
		sort.Strings(fams[k])
		vname := "field codec " + core.FuncName(k.r) + " / " + core.FuncName(k.w)
		wn, wprob := codecNFA(p, ef, k.w, nil, false)
		rn, rprob := codecNFA(p, ef, k.r, nil, false)
		if wprob != "" || rprob != "" {
			r.Unknown("R06.1", vname, k.w.Pos(), wprob+rprob)
			continue
		}
		if len(wn.accept) == 0 || len(rn.accept) == 0 {
			continue
		}
		shapes[vname] = "W: " + wn.sampleWord() + " | R: " + rn.sampleWord()
		if cex := included(wn, rn); cex != nil {
			path := []string{"written widths: " + strings.Join(cex.Word, " ")}
			for i, ps := range cex.WPos {
				path = append(path, fmt.Sprintf("  write #%d (%s) at %s", i+1, cex.Word[i], p.Pos(ps)))
			}
			r.Bad("R06.1", vname, k.w.Pos(), "a byte sequence the field writer produces is not accepted by the field reader: "+cex.Why, path...)
		} else {
			r.OK("R06.1", vname, k.w.Pos(), "every width sequence of WriteTo is accepted by ReadFrom")
		}
	}
	r.Extras["shapes"] = shapes

	c06Spec(r, ef, pkgs)
	c06Accounting(r, ef)
	c06FreshInLoop(r, ef)
	c06WriteString(r, "R06.6")
	c06LengthFormula(r, ef, pkgs)
	purityOfWriters(r, ef, pkgs, "R06.8")
	c06FieldOrder(r, ef, pkgs)
	c06AppendAfterMake(r)
	c06LoopLength(r, ef)
	c06OrderAgreement(r, ef, pkgs)
	c06WidthTables(r)
}

func tokNames(ks []int64, names map[int64]string) string {
	var out []string
	for _, k := range ks {
		n := names[k]
		if n == "" {
			n = fmt.Sprintf("0x%02x", k)
		}
		out = append(out, n)
	}
	return strings.Join(out, "/")
}

// R06.3: layouts transcribed from the TDS 5.0 functional specification.
// Letters as in E-SHAPE. The length prefix is the first letter.
var specLayouts = []struct {
	typ              string
	wide, hasVariant bool
	layout, ref      string
}{
	{"RowFmtPackage", false, true, "2 2 ( 1 S 1 4 1 FMT 1 S )*", "TDS_ROWFMT: Length(2) NumCols(2) {NameLen(1) Name Status(1) UserType(4) DataType(1) [fmt] LocaleLen(1) Locale}*"},
	{"RowFmtPackage", true, true, "4 2 ( 1 S 1 S 1 S 1 S 1 S 4 4 1 FMT 1 S )*", "TDS_ROWFMT2: Length(4) NumCols(2) {LabelLen Label CatLen Cat SchemaLen Schema TableLen Table NameLen Name Status(4) UserType(4) DataType(1) [fmt] LocaleLen Locale}*"},
	{"OrderByPackage", false, false, "2 ( 1 )*", "TDS_ORDERBY: NumCols(2) {Col(1)}*"},
	{"OrderBy2Package", false, false, "4 2 ( 2 )*", "TDS_ORDERBY2: Length(4) NumCols(2) {Col(2)}*"},
	{"ErrorPackage", false, false, "2 4 1 1 2 S 1 S 1 S 2", "TDS_ERROR: Length(2) MsgNumber(4) State(1) Class(1) MsgLen(2) Msg ServerLen(1) Server ProcLen(1) Proc LineNum(2)"},
}

func c06Spec(r *core.Run, ef *errFlow, pkgs []pkgCodec) {
	p := r.Prog
	for _, sl := range specLayouts {
		var pc *pkgCodec
		for i := range pkgs {
			if pkgs[i].name == sl.typ {
				pc = &pkgs[i]
			}
		}
		key := sl.typ
		if sl.hasVariant {
			key = fmt.Sprintf("%s[wide=%v]", sl.typ, sl.wide)
		}
		if pc == nil {
			r.Unknown("R06.3", key, token.NoPos, "type not found among the package codecs")
			continue
		}
		rn, prob := codecNFA(p, ef, pc.read, pc.variant, sl.wide)
		if prob != "" {
			r.Unknown("R06.3", key, pc.read.Pos(), prob)
			continue
		}
		spec := regexNFA(sl.layout)
		if cex := included(spec, rn); cex != nil {
			path := []string{"layout: " + sl.ref, "spec widths not readable: " + strings.Join(cex.Word, " ")}
			for _, ps := range cex.ReadPos {
				path = append(path, "  reader was ready for the read at "+p.Pos(ps))
			}
			r.Bad("R06.3", key, pc.read.Pos(), "the reader does not accept the TDS 5.0 layout: "+cex.Why, path...)
		} else {
			r.OK("R06.3", key, pc.read.Pos(), "reader accepts "+sl.layout)
		}
	}
}

// ---------------------------------------------------------------------
// R06.4 read-side byte accounting

func widthOfLetter(l string) int64 {
	switch l {
	case "1":
		return 1
	case "2":
		return 2
	case "4":
		return 4
	case "8":
		return 8
	}
	return -1
}

// c06Accounting: in every W function that compares a local counter with a
// value read from the wire ("declared length"), each wire read that is
// followed (in the same block region before the next read) by an increment
// of that counter must be incremented by its own width.
func c06Accounting(r *core.Run, ef *errFlow) { c06AccountingAs(r, ef, "R06.4") }

func c06AccountingOld(r *core.Run, ef *errFlow) {
	p := r.Prog
	sb := newShapeBuilder(p, ef)
	for _, fn := range ef.SortedW() {
		if fn.Blocks == nil || !core.InModule(fn) || fn.Pkg == nil || fn.Pkg.Pkg.Path() != core.Module+"/tds" {
			continue
		}
		// Walk each block: sequence of (read, following increments of int locals before the next read)
		for _, b := range fn.Blocks {
			c06AccountBlock(r, sb, fn, b)
		}
	}
}

// An "increment" is BinOp ADD whose one operand chain reaches a φ/earlier
// counter and the other is the addend. We look, after a typed read in a
// block, at the straight-line successor region on the success edge.
func c06AccountBlock(r *core.Run, sb *shapeBuilder, fn *ssa.Function, b *ssa.BasicBlock) {
	for i, in := range b.Instrs {
		call, ok := in.(*ssa.Call)
		if !ok {
			continue
		}
		l, isL := sb.letterOf(call)
		if !isL || readLetter[calleeName(call)] == "" {
			continue
		}
		// success continuation: the block after the `err != nil` test (false/nil edge)
		succ := successBlock(b, i)
		if succ == nil {
			continue
		}
		// first ADD in succ (before the next call) that adds to an int
		var add *ssa.BinOp
		for _, in2 := range succ.Instrs {
			if ci, isCall := in2.(ssa.CallInstruction); isCall {
				// post-processing of what was read (len, strings.TrimSuffix, conversions) is looked through; any
				// call into the module (the next wire read, a nested reader) ends the region
				if _, isBI := ci.Common().Value.(*ssa.Builtin); isBI {
					continue
				}
				if f := ci.Common().StaticCallee(); f != nil && !core.InModule(f) && !ci.Common().IsInvoke() {
					continue
				}
				break
			}
			if bo, ok := in2.(*ssa.BinOp); ok && bo.Op == token.ADD && isIntType(bo.Type()) {
				add = bo
				break
			}
		}
		if add == nil {
			// a format reader that reports its byte count (ReadFromField) accounts for every variable-length read
			if l == "S" && fn.Name() == "ReadFromField" {
				arg := call.Call.Args[len(call.Call.Args)-1]
				counted := false
				for _, in3 := range succ.Instrs {
					if bo, ok := in3.(*ssa.BinOp); ok && bo.Op == token.ADD && (sameValue(core.Strip(bo.Y), core.Strip(arg)) || sameValue(core.Strip(bo.X), core.Strip(arg))) {
						counted = true
					}
				}
				if _, isC := core.ConstInt64(arg); !isC && !counted {
					r.Bad("R06.4", core.FuncName(fn)+": "+calleeName(call)+" not accounted", call.Pos(), "a variable-length read of "+core.Expr(call.Call.Args[len(call.Call.Args)-1])+" bytes is not added to the byte count the function reports: the caller compares the count with the declared length of the format and rejects a well-formed package (e.g. a parameter format with locale information)")
				}
			}
			continue // this read is not followed by an increment (e.g. length prefix, or counter-less parser)
		}
		key := core.FuncName(fn) + ": " + calleeName(call) + " then " + core.KExpr(add.Y)
		addend := add.Y
		switch l {
		case "1", "2", "4", "8":
			w := widthOfLetter(l)
			if c, isC := core.ConstInt64(addend); isC {
				r.Check(c == w, "R06.4", key, add.Pos(),
					fmt.Sprintf("%s is followed by n += %d", calleeName(call), w),
					fmt.Sprintf("a %d-byte read (%s) is accounted as %d bytes: a valid package fails its own length check (or an invalid one passes)", w, calleeName(call), c))
			} else {
				// addend is a variable after a fixed-width read: e.g. n += k of an inlined reader — not this pattern
				continue
			}
		case "S":
			// n += int(lenVar) / len(dest): must be the length passed to the read, or len() of its result
			arg := call.Call.Args[len(call.Call.Args)-1]
			okAdd := sameValue(core.Strip(addend), core.Strip(arg))
			if !okAdd {
				if lc, ok := core.Strip(addend).(*ssa.Call); ok {
					if bi, ok := lc.Call.Value.(*ssa.Builtin); ok && bi.Name() == "len" {
						of := core.Strip(lc.Call.Args[0])
						// len(pkg.F) where pkg.F was just assigned the result of this read
						if ld, isLd := of.(*ssa.UnOp); isLd && ld.Op == token.MUL {
							if fa, isFA := ld.X.(*ssa.FieldAddr); isFA {
								var last ssa.Value
								for _, in3 := range append(append([]ssa.Instruction{}, b.Instrs[i+1:]...), succ.Instrs...) {
									if in3 == ssa.Instruction(ld) {
										break
									}
									if st, isSt := in3.(*ssa.Store); isSt {
										if fa2, ok2 := st.Addr.(*ssa.FieldAddr); ok2 && fa2.Field == fa.Field && core.Strip(fa2.X) == core.Strip(fa.X) {
											last = core.Strip(st.Val)
										}
									}
								}
								if last != nil {
									of = last
								}
							}
						}
						if ex, ok := of.(*ssa.Extract); ok && ex.Tuple == ssa.Value(call) {
							okAdd = true
						}
					}
				}
			}
			if _, isC := core.ConstInt64(addend); isC {
				if ca, isCA := core.ConstInt64(arg); isCA {
					c, _ := core.ConstInt64(addend)
					okAdd = c == ca
				}
			}
			r.Check(okAdd, "R06.4", key, add.Pos(),
				"variable-length read accounted with the length that was read",
				"a variable-length read of "+core.Expr(arg)+" bytes is accounted as "+core.Expr(addend)+" bytes")
		}
	}
}

func c06AccountingAs(r *core.Run, ef *errFlow, rule string) {
	p := r.Prog
	sb := newShapeBuilder(p, ef)
	for _, fn := range ef.SortedW() {
		if fn.Blocks == nil || !core.InModule(fn) || fn.Pkg == nil || fn.Pkg.Pkg.Path() != core.Module+"/tds" {
			continue
		}
		// Walk each block: sequence of (read, following increments of int locals before the next read)
		for _, b := range fn.Blocks {
			c06AccountBlockAs(r, rule, sb, fn, b)
		}
	}
}

// An "increment" is BinOp ADD whose one operand chain reaches a φ/earlier
// counter and the other is the addend. We look, after a typed read in a
// block, at the straight-line successor region on the success edge.
func c06AccountBlockAs(r *core.Run, rule string, sb *shapeBuilder, fn *ssa.Function, b *ssa.BasicBlock) {
	for i, in := range b.Instrs {
		call, ok := in.(*ssa.Call)
		if !ok {
			continue
		}
		l, isL := sb.letterOf(call)
		if !isL || readLetter[calleeName(call)] == "" {
			continue
		}
		// success continuation: the block after the `err != nil` test (false/nil edge)
		succ := successBlock(b, i)
		if succ == nil {
			continue
		}
		// first ADD in succ (before the next call) that adds to an int
		var add *ssa.BinOp
		for _, in2 := range succ.Instrs {
			if ci, isCall := in2.(ssa.CallInstruction); isCall {
				// post-processing of what was read (len, strings.TrimSuffix, conversions) is looked through; any
				// call into the module (the next wire read, a nested reader) ends the region
				if _, isBI := ci.Common().Value.(*ssa.Builtin); isBI {
					continue
				}
				if f := ci.Common().StaticCallee(); f != nil && !core.InModule(f) && !ci.Common().IsInvoke() {
					continue
				}
				break
			}
			if bo, ok := in2.(*ssa.BinOp); ok && bo.Op == token.ADD && isIntType(bo.Type()) {
				add = bo
				break
			}
		}
		if add == nil {
			// a format reader that reports its byte count (ReadFromField) accounts for every variable-length read
			if l == "S" && fn.Name() == "ReadFromField" {
				arg := call.Call.Args[len(call.Call.Args)-1]
				counted := false
				for _, in3 := range succ.Instrs {
					if bo, ok := in3.(*ssa.BinOp); ok && bo.Op == token.ADD && (sameValue(core.Strip(bo.Y), core.Strip(arg)) || sameValue(core.Strip(bo.X), core.Strip(arg))) {
						counted = true
					}
				}
				if _, isC := core.ConstInt64(arg); !isC && !counted {
					r.Bad(rule, core.FuncName(fn)+": "+calleeName(call)+" not accounted", call.Pos(), "a variable-length read of "+core.Expr(call.Call.Args[len(call.Call.Args)-1])+" bytes is not added to the byte count the function reports: the caller compares the count with the declared length of the format and rejects a well-formed package (e.g. a parameter format with locale information)")
				}
			}
			continue // this read is not followed by an increment (e.g. length prefix, or counter-less parser)
		}
		key := core.FuncName(fn) + ": " + calleeName(call) + " then " + core.KExpr(add.Y)
		addend := add.Y
		switch l {
		case "1", "2", "4", "8":
			w := widthOfLetter(l)
			if c, isC := core.ConstInt64(addend); isC {
				r.Check(c == w, rule, key, add.Pos(),
					fmt.Sprintf("%s is followed by n += %d", calleeName(call), w),
					fmt.Sprintf("a %d-byte read (%s) is accounted as %d bytes: a valid package fails its own length check (or an invalid one passes)", w, calleeName(call), c))
			} else {
				// addend is a variable after a fixed-width read: e.g. n += k of an inlined reader — not this pattern
				continue
			}
		case "S":
			// n += int(lenVar) / len(dest): must be the length passed to the read, or len() of its result
			arg := call.Call.Args[len(call.Call.Args)-1]
			okAdd := sameValue(core.Strip(addend), core.Strip(arg))
			if !okAdd {
				if lc, ok := core.Strip(addend).(*ssa.Call); ok {
					if bi, ok := lc.Call.Value.(*ssa.Builtin); ok && bi.Name() == "len" {
						of := core.Strip(lc.Call.Args[0])
						// len(pkg.F) where pkg.F was just assigned the result of this read
						if ld, isLd := of.(*ssa.UnOp); isLd && ld.Op == token.MUL {
							if fa, isFA := ld.X.(*ssa.FieldAddr); isFA {
								var last ssa.Value
								for _, in3 := range append(append([]ssa.Instruction{}, b.Instrs[i+1:]...), succ.Instrs...) {
									if in3 == ssa.Instruction(ld) {
										break
									}
									if st, isSt := in3.(*ssa.Store); isSt {
										if fa2, ok2 := st.Addr.(*ssa.FieldAddr); ok2 && fa2.Field == fa.Field && core.Strip(fa2.X) == core.Strip(fa.X) {
											last = core.Strip(st.Val)
										}
									}
								}
								if last != nil {
									of = last
								}
							}
						}
						if ex, ok := of.(*ssa.Extract); ok && ex.Tuple == ssa.Value(call) {
							okAdd = true
						}
					}
				}
			}
			if _, isC := core.ConstInt64(addend); isC {
				if ca, isCA := core.ConstInt64(arg); isCA {
					c, _ := core.ConstInt64(addend)
					okAdd = c == ca
				}
			}
			r.Check(okAdd, rule, key, add.Pos(),
				"variable-length read accounted with the length that was read",
				"a variable-length read of "+core.Expr(arg)+" bytes is accounted as "+core.Expr(addend)+" bytes")
		}
	}
}

func calleeName(c *ssa.Call) string {
	if c.Call.IsInvoke() {
		return c.Call.Method.Name()
	}
	if f := c.Call.StaticCallee(); f != nil {
		return f.Name()
	}
	return ""
}

func isIntType(t types.Type) bool {
	b, ok := t.Underlying().(*types.Basic)
	return ok && b.Info()&types.IsInteger != 0
}

func sameValue(a, b ssa.Value) bool {
	if a == b {
		return true
	}
	ca, oka := a.(*ssa.Const)
	cb, okb := b.(*ssa.Const)
	if oka && okb && ca.Value != nil && cb.Value != nil {
		return constant.Compare(ca.Value, token.EQL, cb.Value)
	}
	// int(x) vs int(x)
	return core.Expr(a) == core.Expr(b) && !strings.Contains(core.Expr(a), "φ")
}

// successBlock: block reached when the error of the call at index i of b is nil.
func successBlock(b *ssa.BasicBlock, i int) *ssa.BasicBlock {
	iff, ok := b.Instrs[len(b.Instrs)-1].(*ssa.If)
	if !ok {
		return nil
	}
	_, trueNonNil, isT := core.ErrNilTest(iff.Cond)
	if !isT {
		return nil
	}
	// no other call between i and the end
	for _, in := range b.Instrs[i+1:] {
		if _, isCall := in.(ssa.CallInstruction); isCall {
			return nil
		}
	}
	if trueNonNil {
		return b.Succs[1]
	}
	return b.Succs[0]
}

// ---------------------------------------------------------------------
// R06.5 fresh parse targets per loop iteration

func c06FreshInLoop(r *core.Run, ef *errFlow) {
	for _, fn := range ef.SortedW() {
		if fn.Blocks == nil || !core.InModule(fn) {
			continue
		}
		for _, c := range core.Calls(fn) {
			f := c.Common().StaticCallee()
			if f == nil || !ef.W[f] || f.Signature.Recv() == nil || len(c.Common().Args) == 0 {
				continue
			}
			if !strings.HasPrefix(f.Name(), "ReadFrom") && !strings.HasPrefix(f.Name(), "readFrom") {
				continue
			}
			_, loop := core.InnermostLoop(c.Block())
			if loop == nil {
				continue
			}
			recv := c.Common().Args[0]
			al, ok := recv.(*ssa.Alloc)
			if !ok {
				continue // receiver is the enclosing object or a heap element, not a per-iteration scratch struct
			}
			key := core.FuncName(fn) + ": " + core.KExpr(recv) + "." + f.Name() + " in loop"
			fresh := loop[al.Block()]
			if !fresh {
				// or fully re-zeroed inside the loop before the call: a Store of a zero/composite value to the alloc in the loop dominating the call
				for _, ref := range *al.Referrers() {
					if st, ok := ref.(*ssa.Store); ok && st.Addr == ssa.Value(al) && loop[st.Block()] && core.Dominates(st, c.(ssa.Instruction)) {
						fresh = true
					}
				}
			}
			r.Check(fresh, "R06.5", key, c.Pos(),
				"the struct is allocated (or reassigned as a whole) inside the loop",
				"the struct filled by "+f.Name()+" is declared outside the loop and never reset: fields the member parser leaves untouched (e.g. empty strings) keep the previous iteration's values")
		}
	}
}

// ---------------------------------------------------------------------
// R06.6 writeString

func c06WriteString(r *core.Run, rule string) {
	p := r.Prog
	fn := p.TryFunc("tds", "", "writeString")
	if fn == nil {
		r.Unknown(rule, "tds.writeString", token.NoPos, "helper not found")
		return
	}
	// params: (stream io.Writer, s string, padTo int)
	var s, padTo *ssa.Parameter
	for _, pa := range fn.Params {
		if b, ok := pa.Type().Underlying().(*types.Basic); ok {
			if b.Kind() == types.String {
				s = pa
			} else if b.Info()&types.IsInteger != 0 {
				padTo = pa
			}
		}
	}
	if s == nil || padTo == nil {
		r.Unknown(rule, "tds.writeString", fn.Pos(), "unexpected signature")
		return
	}
	isLenS := func(v ssa.Value) bool {
		c, ok := core.Strip(v).(*ssa.Call)
		if !ok {
			return false
		}
		bi, ok := c.Call.Value.(*ssa.Builtin)
		return ok && bi.Name() == "len" && core.Strip(c.Call.Args[0]) == ssa.Value(s)
	}
	// every write call (Write/WriteString on the stream) must be dominated by len(s) <= padTo
	nw := 0
	bad := ""
	for _, c := range core.Calls(fn) {
		cc := c.Common()
		if !(cc.IsInvoke() && strings.HasPrefix(cc.Method.Name(), "Write")) {
			continue
		}
		nw++
		dom := false
		for _, g := range core.GuardsAt(c.(ssa.Instruction)) {
			bo, ok := g.Cond.(*ssa.BinOp)
			if !ok {
				continue
			}
			// len(s) > padTo false ; len(s) <= padTo true ; padTo < len(s) false ; padTo >= len(s) true
			switch {
			case isLenS(bo.X) && bo.Y == ssa.Value(padTo):
				if (bo.Op == token.GTR && !g.Pol) || (bo.Op == token.LEQ && g.Pol) {
					dom = true
				}
			case bo.X == ssa.Value(padTo) && isLenS(bo.Y):
				if (bo.Op == token.LSS && !g.Pol) || (bo.Op == token.GEQ && g.Pol) {
					dom = true
				}
			}
		}
		if !dom {
			bad = "a write of the login field is not dominated by len(s) <= padTo: an oversized field is truncated or shifts the record instead of being rejected"
		}
	}
	if nw == 0 {
		r.Unknown(rule, "tds.writeString", fn.Pos(), "no stream writes found")
		return
	}
	// the failing edge returns a non-nil error
	r.Check(bad == "", rule, "tds.writeString", fn.Pos(), "all writes dominated by the length test against padTo", bad)
}
