package props

import (
	"fmt"
	"go/token"
	"go/types"
	"sort"
	"strings"

	"dblint/internal/core"

	"golang.org/x/tools/go/ssa"
)

// E-ERR: error discipline for wire reads (SSA typestate).
//
// W = "wire-reading functions": BytesChannel read methods, and every module
// function that calls a member of W and returns an error. For every call
// into W made inside a member of W, the error result must be (a) tested
// against nil at once with every return on the non-nil side returning
// ErrNotEnoughBytes, the error itself, or fmt.Errorf with %w bound to one of
// those; or (b) returned as is (tail propagation).

var wireReadNames = map[string]bool{
	"Bytes": true, "Byte": true, "Uint8": true, "Int8": true, "Uint16": true, "Int16": true,
	"Uint32": true, "Int32": true, "Uint64": true, "Int64": true, "String": true, "Read": true,
}

type errFlow struct {
	p    *core.Prog
	W    map[*ssa.Function]bool
	ENEB *ssa.Global
	bch  *types.Named // tds.BytesChannel
	pq   *types.Named // tds.PacketQueue
	// chaCallees caches CHA callees per invoke site
	Consumers map[*ssa.Function]bool // functions that call into W but cannot return its error
}

func newErrFlow(p *core.Prog) *errFlow {
	ef := &errFlow{p: p, W: map[*ssa.Function]bool{}, Consumers: map[*ssa.Function]bool{}}
	ef.ENEB = p.Global("tds", "ErrNotEnoughBytes")
	ef.bch = p.Named("tds", "BytesChannel")
	ef.pq = p.Named("tds", "PacketQueue")
	ef.fixpoint()
	return ef
}

func returnsError(fn *ssa.Function) bool {
	res := fn.Signature.Results()
	return res.Len() > 0 && core.IsErrorType(res.At(res.Len()-1).Type())
}

func (ef *errFlow) isBytesChannelType(t types.Type) bool {
	if p, ok := t.(*types.Pointer); ok {
		t = p.Elem()
	}
	n, ok := t.(*types.Named)
	if !ok {
		return false
	}
	return n.Obj() == ef.bch.Obj() || n.Obj() == ef.pq.Obj()
}

// baseRead: the call is a primitive wire read.
func (ef *errFlow) baseRead(c ssa.CallInstruction) bool {
	cc := c.Common()
	if cc.IsInvoke() {
		if !wireReadNames[cc.Method.Name()] {
			return false
		}
		return ef.isBytesChannelType(cc.Value.Type())
	}
	f := cc.StaticCallee()
	if f == nil {
		return false
	}
	if rn := core.RecvNamed(f); rn != nil {
		if rn.Obj() == ef.pq.Obj() && wireReadNames[f.Name()] {
			return true
		}
		// (*bytes.Buffer).ReadFrom(r) with r a BytesChannel
		if rn.Obj().Pkg() != nil && rn.Obj().Pkg().Path() == "bytes" && rn.Obj().Name() == "Buffer" && f.Name() == "ReadFrom" && len(cc.Args) == 2 {
			a := cc.Args[1]
			if mi, ok := a.(*ssa.MakeInterface); ok {
				a = mi.X
			}
			if ci, ok := a.(*ssa.ChangeInterface); ok {
				a = ci.X
			}
			return ef.isBytesChannelType(a.Type())
		}
	}
	return false
}

// IsWCall: the call may perform a wire read and reports failure through its
// error result.
func (ef *errFlow) IsWCall(c ssa.CallInstruction) bool {
	if ef.baseRead(c) {
		return true
	}
	cc := c.Common()
	if f := cc.StaticCallee(); f != nil {
		return ef.W[f]
	}
	if cc.IsInvoke() {
		// module interface whose implementations are in W
		recv := cc.Value.Type()
		if n, ok := recv.(*types.Named); ok && n.Obj().Pkg() != nil && strings.HasPrefix(n.Obj().Pkg().Path(), core.Module) {
			for fn := range ef.W {
				if fn.Name() != cc.Method.Name() || fn.Signature.Recv() == nil {
					continue
				}
				if types.Implements(fn.Signature.Recv().Type(), n.Underlying().(*types.Interface)) {
					return true
				}
			}
		}
	}
	return false
}

func (ef *errFlow) fixpoint() {
	fns := ef.p.ModuleFuncs()
	for changed := true; changed; {
		changed = false
		for _, fn := range fns {
			if ef.W[fn] || !returnsError(fn) {
				continue
			}
			for _, c := range core.Calls(fn) {
				if ef.IsWCall(c) {
					ef.W[fn] = true
					changed = true
					break
				}
			}
		}
	}
	for _, fn := range fns {
		if ef.W[fn] {
			continue
		}
		for _, c := range core.Calls(fn) {
			if ef.IsWCall(c) {
				ef.Consumers[fn] = true
			}
		}
	}
}

func (ef *errFlow) SortedW() []*ssa.Function {
	var out []*ssa.Function
	for f := range ef.W {
		out = append(out, f)
	}
	sort.Slice(out, func(i, j int) bool { return core.FuncName(out[i]) < core.FuncName(out[j]) })
	return out
}

// errResult returns the SSA value carrying the error result of call c.
func errResult(c ssa.CallInstruction) (ssa.Value, bool) {
	v := c.Value()
	if v == nil {
		return nil, false // go/defer
	}
	sig := c.Common().Signature()
	n := sig.Results().Len()
	if n == 0 || !core.IsErrorType(sig.Results().At(n-1).Type()) {
		return nil, false
	}
	if n == 1 {
		return v, true
	}
	for _, ref := range *v.Referrers() {
		if ex, ok := ref.(*ssa.Extract); ok && ex.Index == n-1 {
			return ex, true
		}
	}
	return nil, true // has an error result but it is never extracted
}

func (ef *errFlow) isENEB(v ssa.Value) bool {
	u, ok := v.(*ssa.UnOp)
	return ok && u.Op == token.MUL && u.X == ssa.Value(ef.ENEB)
}

// errorfWraps returns the operands bound to %w verbs of a fmt.Errorf call.
func errorfWraps(c *ssa.Call) ([]ssa.Value, bool) {
	if !core.IsPkgFunc(c, "fmt", "Errorf") {
		return nil, false
	}
	args := c.Call.Args
	if len(args) < 1 {
		return nil, true
	}
	fc, ok := args[0].(*ssa.Const)
	if !ok || fc.Value == nil {
		return nil, true
	}
	format := constString(fc)
	verbs := formatVerbs(format)
	if len(args) < 2 {
		return nil, true
	}
	elems := variadicElems(args[1])
	var out []ssa.Value
	for i, vb := range verbs {
		if vb == 'w' && i < len(elems) && elems[i] != nil {
			out = append(out, core.Strip(elems[i]))
		}
	}
	return out, true
}

func constString(c *ssa.Const) string {
	s := c.Value.ExactString()
	if len(s) >= 2 && s[0] == '"' {
		var out string
		if _, err := fmt.Sscanf(s, "%q", &out); err == nil {
			return out
		}
	}
	return s
}

// formatVerbs lists the verb letters of a printf format in operand order
// ('*' widths consume an operand and are listed as '*').
func formatVerbs(f string) []byte {
	var out []byte
	for i := 0; i < len(f); i++ {
		if f[i] != '%' {
			continue
		}
		i++
		for i < len(f) && strings.IndexByte("+-# 0123456789.[]", f[i]) >= 0 {
			i++
		}
		for i < len(f) && f[i] == '*' {
			out = append(out, '*')
			i++
			for i < len(f) && strings.IndexByte("0123456789.", f[i]) >= 0 {
				i++
			}
		}
		if i < len(f) && f[i] != '%' {
			out = append(out, f[i])
		}
	}
	return out
}

// variadicElems returns the values stored in the compiler-made []interface{}
// of a variadic call (index -> value).
func variadicElems(v ssa.Value) []ssa.Value {
	sl, ok := v.(*ssa.Slice)
	if !ok {
		return nil
	}
	al, ok := sl.X.(*ssa.Alloc)
	if !ok {
		return nil
	}
	arr, ok := al.Type().Underlying().(*types.Pointer).Elem().Underlying().(*types.Array)
	if !ok {
		return nil
	}
	out := make([]ssa.Value, arr.Len())
	for _, ref := range *al.Referrers() {
		ia, ok := ref.(*ssa.IndexAddr)
		if !ok {
			continue
		}
		idx, ok := core.ConstInt64(ia.Index)
		if !ok || idx < 0 || idx >= int64(len(out)) {
			continue
		}
		for _, r2 := range *ia.Referrers() {
			if st, ok := r2.(*ssa.Store); ok && st.Addr == ssa.Value(ia) {
				out[idx] = st.Val
			}
		}
	}
	return out
}

// acceptableErr: v, returned in the error position on the failure side of a
// test of one of srcs, preserves the not-enough-bytes condition.
func (ef *errFlow) acceptableErr(v ssa.Value, srcs map[ssa.Value]bool, depth int) (bool, string) {
	if depth > 4 {
		return false, "too deep"
	}
	if ef.isENEB(v) {
		return true, "returns ErrNotEnoughBytes"
	}
	if srcs[v] {
		return true, "returns the read error itself"
	}
	switch x := v.(type) {
	case *ssa.Phi:
		for _, e := range x.Edges {
			if ok, why := ef.acceptableErr(e, srcs, depth+1); !ok {
				return false, why
			}
		}
		return true, "returns a merge of acceptable errors"
	case *ssa.Call:
		ws, isErrorf := errorfWraps(x)
		if isErrorf {
			for _, w := range ws {
				if ef.isENEB(w) || srcs[w] {
					return true, "wraps with %w"
				}
				if ph, ok := w.(*ssa.Phi); ok {
					if ok2, _ := ef.acceptableErr(ph, srcs, depth+1); ok2 {
						return true, "wraps with %w"
					}
				}
			}
			return false, "fmt.Errorf does not wrap the read error (or ErrNotEnoughBytes) with %w: errors.Is(err, ErrNotEnoughBytes) is false for a short read here"
		}
	}
	return false, "returns " + core.Expr(v) + ", which does not carry ErrNotEnoughBytes"
}

// dominatedRegion returns the blocks dominated by n.
func dominatedRegion(n *ssa.BasicBlock) map[*ssa.BasicBlock]bool {
	reg := map[*ssa.BasicBlock]bool{}
	var walk func(b *ssa.BasicBlock)
	walk = func(b *ssa.BasicBlock) {
		reg[b] = true
		for _, d := range b.Dominees() {
			walk(d)
		}
	}
	walk(n)
	return reg
}

type siteVerdict struct {
	ok     bool
	form   string
	reason string
	pos    token.Pos
}

// checkNilTest checks the failure side of `cond` (a nil test of an error in
// srcs).
func (ef *errFlow) checkNilTest(bo *ssa.BinOp, srcs map[ssa.Value]bool) siteVerdict {
	_, trueNonNil, ok := core.ErrNilTest(bo)
	if !ok {
		return siteVerdict{false, "", "error compared with something other than nil", bo.Pos()}
	}
	var iff *ssa.If
	for _, ref := range *bo.Referrers() {
		if i, ok := ref.(*ssa.If); ok {
			iff = i
		} else if _, ok := ref.(*ssa.DebugRef); !ok {
			return siteVerdict{false, "", "nil test of the read error is used as a value, not as a branch: " + core.Expr(bo), bo.Pos()}
		}
	}
	if iff == nil {
		return siteVerdict{false, "", "nil test of the read error does not branch", bo.Pos()}
	}
	blk := iff.Block()
	fail := blk.Succs[1]
	if trueNonNil {
		fail = blk.Succs[0]
	}
	if len(fail.Preds) != 1 {
		return siteVerdict{false, "", "failure side of the nil test is shared with other paths", iff.Pos()}
	}
	reg := dominatedRegion(fail)
	nret := 0
	for b := range reg {
		for _, s := range b.Succs {
			if !reg[s] {
				return siteVerdict{false, "", "after a failed read the function continues instead of returning", iff.Pos()}
			}
		}
		for _, in := range b.Instrs {
			if c, ok := in.(ssa.CallInstruction); ok && ef.IsWCall(c) {
				return siteVerdict{false, "", "another wire read on the failure side", in.Pos()}
			}
		}
		if ret, ok := b.Instrs[len(b.Instrs)-1].(*ssa.Return); ok {
			nret++
			ev := core.RetVals(ret)[len(ret.Results)-1]
			if ok2, why := ef.acceptableErr(ev, srcs, 0); !ok2 {
				return siteVerdict{false, "", why, ret.Pos()}
			}
		}
	}
	if nret == 0 {
		return siteVerdict{false, "", "failure side never returns", iff.Pos()}
	}
	return siteVerdict{true, "test", "tested != nil; every failure return carries ErrNotEnoughBytes", iff.Pos()}
}

func (ef *errFlow) noWCallBetween(from ssa.Instruction, to ssa.Instruction) bool {
	if from.Block() != to.Block() {
		return false
	}
	seen := false
	for _, in := range from.Block().Instrs {
		if in == from {
			seen = true
			continue
		}
		if in == to {
			return seen
		}
		if seen {
			if c, ok := in.(ssa.CallInstruction); ok && ef.IsWCall(c) {
				return false
			}
		}
	}
	return false
}

// CheckSite decides the obligation for call c (a W call) inside fn.
func (ef *errFlow) CheckSite(fn *ssa.Function, c ssa.CallInstruction) siteVerdict {
	e, has := errResult(c)
	if !has {
		return siteVerdict{false, "", "wire read in a go/defer statement: its error is lost", c.Pos()}
	}
	if e == nil {
		return siteVerdict{false, "", "the error result of the wire read is discarded", c.Pos()}
	}
	var refs []ssa.Instruction
	for _, ref := range *e.Referrers() {
		if _, ok := ref.(*ssa.DebugRef); ok {
			continue
		}
		refs = append(refs, ref)
	}
	if len(refs) == 0 {
		return siteVerdict{false, "", "the error result of the wire read is never examined", c.Pos()}
	}
	srcs := map[ssa.Value]bool{e: true}
	verdict := siteVerdict{ok: true}
	forms := map[string]bool{}
	for _, ref := range refs {
		switch u := ref.(type) {
		case *ssa.Return:
			if core.RetVals(u)[len(u.Results)-1] != e {
				return siteVerdict{false, "", "read error returned in a non-error position", u.Pos()}
			}
			forms["tail"] = true
		case *ssa.BinOp:
			if !ef.noWCallBetween(c.(ssa.Instruction), u) {
				return siteVerdict{false, "", "the read error is not tested before the next wire read", u.Pos()}
			}
			v := ef.checkNilTest(u, srcs)
			if !v.ok {
				return v
			}
			forms["test"] = true
		case *ssa.Phi:
			v := ef.checkPhi(u, map[*ssa.Phi]bool{})
			if !v.ok {
				return v
			}
			forms["phi"] = true
		case *ssa.Call:
			// fmt.Errorf("... %w", e) is only legitimate on the failure side, where checkNilTest has seen it.
			if ws, isErrorf := errorfWraps(u); isErrorf {
				found := false
				for _, w := range ws {
					if w == e {
						found = true
					}
				}
				if !found {
					return siteVerdict{false, "", "read error formatted without %w", u.Pos()}
				}
				continue
			}
			return siteVerdict{false, "", "read error passed to " + core.Expr(u) + " instead of being tested or returned", u.Pos()}
		case *ssa.MakeInterface, *ssa.ChangeInterface:
			// conversions feeding fmt.Errorf variadics: follow one level
			okUse := true
			for _, r2 := range *u.(ssa.Value).Referrers() {
				if st, ok := r2.(*ssa.Store); ok {
					if _, ok := st.Addr.(*ssa.IndexAddr); ok {
						continue
					}
				}
				if _, ok := r2.(*ssa.DebugRef); ok {
					continue
				}
				okUse = false
			}
			if !okUse {
				return siteVerdict{false, "", "read error converted and used other than as a fmt.Errorf operand", u.Pos()}
			}
		case *ssa.Store:
			if _, ok := u.Addr.(*ssa.IndexAddr); ok {
				continue // variadic slot of fmt.Errorf
			}
			if _, ok := u.Addr.(*ssa.Alloc); ok {
				// result spill in a function with defers: store; rundefers; load; return
				if ret, ok := u.Block().Instrs[len(u.Block().Instrs)-1].(*ssa.Return); ok {
					rv := core.RetVals(ret)
					if len(rv) > 0 && rv[len(rv)-1] == e {
						forms["tail"] = true
						continue
					}
				}
			}
			return siteVerdict{false, "", "read error stored to " + core.Expr(u.Addr) + " instead of being tested or returned", u.Pos()}
		default:
			return siteVerdict{false, "", fmt.Sprintf("read error used by %T (%s)", ref, ref.String()), ref.Pos()}
		}
	}
	if !forms["tail"] && !forms["test"] && !forms["phi"] {
		return siteVerdict{false, "", "the read error is neither tested nor returned", c.Pos()}
	}
	var fs []string
	for f := range forms {
		fs = append(fs, f)
	}
	sort.Strings(fs)
	verdict.form = strings.Join(fs, "+")
	verdict.reason = "error " + verdict.form + ": short read surfaces as ErrNotEnoughBytes"
	verdict.pos = c.Pos()
	return verdict
}

// checkPhi: a φ merging read errors (and nil) must itself be tested/returned.
func (ef *errFlow) checkPhi(ph *ssa.Phi, seen map[*ssa.Phi]bool) siteVerdict {
	if seen[ph] {
		return siteVerdict{ok: true}
	}
	seen[ph] = true
	srcs := map[ssa.Value]bool{ph: true}
	for _, ed := range ph.Edges {
		srcs[ed] = true
	}
	n := 0
	for _, ref := range *ph.Referrers() {
		switch u := ref.(type) {
		case *ssa.DebugRef:
		case *ssa.Return:
			if core.RetVals(u)[len(u.Results)-1] != ssa.Value(ph) {
				return siteVerdict{false, "", "merged read error returned in a non-error position", u.Pos()}
			}
			n++
		case *ssa.BinOp:
			// no wire read between the φ (block start) and the test
			for _, in := range ph.Block().Instrs {
				if in == ssa.Instruction(u) {
					break
				}
				if c, ok := in.(ssa.CallInstruction); ok && ef.IsWCall(c) {
					return siteVerdict{false, "", "merged read error is not tested before the next wire read", u.Pos()}
				}
			}
			if u.Block() != ph.Block() {
				return siteVerdict{false, "", "merged read error is tested in a later block", u.Pos()}
			}
			v := ef.checkNilTest(u, srcs)
			if !v.ok {
				return v
			}
			n++
		case *ssa.Phi:
			v := ef.checkPhi(u, seen)
			if !v.ok {
				return v
			}
			n++
		case *ssa.MakeInterface, *ssa.ChangeInterface:
			// fmt.Errorf operand on the failure side
		default:
			return siteVerdict{false, "", fmt.Sprintf("merged read error used by %T", ref), ref.Pos()}
		}
	}
	if n == 0 {
		return siteVerdict{false, "", "merged read error is never tested", ph.Pos()}
	}
	return siteVerdict{ok: true}
}

// calleeKey names the callee of c for obligation keys.
func calleeKey(c ssa.CallInstruction) string {
	cc := c.Common()
	if cc.IsInvoke() {
		return core.TypeStr(cc.Value.Type()) + "." + cc.Method.Name()
	}
	if f := cc.StaticCallee(); f != nil {
		return core.FuncName(f)
	}
	return core.Expr(cc.Value)
}
