package props

import (
	"fmt"
	"go/ast"
	"go/token"
	"go/types"
	"reflect"
	"sort"
	"strings"

	"dblint/internal/core"

	"golang.org/x/tools/go/ssa"
)

func init() {
	register(&Spec{ID: "C17", Title: "Connection descriptions round-trip and never crash the parser", Run: runC17,
		Meta: core.Meta{
			Explanation: "R17.18: in every struct of packages dsn and tds that carries multiref tags, flattened over embedded structs the way tagToField merges them, no json name or alias is claimed by two fields. R17.17: the exported TagToField returns the result of tagToField itself. R17.16: every way round FormatSimple's member loop passes the append of key=value. R17.15: setValue hands its value parameter itself to SetString/ParseBool/ParseInt, and FromEnv hands setValue element 1 of the KEY=value split (strings.SplitN) itself. R17.14: every fmt.Sprintf/Errorf/Fprintf call in package dsn has a constant format string. R17.13 (E-CONST): the call of ParseURI in Parse is guarded by a strings test whose constant is \"://\". R17.12: package dsn never calls url.PathEscape and FormatURI writes the properties through url.Values.Encode or url.QueryEscape (the escaping url.Query() inverts). Totality and rejection clauses of the property; round-trip equality is not decided. R17.1 (E-LEN): every slice/string index and slice expression in the functions reachable from dsn.Parse, ParseURI, ParseSimple, FormatURI, FormatSimple and FromEnv is proved in range from length facts (dominating len tests, `!= \"\"`, strings.Split/SplitN post-conditions, range/induction patterns) or is a listed reviewed invariant whose guard is re-checked; anything else is a violation (user-supplied DSN text can reach it). R17.2: in both parsers every setValue call is preceded by a comma-ok lookup of the key in the tag-to-field map whose !ok edge returns a non-nil error, and the looked-up field is the one set. R17.3 (E-CONST): the reflect.Kind case sets of setValue and of the formatters agree and setValue's default arm returns an error. R17.4: TagToField never registers the empty string as a key (every map update whose key comes from a split tag is guarded by key != \"\"), so an empty key cannot match a field. R17.5: in ParseURI the value used for a repeated query key is the LAST element of its value list (values[len(values)-1]). R17.7: ParseSimple only strips the surrounding quotes, so FormatSimple must put a string member between quotes unchanged: every use of the member's text in FormatSimple is fmt.Sprintf(\"%q\", s) or strconv.Quote(s) (identity on printable text without quotes and backslashes, non-ASCII included) or a plain concatenation with quote characters; %+q / QuoteToASCII and anything else is rejected. R17.9: in FormatURI every branch condition that depends on a member's text is the comparison of that text itself with the empty string (the documented `not set` skip); a test on a transformed copy (trimmed, lower-cased, its length against another bound) leaves values out of the URI that ParseURI then cannot restore. R17.10: setValue parses reflect.Int members with strconv.ParseInt(..., 0) or (..., 64) — the formatters write the full int, a narrower bitSize rejects values the library itself produced. R17.9 also covers the variables that carry a member's text out of the loop (user, password, host, port): no branch on them other than the comparison of the text with \"\". R17.11 (E-CONST over struct tags): every name in a multiref tag, and the json name of every member that has a multiref or doc tag, is non-empty and contains no blank, '=' or quote (names are registered untrimmed; ` passwd` is a key nobody can write). R17.8: tagToField never makes a registration conditional on the name being absent from the map (formatters use the json-only map, parsers the multiref map; both must resolve a repeated name to the last registered member). R17.6: every iteration of ParseSimple over a key=value part reaches the key lookup or returns an error (no shortcut, e.g. for empty values, skips the unknown-key test and the assignment).",
			NotDecided:  "Round-trip equality, alias precedence in the simple form and panics inside package reflect for targets that lack the four tags ParseURI hard-codes are not decided.",
			Assumptions: []string{"strings.Split(s, sep) with a non-empty separator returns at least one element; strings.SplitN(s, sep, 2) one or two", "url.Values entries are non-empty slices (net/url only creates entries by appending)"},
		}})
}

func runC17(r *core.Run) {
	p := r.Prog
	r.Rule("R17.1", "indexing and slicing in the DSN parsers/formatters is in range (E-LEN)", 8, true)
	r.Rule("R17.2", "keys that match no field are rejected before anything is set", 2, false)
	r.Rule("R17.3", "field kinds handled consistently; unknown kinds are errors", 1, false)
	r.Rule("R17.4", "the empty string is never a registered key", 2, false)
	r.Rule("R17.6", "every key=value part of a simple DSN is looked up (no part is skipped before the unknown-key test)", 1, false)
	r.Rule("R17.5", "the last value of a repeated URI query key wins", 1, false)
	r.Rule("R17.7", "FormatSimple quotes strings with an idiom that ParseSimple's unquoting inverts over the documented alphabet", 1, false)
	r.Rule("R17.8", "a name registered twice resolves the same way in every mode of the tag map (the last registration wins)", 1, false)
	defer c17Quote(r)
	r.Rule("R17.9", "FormatURI leaves a member out only when its text is empty", 1, false)
	defer c17OmitOnlyEmpty(r)
	r.Rule("R17.10", "integers are parsed back at the width they are written with", 1, false)
	defer c17IntWidth(r)
	r.Rule("R17.11", "every key name in a json/multiref struct tag can be written in a DSN", 1, false)
	r.Rule("R17.12", "the URI query is written with query escaping, never with path escaping", 1, false)
	defer c17QueryEscaping(r)
	defer c17TagNames(r)
	defer c17TagLastWins(r)
	r.Rule("R17.13", "Parse recognises the URI form by the scheme separator \"://\"", 1, false)
	defer c17Dispatch(r)
	r.Rule("R17.14", "format strings in package dsn are constants (no data is interpreted as verbs)", 1, false)
	defer constFormats(r, "R17.14", "dsn")
	r.Rule("R17.15", "the text of a value reaches the typed assignment as it was written (no unescaping or trimming on the way)", 2, false)
	defer valuesReachFieldsUnchanged(r, "R17.15")
	r.Rule("R17.16", "FormatSimple writes every member", 1, false)
	defer formatSimpleWritesAll(r, "R17.16")
	r.Rule("R17.18", "every key and alias names exactly one member", 2, false)
	defer aliasKeysUnique(r, "R17.18")
	r.Rule("R17.17", "parsers and formatters see the same names: TagToField returns the tag map as built", 1, false)
	defer func() {
		p := r.Prog
		wrapperReturnsCall(r, "R17.17", p.Func("dsn", "", "TagToField"), p.Func("dsn", "", "tagToField"), "names rewritten for one mode only (the mode the parsers use) no longer match what FormatSimple/FormatURI write, and Parse rejects the output of Format")
	}()

	var roots []*ssa.Function
	for _, n := range []string{"Parse", "ParseURI", "ParseSimple", "FormatURI", "FormatSimple", "FromEnv", "TagToField"} {
		if f := p.TryFunc("dsn", "", n); f != nil {
			roots = append(roots, f)
		}
	}
	scope := lenScope(p, roots, nil)
	for _, fn := range posexFuncs(p, "zzPosexDsn") {
		scope = append(scope, fn)
	}
	r.Stats["functions_in_scope"] = len(scope)
	le := newLenEngine(p)
	containerOf := func(s lenSite) ssa.Value {
		switch x := s.Instr.(type) {
		case *ssa.IndexAddr:
			return x.X
		case *ssa.Lookup:
			return x.X
		case *ssa.Index:
			return x.X
		}
		return nil
	}
	reviewed := []reviewedSiteM{
		{fn: "dsn.FromEnv", kind: "index", reason: "os.Environ returns \"key=value\" strings, so SplitN(env, \"=\", 2) has two elements (process environment, not DSN text)",
			match: func(s lenSite) bool {
				c, ok := containerOf(s).(*ssa.Call)
				return ok && core.IsPkgFunc(c, "strings", "SplitN")
			},
			check: func(r *core.Run, s lenSite) (bool, string) {
				c := containerOf(s).(*ssa.Call)
				u, ok := c.Call.Args[0].(*ssa.UnOp)
				if !ok {
					return false, "the split string is not an element of os.Environ()"
				}
				ia, ok := u.X.(*ssa.IndexAddr)
				if !ok {
					return false, "the split string is not an element of os.Environ()"
				}
				env, ok := ia.X.(*ssa.Call)
				if !ok || !core.IsPkgFunc(env, "os", "Environ") {
					return false, "the split string is not an element of os.Environ()"
				}
				if sep, isC := c.Call.Args[1].(*ssa.Const); !isC || constString(sep) != "=" {
					return false, "the separator is not \"=\""
				}
				return true, ""
			}},
		{fn: "dsn.ParseURI", kind: "index", reason: "url.Values maps a key to a non-empty slice: net/url creates entries only by appending a value",
			match: func(s lenSite) bool {
				ex, ok := containerOf(s).(*ssa.Extract)
				if !ok || ex.Index != 2 {
					return false
				}
				_, isNext := ex.Tuple.(*ssa.Next)
				return isNext
			},
			check: func(r *core.Run, s lenSite) (bool, string) {
				bo, ok := s.Idx.(*ssa.BinOp)
				if !ok || bo.Op != token.SUB {
					return false, "the index is not len(values)-1"
				}
				x, isLen := isLenCall(bo.X)
				if !isLen || x != containerOf(s) {
					return false, "the index is not len(values)-1 of the same slice"
				}
				nx := containerOf(s).(*ssa.Extract).Tuple.(*ssa.Next)
				rg := rangeOf(nx)
				if rg == nil {
					return false, "not a range"
				}
				q, isCall := rg.X.(*ssa.Call)
				if !isCall || !core.IsMethod(q, "net/url", "URL", "Query") {
					return false, "the ranged map is not url.Query()"
				}
				return true, ""
			}},
	}
	for _, fn := range scope {
		if fn.Pkg != nil && fn.Pkg.Pkg.Path() != core.Module+"/dsn" {
			continue
		}
		for _, s := range le.Sites(fn) {
			if s.Kind == "byteorder" || s.Kind == "div" {
				continue
			}
			key := core.FuncName(fn) + ": " + s.Expr
			if s.OK {
				r.OK("R17.1", key, s.Instr.Pos(), s.Reason)
				continue
			}
			matched := false
			for _, rv := range reviewed {
				if rv.matches(fn, s) {
					matched = true
					if ok, why := rv.check(r, s); ok {
						r.OK("R17.1", key, s.Instr.Pos(), "reviewed invariant: "+rv.reason)
					} else {
						r.Bad("R17.1", key, s.Instr.Pos(), "the guard this site relies on no longer holds: "+why)
					}
				}
			}
			if !matched {
				if osDebug() {
					println("DEBUG unreviewed", core.FuncName(fn), s.Kind, s.Base)
				}
				r.Bad("R17.1", key, s.Instr.Pos(), s.Reason+": a DSN string supplied by the user can make this "+s.Kind+" panic")
			}
		}
	}
	c17Lookup(r)
	c17Kinds(r)
	c17EmptyKey(r)
	c17LastWins(r)
	c17EveryPart(r)
}

func osDebug() bool { return false }

func c17Lookup(r *core.Run) {
	p := r.Prog
	setValue := p.Func("dsn", "", "setValue")
	for _, name := range []string{"ParseURI", "ParseSimple"} {
		fn := p.Func("dsn", "", name)
		calls := callsTo(fn, setValue)
		ok, why := len(calls) > 0, "setValue is not called"
		for _, c := range calls {
			field := c.Common().Args[0]
			ex, isEx := field.(*ssa.Extract)
			if !isEx || ex.Index != 0 {
				ok, why = false, "the field passed to setValue is not the result of a comma-ok map lookup"
				continue
			}
			lk, isL := ex.Tuple.(*ssa.Lookup)
			if !isL || !lk.CommaOk {
				ok, why = false, "the field passed to setValue is not the result of a comma-ok map lookup"
				continue
			}
			dom := false
			for _, g := range core.GuardsAt(c.(ssa.Instruction)) {
				if e2, isE := g.Cond.(*ssa.Extract); isE && e2.Tuple == ssa.Value(lk) && e2.Index == 1 && g.Pol {
					dom = true
					// the !ok edge returns an error
					miss := g.If.Block().Succs[1]
					ret, isRet := miss.Instrs[len(miss.Instrs)-1].(*ssa.Return)
					if !isRet || core.IsNil(core.RetVals(ret)[0]) {
						ok, why = false, "a key that matches no field does not lead to an error return"
					}
				}
			}
			if !dom {
				ok, why = false, "setValue is reachable although the key was not found among the fields (reflect panics on the zero Value, or the value is silently dropped)"
			}
		}
		r.Check(ok, "R17.2", name+": unknown keys are rejected", fn.Pos(), "comma-ok lookup; !ok returns an error; the found field is set", why)
	}
}

func kindCases(p *core.Prog, fn *ssa.Function) (kinds []string, defaultErr bool) {
	pk := p.Pkg("dsn")
	fd := funcDecl(pk, fn.Object())
	if fd == nil {
		return nil, false
	}
	ast.Inspect(fd.Body, func(n ast.Node) bool {
		sw, ok := n.(*ast.SwitchStmt)
		if !ok || sw.Tag == nil {
			return true
		}
		call, ok := ast.Unparen(sw.Tag).(*ast.CallExpr)
		if !ok {
			return true
		}
		sel, ok := call.Fun.(*ast.SelectorExpr)
		if !ok || sel.Sel.Name != "Kind" {
			return true
		}
		for _, cl := range sw.Body.List {
			cc := cl.(*ast.CaseClause)
			if cc.List == nil {
				// default: must return a non-nil error
				for _, st := range cc.Body {
					if ret, ok := st.(*ast.ReturnStmt); ok && len(ret.Results) > 0 {
						last := ret.Results[len(ret.Results)-1]
						if id, isId := last.(*ast.Ident); !isId || id.Name != "nil" {
							defaultErr = true
						}
					}
				}
				continue
			}
			for _, e := range cc.List {
				kinds = append(kinds, exprString(e))
			}
		}
		return true
	})
	sort.Strings(kinds)
	return kinds, defaultErr
}

func c17Kinds(r *core.Run) {
	p := r.Prog
	sv := p.Func("dsn", "", "setValue")
	base, defErr := kindCases(p, sv)
	ok, why := len(base) > 0 && defErr, "setValue's default arm does not return an error: a field of an unsupported kind is silently ignored"
	if len(base) == 0 {
		why = "setValue has no switch over field.Kind()"
	}
	for _, n := range []string{"FormatURI", "FormatSimple"} {
		f := p.TryFunc("dsn", "", n)
		if f == nil {
			continue
		}
		ks, fErr := kindCases(p, f)
		if len(ks) == 0 || !fErr {
			continue // a formatter whose default arm formats generically handles every kind
		}
		if strings.Join(ks, ",") != strings.Join(base, ",") {
			ok, why = false, n+" handles kinds {"+strings.Join(ks, ",")+"} but setValue handles {"+strings.Join(base, ",")+"}: a value that can be formatted cannot be parsed back (or vice versa)"
		}
	}
	r.Check(ok, "R17.3", "setValue/formatters: same reflect.Kind cases; default is an error", sv.Pos(), "kinds {"+strings.Join(base, ",")+"}", why)
}

func c17EmptyKey(r *core.Run) {
	p := r.Prog
	fn := p.Func("dsn", "", "tagToField")
	n := 0
	for _, b := range fn.Blocks {
		for _, in := range b.Instrs {
			mu, ok := in.(*ssa.MapUpdate)
			if !ok {
				continue
			}
			if bt, isB := mu.Key.Type().Underlying().(*types.Basic); !isB || bt.Kind() != types.String {
				continue
			}
			// keys copied from a recursive call's result map are already checked there
			if ex, isEx := mu.Key.(*ssa.Extract); isEx {
				if _, isNext := ex.Tuple.(*ssa.Next); isNext {
					if rg := rangeOf(ex.Tuple.(*ssa.Next)); rg != nil {
						if c, isCall := rg.X.(*ssa.Call); isCall && core.StaticCallee(c) == fn {
							continue
						}
					}
				}
			}
			n++
			nonEmpty := false
			for _, g := range core.GuardsAt(mu) {
				bo, isB := g.Cond.(*ssa.BinOp)
				if !isB {
					continue
				}
				c, isC := bo.Y.(*ssa.Const)
				if !isC || c.Value == nil || constString(c) != "" {
					continue
				}
				ne := (bo.Op == token.NEQ && g.Pol) || (bo.Op == token.EQL && !g.Pol)
				if !ne {
					continue
				}
				if bo.X == mu.Key || sameElemLoad(bo.X, mu.Key) {
					nonEmpty = true
				}
			}
			key := "tagToField: ttf[" + core.KExpr(mu.Key) + "]"
			r.Check(nonEmpty, "R17.4", key, mu.Pos(), "guarded by key != \"\"", "a field is registered under a key that can be the empty string (a missing tag splits into one empty name): the DSN `=x` is then accepted as a key that matches a field")
		}
	}
	if n == 0 {
		r.Unknown("R17.4", "tagToField: registrations", fn.Pos(), "no map updates with string keys found")
	}
}

func rangeOf(n *ssa.Next) *ssa.Range {
	rg, _ := n.Iter.(*ssa.Range)
	return rg
}

// sameElemLoad: both are loads of x[k] for the same x and constant k.
func sameElemLoad(a, b ssa.Value) bool {
	ua, oka := a.(*ssa.UnOp)
	ub, okb := b.(*ssa.UnOp)
	if !oka || !okb {
		return false
	}
	ia, oka := ua.X.(*ssa.IndexAddr)
	ib, okb := ub.X.(*ssa.IndexAddr)
	if !oka || !okb || ia.X != ib.X {
		return false
	}
	ka, oka := core.ConstInt64(ia.Index)
	kb, okb := core.ConstInt64(ib.Index)
	return oka && okb && ka == kb
}

func c17LastWins(r *core.Run) {
	p := r.Prog
	fn := p.Func("dsn", "", "ParseURI")
	setValue := p.Func("dsn", "", "setValue")
	ok, why := false, "setValue is not called with an element of the query's value list"
	for _, c := range callsTo(fn, setValue) {
		v := c.Common().Args[1]
		u, isU := v.(*ssa.UnOp)
		if !isU {
			why = "the value set for a query key is " + core.Expr(v) + ", not values[len(values)-1]: for a repeated key an earlier value wins"
			continue
		}
		ia, isIA := u.X.(*ssa.IndexAddr)
		if !isIA {
			why = "the value set for a query key is " + core.Expr(v) + ", not values[len(values)-1]"
			continue
		}
		bo, isB := ia.Index.(*ssa.BinOp)
		if isB && bo.Op == token.SUB {
			if x, isLen := isLenCall(bo.X); isLen && x == ia.X {
				if k, isC := core.ConstInt64(bo.Y); isC && k == 1 {
					ok = true
					continue
				}
			}
		}
		why = "the value set for a query key is element " + core.Expr(ia.Index) + " of its value list, not the last one"
	}
	r.Check(ok, "R17.5", "ParseURI: last value of a repeated key", fn.Pos(), "values[len(values)-1]", why)
}

// c17EveryPart: in ParseSimple every iteration of the loop over the DSN's
// parts reaches the comma-ok lookup of its key, or returns an error; no
// shortcut (e.g. for empty values) skips a part before the unknown-key test
// and the assignment.
func c17EveryPart(r *core.Run) {
	p := r.Prog
	fn := p.Func("dsn", "", "ParseSimple")
	setValue := p.Func("dsn", "", "setValue")
	calls := callsTo(fn, setValue)
	key := "ParseSimple: every part reaches the key lookup"
	if len(calls) == 0 {
		r.Unknown("R17.6", key, fn.Pos(), "setValue call not found")
		return
	}
	ex, ok := calls[0].Common().Args[0].(*ssa.Extract)
	if !ok {
		r.Unknown("R17.6", key, fn.Pos(), "field is not a lookup result")
		return
	}
	lk, ok := ex.Tuple.(*ssa.Lookup)
	if !ok {
		r.Unknown("R17.6", key, fn.Pos(), "field is not a lookup result")
		return
	}
	// the outermost loop containing the lookup
	var h *ssa.BasicBlock
	var loop map[*ssa.BasicBlock]bool
	for x := lk.Block(); x != nil; x = x.Idom() {
		if l := core.NaturalLoop(x); l != nil && l[lk.Block()] && (loop == nil || len(l) > len(loop)) {
			h, loop = x, l
		}
	}
	if loop == nil {
		r.Bad("R17.6", key, lk.Pos(), "the key lookup is not inside the loop over the DSN's parts")
		return
	}
	good := true
	core.EnumPaths(h, func(b *ssa.BasicBlock) bool { return b == h }, loop, 5000, func(pa core.Path, ended bool) {
		if !ended || len(pa.Blocks) <= 2 {
			return
		}
		through := false
		for _, b := range pa.Blocks {
			if b == lk.Block() {
				through = true
			}
		}
		if !through {
			good = false
		}
	})
	r.Check(good, "R17.6", key, lk.Pos(), "no path through an iteration bypasses ttf[key]", "an iteration over a key=value part can complete without the key being looked up: such a part (e.g. one with an empty value) is accepted even if its key matches no field, and it does not override an earlier occurrence")
}

// c17Quote: R17.7.
func c17Quote(r *core.Run) {
	p := r.Prog
	fn := p.Func("dsn", "", "FormatSimple")
	n := 0
	for _, c := range core.Calls(fn) {
		call, ok := c.(*ssa.Call)
		if !ok || !core.IsMethod(call, "reflect", "Value", "String") {
			continue
		}
		n++
		key := "FormatSimple: quoting of string members"
		bad := ""
		uses := 0
		var visit func(v ssa.Value, d int)
		visit = func(v ssa.Value, d int) {
			if d > 6 || v.Referrers() == nil {
				return
			}
			for _, ref := range *v.Referrers() {
				switch u := ref.(type) {
				case *ssa.MakeInterface:
					visit(u, d+1)
				case *ssa.ChangeType:
					visit(u, d+1)
				case *ssa.Store:
					// element of a variadic argument array
					if ia, ok := u.Addr.(*ssa.IndexAddr); ok {
						for _, r2 := range *ia.X.Referrers() {
							if sl, ok := r2.(*ssa.Slice); ok {
								visit(sl, d+1)
							}
						}
					} else {
						bad = "the member's text is stored (" + core.Expr(u.Addr) + ") instead of being quoted in place"
					}
				case *ssa.Call:
					uses++
					switch {
					case core.IsPkgFunc(u, "fmt", "Sprintf"):
						f, isC := u.Call.Args[0].(*ssa.Const)
						if !isC || f.Value == nil || constString(f) != "%q" {
							bad = "the member's text is formatted with " + core.Expr(u.Call.Args[0]) + ", not %q: text that ParseSimple reads back unchanged only if it is put between the quotes as it is (e.g. %+q turns ä into \\u00e4, which the parser does not undo)"
						}
					case core.IsPkgFunc(u, "strconv", "Quote"):
					default:
						bad = "the member's text is passed to " + calleeKey(u) + ", which is not one of the quoting idioms known to be inverted by ParseSimple"
					}
				case *ssa.BinOp:
					uses++
					other := u.X
					if other == v {
						other = u.Y
					}
					if cst, isC := other.(*ssa.Const); !(u.Op == token.ADD && isC && cst.Value != nil && constString(cst) == "\"") {
						visit(u, d+1)
					}
				case *ssa.DebugRef:
				default:
					bad = "the member's text is used by " + core.Expr(v) + " in a way the rule does not know"
				}
			}
		}
		visit(call, 0)
		if uses == 0 && bad == "" {
			bad = "the member's text is never quoted"
		}
		r.Check(bad == "", "R17.7", key, call.Pos(), "fmt.Sprintf(\"%q\", s) / strconv.Quote(s) / \"\\\"\" + s + \"\\\"\"", bad)
	}
	if n == 0 {
		r.Unknown("R17.7", "FormatSimple: quoting of string members", fn.Pos(), "no reflect.Value.String() call found in FormatSimple")
	}
}

// c17TagLastWins: R17.8.
func c17TagLastWins(r *core.Run) {
	p := r.Prog
	fn := p.Func("dsn", "", "tagToField")
	n := 0
	bad := ""
	var pos token.Pos
	for _, b := range fn.Blocks {
		for _, in := range b.Instrs {
			mu, ok := in.(*ssa.MapUpdate)
			if !ok {
				continue
			}
			n++
			for _, g := range core.GuardsAt(mu) {
				var lk *ssa.Lookup
				switch x := g.Cond.(type) {
				case *ssa.Extract:
					lk, _ = x.Tuple.(*ssa.Lookup)
				}
				if lk != nil && lk.CommaOk && lk.X == mu.Map {
					bad = "a registration in the tag map is made only when the name is " + map[bool]string{true: "already", false: "not yet"}[g.Pol] + " present: in this mode the FIRST member registered under a name keeps it, in the other modes the last one does, so formatter (json map) and parser (multiref map) resolve a repeated name to different members"
					pos = mu.Pos()
				}
			}
		}
	}
	if n == 0 {
		r.Unknown("R17.8", "tagToField: registrations are unconditional", fn.Pos(), "no map updates found")
		return
	}
	if pos == token.NoPos {
		pos = fn.Pos()
	}
	r.Check(bad == "", "R17.8", "tagToField: registrations are unconditional", pos, fmt.Sprintf("%d map updates, none conditional on the map's content", n), bad)
}

// c17OmitOnlyEmpty: R17.9.
func c17OmitOnlyEmpty(r *core.Run) {
	p := r.Prog
	fn := p.Func("dsn", "", "FormatURI")
	// the member's text: the φ that merges reflect.Value.String() with the int/bool renderings
	var texts []ssa.Value
	for _, b := range fn.Blocks {
		for _, in := range b.Instrs {
			ph, ok := in.(*ssa.Phi)
			if !ok {
				continue
			}
			for _, e := range ph.Edges {
				if c, ok := e.(*ssa.Call); ok && core.IsMethod(c, "reflect", "Value", "String") {
					texts = append(texts, ph)
				}
			}
		}
	}
	if len(texts) == 0 {
		r.Unknown("R17.9", "FormatURI: omission test", fn.Pos(), "the merged text of a member was not found")
		return
	}
	isText := func(v ssa.Value) bool {
		for _, t := range texts {
			if t == v {
				return true
			}
		}
		return false
	}
	var depends func(v ssa.Value, d int) bool
	depends = func(v ssa.Value, d int) bool {
		if d > 5 || v == nil {
			return false
		}
		if isText(v) {
			return true
		}
		switch x := v.(type) {
		case *ssa.Call:
			for _, a := range x.Call.Args {
				if depends(a, d+1) {
					return true
				}
			}
		case *ssa.BinOp:
			return depends(x.X, d+1) || depends(x.Y, d+1)
		case *ssa.Convert:
			return depends(x.X, d+1)
		case *ssa.UnOp:
			return depends(x.X, d+1)
		case *ssa.Slice:
			return depends(x.X, d+1)
		case *ssa.Index:
			return depends(x.X, d+1)
		case *ssa.Phi:
			// variables that collect a member's text across the loop (user, passwd, host, port)
			for _, e := range x.Edges {
				if depends(e, d+1) {
					return true
				}
			}
		}
		return false
	}
	n, bad := 0, ""
	var pos token.Pos
	for _, b := range fn.Blocks {
		iff, ok := b.Instrs[len(b.Instrs)-1].(*ssa.If)
		if !ok || !depends(iff.Cond, 0) {
			continue
		}
		n++
		okCond := false
		if bo, isB := iff.Cond.(*ssa.BinOp); isB && (bo.Op == token.EQL || bo.Op == token.NEQ) {
			if c, isC := bo.Y.(*ssa.Const); isC && c.Value != nil {
				if isText(bo.X) && constString(c) == "" {
					okCond = true
				}
				if lc, isL := bo.X.(*ssa.Call); isL {
					if arg, isLen := isLenCall(lc); isLen && isText(arg) {
						if k, isK := core.ConstInt64(bo.Y); isK && k == 0 {
							okCond = true
						}
					}
				}
			}
		}
		if !okCond {
			bad = "FormatURI branches on " + core.Expr(iff.Cond) + ", a test on the member's text other than `text == \"\"`: values that are not empty (e.g. a password of blanks) can be left out of the URI, and ParseURI(FormatURI(x)) no longer returns x"
			pos = iff.Pos()
		}
	}
	if pos == token.NoPos {
		pos = fn.Pos()
	}
	r.Check(bad == "" && n > 0, "R17.9", "FormatURI: a member is omitted only when its text is empty", pos, fmt.Sprintf("%d branch(es) on the member's text, all `text == \"\"`", n), bad)
}

// c17IntWidth: R17.10.
func c17IntWidth(r *core.Run) {
	p := r.Prog
	fn := p.Func("dsn", "", "setValue")
	n := 0
	for _, c := range core.Calls(fn) {
		call, ok := c.(*ssa.Call)
		if !ok || !(core.IsPkgFunc(call, "strconv", "ParseInt") || core.IsPkgFunc(call, "strconv", "ParseUint")) {
			continue
		}
		n++
		bits, isC := core.ConstInt64(call.Call.Args[2])
		r.Check(isC && (bits == 0 || bits == 64), "R17.10", "setValue: "+calleeKey(call)+" bit size", call.Pos(), "bitSize 0 or 64", fmt.Sprintf("an int member is parsed with bitSize %d: FormatURI/FormatSimple write the whole int, so a value beyond that width is written but rejected when the same description is parsed", bits))
	}
	if n == 0 {
		if len(callsToPkg(fn, "strconv", "Atoi")) > 0 {
			r.OK("R17.10", "setValue: integers parsed with strconv.Atoi", fn.Pos(), "Atoi parses at int width")
			return
		}
		r.Unknown("R17.10", "setValue: integer parsing", fn.Pos(), "no strconv.ParseInt/Atoi call found")
	}
}

func callsToPkg(fn *ssa.Function, pkg, name string) []ssa.CallInstruction {
	var out []ssa.CallInstruction
	for _, c := range core.Calls(fn) {
		if core.IsPkgFunc(c, pkg, name) {
			out = append(out, c)
		}
	}
	return out
}

// c17TagNames: R17.11. The keys of a DSN come from the json and multiref struct tags, split at "," without trimming.
// Every such name in the module's structs is non-empty and free of blanks, "=", quotes and "," — anything else
// registers a key that cannot be written in a description (the simple form splits at blanks), i.e. an alias that
// silently stops working.
func c17TagNames(r *core.Run) {
	p := r.Prog
	n := 0
	bad := ""
	var badPos token.Pos
	for _, pk := range p.Pkgs {
		scope := pk.Types.Scope()
		for _, name := range scope.Names() {
			tn, ok := scope.Lookup(name).(*types.TypeName)
			if !ok {
				continue
			}
			st, ok := tn.Type().Underlying().(*types.Struct)
			if !ok {
				continue
			}
			for i := 0; i < st.NumFields(); i++ {
				tag := reflect.StructTag(st.Tag(i))
				for _, key := range []string{"multiref", "json"} {
					v, has := tag.Lookup(key)
					if !has || (key == "json" && tag.Get("multiref") == "" && tag.Get("doc") == "") {
						continue // json tags of structs that are no DSN targets are not keys
					}
					parts := strings.Split(v, ",")
					if key == "json" {
						parts = parts[:1]
					}
					for _, part := range parts {
						n++
						if part == "" && key == "json" {
							continue
						}
						if part == "" || strings.ContainsAny(part, " \t=\"'`") {
							bad = fmt.Sprintf("%s.%s has the %s name %q: it is registered as a key as it stands (no trimming), and a key that is empty or contains a blank, '=' or a quote cannot be written in a DSN — the alias silently stops working", tn.Name(), st.Field(i).Name(), key, part)
							badPos = st.Field(i).Pos()
						}
					}
				}
			}
		}
	}
	if n == 0 {
		r.Unknown("R17.11", "DSN key names in struct tags", token.NoPos, "no multiref/json tags found")
		return
	}
	r.Check(bad == "", "R17.11", "DSN key names in struct tags are writable keys", badPos, fmt.Sprintf("%d names inspected", n), bad)
}
