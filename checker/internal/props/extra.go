package props

import (
	"fmt"
	"go/token"
	"go/types"

	"dblint/internal/core"

	"golang.org/x/tools/go/ssa"
)

// bytesReturnsFresh: every return of PacketQueue.Bytes hands back the buffer
// allocated by this very call with make([]byte, n) (or []byte{} under
// n == 0) — never a sub-slice of packet storage or a buffer kept in the
// queue, which later reads would overwrite while parsed packages still
// reference it.
func bytesReturnsFresh(p *core.Prog) (bool, string) {
	fn := p.Func("tds", "PacketQueue", "Bytes")
	n := fn.Params[1]
	for _, ret := range core.Returns(fn) {
		v := core.RetVals(ret)[0]
		if ms, isMS := v.(*ssa.MakeSlice); isMS && ms.Len == ssa.Value(n) {
			continue
		}
		if k, isK := core.MakeLen(v); isK && k == 0 {
			zero := false
			for _, g := range core.GuardsAt(ret) {
				if bo, isB := g.Cond.(*ssa.BinOp); isB && bo.Op == token.EQL && g.Pol && bo.X == ssa.Value(n) {
					if c, isC := core.ConstInt64(bo.Y); isC && c == 0 {
						zero = true
					}
				}
			}
			if zero {
				continue
			}
		}
		return false, "a return of Bytes hands back " + core.Expr(v) + ", which is not the n-byte buffer freshly allocated by this call (callers index and decode the result even on error, and parsed packages keep the slice: a shared or reused buffer is overwritten by later reads)"
	}
	return true, ""
}

// failedResultsUnused: on the failure side of a call into W, the other
// results of that call are not dereferenced (they are invalid — typically
// nil — when the error is non-nil). Returning them is fine.
func failedResultsUnused(r *core.Run, ef *errFlow, rule string) {
	for _, fn := range ef.SortedW() {
		if fn.Blocks == nil || !core.InModule(fn) {
			continue
		}
		for _, c := range core.Calls(fn) {
			if !ef.IsWCall(c) || c.Value() == nil {
				continue
			}
			e, has := errResult(c)
			if !has || e == nil {
				continue
			}
			var others []ssa.Value
			for _, ref := range *c.Value().Referrers() {
				if ex, ok := ref.(*ssa.Extract); ok && ssa.Value(ex) != e {
					switch ex.Type().Underlying().(type) {
					case *types.Pointer, *types.Interface, *types.Slice, *types.Map:
						others = append(others, ex)
					}
				}
			}
			if len(others) == 0 {
				continue
			}
			// failure region
			var fail *ssa.BasicBlock
			for _, ref := range *e.Referrers() {
				if bo, ok := ref.(*ssa.BinOp); ok {
					if _, nn, isT := core.ErrNilTest(bo); isT {
						for _, r2 := range *bo.Referrers() {
							if iff, ok := r2.(*ssa.If); ok {
								fail = iff.Block().Succs[1]
								if nn {
									fail = iff.Block().Succs[0]
								}
							}
						}
					}
				}
			}
			if fail == nil || len(fail.Preds) != 1 {
				continue
			}
			reg := dominatedRegion(fail)
			key := core.FuncName(fn) + " -> " + calleeKey(c) + ": results unused on failure"
			bad := ""
			var pos token.Pos
			for _, o := range others {
				for _, ref := range *o.Referrers() {
					in, ok := ref.(ssa.Instruction)
					if !ok || !reg[in.Block()] {
						continue
					}
					switch u := ref.(type) {
					case *ssa.Call:
						if u.Call.IsInvoke() && u.Call.Value == o {
							bad, pos = "calls "+u.Call.Method.Name()+" on a result of the failed read", u.Pos()
						}
					case *ssa.FieldAddr, *ssa.Field, *ssa.IndexAddr, *ssa.UnOp:
						bad, pos = "dereferences a result of the failed read", in.Pos()
					}
				}
			}
			if bad != "" {
				r.Bad(rule, key, pos, "on the failure side of "+calleeKey(c)+" the function "+bad+": when the read fails early that result is nil and a truncated package panics instead of reporting ErrNotEnoughBytes")
			} else {
				r.OK(rule, key, c.Pos(), "other results are only passed on, never dereferenced, when the read failed")
			}
		}
	}
}

// purityOfWriters: nothing reachable (static calls) from a package's WriteTo
// or from valueMask.Bytes stores into memory that outlives the call
// (a field reached through a pointer parameter, or a package variable).
// Serialising is not allowed to change what is serialised next time.
func purityOfWriters(r *core.Run, ef *errFlow, pkgs []pkgCodec, rule string) {
	p := r.Prog
	seen := map[*ssa.Function]bool{}
	var roots []*ssa.Function
	for _, pc := range pkgs {
		roots = append(roots, pc.write)
	}
	var walk func(fn *ssa.Function, from string)
	walk = func(fn *ssa.Function, from string) {
		if fn == nil || seen[fn] || fn.Blocks == nil || !core.InModule(fn) {
			return
		}
		seen[fn] = true
		if rn := core.RecvNamed(fn); rn != nil && rn.Obj().Name() == "PacketQueue" {
			return // the byte channel is what a writer is meant to change
		}
		impure := ""
		var pos token.Pos
		for _, b := range fn.Blocks {
			for _, in := range b.Instrs {
				st, ok := in.(*ssa.Store)
				if !ok {
					continue
				}
				root, path, okp := accessPath(st.Addr)
				if g := rootGlobal(st.Addr); g != nil {
					impure, pos = "stores to the package variable "+g.Name(), st.Pos()
				}
				if pa, isP := root.(*ssa.Parameter); isP && okp && path != "" {
					if _, isPtr := pa.Type().Underlying().(*types.Pointer); isPtr {
						impure, pos = "stores to "+pa.Name()+"."+path, st.Pos()
					}
				}
			}
		}
		key := core.FuncName(fn) + ": serialising does not modify the package"
		if impure != "" {
			r.Bad(rule, key, pos, "a function reached from "+from+" "+impure+": state written during one serialisation (e.g. a cached encoding) changes or fixes what later serialisations produce")
		} else {
			r.OK(rule, key, fn.Pos(), "no store through a pointer parameter or to a package variable")
		}
		for _, c := range core.Calls(fn) {
			walk(core.StaticCallee(c), from)
		}
	}
	for _, rt := range roots {
		walk(rt, core.FuncName(rt))
	}
	_ = p
}

// rxOwnership: the receive queue of a channel belongs to the reader goroutine. Every use of Channel.queueRx lies in a
// function statically reachable from (*Conn).ReadFrom or is the initialising store in NewChannel. A consumer-side
// function (SendRemainingPackets' deferred reset, Reset, QueuePackage ...) that touches it races with the reader and
// can throw away the half of a package that WritePacket kept for the retry.
func rxOwnership(r *core.Run, rule string) {
	p := r.Prog
	fRx := p.Field("tds", "Channel", "queueRx")
	reader := readerPathFuncs(p)
	nc := p.Func("tds", "Conn", "NewChannel")
	n := 0
	for _, fn := range p.ModuleFuncs() {
		for _, b := range fn.Blocks {
			for _, in := range b.Instrs {
				fa, ok := in.(*ssa.FieldAddr)
				if !ok || core.FieldOfAddr(fa) != fRx {
					continue
				}
				n++
				if reader[fn] || p.FuncInOverlay(fn) {
					continue
				}
				if fn == nc {
					// only the initialising store
					init := true
					for _, ref := range *fa.Referrers() {
						if st, isSt := ref.(*ssa.Store); !isSt || st.Addr != ssa.Value(fa) {
							init = false
						}
					}
					if init {
						continue
					}
				}
				r.Bad(rule, core.FuncName(fn)+": use of Channel.queueRx outside the reader goroutine", fa.Pos(), core.FuncName(fn)+" is not on the reader goroutine's path but uses the receive queue: it runs concurrently with WritePacket, and resetting or moving the queue there discards the bytes of a package that was cut by a packet boundary and kept for the retry — the rest of the response is then parsed from the middle of a package")
			}
		}
	}
	r.Check(n >= 5, rule, "Channel.queueRx is used by the reader goroutine only", token.NoPos, fmt.Sprintf("%d uses, all on the reader path (or the initialisation in NewChannel)", n), "fewer uses of Channel.queueRx than expected: the rule does not see the code")
}
