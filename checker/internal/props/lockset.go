package props

import (
	"fmt"
	"go/token"
	"go/types"
	"sort"
	"strings"

	"dblint/internal/core"

	"golang.org/x/tools/go/ssa"
)

// E-LOCK: must-lockset analysis over SSA. Locks are identified by access
// paths rooted at parameters ("p0.tdsConn.tdsChannelsLock"); modes R/W.

type lockMode byte

const (
	modeR lockMode = 'R'
	modeW lockMode = 'W'
)

type lockset map[string]lockMode

func (l lockset) clone() lockset {
	o := lockset{}
	for k, v := range l {
		o[k] = v
	}
	return o
}

func (l lockset) String() string {
	var ks []string
	for k, v := range l {
		ks = append(ks, k+"/"+string(v))
	}
	sort.Strings(ks)
	return "{" + strings.Join(ks, ", ") + "}"
}

func meet(a, b lockset) lockset {
	if a == nil {
		return b.clone()
	}
	o := lockset{}
	for k, v := range a {
		if w, ok := b[k]; ok {
			if v == w {
				o[k] = v
			} else {
				o[k] = modeR // held at least for reading
			}
		}
	}
	return o
}

func equalLS(a, b lockset) bool {
	if len(a) != len(b) {
		return false
	}
	for k, v := range a {
		if b[k] != v {
			return false
		}
	}
	return true
}

// accessPath renders v as root + field chain. ok=false if the root is not
// a parameter, free variable or local allocation.
func accessPath(v ssa.Value) (root ssa.Value, path string, ok bool) {
	var fields []string
	for i := 0; i < 12; i++ {
		switch x := v.(type) {
		case *ssa.FieldAddr:
			fields = append([]string{core.FieldOfAddr(x).Name()}, fields...)
			v = x.X
			continue
		case *ssa.Field:
			st := x.X.Type().Underlying().(*types.Struct)
			fields = append([]string{st.Field(x.Field).Name()}, fields...)
			v = x.X
			continue
		case *ssa.UnOp:
			if x.Op == token.MUL {
				v = x.X
				continue
			}
		case *ssa.Parameter, *ssa.FreeVar, *ssa.Alloc:
			return v, strings.Join(fields, "."), true
		}
		break
	}
	return v, strings.Join(fields, "."), false
}

func rootKey(fn *ssa.Function, root ssa.Value) string {
	for i, p := range fn.Params {
		if ssa.Value(p) == root {
			return fmt.Sprintf("p%d", i)
		}
	}
	return "v:" + root.Name()
}

func lockKey(fn *ssa.Function, v ssa.Value) (string, bool) {
	root, path, ok := accessPath(v)
	if !ok {
		return "", false
	}
	k := rootKey(fn, root)
	if path != "" {
		k += "." + path
	}
	return k, true
}

// lockOp classifies a call on sync.Mutex/RWMutex.
func lockOp(c ssa.CallInstruction) (op string, arg ssa.Value, ok bool) {
	for _, t := range []string{"Mutex", "RWMutex"} {
		for _, m := range []string{"Lock", "Unlock", "RLock", "RUnlock"} {
			if core.IsMethod(c, "sync", t, m) && !c.Common().IsInvoke() && len(c.Common().Args) >= 1 {
				return m, c.Common().Args[0], true
			}
		}
	}
	return "", nil, false
}

type lockAnalysis struct {
	p     *core.Prog
	funcs []*ssa.Function
	entry map[*ssa.Function]lockset
	in    map[*ssa.BasicBlock]lockset
	// acquires[f]: lock keys (param-rooted) f may acquire, directly or via static callees
	acquires map[*ssa.Function]map[string]lockMode
	callers  map[*ssa.Function][]ssa.CallInstruction
}

func newLockAnalysis(p *core.Prog, pkgRel string) *lockAnalysis {
	la := &lockAnalysis{p: p, entry: map[*ssa.Function]lockset{}, in: map[*ssa.BasicBlock]lockset{},
		acquires: map[*ssa.Function]map[string]lockMode{}, callers: map[*ssa.Function][]ssa.CallInstruction{}}
	for _, fn := range p.ModuleFuncs() {
		if fn.Pkg != nil && fn.Pkg.Pkg.Path() == core.Module+"/"+pkgRel {
			la.funcs = append(la.funcs, fn)
		}
	}
	inSet := map[*ssa.Function]bool{}
	for _, fn := range la.funcs {
		inSet[fn] = true
	}
	for _, fn := range la.funcs {
		for _, c := range core.Calls(fn) {
			if f := core.StaticCallee(c); f != nil && inSet[f] {
				la.callers[f] = append(la.callers[f], c)
			}
		}
	}
	// entry locksets: private functions inherit the meet over their call sites
	for iter := 0; iter < 6; iter++ {
		changed := false
		for _, fn := range la.funcs {
			la.flow(fn)
		}
		for _, fn := range la.funcs {
			if !la.inherits(fn) {
				continue
			}
			var m lockset
			for _, c := range la.callers[fn] {
				if _, isGo := c.(*ssa.Go); isGo {
					m = meet(m, lockset{})
					continue
				}
				m = meet(m, la.translate(c, la.At(c.(ssa.Instruction)), fn))
			}
			if m == nil {
				m = lockset{}
			}
			if !equalLS(m, la.entry[fn]) {
				la.entry[fn] = m
				changed = true
			}
		}
		if !changed {
			break
		}
	}
	la.computeAcquires()
	return la
}

// inherits: unexported function or method with at least one static call
// site in the package and whose address is not taken.
func (la *lockAnalysis) inherits(fn *ssa.Function) bool {
	if fn.Parent() != nil {
		return false
	}
	if token.IsExported(fn.Name()) {
		return false
	}
	if len(la.callers[fn]) == 0 {
		return false
	}
	if refs := fn.Referrers(); refs != nil {
		for _, r := range *refs {
			if c, ok := r.(ssa.CallInstruction); ok && c.Common().Value == ssa.Value(fn) {
				continue
			}
			return false
		}
	}
	return true
}

// translate maps the caller's lockset at call c into callee terms.
func (la *lockAnalysis) translate(c ssa.CallInstruction, ls lockset, callee *ssa.Function) lockset {
	out := lockset{}
	caller := c.Parent()
	args := c.Common().Args
	for k, m := range ls {
		for i, a := range args {
			if i >= len(callee.Params) {
				break
			}
			ak, ok := lockKey(caller, a)
			if !ok {
				continue
			}
			if k == ak || strings.HasPrefix(k, ak+".") {
				out[fmt.Sprintf("p%d", i)+strings.TrimPrefix(k, ak)] = m
			}
		}
	}
	return out
}

// back-translate a callee key (param-rooted) to the caller at call c.
func (la *lockAnalysis) backTranslate(c ssa.CallInstruction, key string) (string, bool) {
	caller := c.Parent()
	args := c.Common().Args
	for i, a := range args {
		pk := fmt.Sprintf("p%d", i)
		if key == pk || strings.HasPrefix(key, pk+".") {
			ak, ok := lockKey(caller, a)
			if !ok {
				return "", false
			}
			return ak + strings.TrimPrefix(key, pk), true
		}
	}
	return "", false
}

func (la *lockAnalysis) apply(fn *ssa.Function, ls lockset, in ssa.Instruction) {
	c, ok := in.(*ssa.Call)
	if !ok {
		return
	}
	op, arg, isLock := lockOp(c)
	if !isLock {
		return
	}
	k, ok := lockKey(fn, arg)
	if !ok {
		return
	}
	switch op {
	case "Lock":
		ls[k] = modeW
	case "RLock":
		if ls[k] != modeW {
			ls[k] = modeR
		}
	case "Unlock", "RUnlock":
		delete(ls, k)
	}
}

func (la *lockAnalysis) flow(fn *ssa.Function) {
	if fn.Blocks == nil {
		return
	}
	out := map[*ssa.BasicBlock]lockset{}
	entry := la.entry[fn]
	if entry == nil {
		entry = lockset{}
	}
	for changed, iter := true, 0; changed && iter < 50; iter++ {
		changed = false
		for _, b := range fn.Blocks {
			var in lockset
			if b == fn.Blocks[0] {
				in = entry.clone()
			} else {
				for _, pr := range b.Preds {
					if o, ok := out[pr]; ok {
						in = meet(in, o)
					}
				}
				if in == nil {
					continue
				}
			}
			la.in[b] = in
			cur := in.clone()
			for _, ins := range b.Instrs {
				la.apply(fn, cur, ins)
			}
			if o, ok := out[b]; !ok || !equalLS(o, cur) {
				out[b] = cur
				changed = true
			}
		}
	}
}

// At returns the must-lockset just before instruction in.
func (la *lockAnalysis) At(in ssa.Instruction) lockset {
	b := in.Block()
	base, ok := la.in[b]
	if !ok {
		return lockset{}
	}
	cur := base.clone()
	for _, x := range b.Instrs {
		if x == in {
			break
		}
		la.apply(b.Parent(), cur, x)
	}
	return cur
}

// Deferred returns the deferred calls of fn in registration order that are
// registered on every path to ret (dominance).
func deferredBefore(fn *ssa.Function, ret ssa.Instruction) []*ssa.Defer {
	var out []*ssa.Defer
	for _, b := range fn.Blocks {
		for _, in := range b.Instrs {
			if d, ok := in.(*ssa.Defer); ok && core.Dominates(d, ret) {
				out = append(out, d)
			}
		}
	}
	return out
}

func (la *lockAnalysis) computeAcquires() {
	for _, fn := range la.funcs {
		la.acquires[fn] = map[string]lockMode{}
	}
	for changed, iter := true, 0; changed && iter < 10; iter++ {
		changed = false
		for _, fn := range la.funcs {
			acq := la.acquires[fn]
			for _, c := range core.Calls(fn) {
				if _, isGo := c.(*ssa.Go); isGo {
					continue
				}
				if op, arg, ok := lockOp(c); ok && (op == "Lock" || op == "RLock") {
					if k, ok := lockKey(fn, arg); ok && strings.HasPrefix(k, "p") {
						m := modeR
						if op == "Lock" {
							m = modeW
						}
						if old, has := acq[k]; !has || (old == modeR && m == modeW) {
							acq[k] = m
							changed = true
						}
					}
					continue
				}
				f := core.StaticCallee(c)
				if f == nil || la.acquires[f] == nil {
					continue
				}
				for k, m := range la.acquires[f] {
					if bk, ok := la.backTranslate(c, k); ok && strings.HasPrefix(bk, "p") {
						if old, has := acq[bk]; !has || (old == modeR && m == modeW) {
							acq[bk] = m
							changed = true
						}
					}
				}
			}
		}
	}
}
