package props

import (
	"fmt"
	"go/ast"
	"go/constant"
	"go/token"
	"go/types"
	"sort"

	"dblint/internal/core"

	"golang.org/x/tools/go/ssa"
)

func init() {
	register(&Spec{ID: "C20", Title: "Isolation level mapping is a deterministic, consistent function", Run: runC20,
		Meta: core.Meta{
			Explanation: "R20.9: every package-level constant ASELevel* has type ASEIsolationLevel (an untyped constant prints as a number and has no ToGo). R20.8: ASEIsolationLevel.String returns sql.IsolationLevel.String() of the result of ToGo() on its receiver. R20.7: ASEIsolationLevel.ToGo and String reference no package-level variable of their package. R20.6: ASEIsolationLevel.ToGo and String contain no range over a map. R20.5: no String()/Error() method of the module passes its own receiver to fmt.Sprintf/Errorf/Sprint under %v %s %q %x %X (unbounded recursion; the pinned suite runs with -vet=off). Static table and order-independence check of isolationlevels.go. R20.1 reads the sql2ase composite literal through go/types constant values and compares it with the property's table (supported levels map to the four ASE levels, Default to ReadCommitted, every other key to ASELevelInvalid, the five ASE constants pairwise distinct). R20.2 checks on SSA that every nil-error return of ASEIsolationLevelFromGo is dominated by the comma-ok lookup in sql2ase succeeding and by value != ASELevelInvalid and returns the looked-up value. R20.3 enumerates every range over a map in the root package and decides, from the constant table, whether more than one entry can trigger an early exit (which would make the answer depend on Go's randomised map order). R20.4 extracts the reverse table of ToGo (switch on the receiver with constant cases and constant returns, or an injective map range) and checks that every supported non-default level maps back to itself and that String delegates to ToGo.",
			NotDecided:  "The printed names are delegated to database/sql's IsolationLevel.String and not inspected.",
			Assumptions: []string{"database/sql level constants have the values the loaded standard library declares", "Go map iteration order is unspecified (language spec)"},
		}})
}

func runC20(r *core.Run) {
	p := r.Prog
	pk := p.Pkg("")
	r.Rule("R20.1", "sql2ase literal equals the property's table (E-CONST)", 7, false)
	r.Rule("R20.2", "ASEIsolationLevelFromGo: success only under ok && value != ASELevelInvalid", 1, false)
	r.Rule("R20.3", "no map range whose early exit can be triggered by more than one entry", 0, true)
	r.Rule("R20.4", "reverse mapping (ToGo/String) is a fixed table inverse to sql2ase on supported non-default levels", 5, false)
	r.Rule("R20.5", "no String/Error method formats its own receiver through fmt.Stringer", 1, false)
	defer noSelfFormatting(r, "R20.5")
	r.Rule("R20.6", "printing and translating back do not iterate a map", 2, false)
	defer noMapRangeInAnswers(r, "R20.6")
	r.Rule("R20.7", "printing and translating back use no package-level state", 2, false)
	defer answersUseNoPackageState(r, "R20.7")
	r.Rule("R20.8", "String is ToGo().String(): printing and translating back agree by construction", 1, false)
	defer stringIsToGo(r, "R20.8")
	r.Rule("R20.9", "the level constants are values of the level type", 5, false)
	defer levelConstsTyped(r, "R20.9")

	aseInvalid := constOf(p, "", "ASELevelInvalid")
	want := map[string]string{ // sql level -> ASE level (by constant name)
		"LevelDefault":         "ASELevelReadCommitted",
		"LevelReadUncommitted": "ASELevelReadUncommitted",
		"LevelReadCommitted":   "ASELevelReadCommitted",
		"LevelRepeatableRead":  "ASELevelRepeatableRead",
		"LevelSerializable":    "ASELevelSerializableRead",
	}
	sqlName := map[string]string{} // exact value string -> sql const name
	for _, n := range []string{"LevelDefault", "LevelReadUncommitted", "LevelReadCommitted", "LevelWriteCommitted", "LevelRepeatableRead", "LevelSnapshot", "LevelSerializable", "LevelLinearizable"} {
		sqlName[extConst(p, "database/sql", n).ExactString()] = n
	}

	cl, declPos := findVarLit(pk, "sql2ase")
	if cl == nil {
		r.Unknown("R20.1", "sql2ase", token.NoPos, "package-level map literal sql2ase not found")
		return
	}
	ents, allConst := mapLitEntries(pk, cl)
	if !allConst {
		r.Unknown("R20.1", "sql2ase", declPos, "sql2ase has non-constant keys or values")
		return
	}
	// the literal must be the only writer of sql2ase
	g := p.Global("", "sql2ase")
	writers := 0
	for _, fn := range p.ModuleFuncs() {
		for _, b := range fn.Blocks {
			for _, in := range b.Instrs {
				switch x := in.(type) {
				case *ssa.Store:
					if x.Addr == g && fn.Name() != "init" {
						writers++
						r.Bad("R20.1", "sql2ase reassigned in "+core.FuncName(fn), x.Pos(), "the forward table is replaced at run time; the constant-table argument no longer applies")
					}
				case *ssa.MapUpdate:
					if u, ok := x.Map.(*ssa.UnOp); ok && u.X == g {
						writers++
						r.Bad("R20.1", "sql2ase updated in "+core.FuncName(fn), x.Pos(), "the forward table is modified at run time")
					}
				}
			}
		}
	}
	seen := map[string]bool{}
	for _, e := range ents {
		kn := sqlName[e.Key.ExactString()]
		if kn == "" {
			kn = "sql.IsolationLevel(" + e.Key.ExactString() + ")"
		}
		key := "sql2ase[" + kn + "]"
		seen[kn] = true
		if w, ok := want[kn]; ok {
			r.Check(constEq(e.Val, constOf(p, "", w)), "R20.1", key, e.Pos, "maps to "+w, fmt.Sprintf("maps to %s, the property requires %s", e.Val.ExactString(), w))
		} else {
			r.Check(constEq(e.Val, aseInvalid), "R20.1", key, e.Pos, "unsupported level maps to ASELevelInvalid (error)", "a level ASE does not support is translated to a valid ASE level instead of an error")
		}
	}
	for kn := range want {
		if !seen[kn] {
			r.Bad("R20.1", "sql2ase["+kn+"]", declPos, "supported level missing from the forward table")
		}
	}
	// distinctness of the five ASE constants
	names := []string{"ASELevelInvalid", "ASELevelReadUncommitted", "ASELevelReadCommitted", "ASELevelRepeatableRead", "ASELevelSerializableRead"}
	distinct := true
	for i := range names {
		for j := i + 1; j < len(names); j++ {
			if constEq(constOf(p, "", names[i]), constOf(p, "", names[j])) {
				distinct = false
			}
		}
	}
	r.Check(distinct, "R20.1", "ASE level constants distinct", p.Obj("", "ASELevelInvalid").Pos(), "five distinct values", "two ASE level constants share a value")

	// R20.2
	c20FromGo(r, g, aseInvalid)

	// R20.3: map ranges in the root package
	for _, fn := range p.ModuleFuncs() {
		if fn.Pkg == nil || fn.Pkg.Pkg != pk.Types {
			continue
		}
		for _, b := range fn.Blocks {
			for _, in := range b.Instrs {
				if rg, ok := in.(*ssa.Range); ok {
					if _, isMap := rg.X.Type().Underlying().(*types.Map); isMap {
						c20MapRange(r, fn, rg, g, ents)
					}
				}
			}
		}
	}

	// R20.4 reverse table
	c20Reverse(r, ents, want, sqlName)
}

func c20FromGo(r *core.Run, g *ssa.Global, invalid constant.Value) {
	p := r.Prog
	fn := p.Func("", "", "ASEIsolationLevelFromGo")
	key := "ASEIsolationLevelFromGo"
	var lookup *ssa.Lookup
	for _, b := range fn.Blocks {
		for _, in := range b.Instrs {
			if l, ok := in.(*ssa.Lookup); ok && l.CommaOk {
				if u, ok := l.X.(*ssa.UnOp); ok && u.X == g && len(fn.Params) == 1 && l.Index == fn.Params[0] {
					lookup = l
				}
			}
		}
	}
	if lookup == nil {
		r.Unknown("R20.2", key, fn.Pos(), "no comma-ok lookup sql2ase[lvl] on the parameter found")
		return
	}
	nSucc := 0
	for _, ret := range core.Returns(fn) {
		if len(ret.Results) != 2 || !core.IsNil(core.RetVals(ret)[1]) {
			continue
		}
		nSucc++
		okGuard, neInvalid := false, false
		for _, gd := range core.GuardsAt(ret) {
			if ex, ok := gd.Cond.(*ssa.Extract); ok && ex.Tuple == lookup && ex.Index == 1 && gd.Pol {
				okGuard = true
			}
			if bo, ok := gd.Cond.(*ssa.BinOp); ok {
				var other ssa.Value
				if ex, ok := bo.X.(*ssa.Extract); ok && ex.Tuple == lookup && ex.Index == 0 {
					other = bo.Y
				} else if ex, ok := bo.Y.(*ssa.Extract); ok && ex.Tuple == lookup && ex.Index == 0 {
					other = bo.X
				}
				if c, ok := other.(*ssa.Const); ok && c.Value != nil && constEq(c.Value, invalid) {
					if (bo.Op == token.EQL && !gd.Pol) || (bo.Op == token.NEQ && gd.Pol) {
						neInvalid = true
					}
				}
			}
		}
		retVal := false
		if ex, ok := core.RetVals(ret)[0].(*ssa.Extract); ok && ex.Tuple == lookup && ex.Index == 0 {
			retVal = true
		}
		switch {
		case !okGuard:
			r.Bad("R20.2", key, ret.Pos(), "nil-error return not dominated by the lookup's ok==true edge: an unknown level is translated without error")
		case !neInvalid:
			r.Bad("R20.2", key, ret.Pos(), "nil-error return not dominated by value != ASELevelInvalid: an unsupported level is translated without error")
		case !retVal:
			r.Bad("R20.2", key, ret.Pos(), "the success return does not return the looked-up table value")
		default:
			r.OK("R20.2", key, ret.Pos(), "success return dominated by ok && value != ASELevelInvalid and returns the table value")
		}
	}
	if nSucc == 0 {
		r.Unknown("R20.2", key, fn.Pos(), "no nil-error return found")
	}
}

// loopBlocks returns the natural loop of header h: blocks dominated by h that
// can reach h.
func loopBlocks(h *ssa.BasicBlock) map[*ssa.BasicBlock]bool {
	in := map[*ssa.BasicBlock]bool{h: true}
	var work []*ssa.BasicBlock
	for _, pr := range h.Preds {
		if h.Dominates(pr) && !in[pr] {
			in[pr] = true
			work = append(work, pr)
		}
	}
	for len(work) > 0 {
		b := work[len(work)-1]
		work = work[:len(work)-1]
		for _, pr := range b.Preds {
			if !in[pr] && h.Dominates(pr) {
				in[pr] = true
				work = append(work, pr)
			}
		}
	}
	return in
}

func c20MapRange(r *core.Run, fn *ssa.Function, rg *ssa.Range, g *ssa.Global, ents []constEntry) {
	key := "range over map in " + core.FuncName(fn)
	// find Next
	var next *ssa.Next
	for _, ref := range *rg.Referrers() {
		if n, ok := ref.(*ssa.Next); ok {
			next = n
		}
	}
	if next == nil {
		r.Unknown("R20.3", key, rg.Pos(), "range without Next")
		return
	}
	h := next.Block()
	loop := loopBlocks(h)
	var okX, kX, vX *ssa.Extract
	for _, ref := range *next.Referrers() {
		if ex, ok := ref.(*ssa.Extract); ok {
			switch ex.Index {
			case 0:
				okX = ex
			case 1:
				kX = ex
			case 2:
				vX = ex
			}
		}
	}
	type exit struct {
		col string // "key" | "val"
		rhs ssa.Value
		pos token.Pos
	}
	var exits []exit
	undecided := ""
	for b := range loop {
		for _, s := range b.Succs {
			if loop[s] {
				continue
			}
			// exhaustion edge: header If on ok, false branch
			if b == h {
				if iff, ok := b.Instrs[len(b.Instrs)-1].(*ssa.If); ok && iff.Cond == ssa.Value(okX) && s == b.Succs[1] {
					continue
				}
			}
			// early exit: must be the true/false edge of an If in b comparing key/val with an invariant
			iff, ok := b.Instrs[len(b.Instrs)-1].(*ssa.If)
			pos := token.NoPos
			if len(s.Instrs) > 0 {
				pos = s.Instrs[len(s.Instrs)-1].Pos()
			}
			if !ok {
				undecided = "early exit that is not a conditional branch"
				continue
			}
			bo, ok := iff.Cond.(*ssa.BinOp)
			if !ok || !((bo.Op == token.EQL && s == b.Succs[0]) || (bo.Op == token.NEQ && s == b.Succs[1])) {
				undecided = "early exit under a condition that is not an equality test on the iteration variables: " + core.Expr(iff.Cond)
				continue
			}
			var col string
			var rhs ssa.Value
			switch {
			case kX != nil && bo.X == ssa.Value(kX):
				col, rhs = "key", bo.Y
			case kX != nil && bo.Y == ssa.Value(kX):
				col, rhs = "key", bo.X
			case vX != nil && bo.X == ssa.Value(vX):
				col, rhs = "val", bo.Y
			case vX != nil && bo.Y == ssa.Value(vX):
				col, rhs = "val", bo.X
			default:
				undecided = "early exit under a condition not on the iteration variables: " + core.Expr(iff.Cond)
				continue
			}
			if in, isInstr := rhs.(ssa.Instruction); isInstr && loop[in.Block()] {
				undecided = "early exit compares with a value computed inside the loop"
				continue
			}
			exits = append(exits, exit{col, rhs, pos})
		}
	}
	if len(exits) == 0 && undecided == "" {
		r.OK("R20.3", key, rg.Pos(), "loop runs to exhaustion on every path: no early exit")
		return
	}
	if undecided != "" {
		r.Unknown("R20.3", key, rg.Pos(), undecided)
		return
	}
	u, ok := rg.X.(*ssa.UnOp)
	if !ok || u.X != g {
		r.Unknown("R20.3", key, rg.Pos(), "early exit from a range over a map that is not the constant table sql2ase")
		return
	}
	// candidates for the variable right-hand sides: every distinct value in the column, plus "none of them"
	colVals := func(col string) []constant.Value {
		var vs []constant.Value
		for _, e := range ents {
			v := e.Val
			if col == "key" {
				v = e.Key
			}
			dup := false
			for _, w := range vs {
				if constEq(v, w) {
					dup = true
				}
			}
			if !dup {
				vs = append(vs, v)
			}
		}
		return vs
	}
	// enumerate assignments to variable rhs (all exits with a non-constant rhs share the candidate set per column; distinct SSA values vary independently)
	vars := map[ssa.Value]string{}
	for _, e := range exits {
		if _, isC := e.rhs.(*ssa.Const); !isC {
			vars[e.rhs] = e.col
		}
	}
	var varList []ssa.Value
	for v := range vars {
		varList = append(varList, v)
	}
	sort.Slice(varList, func(i, j int) bool { return varList[i].Name() < varList[j].Name() })
	assign := map[ssa.Value]constant.Value{}
	worst, witness := 0, ""
	var rec func(i int)
	rec = func(i int) {
		if i == len(varList) {
			n := 0
			var hit []string
			for _, en := range ents {
				trig := false
				for _, e := range exits {
					cv := en.Val
					if e.col == "key" {
						cv = en.Key
					}
					var rv constant.Value
					if c, ok := e.rhs.(*ssa.Const); ok {
						rv = c.Value
					} else {
						rv = assign[e.rhs]
					}
					if rv != nil && constEq(cv, rv) {
						trig = true
					}
				}
				if trig {
					n++
					hit = append(hit, exprString(en.KeyExpr))
				}
			}
			if n > worst {
				worst = n
				w := ""
				for _, v := range varList {
					if assign[v] != nil {
						w += fmt.Sprintf("%s=%s ", core.Expr(v), assign[v].ExactString())
					}
				}
				witness = fmt.Sprintf("for %sentries %v can each end the loop first", w, hit)
			}
			return
		}
		v := varList[i]
		for _, cv := range append(colVals(vars[v]), nil) {
			assign[v] = cv
			rec(i + 1)
		}
	}
	rec(0)
	if worst > 1 {
		r.Bad("R20.3", key, rg.Pos(), "result depends on map iteration order: "+witness)
	} else {
		r.OK("R20.3", key, rg.Pos(), "at most one table entry can trigger an early exit for any argument")
	}
}

func exprString(e ast.Expr) string {
	switch x := e.(type) {
	case *ast.Ident:
		return x.Name
	case *ast.SelectorExpr:
		return exprString(x.X) + "." + x.Sel.Name
	}
	return "?"
}

// c20Reverse extracts ToGo's table.
func c20Reverse(r *core.Run, ents []constEntry, want map[string]string, sqlName map[string]string) {
	p := r.Prog
	pk := p.Pkg("")
	toGo := p.Func("", "ASEIsolationLevel", "ToGo")
	str := p.Func("", "ASEIsolationLevel", "String")
	// String delegates to ToGo: its result is (ToGo(recv)).String()
	deleg := false
	for _, c := range core.Calls(str) {
		if core.StaticCallee(c) == toGo && len(c.Common().Args) == 1 && c.Common().Args[0] == ssa.Value(str.Params[0]) {
			deleg = true
		}
	}
	r.Check(deleg, "R20.4", "String delegates to ToGo", str.Pos(), "String() = ToGo().String(): one reverse table", "String no longer derives its answer from ToGo on the same receiver")

	fd := funcDecl(pk, toGo.Object())
	if fd == nil || fd.Body == nil {
		r.Unknown("R20.4", "ToGo table", toGo.Pos(), "declaration not found")
		return
	}
	// Shape A: a single switch on the receiver with constant cases each returning one constant, then a constant default return.
	table := map[string]constant.Value{} // ASE const exact value -> sql value
	shapeA := false
	if len(fd.Recv.List) == 1 && len(fd.Recv.List[0].Names) == 1 {
		recvObj := pk.TypesInfo.Defs[fd.Recv.List[0].Names[0]]
		for _, st := range fd.Body.List {
			sw, ok := st.(*ast.SwitchStmt)
			if !ok || sw.Init != nil {
				continue
			}
			id, ok := ast.Unparen(sw.Tag).(*ast.Ident)
			if !ok || pk.TypesInfo.Uses[id] != recvObj {
				continue
			}
			shapeA = true
			for _, cc := range sw.Body.List {
				cl := cc.(*ast.CaseClause)
				if len(cl.Body) != 1 {
					shapeA = false
					break
				}
				ret, ok := cl.Body[0].(*ast.ReturnStmt)
				if !ok || len(ret.Results) != 1 {
					shapeA = false
					break
				}
				tv := pk.TypesInfo.Types[ret.Results[0]]
				if tv.Value == nil {
					shapeA = false
					break
				}
				for _, ce := range cl.List {
					cv := pk.TypesInfo.Types[ce]
					if cv.Value == nil {
						shapeA = false
						break
					}
					table[cv.Value.ExactString()] = tv.Value
				}
			}
		}
		// the receiver must not be reassigned
		ast.Inspect(fd.Body, func(n ast.Node) bool {
			if as, ok := n.(*ast.AssignStmt); ok {
				for _, l := range as.Lhs {
					if id, ok := l.(*ast.Ident); ok && (pk.TypesInfo.Uses[id] == recvObj) {
						shapeA = false
					}
				}
			}
			return true
		})
	}
	hasMapRange := false
	for _, b := range toGo.Blocks {
		for _, in := range b.Instrs {
			if rg, ok := in.(*ssa.Range); ok {
				if _, isMap := rg.X.Type().Underlying().(*types.Map); isMap {
					hasMapRange = true
				}
			}
		}
	}
	if !shapeA && hasMapRange {
		// Shape B: reverse lookup by ranging over the forward table. Order
		// dependence is R20.3's verdict; the reverse table is the inverse
		// relation of sql2ase, a function only if the value column is injective.
		for kn, vn := range want {
			if kn == "LevelDefault" {
				continue
			}
			cnt := 0
			for _, e := range ents {
				if constEq(e.Val, constOf(p, "", vn)) {
					cnt++
				}
			}
			r.Check(cnt == 1, "R20.4", "round trip "+kn, toGo.Pos(),
				"only one table entry carries "+vn,
				fmt.Sprintf("%d entries of sql2ase carry %s; the reverse lookup by iteration can return any of them, so %s does not translate there and back unchanged", cnt, vn, kn))
		}
		return
	}
	if !shapeA {
		r.Unknown("R20.4", "ToGo table", toGo.Pos(), "ToGo is neither a switch over the receiver with constant cases nor a range over sql2ase; the reverse table cannot be extracted")
		return
	}
	keys := []string{}
	for kn := range want {
		keys = append(keys, kn)
	}
	sort.Strings(keys)
	for _, kn := range keys {
		if kn == "LevelDefault" {
			continue
		}
		ase := constOf(p, "", want[kn])
		got := table[ase.ExactString()]
		wantV := extConst(p, "database/sql", kn)
		r.Check(got != nil && constEq(got, wantV), "R20.4", "round trip "+kn, toGo.Pos(),
			"ToGo("+want[kn]+") = sql."+kn,
			fmt.Sprintf("ToGo(%s) does not return sql.%s: translating %s there and back changes it", want[kn], kn, kn))
	}
}
