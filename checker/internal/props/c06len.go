package props

import (
	"fmt"
	"go/token"
	"sort"
	"strings"

	"dblint/internal/core"

	"golang.org/x/tools/go/ssa"
)

// R06.7 write-side length formula: for writers whose body after the length
// prefix is straight-line (only error checks branch), the value written as
// the length prefix, as a linear form const + Σ len(field), must equal the
// sum of the widths written after it.

type linForm struct {
	c     int64
	terms map[string]int
	ok    bool
	why   string
}

func lenTermKey(fn *ssa.Function, v ssa.Value) (string, bool) {
	v = core.Strip(v)
	if cv, ok := v.(*ssa.Convert); ok {
		v = cv.X
	}
	root, path, ok := accessPath(v)
	if !ok || path == "" {
		return "", false
	}
	return rootKey(fn, root) + "." + path, true
}

func linearOf(fn *ssa.Function, v ssa.Value, d int) linForm {
	lf := linForm{terms: map[string]int{}, ok: true}
	if d > 12 {
		return linForm{why: "expression too deep"}
	}
	if c, ok := core.ConstInt64(v); ok {
		lf.c = c
		return lf
	}
	switch x := v.(type) {
	case *ssa.Convert:
		return linearOf(fn, x.X, d+1)
	case *ssa.BinOp:
		if x.Op != token.ADD {
			return linForm{why: "operator " + x.Op.String()}
		}
		a, b := linearOf(fn, x.X, d+1), linearOf(fn, x.Y, d+1)
		if !a.ok {
			return a
		}
		if !b.ok {
			return b
		}
		a.c += b.c
		for k, n := range b.terms {
			a.terms[k] += n
		}
		return a
	case *ssa.Call:
		if arg, isLen := isLenCall(x); isLen {
			if k, ok := lenTermKey(fn, arg); ok {
				lf.terms[k] = 1
				return lf
			}
			return linForm{why: "len of " + core.Expr(arg)}
		}
	}
	return linForm{why: "term " + core.Expr(v)}
}

func (l linForm) String() string {
	var ts []string
	for k, n := range l.terms {
		if n == 1 {
			ts = append(ts, "len("+k+")")
		} else {
			ts = append(ts, fmt.Sprintf("%d*len(%s)", n, k))
		}
	}
	sort.Strings(ts)
	return strings.TrimSuffix(fmt.Sprintf("%d + %s", l.c, strings.Join(ts, " + ")), " + ")
}

func c06LengthFormula(r *core.Run, ef *errFlow, pkgs []pkgCodec) {
	p := r.Prog
	sb := newShapeBuilder(p, ef)
	for _, pc := range pkgs {
		if pc.variant != nil {
			continue // width of the prefix depends on the variant; not covered
		}
		fn := pc.write
		// writers with channel writes inside a loop, or that delegate to helpers/field codecs, are not covered
		skip := ""
		for _, b := range fn.Blocks {
			for _, in := range b.Instrs {
				c, ok := in.(*ssa.Call)
				if !ok {
					continue
				}
				if l, isL := sb.letterOf(c); isL {
					if _, loop := core.InnermostLoop(b); loop != nil {
						skip = "writes inside a loop"
					}
					if l == "FMT" || l == "DAT" {
						skip = "field codecs"
					}
				} else if sb.takesChannel(c) {
					skip = "delegates to " + calleeKey(c)
				}
			}
		}
		if skip != "" {
			r.Note("R06.7 not applicable to %s: %s", pc.name, skip)
			continue
		}
		type pathRes struct {
			declared, actual linForm
			conds            string
			pos              token.Pos
		}
		var results []pathRes
		applicable := true
		nonLinear := ""
		var nonLinearPos token.Pos
		complete := core.EnumPaths(fn.Blocks[0], func(b *ssa.BasicBlock) bool { return false }, nil, 3000, func(pa core.Path, ended bool) {
			last := pa.Blocks[len(pa.Blocks)-1]
			ret, isRet := last.Instrs[len(last.Instrs)-1].(*ssa.Return)
			if !isRet {
				return
			}
			rv := core.RetVals(ret)
			if len(rv) > 0 && freshError(rv[len(rv)-1]) {
				return
			}
			// success path: no error edge taken, and consistent decisions for syntactically equal conditions
			decided := map[string]bool{}
			var cs []string
			for _, c := range pa.Conds {
				if _, nn, isErr := core.ErrNilTest(c.If.Cond); isErr {
					if nn == c.Pol {
						return // error edge
					}
					continue
				}
				k := core.Expr(c.If.Cond)
				if prev, has := decided[k]; has && prev != c.Pol {
					return // infeasible: the same condition decided both ways
				}
				decided[k] = c.Pol
				cs = append(cs, fmt.Sprintf("%s=%v", k, c.Pol))
			}
			// position of each block in the path, for φ resolution
			idx := map[*ssa.BasicBlock]int{}
			for i, b := range pa.Blocks {
				idx[b] = i
			}
			var resolve func(v ssa.Value, d int) ssa.Value
			resolve = func(v ssa.Value, d int) ssa.Value {
				if ph, ok := v.(*ssa.Phi); ok && d < 8 {
					if i, on := idx[ph.Block()]; on && i > 0 {
						pred := pa.Blocks[i-1]
						for j, pr := range ph.Block().Preds {
							if pr == pred {
								return resolve(ph.Edges[j], d+1)
							}
						}
					}
				}
				return v
			}
			var lin func(v ssa.Value, d int) linForm
			lin = func(v ssa.Value, d int) linForm {
				v = resolve(v, 0)
				lf := linForm{terms: map[string]int{}, ok: true}
				if d > 14 {
					return linForm{why: "expression too deep"}
				}
				if c, ok := core.ConstInt64(v); ok {
					lf.c = c
					return lf
				}
				switch x := v.(type) {
				case *ssa.Convert:
					return lin(x.X, d+1)
				case *ssa.BinOp:
					if x.Op != token.ADD {
						return linForm{why: "operator " + x.Op.String()}
					}
					a, b := lin(x.X, d+1), lin(x.Y, d+1)
					if !a.ok {
						return a
					}
					if !b.ok {
						return b
					}
					a.c += b.c
					for k, n := range b.terms {
						a.terms[k] += n
					}
					return a
				case *ssa.Call:
					if arg, isLen := isLenCall(x); isLen {
						if k, ok := lenTermKey(fn, arg); ok {
							lf.terms[k] = 1
							return lf
						}
						return linForm{why: "len of " + core.Expr(arg)}
					}
				}
				return linForm{why: "term " + core.Expr(v)}
			}
			var writes []*ssa.Call
			for _, b := range pa.Blocks {
				for _, in := range b.Instrs {
					if c, ok := in.(*ssa.Call); ok {
						if _, isL := sb.letterOf(c); isL {
							writes = append(writes, c)
						}
					}
				}
			}
			if len(writes) < 3 {
				applicable = false
				return
			}
			l0, _ := sb.letterOf(writes[0])
			l1, _ := sb.letterOf(writes[1])
			if l0 != "1" || (l1 != "2" && l1 != "4") {
				applicable = false
				return
			}
			arg := writes[1].Call.Args[len(writes[1].Call.Args)-1]
			if _, isField := lenTermKeyOfValue(fn, arg); isField {
				applicable = false // the second field is a plain value of the package, not a computed length
				return
			}
			declared := lin(arg, 0)
			if declared.ok && len(declared.terms) == 0 && declared.c == 0 {
				applicable = false
				return
			}
			if !declared.ok {
				// a computed prefix that is not const + Σ len(field): not a byte count of what follows
				nonLinear = "the length prefix is computed as " + core.Expr(resolve(arg, 0)) + " (" + declared.why + "), which is not a byte count `const + Σ len(field)` of the fields written after it: for some values the declared length differs from the bytes that follow"
				nonLinearPos = writes[1].Pos()
				return
			}
			actual := linForm{terms: map[string]int{}, ok: true}
			for _, w := range writes[2:] {
				l, _ := sb.letterOf(w)
				switch l {
				case "1", "2", "4", "8":
					actual.c += widthOfLetter(l)
				case "S":
					a := w.Call.Args[len(w.Call.Args)-1]
					if k, ok := lenTermKey(fn, a); ok {
						actual.terms[k]++
					} else if cst, isC := core.Strip(a).(*ssa.Const); isC && cst.Value != nil {
						actual.c += int64(len(constString(cst)))
					} else {
						actual.ok, actual.why = false, "variable field "+core.Expr(a)
					}
				}
			}
			if !actual.ok {
				applicable = false
				return
			}
			results = append(results, pathRes{declared, actual, strings.Join(cs, ", "), writes[1].Pos()})
		})
		if nonLinear != "" && complete && applicable {
			r.Bad("R06.7", pc.name+": declared length = bytes written after it", nonLinearPos, nonLinear)
			continue
		}
		if !complete || !applicable || len(results) == 0 {
			r.Note("R06.7 not applicable to %s (no computed length prefix, or shape outside the rule)", pc.name)
			continue
		}
		key := pc.name + ": declared length = bytes written after it"
		bad := ""
		var pos token.Pos
		for _, pr := range results {
			pos = pr.pos
			same := pr.declared.c == pr.actual.c && len(pr.declared.terms) == len(pr.actual.terms)
			for k, n := range pr.declared.terms {
				if pr.actual.terms[k] != n {
					same = false
				}
			}
			if !same {
				bad = "the length prefix is written as " + pr.declared.String() + " but the fields written after it take " + pr.actual.String() + " bytes"
				if pr.conds != "" {
					bad += " (when " + pr.conds + ")"
				}
				bad += ": the reader's own length check rejects what the writer produced"
			}
		}
		r.Check(bad == "", "R06.7", key, pos, fmt.Sprintf("declared length equals the widths written after it on all %d success paths (e.g. %s)", len(results), results[0].declared.String()), bad)
	}
}

// lenTermKeyOfValue: v (after conversions) is directly a field of the package (a stored value, not a computed length).
func lenTermKeyOfValue(fn *ssa.Function, v ssa.Value) (string, bool) {
	v = core.Strip(v)
	if f, _ := core.FieldLoad(v); f != nil {
		return f.Name(), true
	}
	return "", false
}
