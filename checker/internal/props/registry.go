// Package props holds the rule sets, one file per property, and the shared
// analysis engines they use.
package props

import (
	"embed"
	"strings"

	"dblint/internal/core"
)

type Spec struct {
	ID    string
	Title string
	Run   func(r *core.Run)
	Meta  core.Meta
}

var Registry = map[string]*Spec{}

func register(s *Spec) { Registry[s.ID] = s }

//go:embed posex/*.go.txt
var posexFS embed.FS

// PositiveExamples returns the in-memory files (repo-relative name →
// source) that carry one violating construct per zero-expected-count rule.
// The first line of each file is "//posex:file <repo-relative path>".
func PositiveExamples(verif string, s *Spec) map[string][]byte {
	out := map[string][]byte{}
	ents, err := posexFS.ReadDir("posex")
	if err != nil {
		core.Fail("posex: %v", err)
	}
	for _, e := range ents {
		b, err := posexFS.ReadFile("posex/" + e.Name())
		if err != nil {
			core.Fail("posex: %v", err)
		}
		first := strings.SplitN(string(b), "\n", 2)[0]
		if !strings.HasPrefix(first, "//posex:file ") {
			core.Fail("posex %s: missing //posex:file header", e.Name())
		}
		out[strings.TrimSpace(strings.TrimPrefix(first, "//posex:file "))] = b
	}
	return out
}
