package props

import (
	"fmt"
	"go/ast"
	"go/constant"
	"go/token"
	"go/types"
	"sort"
	"strings"

	"dblint/internal/core"

	"golang.org/x/tools/go/ssa"
)

// R06.9 field order. E-SHAPE compares widths, so it is blind to a swap of
// two neighbouring fields of the same width — and a swap made in reader AND
// writer also survives the library's own round trip. For the packages below
// the order in which the fields appear on the wire is transcribed from the
// TDS 5.0 functional specification (field names are the repository's); on
// every CFG path of ReadFrom the fields are assigned from wire reads in that
// order, and on every path of WriteTo they are handed to the channel writers
// in that order. Fields not listed (and length prefixes computed from several
// fields) are ignored.
var specFieldOrder = []struct {
	typ    string
	fields []string
	ref    string
}{
	{"CurInfoPackage", []string{"CursorID", "Name", "Command", "Status", "RowNum", "TotalRows", "RowCount"}, "TDS_CURINFO/CURINFO3: Length CursorId [NameLen Name] Command Status [RowNum TotalRows] [RowCnt]"},
	{"ErrorPackage", []string{"ErrorNumber", "State", "Class", "ErrorMsg", "ServerName", "ProcName", "LineNr"}, "TDS_ERROR: Length MsgNumber State Class MsgLen Msg ServerLen Server ProcLen Proc LineNum"},
	{"EEDPackage", []string{"MsgNumber", "State", "Class", "SQLState", "Status", "TranState", "Msg", "ServerName", "ProcName", "LineNr"}, "TDS_EED: Length MsgNumber State Class SQLStateLen SQLState Status TranState MsgLen Msg ServerLen Server ProcLen Proc LineNum"},
	{"DonePackage", []string{"Status", "TranState", "Count"}, "TDS_DONE: Status TranState Count"},
	{"LoginAckPackage", []string{"Length", "Status", "Version", "NameLength", "ProgramName", "ProgramVersion"}, "TDS_LOGINACK: Length Status TDSVersion NameLen ProgName ProgVersion"},
	{"MsgPackage", []string{"Status", "MsgId"}, "TDS_MSG: Length Status MsgId"},
	{"DynamicPackage", []string{"Type", "Status", "ID", "Stmt"}, "TDS_DYNAMIC/DYNAMIC2: Length Type Status IdLen Id [StmtLen Stmt]"},
	{"CurDeclarePackage", []string{"Name", "Options", "Status", "Stmt"}, "TDS_CURDECLARE/2/3: Length NameLen Name Options Status StmtLen Stmt NumColumns {ColLen Col}*"},
	{"CurClosePackage", []string{"CursorID", "Name", "Options"}, "TDS_CURCLOSE: Length CursorId [NameLen Name] Options"},
	{"CurDeletePackage", []string{"CursorID", "Name", "Status", "TableName"}, "TDS_CURDELETE: Length CursorId [NameLen Name] Status TableNameLen TableName"},
	{"CurFetchPackage", []string{"CursorID", "Name", "Type", "RowNumber"}, "TDS_CURFETCH: Length CursorId [NameLen Name] Type [RowNum]"},
	{"CurOpenPackage", []string{"CursorID", "Name", "Status"}, "TDS_CUROPEN: Length CursorId [NameLen Name] Status"},
	{"CurUpdatePackage", []string{"CursorID", "Name", "Status", "TableName", "Stmt"}, "TDS_CURUPDATE: Length CursorId [NameLen Name] Status TableNameLen TableName [StmtLen Stmt]"},
	{"LanguagePackage", []string{"Status", "Cmd"}, "TDS_LANGUAGE: Length Status Text"},
	{"OptionCmdPackage", []string{"Cmd", "Option", "OptionArg"}, "TDS_OPTIONCMD: Length Command Option ArgLength OptionArg"},
	{"EnvChangePackageField", []string{"Type", "NewValue", "OldValue"}, "TDS_ENVCHANGE member: Type NewValLen NewValue OldValLen OldValue"},
}

func c06FieldOrder(r *core.Run, ef *errFlow, pkgs []pkgCodec) {
	p := r.Prog
	sb := newShapeBuilder(p, ef)
	for _, so := range specFieldOrder {
		var pc *pkgCodec
		for i := range pkgs {
			if pkgs[i].name == so.typ {
				pc = &pkgs[i]
			}
		}
		if pc == nil {
			// a codec that is not a Package (a member codec): resolve it by name
			if obj := p.TryObj("tds", so.typ); obj != nil {
				if named, ok := obj.Type().(*types.Named); ok {
					pc = &pkgCodec{name: so.typ, named: named, read: methodFn(p, named, "ReadFrom"), write: methodFn(p, named, "WriteTo")}
				}
			}
		}
		if pc == nil {
			r.Unknown("R06.9", so.typ+": field order", token.NoPos, "type not found among the package codecs")
			continue
		}
		st, ok := pc.named.Underlying().(*types.Struct)
		if !ok {
			r.Unknown("R06.9", so.typ+": field order", token.NoPos, "not a struct")
			continue
		}
		idx := map[*types.Var]int{}
		for i, name := range so.fields {
			found := false
			for j := 0; j < st.NumFields(); j++ {
				if st.Field(j).Name() == name {
					idx[st.Field(j)] = i
					found = true
				}
			}
			if !found {
				r.Unknown("R06.9", so.typ+": field order", token.NoPos, "field "+name+" of the specification table not found in the struct")
			}
		}

		// value derives from a wire read
		var fromRead func(v ssa.Value, d int) bool
		fromRead = func(v ssa.Value, d int) bool {
			if d > 5 || v == nil {
				return false
			}
			switch x := v.(type) {
			case *ssa.Extract:
				return fromRead(x.Tuple, d+1)
			case *ssa.Call:
				if _, isL := sb.letterOf(x); isL {
					return true
				}
				for _, a := range x.Call.Args {
					if fromRead(a, d+1) {
						return true
					}
				}
			case *ssa.Convert:
				return fromRead(x.X, d+1)
			case *ssa.ChangeType:
				return fromRead(x.X, d+1)
			case *ssa.MakeInterface:
				return fromRead(x.X, d+1)
			case *ssa.BinOp:
				return fromRead(x.X, d+1) || fromRead(x.Y, d+1)
			case *ssa.Phi:
				for _, e := range x.Edges {
					if fromRead(e, d+1) {
						return true
					}
				}
			}
			return false
		}
		// the package field an argument of a channel write is taken from (directly, converted, its len(), or a method of it)
		var directField func(v ssa.Value, d int) *types.Var
		directField = func(v ssa.Value, d int) *types.Var {
			if d > 4 || v == nil {
				return nil
			}
			v = core.Strip(v)
			if f, _ := core.FieldLoad(v); f != nil {
				if _, listed := idx[f]; listed {
					return f
				}
				return nil
			}
			switch x := v.(type) {
			case *ssa.Convert:
				return directField(x.X, d+1)
			case *ssa.ChangeType:
				return directField(x.X, d+1)
			case *ssa.UnOp:
				if x.Op == token.MUL {
					return directField(x.X, d+1)
				}
			case *ssa.Slice:
				return directField(x.X, d+1)
			case *ssa.Call:
				if arg, isLen := isLenCall(x); isLen {
					return directField(arg, d+1)
				}
				if len(x.Call.Args) > 0 && !x.Call.IsInvoke() {
					return directField(x.Call.Args[0], d+1)
				}
			}
			return nil
		}

		check := func(fn *ssa.Function, what string, event func(in ssa.Instruction) *types.Var) {
			key := fmt.Sprintf("%s.%s: fields in the order of the specification", so.typ, what)
			if fn == nil || len(fn.Blocks) == 0 {
				r.Unknown("R06.9", key, token.NoPos, "no body")
				return
			}
			bad := ""
			var badPos token.Pos
			nEvents := 0
			seen := map[*types.Var]bool{}
			complete := core.EnumPaths(fn.Blocks[0], func(b *ssa.BasicBlock) bool { return false }, nil, 20000, func(pa core.Path, ended bool) {
				last, lastName := -1, ""
				for _, b := range pa.Blocks {
					for _, in := range b.Instrs {
						f := event(in)
						if f == nil {
							continue
						}
						nEvents++
						seen[f] = true
						i := idx[f]
						if i < last && bad == "" {
							bad = fmt.Sprintf("%s handles %s after %s, the specification has it before (%s): fields of equal width are exchanged on the wire although the library's own round trip still agrees", what, f.Name(), lastName, so.ref)
							badPos = in.Pos()
						}
						if i > last {
							last, lastName = i, f.Name()
						}
					}
				}
			})
			switch {
			case !complete:
				r.Unknown("R06.9", key, fn.Pos(), "too many paths")
			case nEvents == 0:
				r.Unknown("R06.9", key, fn.Pos(), "no field of the specification table is handled: the rule does not see the codec")
			case len(seen) != len(idx):
				var miss []string
				for f := range idx {
					if !seen[f] {
						miss = append(miss, f.Name())
					}
				}
				sort.Strings(miss)
				r.Unknown("R06.9", key, fn.Pos(), what+" never handles "+strings.Join(miss, ", ")+" in a way the rule recognises")
			case bad != "":
				r.Bad("R06.9", key, badPos, bad)
			default:
				r.OK("R06.9", key, fn.Pos(), "order on every path: "+strings.Join(so.fields, " "))
			}
		}
		check(pc.read, "ReadFrom", func(in ssa.Instruction) *types.Var {
			st, ok := in.(*ssa.Store)
			if !ok {
				return nil
			}
			fa, ok := st.Addr.(*ssa.FieldAddr)
			if !ok {
				return nil
			}
			f := core.FieldOfAddr(fa)
			if _, listed := idx[f]; !listed || !fromRead(st.Val, 0) {
				return nil
			}
			return f
		})
		check(pc.write, "WriteTo", func(in ssa.Instruction) *types.Var {
			c, ok := in.(*ssa.Call)
			if !ok {
				return nil
			}
			if _, isL := sb.letterOf(c); !isL || len(c.Call.Args) == 0 {
				return nil
			}
			return directField(c.Call.Args[len(c.Call.Args)-1], 0)
		})
	}
}

// R06.10: a slice that is filled with append must start empty. `x = make([]T, n)` followed by `x = append(x, v)`
// leaves n zero values in front of the appended ones (the classic make/append slip): a reader doing that returns a
// package with twice the elements and its writer then emits a different count and length than was read.
func c06AppendAfterMake(r *core.Run) {
	p := r.Prog
	n := 0
	for _, fn := range p.ModuleFuncs() {
		if fn.Pkg == nil || fn.Pkg.Pkg.Path() != core.Module+"/tds" || r.Prog.IsGenerated(fn.Pos()) {
			continue
		}
		nonEmptyMake := func(v ssa.Value) (ssa.Value, bool) {
			if ms, ok := v.(*ssa.MakeSlice); ok {
				if c, isC := core.ConstInt64(ms.Len); !isC || c != 0 {
					return ms, true
				}
			}
			if k, ok := core.MakeLen(v); ok && k != 0 {
				// make([]T, k) with a constant k is lowered to new [k]T + slice; a slice LITERAL looks the same but is initialised
				if sl, isSl := v.(*ssa.Slice); isSl {
					if al, isAl := sl.X.(*ssa.Alloc); isAl && al.Comment == "makeslice" {
						return v, true
					}
				}
			}
			return nil, false
		}
		for _, c := range core.Calls(fn) {
			call, ok := c.(*ssa.Call)
			if !ok {
				continue
			}
			bi, isB := call.Call.Value.(*ssa.Builtin)
			if !isB || bi.Name() != "append" {
				continue
			}
			n++
			base := call.Call.Args[0]
			var origin ssa.Value
			seen := map[ssa.Value]bool{}
			var walk func(v ssa.Value, d int)
			walk = func(v ssa.Value, d int) {
				if d > 6 || seen[v] || origin != nil {
					return
				}
				seen[v] = true
				if m, ok := nonEmptyMake(v); ok {
					origin = m
					return
				}
				if ph, ok := v.(*ssa.Phi); ok {
					for _, e := range ph.Edges {
						walk(e, d+1)
					}
					return
				}
				if f, b := core.FieldLoad(v); f != nil {
					// stores to the same field of the same object in this function that dominate the append
					for _, bb := range fn.Blocks {
						for _, in := range bb.Instrs {
							st, ok := in.(*ssa.Store)
							if !ok {
								continue
							}
							fa, ok := st.Addr.(*ssa.FieldAddr)
							if ok && core.FieldOfAddr(fa) == f && fa.X == b && core.Dominates(st, call) {
								if m, isM := nonEmptyMake(st.Val); isM {
									origin = m
								}
							}
						}
					}
				}
			}
			walk(base, 0)
			if origin != nil {
				r.Bad("R06.10", core.FuncName(fn)+": append to "+core.KExpr(base), call.Pos(), "append to a slice that was made with a non-zero length ("+core.Expr(origin)+" at "+p.Pos(origin.Pos())+"): the result starts with that many zero values, so a package read this way carries more elements than were on the wire and is written back with a different count and length")
			}
		}
	}
	r.Check(n > 0, "R06.10", "slices filled by append start empty", token.NoPos, fmt.Sprintf("%d append calls in package tds, none onto a slice made with a non-zero length", n), "no append calls seen")
}

// R06.12: reader and writer of one package agree on the ORDER of the package's fields (no specification needed): if
// ReadFrom assigns field f from the wire before field g on every path where it handles both, WriteTo must not hand g
// to the channel before f on every path where it handles both. E-SHAPE cannot see this for fields of equal width.
func c06OrderAgreement(r *core.Run, ef *errFlow, pkgs []pkgCodec) {
	p := r.Prog
	sb := newShapeBuilder(p, ef)
	n := 0
	for i := range pkgs {
		pc := &pkgs[i]
		if pc.read == nil || pc.write == nil || len(pc.read.Blocks) == 0 || len(pc.write.Blocks) == 0 {
			continue
		}
		st, ok := pc.named.Underlying().(*types.Struct)
		if !ok || st.NumFields() < 2 {
			continue
		}
		own := map[*types.Var]bool{}
		for j := 0; j < st.NumFields(); j++ {
			own[st.Field(j)] = true
		}
		var fromRead func(v ssa.Value, d int) bool
		fromRead = func(v ssa.Value, d int) bool {
			if d > 5 || v == nil {
				return false
			}
			switch x := v.(type) {
			case *ssa.Extract:
				return fromRead(x.Tuple, d+1)
			case *ssa.Call:
				if _, isL := sb.letterOf(x); isL {
					return true
				}
				for _, a := range x.Call.Args {
					if fromRead(a, d+1) {
						return true
					}
				}
			case *ssa.Convert:
				return fromRead(x.X, d+1)
			case *ssa.ChangeType:
				return fromRead(x.X, d+1)
			case *ssa.MakeInterface:
				return fromRead(x.X, d+1)
			case *ssa.Phi:
				for _, e := range x.Edges {
					if fromRead(e, d+1) {
						return true
					}
				}
			}
			return false
		}
		var directField func(v ssa.Value, d int) *types.Var
		directField = func(v ssa.Value, d int) *types.Var {
			if d > 4 || v == nil {
				return nil
			}
			v = core.Strip(v)
			if f, _ := core.FieldLoad(v); f != nil {
				if own[f] {
					return f
				}
				return nil
			}
			switch x := v.(type) {
			case *ssa.Convert:
				return directField(x.X, d+1)
			case *ssa.ChangeType:
				return directField(x.X, d+1)
			case *ssa.UnOp:
				if x.Op == token.MUL {
					return directField(x.X, d+1)
				}
			case *ssa.Call:
				if len(x.Call.Args) > 0 && !x.Call.IsInvoke() {
					if _, isLen := isLenCall(x); !isLen {
						return directField(x.Call.Args[0], d+1)
					}
				}
			}
			return nil
		}
		// before[f][g]: on some path f's first event precedes g's first event
		// always[fn]: the fields handled on EVERY success path (nil-error return, no error edge taken)
		always := map[*ssa.Function]map[*types.Var]bool{}
		pairs := func(fn *ssa.Function, event func(in ssa.Instruction) *types.Var) (map[[2]*types.Var]bool, bool) {
			before := map[[2]*types.Var]bool{}
			complete := core.EnumPaths(fn.Blocks[0], func(b *ssa.BasicBlock) bool { return false }, nil, 20000, func(pa core.Path, ended bool) {
				var seq []*types.Var
				seen := map[*types.Var]bool{}
				defer func() {
					last := pa.Blocks[len(pa.Blocks)-1]
					ret, isRet := last.Instrs[len(last.Instrs)-1].(*ssa.Return)
					if !isRet || !successPath(pa) {
						return
					}
					if rv := core.RetVals(ret); len(rv) == 0 || (!core.IsNil(rv[len(rv)-1]) && freshError(rv[len(rv)-1])) {
						return
					} else if !core.IsNil(rv[len(rv)-1]) {
						// `return ch.WriteX(...)`: the tail call's own result — a success path when that call succeeds
						if _, isCall := rv[len(rv)-1].(*ssa.Call); !isCall {
							return
						}
					}
					if always[fn] == nil {
						always[fn] = map[*types.Var]bool{}
						for f := range seen {
							always[fn][f] = true
						}
						return
					}
					for f := range always[fn] {
						if !seen[f] {
							delete(always[fn], f)
						}
					}
				}()
				for _, b := range pa.Blocks {
					for _, in := range b.Instrs {
						if f := event(in); f != nil && !seen[f] {
							seen[f] = true
							seq = append(seq, f)
						}
					}
				}
				for a := 0; a < len(seq); a++ {
					for b := a + 1; b < len(seq); b++ {
						before[[2]*types.Var{seq[a], seq[b]}] = true
					}
				}
			})
			return before, complete
		}
		rd, c1 := pairs(pc.read, func(in ssa.Instruction) *types.Var {
			st, ok := in.(*ssa.Store)
			if !ok {
				return nil
			}
			fa, ok := st.Addr.(*ssa.FieldAddr)
			if !ok {
				return nil
			}
			f := core.FieldOfAddr(fa)
			if !own[f] || !fromRead(st.Val, 0) {
				return nil
			}
			return f
		})
		wr, c2 := pairs(pc.write, func(in ssa.Instruction) *types.Var {
			c, ok := in.(*ssa.Call)
			if !ok {
				return nil
			}
			if l, isL := sb.letterOf(c); !isL || len(c.Call.Args) == 0 || l == "S" && false {
				return nil
			}
			return directField(c.Call.Args[len(c.Call.Args)-1], 0)
		})
		if !c1 || !c2 || len(rd) == 0 || len(wr) == 0 {
			continue // too many paths, or one side handles fewer than two recognisable fields
		}
		n++
		key := pc.name
		if pc.variant != nil {
			key += " (all variants)"
		}
		bad := ""
		for pr := range rd {
			rev := [2]*types.Var{pr[1], pr[0]}
			if rd[rev] || !wr[rev] || wr[pr] {
				continue
			}
			bad = fmt.Sprintf("ReadFrom takes %s from the wire before %s, WriteTo sends %s before %s: two fields change places between writing and reading (invisible to the width comparison when they are equally wide)", pr[0].Name(), pr[1].Name(), pr[1].Name(), pr[0].Name())
		}
		r.Check(bad == "", "R06.12", key+": reader and writer handle the fields in the same order", pc.write.Pos(), fmt.Sprintf("%d ordered field pairs of the reader, none reversed by the writer", len(rd)), bad)
		// R06.14: what the writer sends unconditionally the reader takes unconditionally
		if always[pc.write] != nil && always[pc.read] != nil {
			bad14 := ""
			for f := range always[pc.write] {
				if !always[pc.read][f] {
					bad14 = "WriteTo sends " + f.Name() + " on every path, ReadFrom assigns it only on some: for the inputs on the other paths the value that was written (and consumed from the wire) is dropped, so reading back what was written does not reproduce the package"
				}
			}
			var names []string
			for f := range always[pc.write] {
				names = append(names, f.Name())
			}
			sort.Strings(names)
			r.Check(bad14 == "", "R06.14", key+": fields written unconditionally are read unconditionally", pc.read.Pos(), "unconditional on both sides: "+strings.Join(names, " "), bad14)
		}
	}
	if n == 0 {
		r.Unknown("R06.12", "reader/writer field order", token.NoPos, "no package with two recognisable fields on both sides")
	}
}

// R06.13: two tables describe the width of a fixed-length data type — asetypes.ByteSizes (what GoValue/Bytes and the
// readers use) and the setMaxLength constant of the type's arm in LookupFieldFmt (what fieldData.writeTo hands to
// DataType.Bytes as the width to produce). For every type listed in ByteSizes the two must agree; a fixed-length
// format carries no length on the wire, so a writer that uses a different width shifts everything that follows.
func c06WidthTables(r *core.Run) {
	p := r.Prog
	apk := p.Pkg("asetypes")
	tpk := p.Pkg("tds")
	cl, _ := findVarLit(apk, "ByteSizes")
	if cl == nil {
		r.Unknown("R06.13", "asetypes.ByteSizes", token.NoPos, "literal not found")
		return
	}
	ents, ok := mapLitEntries(apk, cl)
	if !ok {
		r.Unknown("R06.13", "asetypes.ByteSizes", cl.Pos(), "not a table of constants")
		return
	}
	size := map[string]constant.Value{}
	for _, e := range ents {
		if e.KeyObj != nil {
			size[e.KeyObj.Name()] = e.Val
		}
	}
	fd := funcDecl(tpk, p.Obj("tds", "LookupFieldFmt"))
	if fd == nil || fd.Body == nil {
		r.Unknown("R06.13", "tds.LookupFieldFmt", token.NoPos, "declaration not found")
		return
	}
	n := 0
	ast.Inspect(fd.Body, func(nd ast.Node) bool {
		cc, ok := nd.(*ast.CaseClause)
		if !ok {
			return true
		}
		var names []string
		for _, e := range cc.List {
			if o := usedObj(tpk.TypesInfo, e); o != nil {
				names = append(names, o.Name())
			}
		}
		var maxLen constant.Value
		var at token.Pos
		for _, st := range cc.Body {
			ast.Inspect(st, func(x ast.Node) bool {
				call, ok := x.(*ast.CallExpr)
				if !ok {
					return true
				}
				if sel, ok := call.Fun.(*ast.SelectorExpr); ok && sel.Sel.Name == "setMaxLength" && len(call.Args) == 1 {
					if tv, has := tpk.TypesInfo.Types[call.Args[0]]; has && tv.Value != nil {
						maxLen, at = tv.Value, call.Pos()
					}
				}
				return true
			})
		}
		for _, name := range names {
			want, fixed := size[name]
			if !fixed {
				continue
			}
			n++
			key := "LookupFieldFmt: width of " + name
			switch {
			case maxLen == nil:
				r.Bad("R06.13", key, cc.Pos(), "the fixed-length type "+name+" gets no constant maximal length although asetypes.ByteSizes lists it with "+want.ExactString()+" bytes")
			case !constEq(maxLen, want):
				r.Bad("R06.13", key, at, "LookupFieldFmt gives "+name+" a length of "+maxLen.ExactString()+" bytes, asetypes.ByteSizes says "+want.ExactString()+": the value is written "+maxLen.ExactString()+" bytes wide while format and readers assume "+want.ExactString()+", and everything after it on the wire is shifted")
			default:
				r.OK("R06.13", key, at, want.ExactString()+" bytes in both tables")
			}
		}
		return true
	})
	if n == 0 {
		r.Unknown("R06.13", "LookupFieldFmt: fixed-length arms", fd.Pos(), "no arm for a type listed in ByteSizes found")
	}
}

// c06FmtTable: R06.15. LookupFieldFmt maps a data type to the format codec named after it (asetypes.BIGTIMEN ->
// BigTimeNFieldFmt; the convention holds for every arm of the reviewed tree). The codec decides which bytes follow
// the data type in a ROWFMT/PARAMFMT (length width, precision/scale, blob class id), and the library's own reader and
// writer both go through this table, so a wrong entry keeps them in agreement with each other while both disagree
// with the server.
func c06FmtTable(r *core.Run) {
	p := r.Prog
	tpk := p.Pkg("tds")
	fd := funcDecl(tpk, p.Obj("tds", "LookupFieldFmt"))
	if fd == nil || fd.Body == nil {
		r.Unknown("R06.15", "tds.LookupFieldFmt", token.NoPos, "declaration not found")
		return
	}
	n := 0
	ast.Inspect(fd.Body, func(nd ast.Node) bool {
		cc, ok := nd.(*ast.CaseClause)
		if !ok {
			return true
		}
		var names []string
		for _, e := range cc.List {
			if o := usedObj(tpk.TypesInfo, e); o != nil {
				if _, isConst := o.(*types.Const); isConst {
					names = append(names, o.Name())
				}
			}
		}
		if len(names) == 0 {
			return true
		}
		var lits []string
		var at token.Pos
		for _, st := range cc.Body {
			ast.Inspect(st, func(x ast.Node) bool {
				cl, ok := x.(*ast.CompositeLit)
				if !ok {
					return true
				}
				if tv, has := tpk.TypesInfo.Types[cl]; has {
					if nt, isN := tv.Type.(*types.Named); isN && strings.HasSuffix(nt.Obj().Name(), "FieldFmt") {
						lits = append(lits, strings.TrimSuffix(nt.Obj().Name(), "FieldFmt"))
						at = cl.Pos()
					}
				}
				return true
			})
		}
		for _, name := range names {
			n++
			key := "LookupFieldFmt: codec of " + name
			switch {
			case len(lits) == 0:
				r.Bad("R06.15", key, cc.Pos(), "the arm for "+name+" creates no field format")
			case len(lits) > 1 || !strings.EqualFold(lits[0], name):
				r.Bad("R06.15", key, at, "the data type "+name+" is given the format codec "+strings.Join(lits, "/")+"FieldFmt, not the one named after it: the bytes that follow the type in ROWFMT/PARAMFMT (length width, scale, precision, class id) are read and written as those of another type — the library agrees with itself and disagrees with the server")
			default:
				r.OK("R06.15", key, at, lits[0]+"FieldFmt")
			}
		}
		return true
	})
	if n == 0 {
		r.Unknown("R06.15", "LookupFieldFmt: arms", fd.Pos(), "no arm found")
	}
}
