package props

import (
	"fmt"
	"go/token"
	"sort"
	"strings"

	"dblint/internal/core"

	"golang.org/x/tools/go/ssa"
)

// R06.7 write-side length formula: for writers whose body after the length
// prefix is straight-line (only error checks branch), the value written as
// the length prefix, as a linear form const + Σ len(field), must equal the
// sum of the widths written after it.

type linForm struct {
	c     int64
	terms map[string]int
	ok    bool
	why   string
}

func lenTermKey(fn *ssa.Function, v ssa.Value) (string, bool) {
	v = core.Strip(v)
	if cv, ok := v.(*ssa.Convert); ok {
		v = cv.X
	}
	root, path, ok := accessPath(v)
	if !ok || path == "" {
		return "", false
	}
	return rootKey(fn, root) + "." + path, true
}

func linearOf(fn *ssa.Function, v ssa.Value, d int) linForm {
	lf := linForm{terms: map[string]int{}, ok: true}
	if d > 12 {
		return linForm{why: "expression too deep"}
	}
	if c, ok := core.ConstInt64(v); ok {
		lf.c = c
		return lf
	}
	switch x := v.(type) {
	case *ssa.Convert:
		return linearOf(fn, x.X, d+1)
	case *ssa.BinOp:
		if x.Op != token.ADD {
			return linForm{why: "operator " + x.Op.String()}
		}
		a, b := linearOf(fn, x.X, d+1), linearOf(fn, x.Y, d+1)
		if !a.ok {
			return a
		}
		if !b.ok {
			return b
		}
		a.c += b.c
		for k, n := range b.terms {
			a.terms[k] += n
		}
		return a
	case *ssa.Call:
		if arg, isLen := isLenCall(x); isLen {
			if k, ok := lenTermKey(fn, arg); ok {
				lf.terms[k] = 1
				return lf
			}
			return linForm{why: "len of " + core.Expr(arg)}
		}
	}
	return linForm{why: "term " + core.Expr(v)}
}

func (l linForm) String() string {
	var ts []string
	for k, n := range l.terms {
		if n == 1 {
			ts = append(ts, "len("+k+")")
		} else {
			ts = append(ts, fmt.Sprintf("%d*len(%s)", n, k))
		}
	}
	sort.Strings(ts)
	return strings.TrimSuffix(fmt.Sprintf("%d + %s", l.c, strings.Join(ts, " + ")), " + ")
}

func c06LengthFormula(r *core.Run, ef *errFlow, pkgs []pkgCodec) {
	p := r.Prog
	sb := newShapeBuilder(p, ef)
	for _, pc := range pkgs {
		if pc.variant != nil {
			continue // width of the prefix depends on the variant; not covered
		}
		fn := pc.write
		// follow the success path from the entry; collect writes; bail out on any branch that is not an error check
		b := fn.Blocks[0]
		seen := map[*ssa.BasicBlock]bool{}
		var writes []*ssa.Call
		straight := true
		reason := ""
	walk:
		for b != nil && !seen[b] {
			seen[b] = true
			for _, in := range b.Instrs {
				switch x := in.(type) {
				case *ssa.Call:
					if _, isL := sb.letterOf(x); isL {
						writes = append(writes, x)
					} else if sb.takesChannel(x) {
						straight, reason = false, "delegates to "+calleeKey(x)
						break walk
					}
				case *ssa.If:
					if _, nn, ok := core.ErrNilTest(x.Cond); ok {
						if nn {
							b = b.Succs[1]
						} else {
							b = b.Succs[0]
						}
						continue walk
					}
					// a trailing consistency check `if n != length { return error }` after all writes is fine
					after := false
					for _, s := range b.Succs {
						for bb := range dominatedRegion(s) {
							for _, in2 := range bb.Instrs {
								if c, ok := in2.(*ssa.Call); ok {
									if _, isL := sb.letterOf(c); isL {
										after = true
									}
								}
							}
						}
					}
					if after {
						straight, reason = false, "writes under a data-dependent branch"
						break walk
					}
					b = nil
					continue walk
				case *ssa.Jump:
					b = b.Succs[0]
					continue walk
				case *ssa.Return:
					b = nil
					continue walk
				}
			}
			break
		}
		if !straight || len(writes) < 3 {
			if reason != "" {
				r.Note("R06.7 not applicable to %s: %s", pc.name, reason)
			}
			continue
		}
		// writes[0] = token, writes[1] = length prefix (2 or 4 bytes of a computed int)
		l0, _ := sb.letterOf(writes[0])
		l1, _ := sb.letterOf(writes[1])
		if l0 != "1" || (l1 != "2" && l1 != "4") {
			continue
		}
		arg := writes[1].Call.Args[len(writes[1].Call.Args)-1]
		declared := linearOf(fn, arg, 0)
		if !declared.ok || (len(declared.terms) == 0 && declared.c == 0) {
			continue // the second field is not a computed length (e.g. a plain value)
		}
		if _, isConst := core.ConstInt64(core.Strip(arg)); isConst && len(writes) == 3 {
			// `length = k` followed by one k-byte field is covered below as well
		}
		actual := linForm{terms: map[string]int{}, ok: true}
		for _, w := range writes[2:] {
			l, _ := sb.letterOf(w)
			switch l {
			case "1", "2", "4", "8":
				actual.c += widthOfLetter(l)
			case "S":
				a := w.Call.Args[len(w.Call.Args)-1]
				k, ok := lenTermKey(fn, a)
				if !ok {
					actual.ok, actual.why = false, "variable field "+core.Expr(a)
				} else {
					actual.terms[k]++
				}
			default:
				actual.ok, actual.why = false, "field codec "+l
			}
		}
		key := pc.name + ": declared length = bytes written after it"
		if !actual.ok {
			r.Note("R06.7 not applicable to %s: %s", pc.name, actual.why)
			continue
		}
		same := declared.c == actual.c && len(declared.terms) == len(actual.terms)
		for k, n := range declared.terms {
			if actual.terms[k] != n {
				same = false
			}
		}
		r.Check(same, "R06.7", key, writes[1].Pos(),
			"length prefix = "+declared.String()+" = sum of the widths written after it",
			"the length prefix is written as "+declared.String()+" but the fields written after it take "+actual.String()+" bytes: the reader's own length check rejects what the writer produced")
	}
}
