package props

import (
	"fmt"
	"go/token"
	"go/types"
	"sort"
	"strings"

	"dblint/internal/core"

	"golang.org/x/tools/go/ssa"
)

func init() {
	register(&Spec{ID: "C19", Title: "A version has a capability exactly inside the capability's ranges", Run: runC19,
		Meta: core.Meta{
			Explanation: "R19.12: NewDefaultVersion stores its parameter as the specification; DefaultVersion.Has returns the map lookup itself. R19.11: in Target.Version the non-nil edge of SetCapabilities' error leads to error returns only. R19.10: in NewCapability the bounds Introduced/Removed are stored into the local range only, never into an element of VersionRanges. R19.9: in SetCapabilities and contains the non-nil edge of the test of every comparer call's error leads to returns of a non-nil error only. R19.8: DefaultVersion.VersionString returns the spec field itself. R19.4 (second clause): every error-free answer of VersionCompareSemantic is NewVersion(a).Compare(NewVersion(b)) on the parsed values themselves, not on a projection such as Core(). R19.1 (E-ABS, finite-domain abstract evaluation): VersionRange.contains uses its string inputs only through `== \"\"` tests and through the comparer, and the comparer's results only through comparisons with 0 and nil (checked by def-use; any other use makes the obligation undecided). Under that premise the function is a finite decision table over the abstract inputs (Introduced empty?, Removed empty?, outcome of cmp(Introduced, version) ∈ {<0, 0, >0, error}, outcome of cmp(version, Removed) ∈ {<0, 0, >0, error}); the engine walks the loop-free SSA under each of the 64 abstract inputs (every branch is determinate) and compares the result with the property's own table: both empty → false; a needed comparison fails → error; otherwise (no lower ∨ lower ≤ version) ∧ (no upper ∨ version < upper). The argument order of each comparer call is part of the abstraction. R19.2 (SetCapabilities): SetCapability(cap, true) only on the contains == true edge; SetCapability(cap, false) only on the other; the loop over a capability's ranges is left early ONLY after SetCapability(cap, true) (any other early exit makes the answer depend on the order of ranges); for ranges with both bounds the comparer error and the `i >= 0` (inverted or zero-width) edges return errors before contains is called; contains' error is returned; a nil comparer defaults to VersionCompareSemantic. R19.3: DefaultVersion.Has is a comma-ok lookup that answers false when absent. R19.7: DefaultVersion.SetCapability stores its bool parameter under its capability parameter in the map on every path (dropping `false` would let a stale `true` of an earlier evaluation of the same Version survive). R19.4: VersionCompareSemantic answers without error only after BOTH version strings were parsed successfully (no shortcut that lets an unparsable version through). R19.6: SetCapabilities, contains, VersionCompareSemantic and Has read and write no package-level variable (a cache of earlier evaluations would make the outcome of evaluating a range depend on history instead of on the range and the version). R19.5: NewCapability pairs its version strings by argument position — Introduced is assigned only on the even-index edge of i%2, Removed only on the odd-index edge.",
			NotDecided:  "The semantic-version library itself and NewCapability's pairing of strings are not decided.",
			Assumptions: []string{"the comparer is a pure function of its two arguments"},
		}})
}

func runC19(r *core.Run) {
	r.Rule("R19.1", "contains() equals the property's decision table on all 64 abstract inputs (E-ABS)", 64, false)
	r.Rule("R19.2", "SetCapabilities: first containing range wins, nothing else ends the range loop, invalid ranges are errors", 6, false)
	r.Rule("R19.3", "Has answers false for capabilities that were never set", 1, false)
	r.Rule("R19.7", "SetCapability records every answer, true or false (a re-evaluation overwrites the earlier answer)", 1, false)
	defer c19SetStores(r)
	r.Rule("R19.4", "the default comparer parses both versions before answering and compares the parsed versions themselves", 2, false)
	defer c19ComparesParsed(r)
	r.Rule("R19.6", "the answer depends only on the inputs: no package-level state is consulted", 4, false)
	r.Rule("R19.5", "NewCapability pairs version strings by argument position (even = lower bound, odd = upper bound)", 2, false)
	r.Rule("R19.8", "the comparer is asked about the specification the version was created with", 1, false)
	defer c19SpecUnchanged(r)
	r.Rule("R19.9", "an error of the comparer ends the evaluation with an error", 1, false)
	defer comparerErrorsReturned(r, "R19.9")
	r.Rule("R19.10", "NewCapability never modifies a range that is already in the list", 1, false)
	defer rangesNeverEdited(r, "R19.10")
	r.Rule("R19.11", "Target.Version fails when the evaluation fails", 1, false)
	defer func() {
		r.Rule("R19.12", "a version is evaluated and answered as given: the constructor stores the specification, Has returns the record", 2, false)
		defer specStoredAsGiven(r, "R19.12")
		defer hasIsTheRecord(r, "R19.12")
		p := r.Prog
		fn := p.Func("capability", "Target", "Version")
		for _, c := range callsTo(fn, p.Func("capability", "Target", "SetCapabilities")) {
			errEdgeReturnsError(r, "R19.11", "Target.Version: error of SetCapabilities", fn, c, "a version or bound the target's comparer cannot handle, or a range that is inverted in its ordering, gets a silent answer (computed some other way)")
			break
		}
	}()
	c19Contains(r)
	c19Set(r)
	c19Has(r)
	c19Comparer(r)
	c19Pairing(r)
	c19Stateless(r)
}

type absOutcome int

const (
	oLess absOutcome = iota
	oZero
	oGreater
	oErr
)

func (o absOutcome) String() string { return [...]string{"<0", "=0", ">0", "error"}[o] }

// c19Contains: abstract evaluation of VersionRange.contains.
func c19Contains(r *core.Run) {
	p := r.Prog
	fn := p.Func("capability", "VersionRange", "contains")
	fIntro := p.Field("capability", "VersionRange", "Introduced")
	fRem := p.Field("capability", "VersionRange", "Removed")
	if len(fn.Params) != 3 {
		r.Unknown("R19.1", "contains: signature", fn.Pos(), "unexpected parameters")
		return
	}
	cmp, version := fn.Params[1], fn.Params[2]

	// classify string values
	strKind := func(v ssa.Value) string {
		if v == ssa.Value(version) {
			return "V"
		}
		f, _ := core.FieldLoad(v)
		switch f {
		case fIntro:
			return "I"
		case fRem:
			return "R"
		}
		return ""
	}
	// premise: def-use of strings and comparer results
	premise := ""
	for _, b := range fn.Blocks {
		for _, in := range b.Instrs {
			v, ok := in.(ssa.Value)
			if !ok || strKind(v) == "" {
				continue
			}
			if bt, isB := v.Type().Underlying().(*types.Basic); !isB || bt.Kind() != types.String {
				continue
			}
			for _, ref := range *v.Referrers() {
				switch u := ref.(type) {
				case *ssa.BinOp:
					c, isC := u.Y.(*ssa.Const)
					if !(isC && c.Value != nil && c.Value.ExactString() == `""` && (u.Op == token.EQL || u.Op == token.NEQ)) {
						premise = "a version string is compared with something other than the empty string: " + core.Expr(u)
					}
				case *ssa.Call:
					if u.Call.Value != ssa.Value(cmp) && !core.IsPkgFunc(u, "fmt", "Errorf") {
						premise = "a version string is passed to " + core.Expr(u)
					}
				case *ssa.MakeInterface, *ssa.DebugRef:
				default:
					premise = fmt.Sprintf("a version string is used by %T", ref)
				}
			}
		}
	}
	for _, ref := range *version.Referrers() {
		switch u := ref.(type) {
		case *ssa.Call:
			if u.Call.Value != ssa.Value(cmp) && !core.IsPkgFunc(u, "fmt", "Errorf") {
				premise = "the version is passed to " + core.Expr(u)
			}
		case *ssa.MakeInterface, *ssa.DebugRef:
		default:
			premise = fmt.Sprintf("the version is used by %T", ref)
		}
	}
	if premise != "" {
		r.Unknown("R19.1", "contains: inputs used only through comparisons", fn.Pos(), premise+" — the finite abstraction does not apply")
		return
	}

	// abstract evaluation
	type env struct {
		iEmpty, rEmpty bool
		lower, upper   absOutcome
	}
	type result struct {
		val  string // "true","false","error","?"
		note string
	}
	eval := func(e env) result {
		vals := map[ssa.Value]interface{}{} // bool, int-sign(absOutcome for ints), "err"/"nil"
		b := fn.Blocks[0]
		var prev *ssa.BasicBlock
		for steps := 0; steps < 200; steps++ {
			for _, in := range b.Instrs {
				switch x := in.(type) {
				case *ssa.Phi:
					for i, pr := range b.Preds {
						if pr == prev {
							vals[x] = absVal(vals, x.Edges[i])
						}
					}
				case *ssa.BinOp:
					l, rr := absVal(vals, x.X), absVal(vals, x.Y)
					// string == ""
					if k := strKind(x.X); k != "" {
						if c, ok := x.Y.(*ssa.Const); ok && c.Value != nil && c.Value.ExactString() == `""` {
							empty := (k == "I" && e.iEmpty) || (k == "R" && e.rEmpty)
							if k == "V" {
								return result{"?", "the version itself is tested for emptiness"}
							}
							vals[x] = (x.Op == token.EQL) == empty
							continue
						}
					}
					// error vs nil
					if core.IsErrorType(x.X.Type()) && core.IsNil(x.Y) {
						isErr := l == "err"
						vals[x] = (x.Op == token.NEQ) == isErr
						continue
					}
					// int vs 0
					if lo, ok := l.(absOutcome); ok {
						if c, isC := core.ConstInt64(x.Y); isC && c == 0 {
							var res bool
							switch x.Op {
							case token.LSS:
								res = lo == oLess
							case token.LEQ:
								res = lo == oLess || lo == oZero
							case token.GTR:
								res = lo == oGreater
							case token.GEQ:
								res = lo == oGreater || lo == oZero
							case token.EQL:
								res = lo == oZero
							case token.NEQ:
								res = lo != oZero
							default:
								return result{"?", "unsupported operator " + x.Op.String()}
							}
							vals[x] = res
							continue
						}
					}
					if lb, ok := l.(bool); ok {
						if rb, ok2 := rr.(bool); ok2 {
							switch x.Op {
							case token.AND, token.LAND:
								vals[x] = lb && rb
								continue
							case token.OR, token.LOR:
								vals[x] = lb || rb
								continue
							case token.EQL:
								vals[x] = lb == rb
								continue
							case token.NEQ:
								vals[x] = lb != rb
								continue
							}
						}
					}
					return result{"?", "unsupported comparison " + core.Expr(x)}
				case *ssa.UnOp:
					if x.Op == token.NOT {
						if bv, ok := absVal(vals, x.X).(bool); ok {
							vals[x] = !bv
							continue
						}
					}
					// loads: fields / allocs handled lazily
				case *ssa.Call:
					if x.Call.Value == ssa.Value(cmp) {
						a0, a1 := strKind(x.Call.Args[0]), strKind(x.Call.Args[1])
						var out absOutcome
						switch {
						case a0 == "I" && a1 == "V":
							out = e.lower
						case a0 == "V" && a1 == "I":
							out = flipOutcome(e.lower)
						case a0 == "V" && a1 == "R":
							out = e.upper
						case a0 == "R" && a1 == "V":
							out = flipOutcome(e.upper)
						default:
							return result{"?", "comparer called with unexpected arguments " + core.Expr(x)}
						}
						if (a0 == "I" || a1 == "I") && e.iEmpty {
							return result{"?", "the comparer is called with an empty lower bound"}
						}
						if (a0 == "R" || a1 == "R") && e.rEmpty {
							return result{"?", "the comparer is called with an empty upper bound"}
						}
						vals[x] = []interface{}{out}
						continue
					}
					if core.IsPkgFunc(x, "fmt", "Errorf") {
						vals[x] = "err"
						continue
					}
					return result{"?", "unsupported call " + core.Expr(x)}
				case *ssa.Extract:
					if t, ok := vals[x.Tuple].([]interface{}); ok {
						out := t[0].(absOutcome)
						if x.Index == 0 {
							if out == oErr {
								vals[x] = oZero // value is irrelevant on error
							} else {
								vals[x] = out
							}
						} else {
							if out == oErr {
								vals[x] = "err"
							} else {
								vals[x] = "nil"
							}
						}
					}
				case *ssa.If:
					c, ok := absVal(vals, x.Cond).(bool)
					if !ok {
						return result{"?", "branch on a value outside the abstraction: " + core.Expr(x.Cond)}
					}
					prev = b
					if c {
						b = b.Succs[0]
					} else {
						b = b.Succs[1]
					}
					goto next
				case *ssa.Jump:
					prev = b
					b = b.Succs[0]
					goto next
				case *ssa.Return:
					rv := core.RetVals(x)
					if ev := absVal(vals, rv[1]); ev == "err" {
						return result{"error", ""}
					}
					if bv, ok := absVal(vals, rv[0]).(bool); ok {
						if bv {
							return result{"true", ""}
						}
						return result{"false", ""}
					}
					return result{"?", "returned value outside the abstraction: " + core.Expr(rv[0])}
				}
			}
			return result{"?", "fell off a block"}
		next:
		}
		return result{"?", "loop (the function is not loop-free)"}
	}
	outs := []absOutcome{oLess, oZero, oGreater, oErr}
	mism := 0
	for _, ie := range []bool{true, false} {
		for _, re := range []bool{true, false} {
			for _, lo := range outs {
				for _, up := range outs {
					e := env{ie, re, lo, up}
					want := "false"
					switch {
					case ie && re:
						want = "false"
					case (!ie && lo == oErr) || (!re && up == oErr):
						want = "error"
					default:
						lowOK := ie || lo == oLess || lo == oZero // Introduced <= version
						upOK := re || up == oLess                 // version < Removed
						if lowOK && upOK {
							want = "true"
						}
					}
					got := eval(e)
					key := fmt.Sprintf("contains[lowerEmpty=%v upperEmpty=%v cmp(lower,v)%s cmp(v,upper)%s]", ie, re, lo, up)
					switch {
					case got.val == "?":
						mism++
						r.Unknown("R19.1", key, fn.Pos(), got.note)
					case got.val == want:
						r.OK("R19.1", key, fn.Pos(), "= "+want)
					case want == "error" && got.val != "error" && ((ie && lo == oErr) || (re && up == oErr)):
						r.OK("R19.1", key, fn.Pos(), "= "+got.val+" (the failing comparison is not needed)")
					default:
						mism++
						r.Bad("R19.1", key, fn.Pos(), "contains answers "+got.val+", the property's table says "+want)
					}
				}
			}
		}
	}
	r.Stats["contains_table_mismatches"] = mism
}

func flipOutcome(o absOutcome) absOutcome {
	switch o {
	case oLess:
		return oGreater
	case oGreater:
		return oLess
	}
	return o
}

func absVal(vals map[ssa.Value]interface{}, v ssa.Value) interface{} {
	if x, ok := vals[v]; ok {
		return x
	}
	if c, ok := v.(*ssa.Const); ok {
		if c.Value == nil {
			if core.IsErrorType(c.Type()) {
				return "nil"
			}
			return nil
		}
		switch c.Value.ExactString() {
		case "true":
			return true
		case "false":
			return false
		}
		if i, ok := core.ConstInt64(c); ok {
			switch {
			case i < 0:
				return oLess
			case i == 0:
				return oZero
			default:
				return oGreater
			}
		}
	}
	return nil
}

func c19Set(r *core.Run) {
	p := r.Prog
	fn := p.Func("capability", "Target", "SetCapabilities")
	contains := p.Func("capability", "VersionRange", "contains")
	semantic := p.Func("capability", "", "VersionCompareSemantic")
	calls := callsTo(fn, contains)
	if len(calls) != 1 {
		r.Unknown("R19.2", "SetCapabilities: contains call", fn.Pos(), "expected one call of contains")
		return
	}
	cc := calls[0]
	var containsVal ssa.Value
	for _, ref := range *cc.Value().Referrers() {
		if ex, ok := ref.(*ssa.Extract); ok && ex.Index == 0 {
			containsVal = ex
		}
	}
	// SetCapability invokes
	var setTrue, setFalse, setByValue []*ssa.Call
	for _, c := range core.Calls(fn) {
		call, ok := c.(*ssa.Call)
		if !ok || !call.Call.IsInvoke() || call.Call.Method.Name() != "SetCapability" {
			continue
		}
		if call.Call.Args[1] == containsVal && containsVal != nil {
			setByValue = append(setByValue, call) // SetCapability(cap, contains): true exactly when the range contains the version
			continue
		}
		b, isC := call.Call.Args[1].(*ssa.Const)
		if !isC || b.Value == nil {
			r.Bad("R19.2", "SetCapabilities: SetCapability with a constant", call.Pos(), "SetCapability is called with a value other than true/false constants or the result of contains")
			continue
		}
		if b.Value.ExactString() == "true" {
			setTrue = append(setTrue, call)
		} else {
			setFalse = append(setFalse, call)
		}
	}
	guarded := func(c *ssa.Call, pol bool) bool {
		for _, g := range core.GuardsAt(c) {
			if g.Cond == containsVal && g.Pol == pol {
				return true
			}
		}
		return false
	}
	okT := len(setTrue) == 1 && guarded(setTrue[0], true) && errNilGuard(core.GuardsAt(setTrue[0]), cc)
	if len(setTrue) == 0 && len(setByValue) == 1 && errNilGuard(core.GuardsAt(setByValue[0]), cc) {
		okT = true
	}
	r.Check(okT, "R19.2", "SetCapabilities: true only when a range contains the version", fn.Pos(), "SetCapability(cap, true) on the contains == true edge, error nil", "a capability is reported although no range was found to contain the version")
	okF := true
	for _, c := range setFalse {
		if !guarded(c, false) {
			okF = false
		}
	}
	r.Check(okF, "R19.2", "SetCapabilities: false only when the range does not contain the version", fn.Pos(), "SetCapability(cap, false) on the contains == false edge", "a capability is cleared on the edge where the range contains the version")

	// the inner loop is left early only after SetCapability(true)
	_, inner := core.InnermostLoop(cc.Block())
	okExit, whyExit := inner != nil, "contains is not evaluated in a loop over the capability's ranges"
	if inner != nil {
		var h *ssa.BasicBlock
		h, _ = core.InnermostLoop(cc.Block())
		for b := range inner {
			for _, s := range b.Succs {
				if inner[s] {
					continue
				}
				if b == h {
					continue // exhaustion
				}
				// early exit: either a return of a non-nil error, or dominated by SetCapability(true)
				if ret, isRet := s.Instrs[len(s.Instrs)-1].(*ssa.Return); isRet {
					rv := core.RetVals(ret)
					if !core.IsNil(rv[len(rv)-1]) {
						continue
					}
				}
				fromTrue := false
				for _, c := range setTrue {
					if c.Block() == b || c.Block().Dominates(b) || c.Block() == s {
						fromTrue = true
					}
				}
				// or the exit edge itself is the contains == true edge (SetCapability(cap, contains); if contains { break })
				for _, g := range core.GuardsOnEdge(b, s) {
					if g.Cond == containsVal && g.Pol && len(setByValue) > 0 {
						for _, c := range setByValue {
							if c.Block() == b || c.Block().Dominates(b) {
								fromTrue = true
							}
						}
					}
				}
				if !fromTrue {
					okExit, whyExit = false, "the loop over a capability's ranges can be left early without a containing range having been found (at "+p.Pos(b.Instrs[len(b.Instrs)-1].Pos())+"): ranges listed later are never evaluated, so the answer depends on the order of ranges"
				}
			}
		}
	}
	r.Check(okExit, "R19.2", "SetCapabilities: only a containing range ends the range loop early", fn.Pos(), "early exits: error returns, or break after SetCapability(cap, true)", whyExit)

	// ... and a containing range DOES end it: once true was recorded no later range of the same capability may be
	// evaluated (its SetCapability(cap, false) would overwrite the answer, so the last range would decide)
	okStop, whyStop := true, ""
	if inner != nil {
		ih, _ := core.InnermostLoop(cc.Block())
		for _, c := range setTrue {
			// is the header of the range loop reachable from the call without leaving the loop?
			seen := map[*ssa.BasicBlock]bool{}
			var walk func(b *ssa.BasicBlock) bool
			walk = func(b *ssa.BasicBlock) bool {
				if b == ih {
					return true
				}
				if seen[b] || !inner[b] {
					return false
				}
				seen[b] = true
				for _, s := range b.Succs {
					if walk(s) {
						return true
					}
				}
				return false
			}
			for _, s := range c.Block().Succs {
				if walk(s) {
					okStop, whyStop = false, "after SetCapability(cap, true) the loop over the capability's ranges goes on: a later range that does not contain the version records false over the true, so a version inside one range but outside a later one is reported as not having the capability"
				}
			}
		}
	}
	r.Check(okStop, "R19.2", "SetCapabilities: a containing range ends the range loop", fn.Pos(), "no way back to the range loop's head after SetCapability(cap, true)", whyStop)

	// invalid ranges: comparer call on (Introduced, Removed) with error → return; i >= 0 → return error; both before contains
	fIntro := p.Field("capability", "VersionRange", "Introduced")
	fRem := p.Field("capability", "VersionRange", "Removed")
	okInv, whyInv := false, "no check of lower against upper bound before contains"
	// the check may live in a helper that SetCapabilities calls before contains and whose error it returns
	// (one level); inside the helper the comparer must be one of its parameters (the target's comparer handed on)
	boundsFns := []*ssa.Function{fn}
	for _, c := range core.Calls(fn) {
		h := core.StaticCallee(c)
		if h == nil || h == fn || !core.InModule(h) || len(h.Blocks) == 0 {
			continue
		}
		hc, isCall := c.(*ssa.Call)
		if !isCall || !core.Dominates(hc, cc) {
			continue
		}
		if e, _ := errResult(hc); e == nil || !errNilGuard(core.GuardsAt(cc), hc) {
			continue
		}
		boundsFns = append(boundsFns, h)
	}
	var boundCalls []ssa.CallInstruction
	for _, bf := range boundsFns {
		for _, c := range core.Calls(bf) {
			if bf != fn {
				// in a helper the comparer has to be a parameter
				if _, isParam := c.Common().Value.(*ssa.Parameter); !isParam {
					continue
				}
			}
			boundCalls = append(boundCalls, c)
		}
	}
	for _, c := range boundCalls {
		call, ok := c.(*ssa.Call)
		if !ok || call.Call.StaticCallee() != nil || call.Call.IsInvoke() || len(call.Call.Args) != 2 {
			continue
		}
		f0, _ := core.FieldLoad(call.Call.Args[0])
		f1, _ := core.FieldLoad(call.Call.Args[1])
		if f0 != fIntro || f1 != fRem {
			continue
		}
		// both results tested with error returns
		e, _ := errResult(call)
		errTested := false
		if e != nil {
			for _, ref := range *e.Referrers() {
				if bo, ok := ref.(*ssa.BinOp); ok {
					if _, _, isT := core.ErrNilTest(bo); isT {
						errTested = true
					}
				}
			}
		}
		geTested := false
		for _, ref := range *call.Referrers() {
			if ex, ok := ref.(*ssa.Extract); ok && ex.Index == 0 {
				for _, r2 := range *ex.Referrers() {
					if bo, ok := r2.(*ssa.BinOp); ok {
						if c0, isC := core.ConstInt64(bo.Y); isC && c0 == 0 && bo.Op == token.GEQ {
							for _, r3 := range *bo.Referrers() {
								if iff, ok := r3.(*ssa.If); ok {
									t := iff.Block().Succs[0]
									if ret, isRet := t.Instrs[len(t.Instrs)-1].(*ssa.Return); isRet && !core.IsNil(core.RetVals(ret)[0]) {
										geTested = true
									}
								}
							}
						}
					}
				}
			}
		}
		if errTested && geTested {
			okInv = true
		} else if !geTested {
			whyInv = "an inverted or zero-width range (lower >= upper) is not reported as an error"
		} else {
			whyInv = "the comparer's error for the range bounds is not returned"
		}
	}
	r.Check(okInv, "R19.2", "SetCapabilities: inverted/zero-width ranges and unparsable bounds are errors", fn.Pos(), "cmp(Introduced, Removed): error → return, >= 0 → return error", whyInv)
	// contains' error returned
	r.Check(func() bool {
		e, _ := errResult(cc)
		if e == nil {
			return false
		}
		for _, ref := range *e.Referrers() {
			if bo, ok := ref.(*ssa.BinOp); ok {
				if _, nn, isT := core.ErrNilTest(bo); isT {
					for _, r2 := range *bo.Referrers() {
						if iff, ok := r2.(*ssa.If); ok {
							f := iff.Block().Succs[1]
							if nn {
								f = iff.Block().Succs[0]
							}
							if ret, isRet := f.Instrs[len(f.Instrs)-1].(*ssa.Return); isRet && !core.IsNil(core.RetVals(ret)[0]) {
								return true
							}
						}
					}
				}
			}
		}
		return false
	}(), "R19.2", "SetCapabilities: contains' error is returned", cc.Pos(), "err != nil → return err", "an error from contains (unparsable version or bound) is swallowed: the capability silently gets an answer")
	// nil comparer defaults
	okDef := false
	for _, b := range fn.Blocks {
		for _, in := range b.Instrs {
			if ph, ok := in.(*ssa.Phi); ok {
				for _, e := range ph.Edges {
					if f, ok := e.(*ssa.Function); ok && f == semantic {
						okDef = true
					}
					if cf, ok := e.(*ssa.ChangeType); ok {
						if f, ok := cf.X.(*ssa.Function); ok && f == semantic {
							okDef = true
						}
					}
				}
			}
		}
	}
	r.Check(okDef, "R19.2", "SetCapabilities: nil comparer defaults to VersionCompareSemantic", fn.Pos(), "default comparer", "a nil comparer is not replaced by the semantic comparer (nil call panics)")
}

func c19Has(r *core.Run) {
	p := r.Prog
	fn := p.Func("capability", "DefaultVersion", "Has")
	fCaps := p.Field("capability", "DefaultVersion", "capabilities")
	ok := false
	var answers []string
	for _, ret := range core.Returns(fn) {
		v := core.RetVals(ret)[0]
		if c, isC := v.(*ssa.Const); isC && c.Value != nil {
			answers = append(answers, c.Value.ExactString())
			if c.Value.ExactString() == "true" {
				ok = false
				r.Bad("R19.3", "DefaultVersion.Has", ret.Pos(), "Has answers the constant true")
				return
			}
			continue
		}
		if ex, isEx := v.(*ssa.Extract); isEx && ex.Index == 0 {
			if lk, isL := ex.Tuple.(*ssa.Lookup); isL {
				if f, _ := core.FieldLoad(lk.X); f == fCaps && lk.Index == ssa.Value(fn.Params[1]) {
					ok = true
					answers = append(answers, "capabilities[cap]")
				}
			}
		}
		if lk, isL := v.(*ssa.Lookup); isL {
			if f, _ := core.FieldLoad(lk.X); f == fCaps && lk.Index == ssa.Value(fn.Params[1]) {
				ok = true
				answers = append(answers, "capabilities[cap]")
			}
		}
	}
	sort.Strings(answers)
	r.Check(ok, "R19.3", "DefaultVersion.Has", fn.Pos(), "answers "+strings.Join(answers, " / "), "Has does not answer from the capability map with false as the default")
}

func c19Comparer(r *core.Run) {
	p := r.Prog
	fn := p.Func("capability", "", "VersionCompareSemantic")
	var parses []ssa.CallInstruction
	for _, c := range core.Calls(fn) {
		f := core.StaticCallee(c)
		if f != nil && f.Name() == "NewVersion" && f.Pkg != nil && strings.HasSuffix(f.Pkg.Pkg.Path(), "go-version") {
			parses = append(parses, c)
		}
	}
	ok, why := len(parses) >= 2, "the comparer does not parse both versions"
	if ok {
		parsed := map[ssa.Value]bool{}
		for _, c := range parses {
			parsed[c.Common().Args[0]] = true
		}
		if !parsed[fn.Params[0]] || !parsed[fn.Params[1]] {
			ok, why = false, "not both arguments are parsed"
		}
	}
	if ok {
		for _, ret := range core.Returns(fn) {
			rv := core.RetVals(ret)
			if !core.IsNil(rv[1]) {
				continue
			}
			gs := core.GuardsAt(ret)
			for _, c := range parses {
				if !errNilGuard(gs, c) {
					ok, why = false, "an answer without error is reachable although a version string has not been parsed successfully (at "+p.Pos(ret.Pos())+"): unparsable versions or bounds get a silent answer"
				}
			}
		}
	}
	r.Check(ok, "R19.4", "VersionCompareSemantic: nil error only after both NewVersion calls succeeded", fn.Pos(), "every nil-error return is dominated by both parse errors being nil", why)
}

// c19Pairing: in NewCapability the i-th version string becomes the lower
// bound when i is even and the upper bound when i is odd (documented
// pairing); a range is appended after its upper bound and the scratch range
// is reset.
func c19Pairing(r *core.Run) {
	p := r.Prog
	fn := p.Func("capability", "", "NewCapability")
	fIntro := p.Field("capability", "VersionRange", "Introduced")
	fRem := p.Field("capability", "VersionRange", "Removed")
	parity := func(in ssa.Instruction) (even, odd bool) {
		for _, g := range core.GuardsAt(in) {
			bo, ok := g.Cond.(*ssa.BinOp)
			if !ok || (bo.Op != token.EQL && bo.Op != token.NEQ) {
				continue
			}
			rem, ok := bo.X.(*ssa.BinOp)
			if !ok || rem.Op != token.REM {
				continue
			}
			two, ok2 := core.ConstInt64(rem.Y)
			k, ok3 := core.ConstInt64(bo.Y)
			if !ok2 || !ok3 || two != 2 {
				continue
			}
			isEvenTest := (k == 0) == (bo.Op == token.EQL)
			if isEvenTest == g.Pol {
				even = true
			} else {
				odd = true
			}
		}
		return
	}
	for _, f := range []struct {
		field *types.Var
		want  string
	}{{fIntro, "even"}, {fRem, "odd"}} {
		ok, why, n := true, "", 0
		for _, b := range fn.Blocks {
			for _, in := range b.Instrs {
				st, isSt := in.(*ssa.Store)
				if !isSt {
					continue
				}
				fa, isFA := st.Addr.(*ssa.FieldAddr)
				if !isFA || core.FieldOfAddr(fa) != f.field {
					continue
				}
				n++
				ev, od := parity(st)
				if f.want == "even" && !(ev && !od) || f.want == "odd" && !(od && !ev) {
					ok, why = false, f.field.Name()+" is assigned on an edge that is not the "+f.want+"-index edge of i%2: the strings are no longer paired by position, so an empty lower bound shifts every later bound by one"
				}
			}
		}
		if n == 0 {
			ok, why = false, f.field.Name()+" is never assigned from the arguments"
		}
		r.Check(ok, "R19.5", "NewCapability: "+f.field.Name()+" from "+f.want+" positions", fn.Pos(), "assigned only under i%2 "+map[string]string{"even": "== 0", "odd": "!= 0"}[f.want], why)
	}
}

func c19Stateless(r *core.Run) {
	p := r.Prog
	fns := []*ssa.Function{
		p.Func("capability", "Target", "SetCapabilities"), p.Func("capability", "VersionRange", "contains"),
		p.Func("capability", "", "VersionCompareSemantic"), p.Func("capability", "DefaultVersion", "Has"),
	}
	listed := map[*ssa.Function]bool{}
	for _, fn := range fns {
		listed[fn] = true
	}
	// ... and every other function of the package (Target.Version, the Version implementation, constructors)
	for _, fn := range p.ModuleFuncs() {
		if fn.Blocks != nil && fn.Pkg != nil && fn.Pkg.Pkg.Path() == core.Module+"/capability" && !listed[fn] && fn.Name() != "init" && !p.FuncInOverlay(fn) && fn.Synthetic == "" {
			fns = append(fns, fn)
		}
	}
	for _, fn := range fns {
		bad := ""
		for _, b := range fn.Blocks {
			for _, in := range b.Instrs {
				for _, op := range in.Operands(nil) {
					if g, ok := (*op).(*ssa.Global); ok && g.Pkg != nil && core.InModule(fn) && g.Pkg.Pkg.Path() == fn.Pkg.Pkg.Path() {
						bad = g.Name()
					}
				}
			}
		}
		r.Check(bad == "", "R19.6", core.FuncName(fn)+": consults no package-level variable", fn.Pos(), "pure function of its inputs", "the function uses the package-level variable "+bad+": what an evaluation answers (or whether an invalid range is reported) then depends on earlier evaluations")
	}
}

// c19SetStores: R19.7.
func c19SetStores(r *core.Run) {
	p := r.Prog
	fn := p.Func("capability", "DefaultVersion", "SetCapability")
	fCaps := p.Field("capability", "DefaultVersion", "capabilities")
	why := ""
	n := 0
	core.EnumPaths(fn.Blocks[0], func(b *ssa.BasicBlock) bool { return false }, nil, 500, func(pa core.Path, ended bool) {
		last := pa.Blocks[len(pa.Blocks)-1]
		if _, isRet := last.Instrs[len(last.Instrs)-1].(*ssa.Return); !isRet {
			return
		}
		n++
		stored := false
		for _, b := range pa.Blocks {
			for _, in := range b.Instrs {
				if mu, ok := in.(*ssa.MapUpdate); ok {
					if f, _ := core.FieldLoad(mu.Map); f == fCaps && mu.Key == ssa.Value(fn.Params[1]) && mu.Value == ssa.Value(fn.Params[2]) {
						stored = true
					}
				}
			}
		}
		if !stored {
			why = "SetCapability can return without storing its answer under the capability: an earlier answer for the same Version object survives (e.g. a `false` that is dropped leaves a stale `true` of a previous evaluation), so what Has reports no longer depends only on the ranges and the version"
		}
	})
	r.Check(why == "" && n > 0, "R19.7", "DefaultVersion.SetCapability stores on every path", fn.Pos(), "capabilities[cap] = b on every path", why)
}
