package props

import (
	"fmt"
	"go/token"
	"go/types"
	"sort"
	"strings"

	"dblint/internal/core"

	"golang.org/x/tools/go/ssa"
)

func init() {
	register(&Spec{ID: "C16", Title: "Decimal text conversion preserves the numeric value", Run: runC16,
		Meta: core.Meta{
			Explanation: "R16.14: every package-level array or slice literal of asetypes that starts 1, 10 holds 10^i at index i (zero such tables today; the scan itself is the obligation). R16.10 also covers Negate (only big.Int.Neg). R16.13: NewDecimal stores a big.Int allocated by that call. R16.11: every return of Decimal.Cmp other than the constant false is under the equal edges of the Precision and the Scale comparison. R16.12: NewDecimal stores its parameters themselves into Precision and Scale (what sanity() then inspects). R16.10 (second clause): SetInt64 and SetBytes call no math/big method on the decimal other than the one of the same name. R16.10: Decimal.SetBytes passes its parameter itself to big.Int.SetBytes. R16.6 (second clause): the reading methods of *Decimal (all but Set*, Negate) store nothing through the receiver — no cached text or derived state. R16.8: no function of package asetypes rebuilds a big.Int/Decimal with SetBytes(x.Bytes()) without also consulting the sign. R16.9: every copy of Decimal.Bytes() into the DECN/NUMN image in DataType.Bytes starts at size-len(Decimal.Bytes()). Two rejection clauses of the property are decided; digit arithmetic is not. R16.1 ('invalid precision/scale combinations are rejected at construction'): every success return of NewDecimal and NewDecimalString is dominated by sanity() having returned nil, and sanity's error guards, normalised to half-planes over (Precision, Scale), cover the complement of the valid region 0 <= scale <= precision <= 38, i.e. {P < 0, P > 38, S < 0, S > P}. R16.2 ('input that cannot be represented is rejected'): every success return of SetString is dominated by a comparison of the fraction's length with Scale whose failing edge returns an error, and by big.Int.SetString having reported ok. R16.4 ('rejected instead of silently changing the value'): every math/big call in SetString that modifies its receiver (SetString, Mul, ...) works on a big.Int allocated by that very call, never on dec.i or an alias of it, so an error return leaves the decimal — and every copy sharing its pointer — untouched. R16.5 ('for every precision 1..38 and scale'): every slice/string index and slice expression in the methods of Decimal is proved in range by E-LEN or rests on the reviewed invariant 0 <= Scale <= Precision, whose premises (R10.6) are re-checked — a formatting shortcut that slices a fixed pad or digit table can panic for some precision. R16.6: no method of Decimal other than its mutators by contract (Set*, Negate) calls a receiver-modifying math/big method (Abs, Neg, Mul, Set, ...) on dec.i itself — String() on a negative value would otherwise leave the decimal positive, and the text just produced would no longer denote the stored value. R16.7: every big.Int.Int64()/Uint64() call in a method of Decimal is guarded by IsInt64()/IsUint64() on the same value or by a BitLen test. R16.3: the magnitude is only ever produced by math/big operations on the parsed digits inside SetString (the assigned value is the *big.Int that SetString parsed and Mul scaled).",
			NotDecided:  "The format/parse round trip, the canonical text form and all digit arithmetic (padding, splitting at precision-scale, powers of ten) are value-level and not decided; seeded changes that overflow an int64 fast path or a float power of ten are not detectable by these rules.",
			Assumptions: []string{"math/big semantics"},
		}})
}

func runC16(r *core.Run) {
	p := r.Prog
	r.Rule("R16.1", "constructors succeed exactly for 0 <= scale <= precision <= 38", 7, false)
	r.Rule("R16.2", "SetString succeeds only if the fraction fits the scale and the digits parsed", 2, false)
	r.Rule("R16.3", "the magnitude comes from math/big operations on the parsed digits", 1, false)
	r.Rule("R16.4", "a rejected input leaves the decimal untouched: SetString parses into a big.Int of its own", 1, false)
	r.Rule("R16.5", "indexing and slicing in the Decimal methods is in range for every valid precision/scale (E-LEN, R10.1)", 2, false)
	defer c16Sites(r)
	r.Rule("R16.6", "formatting and reading a decimal do not modify it", 1, false)
	defer c16NoHiddenState(r)
	defer c16ReadOnly(r)
	r.Rule("R16.7", "no method of Decimal narrows the magnitude to a machine word without a width guard", 1, false)
	r.Rule("R16.8", "no magnitude-only copy of a signed number (SetBytes(x.Bytes()) without the sign)", 1, false)
	defer c16SignKept(r)
	r.Rule("R16.9", "the DECN/NUMN magnitude is right-aligned in its slot", 1, false)
	defer c16RightAligned(r)
	defer c16NoBlindNarrowing(r)
	r.Rule("R16.10", "Decimal.SetBytes / SetInt64 / Negate do exactly what their name says", 4, false)
	defer c16SetBytesWhole(r)
	defer settersStoreAsIs(r)
	r.Rule("R16.11", "Cmp answers true only for equal precision, scale and magnitude", 1, false)
	defer cmpLooksAtDeclaration(r, "R16.11")
	r.Rule("R16.12", "NewDecimal checks the precision and scale it was given", 2, false)
	defer ctorStoresArgs(r, "R16.12")
	defer negateFlips(r)
	r.Rule("R16.13", "every decimal has a big.Int of its own", 1, false)
	defer ownBigInt(r)
	r.Rule("R16.14", "power-of-ten tables are exact", 1, false)
	defer pow10TablesExact(r, "R16.14")

	sanity := p.TryFunc("asetypes", "Decimal", "sanity")
	inlineSanity := sanity == nil
	if inlineSanity {
		// the check was merged into the constructor: its guards are looked for there
		sanity = p.Func("asetypes", "", "NewDecimal")
	}
	fP := p.Field("asetypes", "Decimal", "Precision")
	fS := p.Field("asetypes", "Decimal", "Scale")
	for _, name := range []string{"NewDecimal", "NewDecimalString"} {
		fn := p.Func("asetypes", "", name)
		ok, n := true, 0
		for _, ret := range core.Returns(fn) {
			rv := core.RetVals(ret)
			if !core.IsNil(rv[len(rv)-1]) {
				continue
			}
			n++
			dom := false
			gs := core.GuardsAt(ret)
			for _, c := range core.Calls(fn) {
				f := core.StaticCallee(c)
				if f == sanity && errNilGuard(gs, c) {
					dom = true
				}
				if f != nil && f.Name() == "NewDecimal" && name == "NewDecimalString" && errNilGuard(gs, c) {
					dom = true
				}
			}
			if !dom {
				ok = false
			}
		}
		if inlineSanity && name == "NewDecimal" {
			r.OK("R16.1", name+": success needs sanity() == nil", fn.Pos(), "the precision/scale guards are part of the constructor itself (checked below)")
			continue
		}
		r.Check(ok && n > 0, "R16.1", name+": success needs sanity() == nil", fn.Pos(), "dominated by the nil result of the precision/scale check", "a decimal can be constructed without its precision/scale having been validated")
	}
	// half-planes
	found := map[string]bool{}
	varName := func(v ssa.Value) string {
		f, _ := core.FieldLoad(core.Strip(v))
		switch f {
		case fP:
			return "P"
		case fS:
			return "S"
		}
		return ""
	}
	for _, b := range sanity.Blocks {
		iff, ok := b.Instrs[len(b.Instrs)-1].(*ssa.If)
		if !ok {
			continue
		}
		bo, ok := iff.Cond.(*ssa.BinOp)
		if !ok {
			continue
		}
		t := b.Succs[0]
		ret, isRet := t.Instrs[len(t.Instrs)-1].(*ssa.Return)
		if !isRet || core.IsNil(core.RetVals(ret)[len(core.RetVals(ret))-1]) {
			continue
		}
		// the guard must be evaluated unconditionally: the only conditions that may hold on entry to its block are
		// earlier rejection guards that did not fire
		conditional := false
		for _, g := range core.GuardsOf(b) {
			tt := g.If.Block().Succs[0]
			r2, isR := tt.Instrs[len(tt.Instrs)-1].(*ssa.Return)
			if g.Pol || !isR || core.IsNil(core.RetVals(r2)[len(core.RetVals(r2))-1]) {
				conditional = true
			}
		}
		if conditional {
			continue
		}
		x, y := varName(bo.X), varName(bo.Y)
		cx, isCX := core.ConstInt64(bo.X)
		cy, isCY := core.ConstInt64(bo.Y)
		op := bo.Op
		flip := map[token.Token]token.Token{token.GTR: token.LSS, token.LSS: token.GTR, token.GEQ: token.LEQ, token.LEQ: token.GEQ}
		switch {
		case x != "" && isCY:
			found[canonHalf(x, op, cy)] = true
		case y != "" && isCX:
			found[canonHalf(y, flip[op], cx)] = true
		case x != "" && y != "":
			if op == token.LSS || op == token.LEQ {
				x, y, op = y, x, flip[op]
			}
			if op == token.GTR {
				found[x+">"+y] = true
			}
		}
	}
	var have []string
	for k := range found {
		have = append(have, k)
	}
	sort.Strings(have)
	for _, need := range []struct{ k, what string }{
		{"P<0", "negative precision"}, {"P>38", "precision above 38"}, {"S<0", "negative scale"}, {"S>P", "scale above precision"},
	} {
		r.Check(found[need.k], "R16.1", "sanity rejects "+need.k, sanity.Pos(), "guard present (guards: "+strings.Join(have, ", ")+")",
			need.what+" is not rejected (guards found: "+strings.Join(have, ", ")+"): such a decimal is constructed and String() slices its digit string out of range")
	}

	// ... and no guard cuts into the valid region ("every precision 1 to 38, every scale up to the precision")
	over := ""
	for _, k := range have {
		var v string
		var op byte
		var c int64
		if n, _ := fmt.Sscanf(k, "%1s%c%d", &v, &op, &c); n != 3 {
			continue // S>P and the like
		}
		switch {
		case op == '>' && c < 38:
			over = fmt.Sprintf("the guard %s rejects %s = %d, which is valid (precision and scale go up to 38)", k, v, c+1)
		case op == '<' && c > 0:
			over = fmt.Sprintf("the guard %s rejects %s = %d, which is valid", k, v, c-1)
		}
	}
	r.Check(over == "", "R16.1", "sanity rejects nothing inside 0 <= scale <= precision <= 38", sanity.Pos(), "guards: "+strings.Join(have, ", "), over+": a decimal(38,38) column can no longer be constructed or decoded")

	// R16.2
	ss := p.Func("asetypes", "Decimal", "SetString")
	okFit, okParsed, n := true, true, 0
	for _, ret := range core.Returns(ss) {
		if !core.IsNil(core.RetVals(ret)[0]) {
			continue
		}
		n++
		fit, parsed := false, false
		for _, g := range core.GuardsAt(ret) {
			if bo, ok := g.Cond.(*ssa.BinOp); ok {
				lenSide := func(v ssa.Value) bool {
					c, ok := v.(*ssa.Call)
					if !ok {
						return false
					}
					bi, ok := c.Call.Value.(*ssa.Builtin)
					if !ok || bi.Name() != "len" {
						return false
					}
					b, isB := c.Call.Args[0].Type().Underlying().(*types.Basic)
					return isB && b.Kind() == types.String
				}
				scaleSide := func(v ssa.Value) bool { f, _ := core.FieldLoad(core.Strip(v)); return f == fS }
				if lenSide(bo.X) && scaleSide(bo.Y) {
					if (bo.Op == token.GTR && !g.Pol) || (bo.Op == token.LEQ && g.Pol) {
						fit = true
					}
				}
				if scaleSide(bo.X) && lenSide(bo.Y) {
					if (bo.Op == token.LSS && !g.Pol) || (bo.Op == token.GEQ && g.Pol) {
						fit = true
					}
				}
			}
			if ex, ok := g.Cond.(*ssa.Extract); ok && ex.Index == 1 && g.Pol {
				if c, ok := ex.Tuple.(*ssa.Call); ok && core.IsMethod(c, "math/big", "Int", "SetString") {
					parsed = true
				}
			}
		}
		if !fit {
			okFit = false
		}
		if !parsed {
			okParsed = false
		}
	}
	r.Check(okFit && n > 0, "R16.2", "SetString: success needs len(fraction) <= Scale", ss.Pos(), "dominated by the length test whose failing edge returns an error", "a numeral with more fraction digits than the scale is accepted: its digits are read as a different number (\"1.234\" at scale 2 becomes 12.34)")
	r.Check(okParsed && n > 0, "R16.2", "SetString: success needs big.Int.SetString ok", ss.Pos(), "dominated by ok == true", "unparsable digits are accepted")

	// R16.3: the store to dec.i in SetString stores the parsed big.Int
	fI := p.Field("asetypes", "Decimal", "i")
	okI := false
	for _, b := range ss.Blocks {
		for _, in := range b.Instrs {
			st, ok := in.(*ssa.Store)
			if !ok {
				continue
			}
			fa, ok := st.Addr.(*ssa.FieldAddr)
			if !ok || core.FieldOfAddr(fa) != fI {
				continue
			}
			// value must be the receiver of the SetString / Mul calls
			for _, c := range core.Calls(ss) {
				if core.IsMethod(c, "math/big", "Int", "SetString") && c.Common().Args[0] == st.Val {
					okI = true
				}
			}
		}
	}
	// R16.4: every math/big call in SetString that can modify its receiver works on a big.Int allocated by this call
	okFresh, nMut := true, 0
	whyFresh := ""
	for _, c := range core.Calls(ss) {
		f := core.StaticCallee(c)
		if f == nil || f.Pkg == nil || f.Pkg.Pkg.Path() != "math/big" || f.Signature.Recv() == nil || len(c.Common().Args) == 0 {
			continue
		}
		switch f.Name() {
		case "SetString", "Mul", "Add", "Sub", "Set", "SetInt64", "SetUint64", "Exp", "Neg", "Quo", "Div", "SetBytes", "Lsh", "Rsh", "Abs":
		default:
			continue
		}
		nMut++
		recv := core.Strip(c.Common().Args[0])
		al, isAl := recv.(*ssa.Alloc)
		if !isAl || !al.Heap {
			if call, isCall := recv.(*ssa.Call); isCall && (core.IsPkgFunc(call, "math/big", "NewInt")) {
				continue
			}
			if isAl {
				continue // a local (stack) big.Int is also the call's own
			}
			okFresh = false
			whyFresh = "big.Int." + f.Name() + " in SetString works on " + core.Expr(recv) + ", not on a big.Int allocated by this call: when the input is rejected (or for a copy of the Decimal sharing the pointer) the stored number has already been overwritten"
		}
	}
	r.Check(okFresh && nMut > 0, "R16.4", "SetString parses into a fresh big.Int", ss.Pos(), fmt.Sprintf("%d modifying math/big calls, all on values allocated by the call", nMut), whyFresh)

	r.Check(okI, "R16.3", "SetString stores the big.Int it parsed", ss.Pos(), "dec.i = i where i.SetString(digits, 10)", fmt.Sprintf("the magnitude stored by SetString is not the value parsed from the digits"))
}

// canonHalf renders V op c as "V>k" or "V<k" over integers.
func canonHalf(v string, op token.Token, c int64) string {
	switch op {
	case token.GTR:
		return fmt.Sprintf("%s>%d", v, c)
	case token.GEQ:
		return fmt.Sprintf("%s>%d", v, c-1)
	case token.LSS:
		return fmt.Sprintf("%s<%d", v, c)
	case token.LEQ:
		return fmt.Sprintf("%s<%d", v, c+1)
	}
	return v + op.String() + fmt.Sprint(c)
}

// c16Sites: R16.5 — C10's panic-site obligations (E-LEN with the reviewed-invariant table) for the methods of Decimal.
func c16Sites(r *core.Run) {
	p := r.Prog
	le := newLenEngine(p)
	reviewed := c10Reviewed(p)
	dec := p.Named("asetypes", "Decimal")
	n := 0
	for _, fn := range p.ModuleFuncs() {
		if fn.Blocks == nil || core.RecvNamed(fn) == nil || core.RecvNamed(fn).Obj() != dec.Obj() {
			continue
		}
		for _, s := range le.Sites(fn) {
			if s.Kind != "index" && s.Kind != "slice" {
				continue
			}
			n++
			key := core.FuncName(fn) + ": " + s.Expr
			if s.OK {
				r.OK("R16.5", key, s.Instr.Pos(), s.Reason)
				continue
			}
			matched := false
			for _, rv := range reviewed {
				if rv.matches(fn, s) {
					matched = true
					if ok, why := rv.check(r, s); ok {
						r.OK("R16.5", key, s.Instr.Pos(), "reviewed invariant: "+rv.reason)
					} else {
						r.Bad("R16.5", key, s.Instr.Pos(), "the guard this site relies on no longer holds: "+why+" ("+rv.reason+")")
					}
					break
				}
			}
			if !matched {
				r.Bad("R16.5", key, s.Instr.Pos(), s.Reason+": for some valid precision/scale/value this "+s.Kind+" panics instead of producing the decimal's text")
			}
		}
	}
	if n == 0 {
		r.Unknown("R16.5", "Decimal methods: index/slice sites", token.NoPos, "no index or slice expression found in the methods of Decimal")
	}
}

// c16ReadOnly: R16.6.
func c16ReadOnly(r *core.Run) {
	p := r.Prog
	dec := p.Named("asetypes", "Decimal")
	fI := p.Field("asetypes", "Decimal", "i")
	ss := p.Func("asetypes", "Decimal", "SetString")
	n := 0
	for _, fn := range p.ModuleFuncs() {
		if fn.Blocks == nil || fn == ss || core.RecvNamed(fn) == nil || core.RecvNamed(fn).Obj() != dec.Obj() {
			continue
		}
		if strings.HasPrefix(fn.Name(), "Set") || fn.Name() == "Negate" {
			continue // mutators by contract
		}
		n++
		for _, c := range core.Calls(fn) {
			f := core.StaticCallee(c)
			if f == nil || f.Pkg == nil || f.Pkg.Pkg.Path() != "math/big" || f.Signature.Recv() == nil || len(c.Common().Args) == 0 {
				continue
			}
			switch f.Name() {
			case "SetString", "Mul", "Add", "Sub", "Set", "SetInt64", "SetUint64", "Exp", "Neg", "Quo", "Div", "Rem", "Mod", "SetBytes", "Lsh", "Rsh", "Abs", "Not", "And", "Or", "Xor", "SetBit", "Sqrt", "QuoRem", "DivMod":
			default:
				continue
			}
			if g, _ := core.FieldLoad(core.Strip(c.Common().Args[0])); g == fI {
				r.Bad("R16.6", core.FuncName(fn)+": big.Int."+f.Name()+" on dec.i", c.Pos(), "big.Int."+f.Name()+" stores its result in its receiver, and the receiver here is the decimal's own magnitude dec.i: calling "+fn.Name()+"() changes the value (e.g. formatting a negative decimal leaves it positive), so the text produced no longer denotes what is stored")
			}
		}
	}
	r.Check(n > 0, "R16.6", "Decimal methods other than the mutators (Set*, Negate) leave dec.i untouched", token.NoPos, fmt.Sprintf("%d methods inspected", n), "no methods of Decimal found")
}

// c16NoBlindNarrowing: R16.7. A Decimal holds up to 38 digits. Wherever a method of Decimal narrows the magnitude to
// a machine word (big.Int.Int64 / Uint64) the call is guarded by IsInt64()/IsUint64() (or a BitLen test) on the same
// value; an unguarded narrowing answers for a different number once the value has more than 63 bits (two decimals
// 2^64 apart compare equal, a text loses its leading digits).
func c16NoBlindNarrowing(r *core.Run) {
	p := r.Prog
	dec := p.Named("asetypes", "Decimal")
	n := 0
	for _, fn := range p.ModuleFuncs() {
		if fn.Blocks == nil || core.RecvNamed(fn) == nil || core.RecvNamed(fn).Obj() != dec.Obj() {
			continue
		}
		n++
		for _, c := range core.Calls(fn) {
			f := core.StaticCallee(c)
			if f == nil || f.Pkg == nil || f.Pkg.Pkg.Path() != "math/big" || (f.Name() != "Int64" && f.Name() != "Uint64") || len(c.Common().Args) == 0 {
				continue
			}
			recv := c.Common().Args[0]
			guarded := false
			for _, g := range core.GuardsAt(c.(ssa.Instruction)) {
				gc, ok := g.Cond.(*ssa.Call)
				if ok && g.Pol {
					if gf := core.StaticCallee(gc); gf != nil && gf.Pkg != nil && gf.Pkg.Pkg.Path() == "math/big" && (gf.Name() == "IsInt64" || gf.Name() == "IsUint64") && len(gc.Call.Args) > 0 && core.Strip(gc.Call.Args[0]) == core.Strip(recv) {
						guarded = true
					}
				}
				if bo, ok := g.Cond.(*ssa.BinOp); ok {
					for _, side := range []ssa.Value{bo.X, bo.Y} {
						if bc, ok := side.(*ssa.Call); ok {
							if gf := core.StaticCallee(bc); gf != nil && gf.Name() == "BitLen" && gf.Pkg != nil && gf.Pkg.Pkg.Path() == "math/big" {
								guarded = true
							}
						}
					}
				}
			}
			r.Check(guarded, "R16.7", core.FuncName(fn)+": big.Int."+f.Name()+" under a width guard", c.Pos(), "guarded by IsInt64/IsUint64/BitLen", "the magnitude of a decimal (up to 38 digits) is narrowed with big.Int."+f.Name()+"() without an IsInt64()/IsUint64()/BitLen guard: for values beyond 63 bits the method answers for a different number (e.g. two decimals 2^64 apart compare equal)")
		}
	}
	r.Check(n > 0, "R16.7", "Decimal methods inspected for unguarded narrowing", token.NoPos, fmt.Sprintf("%d methods", n), "no methods of Decimal found")
}
