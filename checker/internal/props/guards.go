package props

import (
	"go/constant"
	"go/token"
	"go/types"

	"dblint/internal/core"

	"golang.org/x/tools/go/ssa"
)

// E-DOM helpers: predicates over the guards (branch conditions known to
// hold) at a program point.

// assertGuards returns the comma-ok type assertions to type t whose ok
// result is known true.
func assertGuards(gs []core.Guard, t types.Type) []*ssa.TypeAssert {
	var out []*ssa.TypeAssert
	for _, g := range gs {
		if !g.Pol {
			continue
		}
		ex, ok := g.Cond.(*ssa.Extract)
		if !ok || ex.Index != 1 {
			continue
		}
		ta, ok := ex.Tuple.(*ssa.TypeAssert)
		if !ok || !ta.CommaOk || !types.Identical(ta.AssertedType, t) {
			continue
		}
		out = append(out, ta)
	}
	return out
}

// assertedValue returns the value (Extract #0) of a comma-ok assertion.
func assertedValue(ta *ssa.TypeAssert) ssa.Value {
	for _, ref := range *ta.Referrers() {
		if ex, ok := ref.(*ssa.Extract); ok && ex.Index == 0 {
			return ex
		}
	}
	return nil
}

type cmpGuard struct {
	Op   token.Token // EQL or NEQ etc. as written
	Pol  bool
	Cst  constant.Value
	Cond *ssa.BinOp
}

// Equal reports whether the guard establishes lhs == const.
func (c cmpGuard) Equal() bool {
	return (c.Op == token.EQL && c.Pol) || (c.Op == token.NEQ && !c.Pol)
}

// fieldCmpGuards finds guards comparing base.field with a constant.
func fieldCmpGuards(gs []core.Guard, base ssa.Value, field *types.Var) []cmpGuard {
	var out []cmpGuard
	for _, g := range gs {
		bo, ok := g.Cond.(*ssa.BinOp)
		if !ok {
			continue
		}
		for _, sw := range [][2]ssa.Value{{bo.X, bo.Y}, {bo.Y, bo.X}} {
			f, b := core.FieldLoad(core.Strip(sw[0]))
			if f != field || (base != nil && b != base) {
				continue
			}
			c, isC := sw[1].(*ssa.Const)
			if !isC || c.Value == nil {
				continue
			}
			out = append(out, cmpGuard{bo.Op, g.Pol, c.Value, bo})
		}
	}
	return out
}

// lenCmpGuards finds guards comparing len(base.field) with a constant.
func lenCmpGuards(gs []core.Guard, base ssa.Value, field *types.Var) []cmpGuard {
	var out []cmpGuard
	for _, g := range gs {
		bo, ok := g.Cond.(*ssa.BinOp)
		if !ok {
			continue
		}
		for _, sw := range [][2]ssa.Value{{bo.X, bo.Y}, {bo.Y, bo.X}} {
			call, ok := sw[0].(*ssa.Call)
			if !ok {
				continue
			}
			bi, ok := call.Call.Value.(*ssa.Builtin)
			if !ok || bi.Name() != "len" {
				continue
			}
			f, b := core.FieldLoad(call.Call.Args[0])
			if f != field || (base != nil && b != base) {
				continue
			}
			c, isC := sw[1].(*ssa.Const)
			if !isC || c.Value == nil {
				continue
			}
			out = append(out, cmpGuard{bo.Op, g.Pol, c.Value, bo})
		}
	}
	return out
}

// vacuousMask recognises `(x & C) != C` / `== C` with C == 0, which is a
// constant condition. It returns x.
func vacuousMask(cond ssa.Value) (ssa.Value, bool) {
	bo, ok := cond.(*ssa.BinOp)
	if !ok || (bo.Op != token.NEQ && bo.Op != token.EQL) {
		return nil, false
	}
	for _, sw := range [][2]ssa.Value{{bo.X, bo.Y}, {bo.Y, bo.X}} {
		and, ok := sw[0].(*ssa.BinOp)
		if !ok || and.Op != token.AND {
			continue
		}
		c0, ok0 := core.ConstInt64(sw[1])
		if !ok0 || c0 != 0 {
			continue
		}
		if m, okm := core.ConstInt64(and.Y); okm && m == 0 {
			return and.X, true
		}
		if m, okm := core.ConstInt64(and.X); okm && m == 0 {
			return and.Y, true
		}
	}
	return nil, false
}

// errNilGuard: the error result of call c is known nil.
func errNilGuard(gs []core.Guard, c ssa.CallInstruction) bool {
	e, has := errResult(c)
	if !has || e == nil {
		return false
	}
	for _, g := range gs {
		if x, nn, ok := core.ErrNilTest(g.Cond); ok && x == e && g.Pol != nn {
			return true
		}
	}
	return false
}

// callsTo returns the calls in fn whose static callee is target.
func callsTo(fn, target *ssa.Function) []ssa.CallInstruction {
	var out []ssa.CallInstruction
	for _, c := range core.Calls(fn) {
		if core.StaticCallee(c) == target {
			out = append(out, c)
		}
	}
	return out
}

// makeInterfaceUniverse returns the set of concrete types the module
// converts to an interface, keyed "<interface type>|<concrete type>" and
// "*|<concrete type>" (any target). Conversions of values that themselves
// come out of a type assertion (e.g. passing the asserted value to fmt) and
// nil-pointer compile-time assertions are not producers.
func makeInterfaceUniverse(p *core.Prog) map[string]bool {
	u := map[string]bool{}
	for _, fn := range p.ModuleFuncs() {
		for _, b := range fn.Blocks {
			for _, in := range b.Instrs {
				mi, ok := in.(*ssa.MakeInterface)
				if !ok {
					continue
				}
				if _, isConst := mi.X.(*ssa.Const); isConst {
					if _, isPtr := mi.X.Type().Underlying().(*types.Pointer); isPtr {
						continue
					}
				}
				if ex, isEx := mi.X.(*ssa.Extract); isEx {
					if _, fromTA := ex.Tuple.(*ssa.TypeAssert); fromTA {
						continue
					}
				}
				if _, fromTA := mi.X.(*ssa.TypeAssert); fromTA {
					continue
				}
				ct := types.TypeString(mi.X.Type(), nil)
				u["*|"+ct] = true
				u[types.TypeString(mi.Type(), nil)+"|"+ct] = true
			}
		}
	}
	return u
}

// ctxDerivedFrom: v is param itself, a φ of param and context.Background()
// (the `if ctx == nil { ctx = context.Background() }` idiom), or the result
// of context.WithTimeout/WithCancel/WithDeadline/WithValue on such a value.
func ctxDerivedFrom(v ssa.Value, param ssa.Value, depth int) bool {
	if depth > 6 {
		return false
	}
	if v == param {
		return true
	}
	switch x := v.(type) {
	case *ssa.Phi:
		some := false
		for _, e := range x.Edges {
			if e == v {
				continue
			}
			if ctxDerivedFrom(e, param, depth+1) {
				some = true
				continue
			}
			if c, ok := e.(*ssa.Call); ok && core.IsPkgFunc(c, "context", "Background") {
				// only as the nil replacement
				continue
			}
			return false
		}
		return some
	case *ssa.Extract:
		if c, ok := x.Tuple.(*ssa.Call); ok && x.Index == 0 {
			for _, n := range []string{"WithTimeout", "WithCancel", "WithDeadline"} {
				if core.IsPkgFunc(c, "context", n) {
					return ctxDerivedFrom(c.Call.Args[0], param, depth+1)
				}
			}
		}
	case *ssa.Call:
		if core.IsPkgFunc(x, "context", "WithValue") {
			return ctxDerivedFrom(x.Call.Args[0], param, depth+1)
		}
	case *ssa.MakeInterface:
		return ctxDerivedFrom(x.X, param, depth+1)
	case *ssa.ChangeInterface:
		return ctxDerivedFrom(x.X, param, depth+1)
	}
	return false
}

// ctxParam returns the context.Context parameter of fn (nil if none). For
// closures it looks at the free variables' bindings in the parent.
func ctxParam(fn *ssa.Function) ssa.Value {
	for _, pa := range fn.Params {
		if core.IsContextType(pa.Type()) {
			return pa
		}
	}
	return nil
}
