package props

import (
	"go/token"
	"go/types"
	"sort"

	"dblint/internal/core"

	"golang.org/x/tools/go/ssa"
)

// E-TAINT: forward value flow over SSA, inter-procedural inside the module
// (argument → parameter, tainted return → call value), field-based for
// struct fields and base-object-based for slice/array elements.

type taintSink struct {
	Instr ssa.Instruction
	Val   ssa.Value
	What  string
	Path  []string
}

type taintEngine struct {
	p        *core.Prog
	scope    func(fn *ssa.Function) bool
	tainted  map[ssa.Value]string // value -> how it got tainted (one-step explanation)
	parent   map[ssa.Value]ssa.Value
	fields   map[*types.Var]bool // tainted struct fields (besides the sources)
	sources  map[*types.Var]bool
	work     []ssa.Value
	Sinks    []taintSink
	Allowed  []taintSink
	barrier  func(c ssa.CallInstruction, argIdx int) (allowed bool, what string)          // call sites at which propagation stops and is accepted
	external func(c ssa.CallInstruction, argIdx int) (verdict string, resultTainted bool) // "" = violation
	okField  func(f *types.Var) bool                                                      // stores of tainted values into these fields are accepted (and tracked)
	retTaint map[*ssa.Function]bool
	funcs    []*ssa.Function
}

func newTaint(p *core.Prog, sources []*types.Var, scope func(fn *ssa.Function) bool) *taintEngine {
	te := &taintEngine{p: p, scope: scope, tainted: map[ssa.Value]string{}, parent: map[ssa.Value]ssa.Value{},
		fields: map[*types.Var]bool{}, sources: map[*types.Var]bool{}, retTaint: map[*ssa.Function]bool{}}
	for _, s := range sources {
		te.sources[s] = true
	}
	for _, fn := range p.ModuleFuncs() {
		if scope(fn) {
			te.funcs = append(te.funcs, fn)
		}
	}
	return te
}

func (te *taintEngine) mark(v ssa.Value, from ssa.Value, how string) {
	if v == nil {
		return
	}
	if _, ok := te.tainted[v]; ok {
		return
	}
	te.tainted[v] = how
	if from != nil {
		te.parent[v] = from
	}
	te.work = append(te.work, v)
}

func (te *taintEngine) pathOf(v ssa.Value) []string {
	var out []string
	for i := 0; v != nil && i < 30; i++ {
		pos := token.NoPos
		if in, ok := v.(ssa.Instruction); ok {
			pos = in.Pos()
		} else {
			pos = v.Pos()
		}
		out = append([]string{te.tainted[v] + ": " + core.Expr(v) + " at " + te.p.Pos(pos)}, out...)
		v = te.parent[v]
	}
	return out
}

// seed marks every load of a source (or tainted) field in scope.
func (te *taintEngine) seedFieldLoads() {
	for _, fn := range te.funcs {
		for _, b := range fn.Blocks {
			for _, in := range b.Instrs {
				v, ok := in.(ssa.Value)
				if !ok {
					continue
				}
				f, _ := core.FieldLoad(v)
				if f == nil {
					continue
				}
				if te.sources[f] {
					te.mark(v, nil, "load of secret field "+f.Name())
				} else if te.fields[f] {
					te.mark(v, nil, "load of field "+f.Name()+" that holds a secret")
				}
			}
		}
	}
}

func (te *taintEngine) Run() {
	te.seedFieldLoads()
	for len(te.work) > 0 {
		v := te.work[len(te.work)-1]
		te.work = te.work[:len(te.work)-1]
		te.step(v)
	}
}

func (te *taintEngine) sink(in ssa.Instruction, v ssa.Value, what string) {
	te.Sinks = append(te.Sinks, taintSink{in, v, what, te.pathOf(v)})
}

func (te *taintEngine) step(v ssa.Value) {
	refs := v.Referrers()
	if refs == nil {
		return
	}
	for _, ref := range *refs {
		switch u := ref.(type) {
		case *ssa.DebugRef:
		case *ssa.Convert:
			te.mark(u, v, "converted")
		case *ssa.ChangeType:
			te.mark(u, v, "converted")
		case *ssa.MakeInterface:
			te.mark(u, v, "boxed")
		case *ssa.ChangeInterface:
			te.mark(u, v, "boxed")
		case *ssa.Phi:
			te.mark(u, v, "merged")
		case *ssa.Slice:
			if u.X == v {
				te.mark(u, v, "sliced")
			}
		case *ssa.Index, *ssa.Lookup:
			te.mark(u.(ssa.Value), v, "element of")
		case *ssa.IndexAddr:
			if u.X == v {
				te.mark(u, v, "element address of")
			}
		case *ssa.UnOp:
			if u.Op == token.MUL {
				te.mark(u, v, "loaded through")
			}
		case *ssa.Field:
			te.mark(u, v, "field of tainted struct")
		case *ssa.FieldAddr:
			if u.X == v {
				te.mark(u, v, "field address of tainted struct")
			}
		case *ssa.Extract:
			te.mark(u, v, "extracted")
		case *ssa.TypeAssert:
			te.mark(u, v, "asserted")
		case *ssa.BinOp:
			switch u.Op {
			case token.ADD:
				te.mark(u, v, "concatenated") // string concatenation
			case token.EQL, token.NEQ, token.LSS, token.GTR, token.LEQ, token.GEQ:
				// comparison result carries no content
			default:
				te.mark(u, v, "computed from")
			}
		case *ssa.Range:
			te.mark(u, v, "ranged over")
		case *ssa.Next:
			te.mark(u, v, "iterated")
		case *ssa.Store:
			if u.Val != v {
				continue // storing through a tainted address: nothing new
			}
			te.store(u, v)
		case *ssa.MapUpdate:
			te.sink(u, v, "stored in a map")
		case *ssa.Send:
			te.sink(u, v, "sent on a channel")
		case *ssa.MakeClosure:
			te.sink(u, v, "captured by a closure")
		case *ssa.Return:
			fn := u.Parent()
			if !te.retTaint[fn] {
				te.retTaint[fn] = true
				// taint the call values at every static call site in scope
				for _, caller := range te.funcs {
					for _, c := range core.Calls(caller) {
						if core.StaticCallee(c) == fn && c.Value() != nil {
							te.mark(c.Value(), v, "returned by "+core.FuncName(fn))
						}
					}
				}
			}
		case ssa.CallInstruction:
			te.call(u, v)
		case *ssa.If:
		default:
			if in, ok := ref.(ssa.Instruction); ok {
				te.sink(in, v, "used by "+in.String())
			}
		}
	}
}

func (te *taintEngine) store(st *ssa.Store, v ssa.Value) {
	switch a := st.Addr.(type) {
	case *ssa.FieldAddr:
		f := core.FieldOfAddr(a)
		if te.sources[f] {
			te.Allowed = append(te.Allowed, taintSink{st, v, "C: stored in secret field " + f.Name(), te.pathOf(v)})
			return
		}
		if te.okField != nil && te.okField(f) {
			te.Allowed = append(te.Allowed, taintSink{st, v, "C: stored in field " + f.Name() + " (accepted)", te.pathOf(v)})
			if !te.fields[f] {
				te.fields[f] = true
				te.seedFieldLoads()
			}
			return
		}
		te.sink(st, v, "copied into field "+f.Name())
	case *ssa.IndexAddr:
		// element of a local array/slice: the container becomes tainted
		base := a.X
		te.mark(base, v, "stored into an element of")
		if al, ok := base.(*ssa.Alloc); ok {
			for _, ref := range *al.Referrers() {
				if sl, ok := ref.(*ssa.Slice); ok {
					te.mark(sl, v, "stored into an element of")
				}
			}
		}
	case *ssa.Alloc:
		for _, ref := range *a.Referrers() {
			if u, ok := ref.(*ssa.UnOp); ok && u.Op == token.MUL {
				te.mark(u, v, "stored in local and reloaded")
			}
			if fa, ok := ref.(*ssa.FieldAddr); ok {
				te.mark(fa, v, "stored in local struct")
			}
		}
		te.mark(a, v, "stored in local")
	case *ssa.Global:
		te.sink(st, v, "stored in package-level variable "+a.Name())
	default:
		te.sink(st, v, "stored through "+core.Expr(st.Addr))
	}
}

func (te *taintEngine) call(c ssa.CallInstruction, v ssa.Value) {
	cc := c.Common()
	idx := -1
	for i, a := range cc.Args {
		if a == v {
			idx = i
		}
	}
	if cc.Value == v && !cc.IsInvoke() {
		te.sink(c.(ssa.Instruction), v, "called as a function")
		return
	}
	if idx < 0 {
		if cc.IsInvoke() && cc.Value == v {
			te.sink(c.(ssa.Instruction), v, "method invoked on the secret: "+cc.Method.Name())
		}
		return
	}
	if bi, ok := cc.Value.(*ssa.Builtin); ok {
		switch bi.Name() {
		case "len", "cap":
			return
		case "append", "copy":
			if c.Value() != nil && bi.Name() == "append" {
				te.mark(c.Value(), v, "appended")
			}
			if bi.Name() == "copy" && idx == 1 {
				te.mark(cc.Args[0], v, "copied into")
			}
			return
		default:
			te.sink(c.(ssa.Instruction), v, "passed to builtin "+bi.Name())
			return
		}
	}
	if te.barrier != nil {
		if ok, what := te.barrier(c, idx); ok {
			te.Allowed = append(te.Allowed, taintSink{c.(ssa.Instruction), v, what, te.pathOf(v)})
			return
		}
	}
	f := cc.StaticCallee()
	if f != nil && core.InModule(f) && f.Blocks != nil {
		if idx < len(f.Params) {
			te.mark(f.Params[idx], v, "passed to "+core.FuncName(f))
		}
		return
	}
	// closure call of a module function value, interface invoke into module types, or external function
	verdict, resTainted := "", false
	if te.external != nil {
		verdict, resTainted = te.external(c, idx)
	}
	if verdict != "" {
		te.Allowed = append(te.Allowed, taintSink{c.(ssa.Instruction), v, verdict, te.pathOf(v)})
		if resTainted && c.Value() != nil {
			te.mark(c.Value(), v, "result of "+calleeKey(c))
		}
		return
	}
	te.sink(c.(ssa.Instruction), v, "passed to "+calleeKey(c))
}

func (te *taintEngine) SortedSinks() []taintSink {
	s := append([]taintSink(nil), te.Sinks...)
	sort.Slice(s, func(i, j int) bool { return s[i].Instr.Pos() < s[j].Instr.Pos() })
	return s
}
