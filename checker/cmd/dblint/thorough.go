package main

import (
	"bufio"
	"bytes"
	"fmt"
	"os"
	"os/exec"
	"path/filepath"
	"regexp"
	"sort"
	"strconv"
	"strings"

	"dblint/internal/core"
)

// variantResult is the outcome of analysing one patched copy of the tree.
type variantResult struct {
	Name    string   `json:"variant"`
	Applied bool     `json:"patch_applied"`
	Armed   bool     `json:"armed"`
	Rules   []string `json:"rules_that_fired,omitempty"`
	Note    string   `json:"note,omitempty"`
}

// analysePatched applies one patch to a scratch copy of the working tree and
// runs the quick rule set of the property on the copy in a subprocess. It
// returns the `rule|key` of every obligation reported as violated/undecided.
func analysePatched(pf, id, repo, verif, self string) (applied bool, note string, fired []string) {
	tmp, err := os.MkdirTemp("", "dblint-variant-")
	if err != nil {
		return false, err.Error(), nil
	}
	defer os.RemoveAll(tmp)
	cp := exec.Command("rsync", "-a", "--exclude=.git", repo+"/", tmp+"/")
	if b, err := cp.CombinedOutput(); err != nil {
		return false, "copy failed: " + string(b), nil
	}
	ap := exec.Command("patch", "-p1", "-s", "-f", "--no-backup-if-mismatch", "-i", pf)
	ap.Dir = tmp
	if b, err := ap.CombinedOutput(); err != nil {
		return false, "patch does not apply to the current tree: " + firstLine(string(b)), nil
	}
	vv, _ := os.MkdirTemp("", "dblint-variant-out-")
	defer os.RemoveAll(vv)
	// the subprocess reads the real known findings so that recorded findings do not count as detection
	if b, err := os.ReadFile(filepath.Join(verif, "known_findings.json")); err == nil {
		os.WriteFile(filepath.Join(vv, "known_findings.json"), b, 0o644)
	}
	cmd := exec.Command(self, "check", "-property", id, "-tier", "quick", "-repo", tmp, "-verif", vv)
	var buf bytes.Buffer
	cmd.Stdout, cmd.Stderr = &buf, &buf
	cmd.Run()
	seen := map[string]bool{}
	sc := bufio.NewScanner(&buf)
	sc.Buffer(make([]byte, 1<<20), 1<<20)
	for sc.Scan() {
		if m := violKey.FindStringSubmatch(sc.Text()); m != nil {
			seen[m[2]] = true
		}
		if strings.HasPrefix(sc.Text(), "ANALYSIS-ERROR") {
			seen["ANALYSIS-ERROR|"] = true
		}
	}
	for r := range seen {
		fired = append(fired, r)
	}
	sort.Strings(fired)
	return true, "", fired
}

var violKey = regexp.MustCompile(`^(VIOLATED|UNDECIDED) (R[0-9.]+\|.*?) at [^ ]+: `)

func rulesOf(keys []string) []string {
	seen := map[string]bool{}
	var out []string
	for _, k := range keys {
		r := k
		if i := strings.IndexByte(k, '|'); i >= 0 {
			r = k[:i]
		}
		if !seen[r] {
			seen[r] = true
			out = append(out, r)
		}
	}
	sort.Strings(out)
	return out
}

// inParallel runs f(i) for i in [0,n) on up to 8 workers.
func inParallel(n int, f func(i int)) {
	sem := make(chan struct{}, 8)
	done := make(chan struct{})
	for i := 0; i < n; i++ {
		go func(i int) {
			sem <- struct{}{}
			f(i)
			<-sem
			done <- struct{}{}
		}(i)
	}
	for i := 0; i < n; i++ {
		<-done
	}
}

// runVariants applies every seeded change / own variant of the property to
// a scratch copy of the working tree and runs the quick rule set on it in a
// subprocess. It tests the checker, never the repository: nothing it finds
// becomes a VIOLATION line. base holds the obligations that are not
// discharged on the unpatched tree (they do not count as detection).
func runVariants(id, repo, verif string, base map[string]bool) []variantResult {
	var patches []string
	m1, _ := filepath.Glob(filepath.Join(verif, "seeded", id+"-*", "patch.diff"))
	m2, _ := filepath.Glob(filepath.Join(verif, "variants", id, "*.diff"))
	patches = append(append(patches, m1...), m2...)
	sort.Strings(patches)
	self, err := os.Executable()
	if err != nil {
		return nil
	}
	out := make([]variantResult, len(patches))
	inParallel(len(patches), func(i int) {
		pf := patches[i]
		name := filepath.Base(filepath.Dir(pf))
		if strings.HasSuffix(filepath.Dir(pf), filepath.Join("variants", id)) {
			name = id + "/" + filepath.Base(pf)
		}
		res := variantResult{Name: name}
		applied, note, fired := analysePatched(pf, id, repo, verif, self)
		res.Applied, res.Note = applied, note
		if !applied && note != "" {
			res.Note = note + " (a fix: commit rewrote these lines)"
		}
		var extra []string
		for _, k := range fired {
			if !base[k] {
				extra = append(extra, k)
			}
		}
		res.Rules = rulesOf(extra)
		res.Armed = len(res.Rules) > 0
		out[i] = res
	})
	return out
}

// neutralResult summarises the run over the behaviour-preserving
// refactorings kept in /verif/neutral: every one of them must leave the
// property's check exactly as it is on the unpatched tree.
type neutralResult struct {
	Total       int                 `json:"refactorings"`
	Applied     int                 `json:"applied"`
	Silent      int                 `json:"silent"`
	FalseAlarms map[string][]string `json:"false_alarms,omitempty"`
	Skipped     []string            `json:"not_applicable_to_this_tree,omitempty"`
}

func runNeutral(id, repo, verif string, base map[string]bool) neutralResult {
	patches, _ := filepath.Glob(filepath.Join(verif, "neutral", "*", "patch.diff"))
	sort.Strings(patches)
	res := neutralResult{Total: len(patches), FalseAlarms: map[string][]string{}}
	self, err := os.Executable()
	if err != nil {
		return res
	}
	type one struct {
		applied bool
		extra   []string
	}
	rs := make([]one, len(patches))
	inParallel(len(patches), func(i int) {
		applied, _, fired := analysePatched(patches[i], id, repo, verif, self)
		var extra []string
		for _, k := range fired {
			if !base[k] {
				extra = append(extra, k)
			}
		}
		rs[i] = one{applied, extra}
	})
	for i, r := range rs {
		name := filepath.Base(filepath.Dir(patches[i]))
		switch {
		case !r.applied:
			res.Skipped = append(res.Skipped, name)
		case len(r.extra) == 0:
			res.Applied++
			res.Silent++
		default:
			res.Applied++
			res.FalseAlarms[name] = r.extra
		}
	}
	return res
}

func firstLine(s string) string {
	s = strings.TrimSpace(s)
	if i := strings.IndexByte(s, '\n'); i >= 0 {
		return s[:i]
	}
	return s
}

var bceLine = regexp.MustCompile(`^(?:\./)?([^:]+\.go):(\d+):(\d+): Found (IsInBounds|IsSliceInBounds)`)

// bceCrossRef reconciles the compiler's list of unproven bounds checks with
// the positions of the obligations this run tracked.
func bceCrossRef(run *core.Run, repo string, pkgs []string) map[string]interface{} {
	tracked := map[string]bool{}
	for _, o := range run.Obls {
		parts := strings.Split(o.Pos, ":")
		if len(parts) >= 2 {
			tracked[parts[0]+":"+parts[1]] = true
		}
	}
	cache, _ := os.MkdirTemp("", "dblint-gocache-")
	defer os.RemoveAll(cache)
	args := []string{"build", "-gcflags=" + core.Module + "/...=-d=ssa/check_bce/debug=1"}
	args = append(args, pkgs...)
	cmd := exec.Command("go", args...)
	cmd.Dir = repo
	cmd.Env = append(os.Environ(), "GOCACHE="+cache, "GOFLAGS=-mod=mod", "GOPROXY=off", "GOSUMDB=off", "GOTOOLCHAIN=local", "GOWORK=off")
	b, _ := cmd.CombinedOutput()
	total, matched := 0, 0
	var untracked []string
	for _, l := range strings.Split(string(b), "\n") {
		m := bceLine.FindStringSubmatch(l)
		if m == nil {
			continue
		}
		file := m[1]
		if strings.HasSuffix(file, "_string.go") {
			continue // generated stringer tables
		}
		total++
		key := file + ":" + m[2]
		if tracked[key] {
			matched++
		} else {
			untracked = append(untracked, key+":"+m[3]+" "+m[4])
		}
	}
	sort.Strings(untracked)
	return map[string]interface{}{
		"compiler_unproven_bounds_checks": total,
		"matched_to_tracked_obligation":   matched,
		"untracked":                       untracked,
		"note":                            "untracked = the compiler lists a bounds check on a line where this run holds no obligation (out-of-scope function, or a site reported at an inlined call position); cross-reference only, decides nothing. total=" + strconv.Itoa(total),
	}
}

var _ = fmt.Sprintf
