package props

import (
	"go/ast"
	"go/constant"
	"go/token"
	"go/types"

	"dblint/internal/core"

	"golang.org/x/tools/go/packages"
)

// E-CONST helpers: constant tables read off composite literals and switch
// statements through go/types constant values. Nothing is executed.

type constEntry struct {
	Key, Val       constant.Value
	KeyObj, ValObj types.Object // the named constant used, if the expr is an identifier/selector
	KeyExpr        ast.Expr
	ValExpr        ast.Expr
	Pos            token.Pos
}

// findVarLit returns the composite literal initialising package-level var name.
func findVarLit(pk *packages.Package, name string) (*ast.CompositeLit, token.Pos) {
	for _, f := range pk.Syntax {
		for _, d := range f.Decls {
			gd, ok := d.(*ast.GenDecl)
			if !ok || gd.Tok != token.VAR {
				continue
			}
			for _, s := range gd.Specs {
				vs := s.(*ast.ValueSpec)
				for i, n := range vs.Names {
					if n.Name == name && i < len(vs.Values) {
						if cl, ok := ast.Unparen(vs.Values[i]).(*ast.CompositeLit); ok {
							return cl, n.Pos()
						}
					}
				}
			}
		}
	}
	return nil, token.NoPos
}

func usedObj(info *types.Info, e ast.Expr) types.Object {
	switch x := ast.Unparen(e).(type) {
	case *ast.Ident:
		return info.Uses[x]
	case *ast.SelectorExpr:
		return info.Uses[x.Sel]
	}
	return nil
}

// mapLitEntries evaluates a map composite literal whose keys and values are
// constants. ok=false if some key or value is not a constant.
func mapLitEntries(pk *packages.Package, cl *ast.CompositeLit) (ents []constEntry, ok bool) {
	ok = true
	for _, el := range cl.Elts {
		kv, isKV := el.(*ast.KeyValueExpr)
		if !isKV {
			return nil, false
		}
		e := constEntry{KeyExpr: kv.Key, ValExpr: kv.Value, Pos: kv.Pos()}
		if tv, has := pk.TypesInfo.Types[kv.Key]; has && tv.Value != nil {
			e.Key = tv.Value
		} else {
			ok = false
		}
		if tv, has := pk.TypesInfo.Types[kv.Value]; has && tv.Value != nil {
			e.Val = tv.Value
		} else {
			ok = false
		}
		e.KeyObj = usedObj(pk.TypesInfo, kv.Key)
		e.ValObj = usedObj(pk.TypesInfo, kv.Value)
		ents = append(ents, e)
	}
	return ents, ok
}

func constOf(p *core.Prog, rel, name string) constant.Value {
	c, ok := p.Obj(rel, name).(*types.Const)
	if !ok {
		core.Fail("anchor: %s.%s is not a constant", rel, name)
	}
	return c.Val()
}

func extConst(p *core.Prog, pkgpath, name string) constant.Value {
	pk := p.ByPath[pkgpath]
	if pk == nil {
		core.Fail("anchor: package %s not loaded", pkgpath)
	}
	c, ok := pk.Types.Scope().Lookup(name).(*types.Const)
	if !ok {
		core.Fail("anchor: %s.%s is not a constant", pkgpath, name)
	}
	return c.Val()
}

func constEq(a, b constant.Value) bool {
	if a == nil || b == nil {
		return false
	}
	return constant.Compare(a, token.EQL, b)
}

// funcDecl finds the AST declaration of a function/method by object.
func funcDecl(pk *packages.Package, obj types.Object) *ast.FuncDecl {
	for _, f := range pk.Syntax {
		for _, d := range f.Decls {
			if fd, ok := d.(*ast.FuncDecl); ok && pk.TypesInfo.Defs[fd.Name] == obj {
				return fd
			}
		}
	}
	return nil
}
