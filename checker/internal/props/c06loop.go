package props

import (
	"fmt"
	"go/token"
	"go/types"
	"sort"
	"strings"

	"dblint/internal/core"

	"golang.org/x/tools/go/ssa"
)

// R06.11: length prefixes accumulated in a loop.
//
// Writers of the shape
//
//	length := k; for _, e := range elems { length += f(e) }   // pre-computation
//	write(length); write(count); for _, e := range elems { n += pkg.helper(ch, e) }
//
// (ParamFmtPackage.WriteTo) are outside R06.7, which only covers straight-line
// writers. Here the three linear forms involved are compared per variant
// (`wide` true/false), over the terms len(e.M()) and "codec" (what the
// element's own codec writes = e.FormatByteLength(), a stated premise):
//
//	(a) what the helper REPORTS to have written (its int result) equals the
//	    widths it actually writes on every success path;
//	(b) the per-element increment of the pre-computed length equals (a);
//	(c) the initial value of the accumulator equals the fixed widths written
//	    between the length prefix and the element loop.

type plin struct {
	c     int64
	terms map[string]int
	ok    bool
	why   string
}

func newPlin() plin { return plin{terms: map[string]int{}, ok: true} }

func (a plin) add(b plin) plin {
	if !a.ok {
		return a
	}
	if !b.ok {
		return b
	}
	out := newPlin()
	out.c = a.c + b.c
	for k, n := range a.terms {
		out.terms[k] += n
	}
	for k, n := range b.terms {
		out.terms[k] += n
	}
	return out
}

func (a plin) equal(b plin) bool {
	if !a.ok || !b.ok || a.c != b.c {
		return false
	}
	for k, n := range a.terms {
		if n != 0 && b.terms[k] != n {
			return false
		}
	}
	for k, n := range b.terms {
		if n != 0 && a.terms[k] != n {
			return false
		}
	}
	return true
}

func (a plin) String() string {
	if !a.ok {
		return "?(" + a.why + ")"
	}
	var ts []string
	for k, n := range a.terms {
		switch {
		case n == 0:
		case n == 1:
			ts = append(ts, k)
		default:
			ts = append(ts, fmt.Sprintf("%d*%s", n, k))
		}
	}
	sort.Strings(ts)
	return strings.TrimSuffix(fmt.Sprintf("%d + %s", a.c, strings.Join(ts, " + ")), " + ")
}

// elemTerm names a value derived from the element `elem`: e.M() → "M()",
// the int result of the element's codec (FormatByteLength() or WriteTo()#0) → "codec".
func elemTerm(v ssa.Value, elem ssa.Value) (string, bool) {
	v = core.Strip(v)
	if ex, ok := v.(*ssa.Extract); ok && ex.Index == 0 {
		if c, ok := ex.Tuple.(*ssa.Call); ok && c.Call.IsInvoke() && c.Call.Value == elem && c.Call.Method.Name() == "WriteTo" {
			return "codec", true
		}
	}
	c, ok := v.(*ssa.Call)
	if !ok || !c.Call.IsInvoke() || c.Call.Value != elem {
		return "", false
	}
	if c.Call.Method.Name() == "FormatByteLength" {
		return "codec", true
	}
	return c.Call.Method.Name() + "()", true
}

// pathLinCalls collects the helper calls left symbolic by pathLin (set by the caller around a run; single-threaded).
var pathLinCalls map[string]*ssa.Call

// helperForms evaluates a pure helper g(elem, wide) int per variant: the variant is decided by the branches on the
// parameter that receives the `wide` flag.
func helperForms(call *ssa.Call, elem ssa.Value, fWide *types.Var) (map[string]plin, string) {
	g := core.StaticCallee(call)
	var ep, wp *ssa.Parameter
	for i, a := range call.Call.Args {
		if a == elem {
			ep = g.Params[i]
		}
		if f, _ := core.FieldLoad(a); f == fWide {
			wp = g.Params[i]
		}
	}
	if ep == nil {
		return nil, "the element is not passed to " + core.FuncName(g)
	}
	out := map[string]plin{}
	why := ""
	core.EnumPaths(g.Blocks[0], func(b *ssa.BasicBlock) bool { return false }, nil, 2000, func(pa core.Path, ended bool) {
		last := pa.Blocks[len(pa.Blocks)-1]
		ret, isRet := last.Instrs[len(last.Instrs)-1].(*ssa.Return)
		if !isRet {
			return
		}
		variant := ""
		for _, c := range pa.Conds {
			if wp != nil && c.If.Cond == ssa.Value(wp) {
				variant = map[bool]string{true: "wide", false: "narrow"}[c.Pol]
			}
			// a method of the package itself tests its own `wide` field
			if f, _ := core.FieldLoad(c.If.Cond); f != nil && f == fWide {
				variant = map[bool]string{true: "wide", false: "narrow"}[c.Pol]
			}
		}
		f := pathLin(core.RetVals(ret)[0], pa, ep, nil)
		if !f.ok {
			why = f.why
		}
		out[variant] = f
	})
	return out, why
}

// pathLin evaluates v as a linear form along one CFG path (φ resolved by the
// path's predecessor; acc, if non-nil, stays symbolic as "$acc").
func pathLin(v ssa.Value, pa core.Path, elem ssa.Value, acc *ssa.Phi) plin {
	idx := map[*ssa.BasicBlock]int{}
	for i, b := range pa.Blocks {
		if _, seen := idx[b]; !seen {
			idx[b] = i
		}
	}
	var lin func(v ssa.Value, d int) plin
	lin = func(v ssa.Value, d int) plin {
		out := newPlin()
		if d > 40 {
			return plin{why: "expression too deep"}
		}
		if c, ok := core.ConstInt64(v); ok {
			out.c = c
			return out
		}
		if t, ok := elemTerm(v, elem); ok {
			out.terms[t] = 1
			return out
		}
		switch x := v.(type) {
		case *ssa.Phi:
			if acc != nil && x == acc {
				out.terms["$acc"] = 1
				return out
			}
			// resolve by the predecessor on the path: the LAST occurrence of the φ's block matters for loops
			for i := len(pa.Blocks) - 1; i > 0; i-- {
				if pa.Blocks[i] != x.Block() {
					continue
				}
				for j, pr := range x.Block().Preds {
					if pr == pa.Blocks[i-1] {
						return lin(x.Edges[j], d+1)
					}
				}
			}
			return plin{why: "φ not on the path: " + core.Expr(x)}
		case *ssa.Convert:
			return lin(x.X, d+1)
		case *ssa.BinOp:
			if x.Op == token.ADD {
				return lin(x.X, d+1).add(lin(x.Y, d+1))
			}
			return plin{why: "operator " + x.Op.String()}
		case *ssa.Call:
			if arg, isLen := isLenCall(x); isLen {
				if t, ok := elemTerm(arg, elem); ok {
					out.terms["len("+t+")"] = 1
					return out
				}
				return plin{why: "len of " + core.Expr(arg)}
			}
			// a helper of the module that computes the element's share: kept symbolic, expanded by the caller
			if g := core.StaticCallee(x); g != nil && core.InModule(g) && len(g.Blocks) > 0 && elem != nil {
				for _, a := range x.Call.Args {
					if a == elem {
						out.terms["@"+core.FuncName(g)] = 1
						if pathLinCalls != nil {
							pathLinCalls["@"+core.FuncName(g)] = x
						}
						return out
					}
				}
			}
		}
		return plin{why: "term " + core.Expr(v)}
	}
	return lin(v, 0)
}

// variantOf reports the decision on the receiver's bool field `wide` taken along the path ("", "wide", "narrow").
func variantOf(pa core.Path, fWide *types.Var) (string, bool) {
	v := ""
	for _, c := range pa.Conds {
		if f, _ := core.FieldLoad(c.If.Cond); f != nil && f == fWide {
			w := "narrow"
			if c.Pol {
				w = "wide"
			}
			if v != "" && v != w {
				return "", false // infeasible: decided both ways
			}
			v = w
		}
	}
	return v, true
}

func successPath(pa core.Path) bool {
	for _, c := range pa.Conds {
		if _, nn, isErr := core.ErrNilTest(c.If.Cond); isErr && nn == c.Pol {
			return false
		}
	}
	return true
}

func c06LoopLength(r *core.Run, ef *errFlow) {
	p := r.Prog
	sb := newShapeBuilder(p, ef)
	type target struct{ typ, writer, helper string }
	for _, tg := range []target{{"ParamFmtPackage", "WriteTo", "WriteToField"}} {
		w := p.Func("tds", tg.typ, tg.writer)
		h := p.Func("tds", tg.typ, tg.helper)
		fWide := p.Field("tds", tg.typ, "wide")
		key := tg.typ + "." + tg.writer

		// (a) the helper: reported == written, per variant
		if len(h.Params) != 3 {
			r.Unknown("R06.11", key+": helper signature", h.Pos(), "expected (pkg, ch, elem)")
			continue
		}
		elemH := ssa.Value(h.Params[2])
		reported := map[string]plin{}
		writtenBy := map[string]plin{}
		badA := ""
		nA := 0
		core.EnumPaths(h.Blocks[0], func(b *ssa.BasicBlock) bool { return false }, nil, 5000, func(pa core.Path, ended bool) {
			last := pa.Blocks[len(pa.Blocks)-1]
			ret, isRet := last.Instrs[len(last.Instrs)-1].(*ssa.Return)
			if !isRet || !successPath(pa) {
				return
			}
			rv := core.RetVals(ret)
			if len(rv) != 2 || !core.IsNil(rv[1]) {
				return
			}
			variant, feasible := variantOf(pa, fWide)
			if !feasible {
				return
			}
			nA++
			rep := pathLin(rv[0], pa, elemH, nil)
			written := newPlin()
			for _, b := range pa.Blocks {
				for _, in := range b.Instrs {
					c, ok := in.(*ssa.Call)
					if !ok {
						continue
					}
					l, isL := sb.letterOf(c)
					if !isL {
						continue
					}
					switch l {
					case "1", "2", "4", "8":
						written.c += widthOfLetter(l)
					case "S":
						a := c.Call.Args[len(c.Call.Args)-1]
						if t, ok := elemTerm(a, elemH); ok {
							written.terms["len("+t+")"]++
						} else {
							written = plin{why: "variable field " + core.Expr(a)}
						}
					case "FMT", "DAT":
						written.terms["codec"]++
					}
				}
			}
			if !rep.equal(written) && badA == "" {
				badA = fmt.Sprintf("%s reports %s bytes but writes %s (variant %q): the caller's comparison with the declared length is made against a wrong count", tg.helper, rep, written, variant)
			}
			if prev, has := reported[variant]; has && !prev.equal(rep) && badA == "" {
				badA = "two success paths of the same variant report different byte counts"
			}
			reported[variant] = rep
			writtenBy[variant] = written
		})
		r.Check(badA == "" && nA > 0, "R06.11", key+": "+tg.helper+" reports what it writes", h.Pos(), fmt.Sprintf("%d success paths; e.g. %s", nA, firstPlin(reported)), badA)

		// (b)/(c) the writer: accumulator of the declared length
		var acc *ssa.Phi
		var prefix []*ssa.Call
		for _, c := range core.Calls(w) {
			call, ok := c.(*ssa.Call)
			if !ok {
				continue
			}
			if l, isL := sb.letterOf(call); !isL || (l != "2" && l != "4") {
				continue
			}
			a := call.Call.Args[len(call.Call.Args)-1]
			for {
				cv, isCv := a.(*ssa.Convert)
				if !isCv {
					break
				}
				a = cv.X
			}
			if ph, isPh := a.(*ssa.Phi); isPh {
				if _, loop := core.InnermostLoop(ph.Block()); loop != nil || core.NaturalLoop(ph.Block()) != nil {
					acc = ph
					prefix = append(prefix, call)
				}
			}
		}
		if acc == nil {
			r.Unknown("R06.11", key+": accumulated length prefix", w.Pos(), "no length prefix that is a loop-carried sum was found")
			continue
		}
		loop := core.NaturalLoop(acc.Block())
		// the element of the pre-computation loop: the invoke receiver used inside the loop
		var elemW ssa.Value
		for b := range loop {
			for _, in := range b.Instrs {
				if c, ok := in.(*ssa.Call); ok && c.Call.IsInvoke() && elemW == nil {
					elemW = c.Call.Value
				}
			}
		}
		if elemW == nil {
			// the share is computed by a helper: the element is its argument of the helper's element type
			for b := range loop {
				for _, in := range b.Instrs {
					c, ok := in.(*ssa.Call)
					if !ok || c.Call.IsInvoke() || core.StaticCallee(c) == nil || !core.InModule(core.StaticCallee(c)) {
						continue
					}
					for _, a := range c.Call.Args {
						if types.Identical(a.Type(), elemH.Type()) && elemW == nil {
							elemW = a
						}
					}
				}
			}
		}
		incs := map[string]plin{}
		badB := ""
		var initial plin
		for i, e := range acc.Edges {
			if !loop[acc.Block().Preds[i]] {
				initial = pathLin(e, core.Path{}, nil, nil)
			}
		}
		pathLinCalls = map[string]*ssa.Call{}
		defer func() { pathLinCalls = nil }()
		core.EnumPaths(acc.Block(), func(b *ssa.BasicBlock) bool { return b == acc.Block() }, loop, 5000, func(pa core.Path, ended bool) {
			if !ended {
				return
			}
			variant, feasible := variantOf(pa, fWide)
			if !feasible {
				return
			}
			// value of the accumulator on the back edge taken by this path
			latch := pa.Blocks[len(pa.Blocks)-2]
			var back ssa.Value
			for i, pr := range acc.Block().Preds {
				if pr == latch {
					back = acc.Edges[i]
				}
			}
			if back == nil {
				return
			}
			inc := pathLin(back, core.Path{Blocks: pa.Blocks[:len(pa.Blocks)-1], Conds: pa.Conds}, elemW, acc)
			if !inc.ok || inc.terms["$acc"] != 1 {
				badB = "the per-element increment of the declared length is not of the form length += const + Σ len(e.M()) + e.FormatByteLength(): " + inc.String()
				return
			}
			delete(inc.terms, "$acc")
			// expand a helper call g(elem, pkg.wide) into its per-variant forms
			expanded := map[string]plin{variant: inc}
			for t, call := range pathLinCalls {
				if inc.terms[t] == 0 {
					continue
				}
				forms, whyH := helperForms(call, elemW, fWide)
				if whyH != "" || len(forms) == 0 {
					badB = "the helper " + t[1:] + " that computes the per-element length could not be evaluated: " + whyH
					return
				}
				next := map[string]plin{}
				for v0, base := range expanded {
					rest := newPlin().add(base)
					k := rest.terms[t]
					delete(rest.terms, t)
					for hv, hf := range forms {
						v := v0
						if v == "" {
							v = hv
						} else if hv != "" && hv != v {
							continue
						}
						sum := rest
						for i := 0; i < k; i++ {
							sum = sum.add(hf)
						}
						next[v] = sum
					}
				}
				expanded = next
			}
			for v, f := range expanded {
				incs[v] = f
			}
		})
		if badB == "" {
			for variant, rep := range writtenBy {
				// the increment for this variant: exact match, or the variant-independent one
				inc, has := incs[variant]
				if !has {
					inc, has = incs[""]
				}
				if !has {
					badB = fmt.Sprintf("no per-element increment found for variant %q", variant)
					break
				}
				if !inc.equal(rep) {
					badB = fmt.Sprintf("for variant %q the declared length grows by %s per element, but %s writes %s per element: the length field does not equal what follows it", variant, inc, tg.helper, rep)
					break
				}
			}
		}
		r.Check(badB == "" && len(incs) > 0, "R06.11", key+": per-element share of the declared length = bytes written per element", acc.Pos(), fmt.Sprintf("e.g. %s per element", firstPlin(incs)), badB)

		// (c) initial value = fixed widths written after the prefix outside loops and outside the prefix alternatives
		fixed := int64(0)
		for _, c := range core.Calls(w) {
			call, ok := c.(*ssa.Call)
			if !ok {
				continue
			}
			l, isL := sb.letterOf(call)
			if !isL || widthOfLetter(l) < 0 {
				continue
			}
			isPrefix := false
			for _, pc := range prefix {
				if pc == call {
					isPrefix = true
				}
			}
			if _, lp := core.InnermostLoop(call.Block()); lp != nil || isPrefix {
				continue
			}
			after := false
			for _, pc := range prefix {
				if pc.Block().Dominates(call.Block()) || reaches(pc.Block(), call.Block()) {
					after = true
				}
			}
			if after {
				fixed += widthOfLetter(l)
			}
		}
		r.Check(initial.ok && len(initial.terms) == 0 && initial.c == fixed, "R06.11", key+": initial value of the declared length = fixed bytes after the prefix", acc.Pos(), fmt.Sprintf("%d", fixed),
			fmt.Sprintf("the declared length starts at %s but %d fixed bytes are written between the length field and the elements", initial, fixed))
	}
}

func firstPlin(m map[string]plin) string {
	var ks []string
	for k := range m {
		ks = append(ks, k)
	}
	sort.Strings(ks)
	for _, k := range ks {
		return fmt.Sprintf("%q: %s", k, m[k])
	}
	return "-"
}

// reaches: b is reachable from a in the CFG.
func reaches(a, b *ssa.BasicBlock) bool {
	seen := map[*ssa.BasicBlock]bool{}
	var walk func(x *ssa.BasicBlock) bool
	walk = func(x *ssa.BasicBlock) bool {
		if x == b {
			return true
		}
		if seen[x] {
			return false
		}
		seen[x] = true
		for _, s := range x.Succs {
			if walk(s) {
				return true
			}
		}
		return false
	}
	for _, s := range a.Succs {
		if walk(s) {
			return true
		}
	}
	return false
}

// c06ReaderCounts: R06.19. A reader that reports how many bytes it consumed (ReadFrom(ch) (int, error), loop-free) is
// summed up by its caller against a declared length (ENVCHANGE members, field data inside rows). On every success
// path the count it returns equals the widths it read, as linear forms over the lengths it took from the wire: a
// length byte that is read but not counted (or counted only when the value is non-empty) makes the caller's loop read
// one more element out of the next package.
func c06ReaderCounts(r *core.Run, ef *errFlow, rule string) {
	p := r.Prog
	sb := newShapeBuilder(p, ef)
	bc := p.Named("tds", "BytesChannel")
	n := 0
	for _, fn := range p.ModuleFuncs() {
		if fn.Blocks == nil || fn.Pkg == nil || fn.Pkg.Pkg.Path() != core.Module+"/tds" || p.FuncInOverlay(fn) || fn.Parent() != nil {
			continue
		}
		sig := fn.Signature
		if sig.Recv() == nil || sig.Results().Len() != 2 || !types.Identical(sig.Results().At(0).Type(), types.Typ[types.Int]) || !core.IsErrorType(sig.Results().At(1).Type()) {
			continue
		}
		hasCh := false
		for _, prm := range fn.Params {
			if types.Identical(prm.Type(), bc) {
				hasCh = true
			}
		}
		if !hasCh || !strings.HasPrefix(strings.ToLower(fn.Name()), "readfrom") {
			continue
		}
		// loop-free and made of wire reads only (no nested reader whose count would have to be trusted)
		simple := true
		for _, b := range fn.Blocks {
			if h, _ := core.InnermostLoop(b); h != nil {
				simple = false
			}
			for _, in := range b.Instrs {
				if c, ok := in.(*ssa.Call); ok {
					if _, isL := sb.letterOf(c); isL {
						continue
					}
					if g := core.StaticCallee(c); g != nil && ef.W[g] {
						simple = false
					}
					if c.Call.IsInvoke() && c.Call.Method.Name() == "ReadFrom" {
						simple = false
					}
				}
			}
		}
		if !simple {
			continue
		}
		var lin func(v ssa.Value, pa core.Path, d int) plin
		lin = func(v ssa.Value, pa core.Path, d int) plin {
			out := newPlin()
			if d > 30 {
				return plin{why: "expression too deep"}
			}
			if c, ok := core.ConstInt64(v); ok {
				out.c = c
				return out
			}
			switch x := v.(type) {
			case *ssa.Convert:
				return lin(x.X, pa, d+1)
			case *ssa.ChangeType:
				return lin(x.X, pa, d+1)
			case *ssa.BinOp:
				if x.Op == token.ADD {
					return lin(x.X, pa, d+1).add(lin(x.Y, pa, d+1))
				}
			case *ssa.Phi:
				for i := len(pa.Blocks) - 1; i > 0; i-- {
					if pa.Blocks[i] != x.Block() {
						continue
					}
					for j, pr := range x.Block().Preds {
						if pr == pa.Blocks[i-1] {
							return lin(x.Edges[j], pa, d+1)
						}
					}
				}
				return plin{why: "φ not on the path"}
			case *ssa.Extract:
				if c, ok := x.Tuple.(*ssa.Call); ok && x.Index == 0 {
					if _, isL := sb.letterOf(c); isL {
						out.terms["val@"+p.Pos(c.Pos())] = 1
						return out
					}
				}
			case *ssa.Call:
				if arg, isLen := isLenCall(x); isLen {
					// len of what a variable-length read returned = the length it was asked for
					if ex, ok := core.Strip(arg).(*ssa.Extract); ok && ex.Index == 0 {
						if c, ok := ex.Tuple.(*ssa.Call); ok {
							if l, isL := sb.letterOf(c); isL && l == "S" {
								return lin(c.Call.Args[len(c.Call.Args)-1], pa, d+1)
							}
						}
					}
				}
			}
			return plin{why: "term " + core.Expr(v)}
		}
		checked := false
		bad := ""
		var badPos = fn.Pos()
		core.EnumPaths(fn.Blocks[0], func(b *ssa.BasicBlock) bool { return false }, nil, 5000, func(pa core.Path, ended bool) {
			last := pa.Blocks[len(pa.Blocks)-1]
			ret, isRet := last.Instrs[len(last.Instrs)-1].(*ssa.Return)
			if !isRet || !successPath(pa) {
				return
			}
			rv := core.RetVals(ret)
			if !core.IsNil(rv[1]) {
				return
			}
			consumed := newPlin()
			for _, b := range pa.Blocks {
				for _, in := range b.Instrs {
					c, ok := in.(*ssa.Call)
					if !ok {
						continue
					}
					l, isL := sb.letterOf(c)
					if !isL || readLetter[calleeName(c)] == "" {
						continue
					}
					if w := widthOfLetter(l); w > 0 {
						k := newPlin()
						k.c = w
						consumed = consumed.add(k)
					} else if l == "S" {
						consumed = consumed.add(lin(c.Call.Args[len(c.Call.Args)-1], pa, 0))
					} else {
						consumed = plin{why: "read of unknown width"}
					}
				}
			}
			reported := lin(rv[0], pa, 0)
			if !consumed.ok || !reported.ok {
				return // not expressible: this rule does not decide the path
			}
			checked = true
			if !consumed.equal(reported) {
				bad = "on a success path the reader consumes " + consumed.String() + " bytes but reports " + reported.String() + ": the caller, which adds the reports up against the declared length of the package, is out of step with the stream and reads one more (or one fewer) element"
				badPos = ret.Pos()
			}
		})
		if !checked {
			continue
		}
		n++
		r.Check(bad == "", rule, core.FuncName(fn)+": reported count = bytes consumed", badPos, "equal on every success path", bad)
	}
	if n == 0 {
		r.Unknown(rule, "counting readers", token.NoPos, "no loop-free reader with a byte count found")
	}
}
