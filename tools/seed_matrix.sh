#!/bin/bash
# For every seeded change: apply (to /repo, or to a base worktree if it conflicts with a fix: commit), run ALL claimed quick checks,
# record which report a violation, revert. Writes seeded/<name>/meta.json:detected_by and seeded/MATRIX.md.
cd /verif
ids=$(python3 -c "import json; print(' '.join(c['property_id'] for c in json.load(open('MANIFEST.json'))['checks']))")
echo "| seed | own property check | other checks that fire | rules that fire |" > seeded/MATRIX.md
echo "|---|---|---|---|" >> seeded/MATRIX.md
for d in seeded/C*-m*/; do
  name=$(basename $d); prop=${name%%-*}
  out=$(TRY_SEED_LINES=200 tools/try_seed.sh $d/patch.diff $ids 2>&1)
  python3 - "$name" "$prop" <<PY "$out"
import sys,json,re
name,prop,out=sys.argv[1],sys.argv[2],sys.argv[3]
cur=None; fired={}; rules={}
for l in out.splitlines():
    m=re.match(r'--- (C\d+) exit=(\d+)',l)
    if m: cur=m.group(1); fired[cur]=int(m.group(2))!=0; rules[cur]=[]; continue
    m=re.match(r'(VIOLATED|UNDECIDED) (R[\d.]+)\|',l)
    if m and cur: rules[cur].append(m.group(2))
    if l.startswith('ANALYSIS-ERROR') and cur: rules[cur].append('ANALYSIS-ERROR')
own=fired.get(prop,False)
others=[k for k,v in fired.items() if v and k!=prop]
p='/verif/seeded/%s/meta.json'%name
meta=json.load(open(p))
meta['detected_by']={'own_property_check':own,'checks_that_fire':[k for k,v in fired.items() if v],'rules':{k:sorted(set(v)) for k,v in rules.items() if v},'on_base_worktree':'conflicts with a fix: commit' in out}
json.dump(meta,open(p,'w'),indent=1)
allr=sorted(set(r for v in rules.values() for r in v))
open('/verif/seeded/MATRIX.md','a').write('| %s | %s | %s | %s |\n'%(name,'**caught**' if own else 'not caught',', '.join(others) or '-',', '.join(allr) or '-'))
print(name, 'own=',own, 'others=',others)
PY
done
