package props

import (
	"fmt"
	"go/ast"
	"go/constant"
	"go/token"
	"go/types"
	"sort"
	"strings"

	"dblint/internal/core"

	"golang.org/x/tools/go/ssa"
)

func init() {
	register(&Spec{ID: "C09", Title: "Passwords never cross the wire in clear when encryption is negotiated", Run: runC09,
		Meta: core.Meta{
			Explanation: "R09.15 = R01.25. R09.16: SendRemainingPackets registers its deferred reset before the flush (or resets before every return after it): ciphertexts made for an old nonce never stay queued for the next attempt. R09.14 = R15.17. R09.13 = R06.6 (a field that is wider than its slot shifts the password slot and the seclogin flags). R09.11 = R14.12, R09.12 = R02.6 (a nonce that aliases a scratch buffer of the queue is overwritten by the next reads before Login encrypts under it). R09.10 = R15.7 + R15.6 (DiscardUntilCurrentPosition decides 'used up' on the body length of the packet under the position; a packet that stays queued after it was sent is written again with the next flush, repeating the password ciphertexts verbatim). R09.9: in NewLoginConfig the store Encrypt := TDS_MSG_SEC_ENCRYPT4 dominates every success return (no DSN option switches the password encryption off). R09.8: in Login the store LoginConfigRemoteServer.Password := config.DSN.Password dominates the call of pack() — the entry is rebuilt at every login, never kept from an earlier one. Absence-of-flow, decided by taint analysis over SSA (E-TAINT). R09.1: sources are all loads of dsn.Info.Password and tds.LoginConfigRemoteServer.Password in package tds; the secret may flow only (A) into rsaEncrypt's password parameter, where it may only be appended after the nonce and handed to rsa.EncryptOAEP as the message; (B) into writeString at the single call site of LoginConfig.pack that is dominated by config.Encrypt differing from all four TDS_MSG_SEC_ENCRYPT* constants (the plain-mode password slot); (C) into the Password field of the synthesised first remote server. Every other use — an argument of fmt/log, a buffer or BytesChannel write, a store into another field or variable, a return to a caller that uses it otherwise — is a violation reported with the flow path. Control: at least one flow of each accepted kind must be found. R09.2: the OAEP call uses sha1.New(), crypto/rand.Reader, an empty label and append(nonce, secret...) (nonce first); rsaEncrypt is called with the account password, each remote password and the session key. R09.3: generateSymmetricKey returns the 32-byte buffer filled by crypto/rand.Read under the length check. R09.4 (E-CONST): the message ids for which pack leaves the password slot empty are exactly those for which Login does not take the plain flow. R09.6: in package tds no value whose type holds Info.Password or LoginConfigRemoteServer.Password (directly or through pointers, slices, maps, nested structs) is converted to an interface — the only way into fmt, log, errors or reflection, where %v of the struct would print the password. R09.7: no branch condition in package tds is computed from a password (its value, its length, a comparison), except a test whose one edge returns an error at once (a rejection decides nothing about what is sent): the bytes sent depend on a secret only through its ciphertext. R09.5: every field object retained in the parameter slices built inside Login's remote-server loop is created in the same iteration (an object shared across iterations would make all entries carry the last ciphertext).",
			NotDecided:  "Cryptographic strength, what the standard library does with the bytes, and the length of the password (len() is not treated as a leak) are not decided.",
			Assumptions: []string{"rsa.EncryptOAEP does not expose its message", "package tds is the only code that writes login bytes"},
		}})
}

func runC09(r *core.Run) {
	p := r.Prog
	r.Rule("R09.1", "the password flows only into rsaEncrypt's message, the plain-mode slot, or the first remote server entry (E-TAINT)", 4, true)
	r.Rule("R09.2", "OAEP parameters and the three kinds of secrets", 5, false)
	r.Rule("R09.3", "session key: 32 fresh random bytes", 1, false)
	r.Rule("R09.4", "pack and Login agree on which message ids mean 'encrypted'", 1, false)
	r.Rule("R09.5", "objects retained across a loop in Login are created per iteration", 2, false)
	r.Rule("R09.7", "no branch condition is computed from a password", 1, false)
	r.Rule("R09.6", "no value of a type that holds a password field is converted to an interface in package tds", 1, false)
	r.Rule("R09.8", "the current server's remote-password entry is built from DSN.Password at login time", 1, false)
	defer c09CurrentPassword(r)
	r.Rule("R09.9", "NewLoginConfig requests the password encryption unconditionally", 1, false)
	defer c09EncryptDefault(r)
	r.Rule("R09.10", "a packet that was sent leaves the transmit queue (R15.7, R15.6): no ciphertext goes out twice", 2, true)
	defer c15Discard(r, "R09.10")
	defer c15PacketSize(r, "R09.10")
	r.Rule("R09.11", "a failed packet write ends the login with that error (R14.12): no password message goes out with a hole", 1, false)
	defer c14SendFailureReturns(r, "R09.11")
	r.Rule("R09.12", "values read from the reply (the nonce) do not alias queue storage (R02.6)", 1, false)
	defer func() {
		r.Rule("R09.13", "login-record fields have their byte width: writeString tests, pads and declares len(s) (R06.6)", 1, false)
		r.Rule("R09.14", "what is queued is what was encoded: WriteBytes copies in one place (R15.17)", 1, false)
		defer oneCopySite(r, "R09.14")
		r.Rule("R09.15", "the queue that carries the ciphertexts follows the live packet size (R01.25)", 2, false)
		defer liveSizeGetter(r, "R09.15")
		r.Rule("R09.16", "nothing of a failed login attempt stays queued", 1, false)
		defer resetOnEveryExit(r, "R09.16")
		defer c06WriteString(r, "R09.13")
		ok, why := bytesReturnsFresh(r.Prog)
		r.Check(ok, "R09.12", "PacketQueue.Bytes returns a buffer of its own", r.Prog.Func("tds", "PacketQueue", "Bytes").Pos(), "make([]byte, n) allocated by the call", why)
	}()

	srcA := p.Field("dsn", "Info", "Password")
	srcB := p.Field("tds", "LoginConfigRemoteServer", "Password")
	rsaEnc := p.Func("tds", "", "rsaEncrypt")
	ws := p.Func("tds", "", "writeString")
	pack := p.Func("tds", "LoginConfig", "pack")
	fEncrypt := p.Field("tds", "LoginConfig", "Encrypt")
	encConsts := []constant.Value{constOf(p, "tds", "TDS_MSG_SEC_ENCRYPT"), constOf(p, "tds", "TDS_MSG_SEC_ENCRYPT2"), constOf(p, "tds", "TDS_MSG_SEC_ENCRYPT3"), constOf(p, "tds", "TDS_MSG_SEC_ENCRYPT4")}

	te := newTaint(p, []*types.Var{srcA, srcB}, func(fn *ssa.Function) bool {
		pk := fn.Pkg
		if pk == nil && fn.Parent() != nil {
			pk = fn.Parent().Pkg
		}
		return pk != nil && pk.Pkg.Path() == core.Module+"/tds"
	})
	te.okField = func(f *types.Var) bool { return f == srcB }
	plainSlot := func(c ssa.CallInstruction) bool {
		if c.Parent() != pack || core.StaticCallee(c) != ws {
			return false
		}
		excluded := 0
		for _, k := range encConsts {
			for _, cg := range fieldCmpGuards(core.GuardsAt(c.(ssa.Instruction)), nil, fEncrypt) {
				if constEq(cg.Cst, k) && ((cg.Op == token.EQL && !cg.Pol) || (cg.Op == token.NEQ && cg.Pol)) {
					excluded++
					break
				}
			}
		}
		return excluded == len(encConsts)
	}
	te.barrier = func(c ssa.CallInstruction, idx int) (bool, string) {
		if plainSlot(c) && idx == 1 {
			return true, "B: plain-mode password slot (config.Encrypt is none of the four encrypted ids)"
		}
		return false, ""
	}
	te.external = func(c ssa.CallInstruction, idx int) (string, bool) {
		if core.IsPkgFunc(c, "crypto/rsa", "EncryptOAEP") && idx == 3 {
			return "A: message of rsa.EncryptOAEP", false
		}
		return "", false
	}
	te.Run()

	for _, s := range te.SortedSinks() {
		key := core.FuncName(s.Instr.Parent()) + ": " + s.What
		if r.Prog.InOverlay(s.Instr.Pos()) || r.Prog.FuncInOverlay(s.Instr.Parent()) {
			r.Bad("R09.1", key, s.Instr.Pos(), "the password reaches a sink outside the accepted ones", s.Path...)
			continue
		}
		r.Bad("R09.1", key, s.Instr.Pos(), "the clear-text password is "+s.What+": it can appear on the wire, in an error text or in a log although encryption is negotiated", s.Path...)
	}
	// controls
	kinds := map[string]int{}
	for _, a := range te.Allowed {
		kinds[a.What[:1]]++
		r.OK("R09.1", core.FuncName(a.Instr.Parent())+": accepted flow "+a.What, a.Instr.Pos(), strings.Join(a.Path, " → "))
	}
	// inside rsaEncrypt the tainted parameter must be only the password parameter
	okParam := len(rsaEnc.Params) == 3 && te.tainted[rsaEnc.Params[0]] == "" && te.tainted[rsaEnc.Params[1]] == "" &&
		(te.tainted[rsaEnc.Params[2]] != "" || len(callsTo(p.Func("tds", "Channel", "Login"), rsaEnc)) == 0)
	r.Check(okParam, "R09.1", "rsaEncrypt: the secret arrives as the password parameter only", rsaEnc.Pos(), "only parameter 3 is tainted", "a password is passed to rsaEncrypt as the key or the nonce")
	r.Check(kinds["A"] > 0 && kinds["B"] > 0 && kinds["C"] > 0, "R09.1", "control: flows of every accepted kind are seen", pack.Pos(),
		"A (OAEP message), B (plain slot) and C (first remote server) flows found", "the analysis no longer sees one of the legitimate flows (A/B/C): it would pass vacuously")

	c09OAEP(r, rsaEnc, srcA, srcB)
	c09SymKey(r, "R09.3")
	c09Switches(r)
	c09LoopFresh(r)
	c09Containers(r, []*types.Var{srcA, srcB}, te.funcs)
	c09NoSecretBranches(r, te)
}

// c09NoSecretBranches: R09.7. What is written to the wire must not depend on the VALUE of a secret other than through
// the ciphertext: no branch condition in package tds is computed from a password (its bytes, its length, a
// comparison with "") — e.g. skipping the encryption for an empty password shows an observer which accounts have one.
func c09NoSecretBranches(r *core.Run, te *taintEngine) {
	var dep func(v ssa.Value, d int) ssa.Value
	dep = func(v ssa.Value, d int) ssa.Value {
		if d > 5 || v == nil {
			return nil
		}
		if te.tainted[v] != "" {
			return v
		}
		switch x := v.(type) {
		case *ssa.BinOp:
			if t := dep(x.X, d+1); t != nil {
				return t
			}
			return dep(x.Y, d+1)
		case *ssa.UnOp:
			return dep(x.X, d+1)
		case *ssa.Convert:
			return dep(x.X, d+1)
		case *ssa.Call:
			if arg, isLen := isLenCall(x); isLen {
				return dep(arg, d+1)
			}
		}
		return nil
	}
	n := 0
	for _, fn := range te.funcs {
		for _, b := range fn.Blocks {
			if len(b.Instrs) == 0 {
				continue
			}
			iff, ok := b.Instrs[len(b.Instrs)-1].(*ssa.If)
			if !ok {
				continue
			}
			n++
			if t := dep(iff.Cond, 0); t != nil {
				// a test that only REJECTS (one edge returns an error at once) decides nothing about what is sent
				rejects := false
				for _, sb := range b.Succs {
					if ret, isRet := sb.Instrs[len(sb.Instrs)-1].(*ssa.Return); isRet {
						rv := core.RetVals(ret)
						if len(rv) > 0 && core.IsErrorType(rv[len(rv)-1].Type()) && !core.IsNil(rv[len(rv)-1]) {
							rejects = true
						}
					}
				}
				if rejects {
					continue
				}
				pos := iff.Cond.Pos()
				if pos == token.NoPos {
					pos = fn.Pos()
				}
				r.Bad("R09.7", core.FuncName(fn)+": branch on "+core.KExpr(iff.Cond), pos, "a branch condition is computed from a password ("+core.Expr(t)+"): what is sent then depends on the secret's value (for instance an empty password goes out as a NULL field instead of a ciphertext, telling an observer which entries have no password)", te.pathOf(t)...)
			}
		}
	}
	r.Check(n > 0, "R09.7", "no branch in package tds depends on a password", token.NoPos, fmt.Sprintf("%d branches inspected", n), "no branches seen")
}

// holdsSecret: values of type t carry one of the secret fields (directly, or through pointers, slices, arrays, maps
// and nested structs).
func holdsSecret(t types.Type, secrets map[*types.Var]bool, seen map[types.Type]bool, d int) bool {
	if d > 6 || seen[t] {
		return false
	}
	seen[t] = true
	switch x := t.Underlying().(type) {
	case *types.Struct:
		for i := 0; i < x.NumFields(); i++ {
			if secrets[x.Field(i)] || holdsSecret(x.Field(i).Type(), secrets, seen, d+1) {
				return true
			}
		}
	case *types.Pointer:
		return holdsSecret(x.Elem(), secrets, seen, d+1)
	case *types.Slice:
		return holdsSecret(x.Elem(), secrets, seen, d+1)
	case *types.Array:
		return holdsSecret(x.Elem(), secrets, seen, d+1)
	case *types.Map:
		return holdsSecret(x.Elem(), secrets, seen, d+1) || holdsSecret(x.Key(), secrets, seen, d+1)
	}
	return false
}

// c09Containers: R09.6. E-TAINT follows the password string itself; a struct that HOLDS it leaks it just as well when
// it is rendered as a whole (%v of a LoginConfigRemoteServer prints {name password}). In package tds no value whose
// type holds a secret field is converted to an interface (the only way into fmt, log, errors and reflection).
func c09Containers(r *core.Run, secrets []*types.Var, funcs []*ssa.Function) {
	sec := map[*types.Var]bool{}
	for _, s := range secrets {
		sec[s] = true
	}
	n := 0
	for _, fn := range funcs {
		for _, b := range fn.Blocks {
			for _, in := range b.Instrs {
				mi, ok := in.(*ssa.MakeInterface)
				if !ok {
					continue
				}
				n++
				if !holdsSecret(mi.X.Type(), sec, map[types.Type]bool{}, 0) {
					continue
				}
				r.Bad("R09.6", core.FuncName(fn)+": "+core.TypeStr(mi.X.Type())+" converted to an interface", mi.Pos(),
					"a value of type "+core.TypeStr(mi.X.Type())+", which holds a password field, is converted to an interface ("+core.Expr(mi)+"): formatted with %v/%+v/%#v or logged, it renders the clear-text password into an error text or log line")
			}
		}
	}
	r.Check(n > 0, "R09.6", "no struct holding a password is rendered as a whole", token.NoPos, fmt.Sprintf("%d interface conversions in package tds inspected, none of a type that holds a secret field", n), "no interface conversions seen: the rule does not see the code")
}

func c09OAEP(r *core.Run, rsaEnc *ssa.Function, srcA, srcB *types.Var) {
	p := r.Prog
	// Every RSA-OAEP encryption in package tds (the one in rsaEncrypt on the reviewed tree; wherever a refactoring
	// puts it — new helpers are inlined): SHA-1, crypto/rand.Reader, empty label, message = nonce then secret.
	type site struct {
		at            ssa.Instruction
		nonce, secret ssa.Value
	}
	// message forms: append(N, S...)  |  append(append(E, N...), S...) with E an empty fresh slice
	split := func(msg ssa.Value) (n, s ssa.Value, why string) {
		ap, ok := msg.(*ssa.Call)
		if !ok {
			return nil, nil, "the OAEP message is " + core.Expr(msg) + ", not nonce followed by the secret in a buffer of its own"
		}
		bi, isB := ap.Call.Value.(*ssa.Builtin)
		if !isB || bi.Name() != "append" || len(ap.Call.Args) != 2 {
			return nil, nil, "the OAEP message is not append(nonce, secret...)"
		}
		if in, ok := ap.Call.Args[0].(*ssa.Call); ok {
			if b2, isB2 := in.Call.Value.(*ssa.Builtin); isB2 && b2.Name() == "append" && len(in.Call.Args) == 2 {
				if k, isK := core.MakeLen(in.Call.Args[0]); (isK && k == 0) || core.IsNil(in.Call.Args[0]) {
					return core.Strip(in.Call.Args[1]), core.Strip(ap.Call.Args[1]), ""
				}
				if ms, isMS := in.Call.Args[0].(*ssa.MakeSlice); isMS {
					if z, isC := core.ConstInt64(ms.Len); isC && z == 0 {
						return core.Strip(in.Call.Args[1]), core.Strip(ap.Call.Args[1]), ""
					}
				}
				return nil, nil, "the OAEP message is appended to " + core.Expr(in.Call.Args[0]) + ", which is not an empty buffer of its own"
			}
		}
		return core.Strip(ap.Call.Args[0]), core.Strip(ap.Call.Args[1]), ""
	}
	nOAEP := 0
	direct := map[*ssa.Function][]site{}
	for _, fn := range p.ModuleFuncs() {
		if fn.Blocks == nil || fn.Pkg == nil || fn.Pkg.Pkg.Path() != core.Module+"/tds" || p.FuncInOverlay(fn) {
			continue
		}
		for _, c := range core.Calls(fn) {
			if !core.IsPkgFunc(c, "crypto/rsa", "EncryptOAEP") {
				continue
			}
			oaep, isCall := c.(*ssa.Call)
			if !isCall {
				continue
			}
			nOAEP++
			where := core.FuncName(fn)
			if fn == rsaEnc {
				where = "rsaEncrypt"
			}
			a := oaep.Call.Args
			h, isH := a[0].(*ssa.Call)
			r.Check(isH && core.IsPkgFunc(h, "crypto/sha1", "New"), "R09.2", where+": hash is SHA-1", oaep.Pos(), "sha1.New()", "the OAEP hash is not SHA-1: the server cannot decrypt")
			okRand := false
			if u, ok := core.Strip(a[1]).(*ssa.UnOp); ok {
				if g, ok := u.X.(*ssa.Global); ok && g.Pkg.Pkg.Path() == "crypto/rand" && g.Name() == "Reader" {
					okRand = true
				}
			}
			r.Check(okRand, "R09.2", where+": randomness is crypto/rand.Reader", oaep.Pos(), "rand.Reader", "OAEP is not seeded from crypto/rand.Reader: ciphertexts are not fresh")
			n, s, whyMsg := split(a[3])
			if whyMsg == "" && fn == rsaEnc && len(rsaEnc.Params) == 3 {
				switch {
				case s == ssa.Value(rsaEnc.Params[1]) || n == ssa.Value(rsaEnc.Params[2]):
					whyMsg = "the secret precedes the nonce in the OAEP message"
				case s != ssa.Value(rsaEnc.Params[2]):
					whyMsg = "what follows the nonce in the OAEP message is " + core.Expr(s) + ", not the secret handed to rsaEncrypt"
				case n != ssa.Value(rsaEnc.Params[1]):
					if f, _ := core.FieldLoad(n); f == nil {
						whyMsg = "the OAEP message starts with " + core.Expr(n) + ", not with the nonce as the server sent it"
					}
				}
			}
			if whyMsg == "" {
				if _, isC := n.(*ssa.Const); isC {
					whyMsg = "the OAEP message starts with a constant, not with the server's nonce"
				}
			}
			r.Check(whyMsg == "", "R09.2", where+": message is nonce followed by the secret", oaep.Pos(), "append(nonce, password...)", whyMsg)
			lbl, okL := core.MakeLen(a[4])
			r.Check(okL && lbl == 0, "R09.2", where+": empty label", oaep.Pos(), "[]byte{}", "the OAEP label is not empty")
			if whyMsg == "" {
				direct[fn] = append(direct[fn], site{oaep, n, s})
			}
		}
	}
	if nOAEP == 0 {
		r.Bad("R09.2", "rsaEncrypt: rsa.EncryptOAEP", rsaEnc.Pos(), "package tds no longer encrypts with RSA-OAEP")
		return
	}

	// three kinds of secrets in Login: through rsaEncrypt, or through an encryption that now lives in Login itself
	login := p.Func("tds", "Channel", "Login")
	gen := p.Func("tds", "", "generateSymmetricKey")
	kinds := map[string]bool{}
	sameKeyNonce := true
	classify := func(s ssa.Value) {
		s = core.Strip(s)
		if f, _ := core.FieldLoad(s); f == srcA {
			kinds["account password"] = true
		} else if f == srcB {
			kinds["remote password"] = true
		} else if ex, ok := s.(*ssa.Extract); ok {
			if call, ok := ex.Tuple.(*ssa.Call); ok && core.StaticCallee(call) == gen {
				kinds["session key"] = true
			}
		}
	}
	var k0, n0 ssa.Value
	for _, c := range callsTo(login, rsaEnc) {
		args := c.Common().Args
		if k0 == nil {
			k0, n0 = args[0], args[1]
		} else if args[0] != k0 || args[1] != n0 {
			sameKeyNonce = false
		}
		classify(args[2])
	}
	for _, st := range direct[login] {
		classify(st.secret)
	}
	var have []string
	for k := range kinds {
		have = append(have, k)
	}
	sort.Strings(have)
	r.Check(len(kinds) == 3 && sameKeyNonce, "R09.2", "Login: account password, remote passwords and session key are each RSA-encrypted under the server's key and nonce", login.Pos(), strings.Join(have, ", "),
		"not all three kinds of secrets are RSA-encrypted with the server's key and nonce (found: "+strings.Join(have, ", ")+")")
}

func c09SymKey(r *core.Run, rule string) {
	p := r.Prog
	fn := p.Func("tds", "", "generateSymmetricKey")
	ok, why := false, "no success return found"
	for _, ret := range core.Returns(fn) {
		rv := core.RetVals(ret)
		if !core.IsNil(rv[1]) {
			continue
		}
		buf := rv[0]
		size := int64(-1)
		if ms, isMS := buf.(*ssa.MakeSlice); isMS {
			// size 32 (φ/const) on the aes_256_cbc arm
			for _, v := range phiLeaves(ms.Len, nil) {
				if c, isC := core.ConstInt64(v); isC && c != 0 {
					size = c
				}
			}
		} else if k, isK := core.MakeLen(buf); isK {
			size = k // make with a constant size (go/ssa: new [k]byte + slice)
		} else {
			why = "the returned key is not the freshly made buffer"
			continue
		}
		filled := false
		for _, c := range core.Calls(fn) {
			if core.IsPkgFunc(c, "crypto/rand", "Read") && c.Common().Args[0] == buf {
				if errNilGuard(core.GuardsAt(ret), c) {
					filled = true
				}
			}
		}
		lenChecked := false
		for _, g := range core.GuardsAt(ret) {
			if bo, isB := g.Cond.(*ssa.BinOp); isB && (bo.Op == token.NEQ && !g.Pol || bo.Op == token.EQL && g.Pol) {
				lenChecked = true
			}
		}
		switch {
		case size != 32:
			why = "the session key is not 32 bytes"
		case !filled:
			why = "the key buffer is not filled by crypto/rand.Read with its error checked"
		case !lenChecked:
			why = "the number of random bytes read is not checked"
		default:
			ok = true
		}
	}
	r.Check(ok, rule, "generateSymmetricKey: make([]byte, 32) filled by crypto/rand.Read", fn.Pos(), "fresh 32 random bytes, error and count checked", why)
}

// caseSets returns, for every switch in fd whose tag is a selector ending
// in .Encrypt, the explicit case constants per clause.
func encryptSwitches(p *core.Prog, fn *ssa.Function) [][]constant.Value {
	pk := p.Pkg("tds")
	fd := funcDecl(pk, fn.Object())
	var out [][]constant.Value
	if fd == nil {
		return nil
	}
	ast.Inspect(fd.Body, func(n ast.Node) bool {
		sw, ok := n.(*ast.SwitchStmt)
		if !ok || sw.Tag == nil {
			return true
		}
		sel, ok := ast.Unparen(sw.Tag).(*ast.SelectorExpr)
		if !ok || sel.Sel.Name != "Encrypt" {
			return true
		}
		var cs []constant.Value
		for _, cl := range sw.Body.List {
			for _, e := range cl.(*ast.CaseClause).List {
				if tv := pk.TypesInfo.Types[e]; tv.Value != nil {
					cs = append(cs, tv.Value)
				}
			}
		}
		out = append(out, cs)
		return true
	})
	return out
}

func c09Switches(r *core.Run) {
	p := r.Prog
	pack := p.Func("tds", "LoginConfig", "pack")
	login := p.Func("tds", "Channel", "Login")
	ps, ls := encryptSwitches(p, pack), encryptSwitches(p, login)
	if len(ps) == 0 || len(ls) == 0 {
		r.Unknown("R09.4", "pack/Login: switch config.Encrypt", pack.Pos(), "switches on config.Encrypt not found")
		return
	}
	set := func(cs []constant.Value) string {
		var ss []string
		for _, c := range cs {
			ss = append(ss, c.ExactString())
		}
		sort.Strings(ss)
		return strings.Join(ss, ",")
	}
	// the password-slot switch is the first one in pack; Login's first switch decides the flow
	ok := set(ps[0]) == set(ls[0])
	for _, s := range ps {
		if set(s) != set(ps[0]) {
			ok = false
		}
	}
	r.Check(ok, "R09.4", "pack/Login: same set of 'encrypted' message ids", pack.Pos(), "explicit cases {"+set(ps[0])+"} in both", "pack leaves the password slot empty for ids {"+set(ps[0])+"} but Login treats {"+set(ls[0])+"} as encrypted: for an id in the difference the password is sent in clear although Login negotiates encryption (or vice versa)")
}

func c09LoopFresh(r *core.Run) {
	p := r.Prog
	login := p.Func("tds", "Channel", "Login")
	n := 0
	for _, b := range login.Blocks {
		for _, in := range b.Instrs {
			st, ok := in.(*ssa.Store)
			if !ok {
				continue
			}
			ia, ok := st.Addr.(*ssa.IndexAddr)
			if !ok {
				continue
			}
			_, loop := core.InnermostLoop(st.Block())
			if loop == nil {
				continue
			}
			// only interface-typed elements (FieldFmt / FieldData)
			if _, isIface := st.Val.Type().Underlying().(*types.Interface); !isIface {
				continue
			}
			if _, isSlice := ia.X.Type().Underlying().(*types.Slice); !isSlice {
				continue
			}
			n++
			def, isInstr := st.Val.(ssa.Instruction)
			fresh := isInstr && loop[def.Block()]
			if ph, isPhi := st.Val.(*ssa.Phi); isPhi {
				_ = ph
				fresh = false
			}
			key := "Login: " + core.KExpr(ia.X) + "[...] = " + core.KExpr(st.Val)
			r.Check(fresh, "R09.5", key, st.Pos(), "the stored object is created in the same iteration",
				"an object created outside the loop is stored into the parameter list in every iteration: all entries alias one object, so every remote server entry carries the last ciphertext (and the account's entry another server's password)")
		}
	}
	if n == 0 {
		r.Unknown("R09.5", "Login: parameter lists built in the remote-server loop", login.Pos(), "no stores into the parameter slices found in a loop")
	}
}
