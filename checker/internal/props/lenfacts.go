package props

import (
	"fmt"
	"go/token"
	"go/types"
	"math"
	"strings"

	"dblint/internal/core"

	"golang.org/x/tools/go/ssa"
)

// E-LEN: slice/string length facts and panic-site obligations over SSA.
// Facts are intervals on len(v) for an SSA value v (immutable, so a fact
// stays true), obtained from allocation, constant-bound slicing, callee
// post-conditions (frozen table) and the branch conditions that dominate
// the site. Index values are bounded by constants, induction patterns,
// unsigned conversions and dominating comparisons with len().

const inf = math.MaxInt64

type ival struct{ lo, hi int64 }

func (a ival) meet(b ival) ival {
	if b.lo > a.lo {
		a.lo = b.lo
	}
	if b.hi < a.hi {
		a.hi = b.hi
	}
	return a
}

func hull(a, b ival) ival {
	if b.lo < a.lo {
		a.lo = b.lo
	}
	if b.hi > a.hi {
		a.hi = b.hi
	}
	return a
}

type lenEngine struct {
	p *core.Prog
	// writers[f]: functions that store to field f, or statically call one that does
	writers map[*types.Var]map[*ssa.Function]bool
}

func newLenEngine(p *core.Prog) *lenEngine {
	le := &lenEngine{p: p, writers: map[*types.Var]map[*ssa.Function]bool{}}
	for _, fn := range p.ModuleFuncs() {
		for _, b := range fn.Blocks {
			for _, in := range b.Instrs {
				if st, ok := in.(*ssa.Store); ok {
					if fa, ok := st.Addr.(*ssa.FieldAddr); ok {
						f := core.FieldOfAddr(fa)
						if le.writers[f] == nil {
							le.writers[f] = map[*ssa.Function]bool{}
						}
						le.writers[f][fn] = true
					}
				}
			}
		}
	}
	// transitive closure over static calls
	for changed := true; changed; {
		changed = false
		for _, fn := range p.ModuleFuncs() {
			for _, c := range core.Calls(fn) {
				callee := core.StaticCallee(c)
				if callee == nil {
					continue
				}
				for _, ws := range le.writers {
					if ws[callee] && !ws[fn] {
						ws[fn] = true
						changed = true
					}
				}
			}
		}
	}
	return le
}

// resolveField: v is a load of base.f; if the function has exactly one store
// to that field of that base, the store dominates the load, and nothing the
// function calls after the store may write f, the load yields the stored
// value. With no store at all (and no writer called) all loads of base.f in
// the function denote the same value; the first one (in dominance order) is
// returned as the representative.
func (le *lenEngine) resolveField(v ssa.Value) ssa.Value {
	u, ok := v.(*ssa.UnOp)
	if !ok || u.Op != token.MUL {
		return v
	}
	fa, ok := u.X.(*ssa.FieldAddr)
	if !ok {
		return v
	}
	f := core.FieldOfAddr(fa)
	fn := u.Parent()
	var stores []*ssa.Store
	var loads []*ssa.UnOp
	for _, b := range fn.Blocks {
		for _, in := range b.Instrs {
			switch x := in.(type) {
			case *ssa.Store:
				if fa2, ok := x.Addr.(*ssa.FieldAddr); ok && core.FieldOfAddr(fa2) == f {
					if !sameBase(fa2.X, fa.X) {
						return v // another base of the same type may alias
					}
					stores = append(stores, x)
				}
			case *ssa.UnOp:
				if fa2, ok := x.X.(*ssa.FieldAddr); ok && x.Op == token.MUL && core.FieldOfAddr(fa2) == f && sameBase(fa2.X, fa.X) {
					loads = append(loads, x)
				}
			case ssa.CallInstruction:
				callee := core.StaticCallee(x)
				ws := le.writers[f]
				if callee != nil && ws[callee] && callee != fn {
					return v
				}
				if callee == nil && x.Common().IsInvoke() {
					for w := range ws {
						if w.Name() == x.Common().Method.Name() {
							return v
						}
					}
				}
				if callee == nil && !x.Common().IsInvoke() {
					if _, isB := x.Common().Value.(*ssa.Builtin); !isB && len(ws) > 0 {
						// dynamic call: could be anything in the module that writes f
						return v
					}
				}
			}
		}
	}
	switch len(stores) {
	case 0:
		for _, l := range loads {
			if core.Dominates(l, u) || l == u {
				return l
			}
		}
		return v
	case 1:
		if core.Dominates(stores[0], u) {
			return stores[0].Val
		}
	}
	return v
}

func isLenCall(v ssa.Value) (ssa.Value, bool) {
	c, ok := v.(*ssa.Call)
	if !ok {
		return nil, false
	}
	bi, ok := c.Call.Value.(*ssa.Builtin)
	if !ok || bi.Name() != "len" {
		return nil, false
	}
	return c.Call.Args[0], true
}

// same: a and b denote the same slice/string value (modulo value-preserving conversions).
func (le *lenEngine) sameSeq(a, b ssa.Value) bool {
	return le.stripSeq(a) == le.stripSeq(b)
}

// sameInt: two integer values are equal by construction.
func (le *lenEngine) sameInt(a, b ssa.Value) bool {
	if a == b {
		return true
	}
	if wa, wb := widenCore(a), widenCore(b); (wa != a || wb != b) && wa == wb {
		return true
	}
	ca, oka := a.(*ssa.Convert)
	cb, okb := b.(*ssa.Convert)
	if oka && okb && types.Identical(ca.Type(), cb.Type()) {
		return le.sameInt(ca.X, cb.X)
	}
	if x, ok := isLenCall(a); ok {
		if y, ok := isLenCall(b); ok {
			return le.sameSeq(x, y)
		}
	}
	return false
}

func (le *lenEngine) stripSeq(v ssa.Value) ssa.Value {
	for i := 0; i < 10; i++ {
		if r := le.resolveField(v); r != v {
			v = r
			continue
		}
		switch x := v.(type) {
		case *ssa.ChangeType:
			v = x.X
		case *ssa.Convert:
			// string <-> []byte conversions preserve the length
			_, s1 := x.X.Type().Underlying().(*types.Slice)
			b1, isB1 := x.X.Type().Underlying().(*types.Basic)
			if s1 || (isB1 && b1.Kind() == types.String) {
				v = x.X
				continue
			}
			return v
		default:
			return v
		}
	}
	return v
}

// bytesLikeResult: v is the slice result of a Bytes(n)-like call whose
// result always has length n (post-condition table).
func (le *lenEngine) lenEqualsValue(v ssa.Value) (ssa.Value, bool) {
	v = le.stripSeq(v)
	switch x := v.(type) {
	case *ssa.MakeSlice:
		return x.Len, true
	case *ssa.Extract:
		if c, ok := x.Tuple.(*ssa.Call); ok && x.Index == 0 {
			name := calleeName(c)
			// post-condition: (*PacketQueue).Bytes / BytesChannel.Bytes return a slice of length n on every return
			// (make([]byte, n), or []byte{} under n == 0) — verified structurally by C10's R10.5.
			if name == "Bytes" && len(c.Call.Args) >= 1 {
				recvT := c.Call.Value.Type()
				if !c.Call.IsInvoke() {
					if f := c.Call.StaticCallee(); f != nil && f.Signature.Recv() != nil {
						recvT = f.Signature.Recv().Type()
					}
				}
				if core.IsNamedType(recvT, core.Module+"/tds", "BytesChannel") || core.IsNamedType(recvT, core.Module+"/tds", "PacketQueue") {
					return c.Call.Args[len(c.Call.Args)-1], true
				}
			}
		}
	}
	return nil, false
}

// lenDef: interval of len(v) from v's definition.
func (le *lenEngine) lenDef(v ssa.Value, site ssa.Instruction, d int) ival {
	all := ival{0, inf}
	if d > 8 {
		return all
	}
	v = le.stripSeq(v)
	if n, ok := core.MakeLen(v); ok {
		return ival{n, n}
	}
	if n, ok := le.lenEqualsValue(v); ok {
		if c, isC := core.ConstInt64(n); isC {
			return ival{c, c}
		}
		return all
	}
	if u, ok := v.(*ssa.UnOp); ok && u.Op == token.MUL {
		if g, ok := u.X.(*ssa.Global); ok {
			if n, ok := le.globalLen(g); ok {
				return ival{n, n}
			}
		}
	}
	switch x := v.(type) {
	case *ssa.Const:
		if x.Value != nil && x.Value.Kind().String() == "String" {
			s := constString(x)
			return ival{int64(len(s)), int64(len(s))}
		}
		return ival{0, 0} // nil slice
	case *ssa.Slice:
		base := le.lenOf(x.X, site, d+1)
		if pt, ok := x.X.Type().Underlying().(*types.Pointer); ok {
			if arr, ok := pt.Elem().Underlying().(*types.Array); ok {
				base = ival{arr.Len(), arr.Len()}
			}
		}
		lo := int64(0)
		loKnown := true
		if x.Low != nil {
			lo, loKnown = core.ConstInt64(x.Low)
		}
		if x.High != nil {
			if hi, ok := core.ConstInt64(x.High); ok && loKnown {
				return ival{hi - lo, hi - lo}
			}
			return all
		}
		if loKnown {
			r := ival{base.lo - lo, inf}
			if base.hi != inf {
				r.hi = base.hi - lo
			}
			if r.lo < 0 {
				r.lo = 0
			}
			return r
		}
		return all
	case *ssa.BinOp:
		if x.Op == token.ADD {
			if b, ok := x.Type().Underlying().(*types.Basic); ok && b.Kind() == types.String {
				a, c := le.lenOf(x.X, site, d+1), le.lenOf(x.Y, site, d+1)
				r := ival{a.lo + c.lo, inf}
				if a.hi != inf && c.hi != inf {
					r.hi = a.hi + c.hi
				}
				return r
			}
		}
	case *ssa.Phi:
		var r ival
		first := true
		var phiSite ssa.Instruction
		if len(x.Block().Instrs) > 0 {
			phiSite = x.Block().Instrs[0]
		}
		for _, e := range x.Edges {
			if e == ssa.Value(x) {
				continue
			}
			// an edge that is at least as long as the φ itself cannot lower the bound:
			// strings.Join([]string{φ, ...}, sep) and φ + s
			if c, ok := e.(*ssa.Call); ok && core.IsPkgFunc(c, "strings", "Join") {
				self := false
				for _, el := range variadicElems(c.Call.Args[0]) {
					if el == ssa.Value(x) {
						self = true
					}
				}
				if self {
					continue
				}
			}
			if bo, ok := e.(*ssa.BinOp); ok && bo.Op == token.ADD && (bo.X == ssa.Value(x) || bo.Y == ssa.Value(x)) {
				continue
			}
			_ = phiSite
			iv := le.lenDef(e, nil, d+1)
			for _, g := range core.GuardsOnEdge(x.Block().Preds[edgeIndex(x, e)], x.Block()) {
				iv = le.guardLen(e, g, iv)
			}
			if first {
				r, first = iv, false
			} else {
				r = hull(r, iv)
			}
		}
		if first {
			return all
		}
		return r
	case *ssa.Call:
		if f := x.Call.StaticCallee(); f != nil && f.Pkg != nil {
			switch f.Pkg.Pkg.Path() + "." + f.Name() {
			case "strings.Split":
				// strings.Split(s, sep) with sep != "" returns at least one element
				if c, ok := x.Call.Args[1].(*ssa.Const); ok && c.Value != nil && constString(c) != "" {
					return ival{1, inf}
				}
			case "strings.SplitN":
				if n, ok := core.ConstInt64(x.Call.Args[2]); ok && n > 0 {
					if c, ok := x.Call.Args[1].(*ssa.Const); ok && c.Value != nil && constString(c) != "" {
						return ival{1, n}
					}
				}
			}
		}
		if core.IsPkgFunc(x, "strings", "Join") {
			lo := int64(0)
			for _, el := range variadicElems(x.Call.Args[0]) {
				if el != nil {
					lo += le.lenOf(el, site, d+1).lo
				}
			}
			return ival{lo, inf}
		}
		if bi, ok := x.Call.Value.(*ssa.Builtin); ok && bi.Name() == "append" {
			a := le.lenOf(x.Call.Args[0], site, d+1)
			return ival{a.lo, inf}
		}
	}
	return all
}

// guardLen: refine len(v) by a dominating condition.
func (le *lenEngine) guardLen(v ssa.Value, g core.Guard, iv ival) ival {
	// strings.Contains/HasPrefix/HasSuffix(v, sub) == true  ⇒  len(v) >= len(sub)
	if c, isCall := g.Cond.(*ssa.Call); isCall && g.Pol {
		for _, n := range []string{"Contains", "HasPrefix", "HasSuffix"} {
			if core.IsPkgFunc(c, "strings", n) && le.sameSeq(c.Call.Args[0], v) {
				sub := le.lenDef(c.Call.Args[1], nil, 3)
				return iv.meet(ival{sub.lo, inf})
			}
		}
	}
	bo, ok := g.Cond.(*ssa.BinOp)
	if !ok {
		return iv
	}
	// v == "" / v != ""
	if b, isB := le.stripSeq(v).Type().Underlying().(*types.Basic); isB && b.Kind() == types.String {
		for _, sw := range [][2]ssa.Value{{bo.X, bo.Y}, {bo.Y, bo.X}} {
			if le.sameSeq(sw[0], v) {
				if c, isC := sw[1].(*ssa.Const); isC && c.Value != nil && constString(c) == "" {
					eq := (bo.Op == token.EQL) == g.Pol
					if bo.Op == token.EQL || bo.Op == token.NEQ {
						if eq {
							return iv.meet(ival{0, 0})
						}
						return iv.meet(ival{1, inf})
					}
				}
			}
		}
	}
	op := bo.Op
	var k int64
	var found bool
	if x, isLen := isLenCall(bo.X); isLen && le.sameSeq(x, v) {
		if c, isC := core.ConstInt64(bo.Y); isC {
			k, found = c, true
		}
	} else if y, isLen := isLenCall(bo.Y); isLen && le.sameSeq(y, v) {
		if c, isC := core.ConstInt64(bo.X); isC {
			k, found = c, true
			op = map[token.Token]token.Token{token.LSS: token.GTR, token.GTR: token.LSS, token.LEQ: token.GEQ, token.GEQ: token.LEQ, token.EQL: token.EQL, token.NEQ: token.NEQ}[op]
		}
	}
	if !found {
		return iv
	}
	if !g.Pol {
		op = map[token.Token]token.Token{token.LSS: token.GEQ, token.GEQ: token.LSS, token.GTR: token.LEQ, token.LEQ: token.GTR, token.EQL: token.NEQ, token.NEQ: token.EQL}[op]
	}
	switch op {
	case token.EQL:
		return iv.meet(ival{k, k})
	case token.NEQ:
		if iv.lo == k {
			iv.lo++
		}
		if iv.hi == k {
			iv.hi--
		}
		return iv
	case token.LSS:
		return iv.meet(ival{0, k - 1})
	case token.LEQ:
		return iv.meet(ival{0, k})
	case token.GTR:
		return iv.meet(ival{k + 1, inf})
	case token.GEQ:
		return iv.meet(ival{k, inf})
	}
	return iv
}

// LenAt: interval of len(v) at instruction site.
func (le *lenEngine) LenAt(v ssa.Value, site ssa.Instruction) ival { return le.lenOf(v, site, 0) }

func (le *lenEngine) lenOf(v ssa.Value, site ssa.Instruction, d int) ival {
	iv := le.lenDef(v, site, d)
	if site == nil {
		return iv
	}
	for _, g := range core.GuardsAt(site) {
		iv = le.guardLen(v, g, iv)
	}
	return iv
}

// intBounds: constant bounds of an integer value at site.
func (le *lenEngine) intBounds(v ssa.Value, site ssa.Instruction, d int) ival {
	all := ival{math.MinInt64, inf}
	if d > 8 {
		return all
	}
	if c, ok := core.ConstInt64(v); ok {
		return ival{c, c}
	}
	r := all
	// bounds from the value's own type
	tb := all
	if b, ok := v.Type().Underlying().(*types.Basic); ok {
		switch b.Kind() {
		case types.Uint8:
			tb = ival{0, 255}
		case types.Uint16:
			tb = ival{0, 65535}
		case types.Uint32:
			tb = ival{0, math.MaxUint32}
		case types.Uint, types.Uint64, types.Uintptr:
			tb = ival{0, inf}
		case types.Int8:
			tb = ival{-128, 127}
		case types.Int16:
			tb = ival{-32768, 32767}
		case types.Int32:
			tb = ival{math.MinInt32, math.MaxInt32}
		}
	}
	defer func() {}()
	if tb.lo == 0 {
		// unsigned arithmetic wraps: only the type's range is certain for derived values
		if _, isBin := v.(*ssa.BinOp); isBin {
			return le.applyIntGuards(v, site, tb)
		}
	}
	switch x := v.(type) {
	case *ssa.Parameter:
		r = le.paramBounds(x, d)
	case *ssa.Convert:
		if b, ok := x.X.Type().Underlying().(*types.Basic); ok && b.Info()&types.IsInteger != 0 {
			inner := le.intBounds(x.X, site, d+1)
			switch b.Kind() {
			case types.Uint8:
				inner = inner.meet(ival{0, 255})
			case types.Uint16:
				inner = inner.meet(ival{0, 65535})
			case types.Uint32:
				inner = inner.meet(ival{0, math.MaxUint32})
			case types.Uint, types.Uint64, types.Uintptr:
				inner = inner.meet(ival{0, inf})
			case types.Int8:
				inner = inner.meet(ival{-128, 127})
			case types.Int16:
				inner = inner.meet(ival{-32768, 32767})
			case types.Int32:
				inner = inner.meet(ival{math.MinInt32, math.MaxInt32})
			}
			// conversion to a narrower/unsigned target changes the value; keep only when the target can hold the range
			if tb, ok := x.Type().Underlying().(*types.Basic); ok {
				switch tb.Kind() {
				case types.Int, types.Int64:
					r = inner
				case types.Uint8:
					r = ival{0, 255}
				case types.Uint16:
					r = ival{0, 65535}
				case types.Uint32:
					r = ival{0, math.MaxUint32}
				case types.Uint, types.Uint64:
					r = ival{0, inf}
				case types.Int32:
					if inner.lo >= math.MinInt32 && inner.hi <= math.MaxInt32 {
						r = inner
					} else {
						r = ival{math.MinInt32, math.MaxInt32}
					}
				default:
					r = all
				}
			}
		}
	case *ssa.Call:
		if _, isLen := isLenCall(x); isLen {
			iv := le.LenAt(x.Call.Args[0], site)
			r = iv
		}
	case *ssa.BinOp:
		a, b := le.intBounds(x.X, site, d+1), le.intBounds(x.Y, site, d+1)
		switch x.Op {
		case token.ADD:
			if a.lo != math.MinInt64 && b.lo != math.MinInt64 {
				r.lo = a.lo + b.lo
			}
			if a.hi != inf && b.hi != inf {
				r.hi = a.hi + b.hi
			}
		case token.SUB:
			if a.lo != math.MinInt64 && b.hi != inf {
				r.lo = a.lo - b.hi
			}
			if a.hi != inf && b.lo != math.MinInt64 {
				r.hi = a.hi - b.lo
			}
		case token.MUL:
			if a.lo >= 0 && b.lo >= 0 {
				r.lo = a.lo * b.lo
				if a.hi != inf && b.hi != inf && a.hi < 1<<31 && b.hi < 1<<31 {
					r.hi = a.hi * b.hi
				}
			}
		case token.QUO:
			if a.lo >= 0 && b.lo > 0 {
				r = ival{0, a.hi}
			}
		case token.REM:
			if b.lo > 0 && b.hi != inf {
				if a.lo >= 0 {
					r = ival{0, b.hi - 1}
				} else {
					r = ival{-(b.hi - 1), b.hi - 1}
				}
			}
		case token.AND:
			if b.lo >= 0 && b.hi != inf {
				r = ival{0, b.hi}
			} else if a.lo >= 0 && a.hi != inf {
				r = ival{0, a.hi}
			}
		case token.SHR:
			if a.lo >= 0 {
				r = ival{0, a.hi}
			}
		}
	case *ssa.Phi:
		// induction variable: edges are constants or self + positive constant
		lo := int64(inf)
		okInd := true
		for _, e := range x.Edges {
			if c, ok := core.ConstInt64(e); ok {
				if c < lo {
					lo = c
				}
				continue
			}
			if bo, ok := e.(*ssa.BinOp); ok && bo.Op == token.ADD {
				if st, isC := core.ConstInt64(bo.Y); isC && st > 0 && le.reachesPhi(bo.X, x, 0) {
					continue
				}
				if bb := le.intBounds(bo.Y, site, d+1); bb.lo >= 0 && le.reachesPhi(bo.X, x, 0) {
					continue
				}
			}
			if ph2, ok := e.(*ssa.Phi); ok && ph2 != x {
				ib := le.intBounds(ph2, site, d+1)
				if ib.lo != math.MinInt64 && ib.lo < lo {
					lo = ib.lo
				}
				if ib.lo == math.MinInt64 {
					okInd = false
				}
				continue
			}
			okInd = false
		}
		if okInd && lo != inf {
			r.lo = lo
		} else if !okInd {
			// plain merge: hull of the incoming values
			first := true
			var h ival
			for _, e := range x.Edges {
				if e == ssa.Value(x) {
					continue
				}
				eb := le.intBounds(e, nil, d+1)
				if first {
					h, first = eb, false
				} else {
					h = hull(h, eb)
				}
			}
			if !first {
				r = h
			}
		}
	case *ssa.Extract:
		if _, ok := x.Tuple.(*ssa.Next); ok && x.Index == 1 {
			// key of a range over a string
			r.lo = 0
		}
	}
	r = r.meet(tb)
	return le.applyIntGuards(v, site, r)
}

// paramBounds: hull of the argument bounds over all static call sites.
func (le *lenEngine) paramBounds(pa *ssa.Parameter, d int) ival {
	all := ival{math.MinInt64, inf}
	if d > 4 {
		return all
	}
	fn := pa.Parent()
	idx := -1
	for i, q := range fn.Params {
		if q == pa {
			idx = i
		}
	}
	if idx < 0 || token.IsExported(fn.Name()) {
		return all
	}
	first := true
	var h ival
	for _, caller := range le.p.ModuleFuncs() {
		for _, c := range core.Calls(caller) {
			if core.StaticCallee(c) != fn || idx >= len(c.Common().Args) {
				continue
			}
			b := le.intBounds(c.Common().Args[idx], c.(ssa.Instruction), d+1)
			if first {
				h, first = b, false
			} else {
				h = hull(h, b)
			}
		}
	}
	if first {
		return all
	}
	return h
}

func (le *lenEngine) applyIntGuards(v ssa.Value, site ssa.Instruction, r ival) ival {
	if site == nil {
		return r
	}
	// guards: v OP const
	for _, g := range core.GuardsAt(site) {
		bo, ok := g.Cond.(*ssa.BinOp)
		if !ok {
			continue
		}
		op := bo.Op
		var k int64
		found := false
		if bo.X == v {
			if c, isC := core.ConstInt64(bo.Y); isC {
				k, found = c, true
			}
		} else if bo.Y == v {
			if c, isC := core.ConstInt64(bo.X); isC {
				k, found = c, true
				op = map[token.Token]token.Token{token.LSS: token.GTR, token.GTR: token.LSS, token.LEQ: token.GEQ, token.GEQ: token.LEQ, token.EQL: token.EQL, token.NEQ: token.NEQ}[op]
			}
		}
		if !found {
			continue
		}
		if !g.Pol {
			op = map[token.Token]token.Token{token.LSS: token.GEQ, token.GEQ: token.LSS, token.GTR: token.LEQ, token.LEQ: token.GTR, token.EQL: token.NEQ, token.NEQ: token.EQL}[op]
		}
		switch op {
		case token.EQL:
			r = r.meet(ival{k, k})
		case token.LSS:
			r = r.meet(ival{math.MinInt64, k - 1})
		case token.LEQ:
			r = r.meet(ival{math.MinInt64, k})
		case token.GTR:
			r = r.meet(ival{k + 1, inf})
		case token.GEQ:
			r = r.meet(ival{k, inf})
		}
	}
	return r
}

func (le *lenEngine) reachesPhi(v ssa.Value, ph *ssa.Phi, d int) bool {
	if d > 6 {
		return false
	}
	if v == ssa.Value(ph) {
		return true
	}
	switch x := v.(type) {
	case *ssa.Phi:
		for _, e := range x.Edges {
			if le.reachesPhi(e, ph, d+1) {
				return true
			}
		}
	case *ssa.BinOp:
		if x.Op == token.ADD {
			if c, ok := core.ConstInt64(x.Y); ok && c >= 0 {
				return le.reachesPhi(x.X, ph, d+1)
			}
		}
	}
	return false
}

// ltLen proves idx < len(X) at site. Returns a reason or "".
func (le *lenEngine) ltLen(idx, X ssa.Value, site ssa.Instruction) string {
	lx := le.LenAt(X, site)
	ib := le.intBounds(idx, site, 0)
	if ib.hi != inf && ib.hi < lx.lo {
		return fmt.Sprintf("index <= %d < len >= %d", ib.hi, lx.lo)
	}
	n, hasN := le.lenEqualsValue(X)
	for _, g := range core.GuardsAt(site) {
		bo, ok := g.Cond.(*ssa.BinOp)
		if !ok {
			continue
		}
		// idx < len(X) ; len(X) > idx ; !(idx >= len(X)) ; idx < n with len(X) == n
		type rel struct {
			a, b ssa.Value
			lt   bool
		}
		var rels []rel
		switch {
		case bo.Op == token.LSS && g.Pol, bo.Op == token.GEQ && !g.Pol:
			rels = append(rels, rel{bo.X, bo.Y, true})
		case bo.Op == token.GTR && g.Pol, bo.Op == token.LEQ && !g.Pol:
			rels = append(rels, rel{bo.Y, bo.X, true})
		}
		for _, rl := range rels {
			if rl.a != idx {
				continue
			}
			if x, isLen := isLenCall(rl.b); isLen && le.sameSeq(x, X) {
				return "dominated by index < len(" + core.Expr(X) + ")"
			}
			if hasN && le.sameInt(rl.b, n) {
				return "dominated by index < n, len = n"
			}
			// idx < m where m <= len(X) known: m const
			if c, isC := core.ConstInt64(rl.b); isC && c <= lx.lo {
				return fmt.Sprintf("dominated by index < %d <= len", c)
			}
		}
	}
	// descending induction: idx = φ(len(X) - k, idx - c) with k >= 1, c > 0
	if ph, ok := idx.(*ssa.Phi); ok {
		okDesc, sawStart := true, false
		for _, e := range ph.Edges {
			bo, isB := e.(*ssa.BinOp)
			if !isB || bo.Op != token.SUB {
				okDesc = false
				break
			}
			c, isC := core.ConstInt64(bo.Y)
			if !isC || c < 1 {
				okDesc = false
				break
			}
			if x, isLen := isLenCall(bo.X); isLen && le.sameSeq(x, X) {
				sawStart = true
				continue
			}
			if bo.X == ssa.Value(ph) {
				continue
			}
			okDesc = false
		}
		if okDesc && sawStart {
			return "descending index starting at len - k"
		}
	}
	// idx = len(X) - k, k >= 1
	if bo, ok := idx.(*ssa.BinOp); ok && bo.Op == token.SUB {
		if x, isLen := isLenCall(bo.X); isLen && le.sameSeq(x, X) {
			if k, isC := core.ConstInt64(bo.Y); isC && k >= 1 {
				return fmt.Sprintf("index = len - %d", k)
			}
		}
	}
	return ""
}

// leLen proves v <= len(X).
// ioCount: v is the count an io.Reader's Read / io.Writer's Write (interface call, signature ([]byte) (int, error))
// returned for the buffer it was given. The contract of both interfaces is 0 <= n <= len(p).
func ioCount(v ssa.Value) (buf ssa.Value, ok bool) {
	ex, isEx := core.Strip(v).(*ssa.Extract)
	if !isEx || ex.Index != 0 {
		return nil, false
	}
	c, isC := ex.Tuple.(*ssa.Call)
	if !isC || !c.Call.IsInvoke() || (c.Call.Method.Name() != "Read" && c.Call.Method.Name() != "Write") || len(c.Call.Args) != 1 {
		return nil, false
	}
	sig := c.Call.Method.Type().(*types.Signature)
	if sig.Results().Len() != 2 || !types.Identical(sig.Results().At(0).Type(), types.Typ[types.Int]) {
		return nil, false
	}
	if sl, isSl := sig.Params().At(0).Type().(*types.Slice); !isSl || !types.Identical(sl.Elem(), types.Typ[types.Byte]) {
		return nil, false
	}
	return c.Call.Args[0], true
}

func (le *lenEngine) leLen(v, X ssa.Value, site ssa.Instruction) string {
	if buf, ok := ioCount(v); ok && (buf == X || le.sameSeq(buf, X)) {
		return "io.Reader/io.Writer contract: 0 <= n <= len(p)"
	}
	lx := le.LenAt(X, site)
	ib := le.intBounds(v, site, 0)
	if ib.hi != inf && ib.hi <= lx.lo {
		return fmt.Sprintf("bound <= %d <= len >= %d", ib.hi, lx.lo)
	}
	if x, isLen := isLenCall(v); isLen && le.sameSeq(x, X) {
		return "bound is len of the same value"
	}
	if r := le.ltLen(v, X, site); r != "" {
		return r
	}
	for _, g := range core.GuardsAt(site) {
		bo, ok := g.Cond.(*ssa.BinOp)
		if !ok {
			continue
		}
		le1 := (bo.Op == token.LEQ && g.Pol) || (bo.Op == token.GTR && !g.Pol)
		ge1 := (bo.Op == token.GEQ && g.Pol) || (bo.Op == token.LSS && !g.Pol)
		if le1 && bo.X == v {
			if x, isLen := isLenCall(bo.Y); isLen && le.sameSeq(x, X) {
				return "dominated by bound <= len"
			}
		}
		if ge1 && bo.Y == v {
			if x, isLen := isLenCall(bo.X); isLen && le.sameSeq(x, X) {
				return "dominated by len >= bound"
			}
		}
	}
	if bo, ok := v.(*ssa.BinOp); ok && bo.Op == token.SUB {
		if x, isLen := isLenCall(bo.X); isLen && le.sameSeq(x, X) {
			if bb := le.intBounds(bo.Y, site, 0); bb.lo >= 0 {
				return "bound = len - nonnegative"
			}
		}
	}
	return ""
}

func (le *lenEngine) geZero(v ssa.Value, site ssa.Instruction) bool {
	if _, ok := ioCount(v); ok {
		return true
	}
	return le.intBounds(v, site, 0).lo >= 0
}

// ---------------------------------------------------------------------

type lenSite struct {
	Fn     *ssa.Function
	Instr  ssa.Instruction
	Kind   string
	Expr   string // normalised expression (key)
	Base   string // the container indexed/sliced (for the reviewed-invariant table)
	Idx    ssa.Value
	OK     bool
	Reason string
}

// rangeLoopIndex: go/ssa's lowered `for i := range x` / `for _, e := range x`:
// idx = φ(-1, idx+1) + 1 with the guard idx < len(x).
func (le *lenEngine) rangeIndex(idx, X ssa.Value, site ssa.Instruction) bool {
	bo, ok := idx.(*ssa.BinOp)
	if !ok || bo.Op != token.ADD {
		return false
	}
	one, isC := core.ConstInt64(bo.Y)
	ph, isPhi := bo.X.(*ssa.Phi)
	if !isC || one != 1 || !isPhi {
		return false
	}
	hasMinus1, hasSelf := false, false
	for _, e := range ph.Edges {
		if c, ok := core.ConstInt64(e); ok && c == -1 {
			hasMinus1 = true
		} else if e == idx {
			hasSelf = true
		} else {
			return false
		}
	}
	if !hasMinus1 || !hasSelf {
		return false
	}
	for _, g := range core.GuardsAt(site) {
		b2, ok := g.Cond.(*ssa.BinOp)
		if !ok || b2.Op != token.LSS || !g.Pol || b2.X != idx {
			continue
		}
		if x, isLen := isLenCall(b2.Y); isLen && le.sameSeq(x, X) {
			return true
		}
		if n, ok := le.lenEqualsValue(X); ok && le.sameInt(b2.Y, n) {
			return true
		}
	}
	return false
}

func isGeneratedOrOverlay(p *core.Prog, fn *ssa.Function) bool { return p.IsGenerated(fn.Pos()) }

// Sites enumerates and decides the panic-site obligations of fn.
func (le *lenEngine) Sites(fn *ssa.Function) []lenSite {
	var out []lenSite
	add := func(in ssa.Instruction, kind, expr string, ok bool, reason string) {
		ls := lenSite{Fn: fn, Instr: in, Kind: kind, Expr: expr, OK: ok, Reason: reason}
		switch x := in.(type) {
		case *ssa.IndexAddr:
			ls.Base, ls.Idx = strings.TrimPrefix(core.KExpr(x.X), "&"), x.Index
		case *ssa.Lookup:
			ls.Base, ls.Idx = core.KExpr(x.X), x.Index
		case *ssa.Index:
			ls.Base, ls.Idx = core.KExpr(x.X), x.Index
		case *ssa.Slice:
			ls.Base = strings.TrimPrefix(core.KExpr(x.X), "&")
		}
		out = append(out, ls)
	}
	for _, b := range fn.Blocks {
		for _, in := range b.Instrs {
			switch x := in.(type) {
			case *ssa.IndexAddr:
				if pt, ok := x.X.Type().Underlying().(*types.Pointer); ok {
					if arr, ok := pt.Elem().Underlying().(*types.Array); ok {
						ib := le.intBounds(x.Index, in, 0)
						if ib.lo >= 0 && ib.hi < arr.Len() {
							continue // provably inside a fixed array (incl. compiler-made variadic arrays)
						}
						add(in, "index", core.KExpr(x), false, fmt.Sprintf("index into array of %d elements is not provably in range", arr.Len()))
						continue
					}
				}
				le.indexSite(in, x.X, x.Index, core.KExpr(x), add)
			case *ssa.Index:
				if b, ok := x.X.Type().Underlying().(*types.Basic); ok && b.Kind() == types.String {
					le.indexSite(in, x.X, x.Index, core.KExpr(x), add)
					continue
				}
				if arr, ok := x.X.Type().Underlying().(*types.Array); ok {
					ib := le.intBounds(x.Index, in, 0)
					if ib.lo >= 0 && ib.hi < arr.Len() {
						continue
					}
					add(in, "index", core.KExpr(x), false, "array index not provably in range")
				}
			case *ssa.Lookup:
				if b, ok := x.X.Type().Underlying().(*types.Basic); ok && b.Kind() == types.String {
					le.indexSite(in, x.X, x.Index, core.KExpr(x), add)
				}
			case *ssa.Slice:
				le.sliceSite(in, x, add)
			case *ssa.Call:
				cc := x.Call
				if cc.IsInvoke() && cc.Method.Pkg() != nil && cc.Method.Pkg().Path() == "encoding/binary" {
					need := int64(0)
					switch strings.TrimPrefix(cc.Method.Name(), "Put") {
					case "Uint16":
						need = 2
					case "Uint32":
						need = 4
					case "Uint64":
						need = 8
					}
					if need > 0 && len(cc.Args) >= 1 {
						lx := le.LenAt(cc.Args[0], in)
						expr := "endian." + cc.Method.Name() + "(" + core.KExpr(cc.Args[0]) + ")"
						if lx.lo >= need {
							add(in, "byteorder", expr, true, fmt.Sprintf("len >= %d", lx.lo))
						} else {
							add(in, "byteorder", expr, false, fmt.Sprintf("%s needs %d bytes, only len >= %d is known", cc.Method.Name(), need, lx.lo))
						}
					}
				}
			case *ssa.TypeAssert:
				if !x.CommaOk {
					add(in, "assert", core.KExpr(x), false, "type assertion without comma-ok panics on a mismatch")
				}
			case *ssa.Panic:
				add(in, "panic", "panic("+core.KExpr(x.X)+")", false, "explicit panic")
			case *ssa.BinOp:
				if (x.Op == token.QUO || x.Op == token.REM) && isIntType(x.Type()) {
					if _, isC := core.ConstInt64(x.Y); !isC {
						ib := le.intBounds(x.Y, in, 0)
						if ib.lo > 0 || ib.hi < 0 {
							add(in, "div", core.KExpr(x), true, "divisor is non-zero")
						} else {
							add(in, "div", core.KExpr(x), false, "integer division by a value that may be zero")
						}
					}
				}
			}
		}
	}
	return out
}

func (le *lenEngine) indexSite(in ssa.Instruction, X, idx ssa.Value, expr string, add func(ssa.Instruction, string, string, bool, string)) {
	if le.rangeIndex(idx, X, in) {
		add(in, "index", expr, true, "range-loop index")
		return
	}
	if !le.geZero(idx, in) {
		add(in, "index", expr, false, "index may be negative")
		return
	}
	if r := le.ltLen(idx, X, in); r != "" {
		add(in, "index", expr, true, r)
		return
	}
	lx := le.LenAt(X, in)
	add(in, "index", expr, false, fmt.Sprintf("index not provably below the length (known: len >= %d)", lx.lo))
}

func (le *lenEngine) sliceSite(in ssa.Instruction, x *ssa.Slice, add func(ssa.Instruction, string, string, bool, string)) {
	expr := core.KExpr(x)
	X := x.X
	if pt, ok := X.Type().Underlying().(*types.Pointer); ok {
		if arr, ok := pt.Elem().Underlying().(*types.Array); ok {
			lo, hi := int64(0), arr.Len()
			okc := true
			if x.Low != nil {
				lo, okc = core.ConstInt64(x.Low)
			}
			if x.High != nil && okc {
				hi, okc = core.ConstInt64(x.High)
			}
			if okc && 0 <= lo && lo <= hi && hi <= arr.Len() {
				return // compiler-made or constant array slicing
			}
			add(in, "slice", expr, false, "array slice bounds not provably in range")
			return
		}
	}
	if x.Low == nil && x.High == nil {
		return
	}
	// 0 <= low
	if x.Low != nil && !le.geZero(x.Low, in) {
		add(in, "slice", expr, false, "lower bound may be negative")
		return
	}
	// high <= len (cap for slices, but len is the safe bound)
	if x.High != nil {
		r := le.leLen(x.High, X, in)
		if r == "" {
			lx := le.LenAt(X, in)
			add(in, "slice", expr, false, fmt.Sprintf("upper bound not provably <= len (known: len >= %d)", lx.lo))
			return
		}
		// low <= high
		if x.Low != nil {
			lb, hb := le.intBounds(x.Low, in, 0), le.intBounds(x.High, in, 0)
			if !(lb.hi != inf && hb.lo != math.MinInt64 && lb.hi <= hb.lo) {
				add(in, "slice", expr, false, "lower bound not provably <= upper bound")
				return
			}
		}
		add(in, "slice", expr, true, r)
		return
	}
	// only low: low <= len
	r := le.leLen(x.Low, X, in)
	if r == "" {
		lx := le.LenAt(X, in)
		add(in, "slice", expr, false, fmt.Sprintf("lower bound not provably <= len (known: len >= %d)", lx.lo))
		return
	}
	add(in, "slice", expr, true, r)
}

// widenCore strips value-preserving integer conversions (a narrower
// unsigned or signed source converted to int/int64).
func widenCore(v ssa.Value) ssa.Value {
	for {
		c, ok := v.(*ssa.Convert)
		if !ok {
			return v
		}
		src, ok1 := c.X.Type().Underlying().(*types.Basic)
		dst, ok2 := c.Type().Underlying().(*types.Basic)
		if !ok1 || !ok2 || src.Info()&types.IsInteger == 0 {
			return v
		}
		if dst.Kind() != types.Int && dst.Kind() != types.Int64 {
			return v
		}
		switch src.Kind() {
		case types.Uint8, types.Uint16, types.Uint32, types.Int8, types.Int16, types.Int32, types.Int:
			v = c.X
		default:
			return v
		}
	}
}

// sameBase: two address expressions denote the same struct (same SSA value,
// or the same access path from the same root without loads through pointers
// that could have been re-pointed).
func sameBase(a, b ssa.Value) bool {
	if a == b {
		return true
	}
	fa, oka := a.(*ssa.FieldAddr)
	fb, okb := b.(*ssa.FieldAddr)
	if oka && okb && fa.Field == fb.Field {
		return sameBase(fa.X, fb.X)
	}
	return false
}

// globalLen: a package-level slice variable that is assigned exactly once
// (by its initialiser, a composite literal of n elements) has length n.
func (le *lenEngine) globalLen(g *ssa.Global) (int64, bool) {
	n, found, stores := int64(0), false, 0
	for fn := range le.p.AllFuncs() {
		if fn.Blocks == nil || fn.Pkg != g.Pkg && !core.InModule(fn) {
			continue
		}
		for _, b := range fn.Blocks {
			for _, in := range b.Instrs {
				st, ok := in.(*ssa.Store)
				if !ok || st.Addr != ssa.Value(g) {
					continue
				}
				stores++
				if k, ok := core.MakeLen(st.Val); ok && fn.Name() == "init" {
					n, found = k, true
				}
			}
		}
	}
	return n, found && stores == 1
}

func edgeIndex(ph *ssa.Phi, e ssa.Value) int {
	for i, x := range ph.Edges {
		if x == e {
			return i
		}
	}
	return 0
}
