package props

import (
	"fmt"
	"go/constant"
	"go/token"
	"go/types"
	"sort"
	"strings"

	"dblint/internal/core"

	"golang.org/x/tools/go/ssa"
)

// noGenericReaderOverQueue: R07.10. PacketQueue.Read is `copy(p, bs), err` over Bytes(len(p)), which always hands
// back len(p) bytes — zero-filled past the end of what has arrived — together with ErrNotEnoughBytes. The io helpers
// that read "until the buffer is full" (io.ReadFull, io.ReadAtLeast) drop the error of a read that filled the buffer,
// so a version / length / value read through them from a BytesChannel succeeds on a truncated package with zeros for
// the missing bytes. No wire reader may go through them.
func noGenericReaderOverQueue(r *core.Run, rule string) {
	p := r.Prog
	bc := p.Named("tds", "BytesChannel")
	bcIface := bc.Underlying().(*types.Interface)
	dropping := map[string]bool{"ReadFull": true, "ReadAtLeast": true, "ReadAll": true, "Copy": true, "CopyN": true, "CopyBuffer": true}
	n := 0
	for _, fn := range p.ModuleFuncs() {
		if fn.Blocks == nil || p.FuncInOverlay(fn) && !strings.HasPrefix(fn.Name(), "posex") {
			continue
		}
		for _, c := range core.Calls(fn) {
			f := core.StaticCallee(c)
			if f == nil || f.Pkg == nil || (f.Pkg.Pkg.Path() != "io" && f.Pkg.Pkg.Path() != "io/ioutil" && f.Pkg.Pkg.Path() != "bufio") {
				continue
			}
			n++
			if !dropping[f.Name()] && f.Pkg.Pkg.Path() != "bufio" {
				continue
			}
			for _, a := range c.Common().Args {
				src := a
				for {
					if mi, ok := src.(*ssa.MakeInterface); ok {
						src = mi.X
						continue
					}
					if ci, ok := src.(*ssa.ChangeInterface); ok {
						src = ci.X
						continue
					}
					break
				}
				t := src.Type()
				if types.Identical(t, bc) || (types.Implements(t, bcIface) && !types.IsInterface(t)) || (types.IsInterface(t) && types.Implements(t, bcIface)) {
					key := core.FuncName(fn) + ": " + f.Pkg.Pkg.Name() + "." + f.Name() + " over a BytesChannel"
					r.Bad(rule, key, c.Pos(), f.Pkg.Pkg.Name()+"."+f.Name()+" reads from a "+core.TypeStr(t)+": PacketQueue.Read returns the full count together with ErrNotEnoughBytes when the queue runs dry, "+f.Name()+" discards the error of a read that filled the buffer, and the truncated package parses successfully with zero bytes in place of the missing ones")
				}
			}
		}
	}
	r.Check(true, rule, "no io.ReadFull/ReadAtLeast/Copy/bufio over a BytesChannel", token.NoPos, fmt.Sprintf("%d calls into package io inspected", n), "")
}

// c08MasksKept: R08.10. LookupPackage creates a capability package through NewCapabilityPackage, which pre-sizes an
// all-false mask per capability type; ReadFrom overwrites the masks the server answered. Login's all-zero test ranges
// over that map, so a type the server left out is caught as all-zero only because its default mask is still there.
// The map is therefore created in the constructor only: a parser that installs a fresh map drops the defaults and an
// unanswered capability type escapes the test.
func c08MasksKept(r *core.Run) {
	p := r.Prog
	fCaps := p.Field("tds", "CapabilityPackage", "Capabilities")
	n := 0
	for _, fn := range p.ModuleFuncs() {
		if fn.Blocks == nil || p.FuncInOverlay(fn) {
			continue
		}
		for _, b := range fn.Blocks {
			for _, in := range b.Instrs {
				st, ok := in.(*ssa.Store)
				if !ok {
					continue
				}
				fa, ok := st.Addr.(*ssa.FieldAddr)
				if !ok || core.FieldOfAddr(fa) != fCaps {
					continue
				}
				n++
				// the constructor: the struct it stores into is allocated here
				if _, fresh := core.Strip(fa.X).(*ssa.Alloc); fresh {
					r.OK("R08.10", core.FuncName(fn)+": creates the mask map for a package it allocates", st.Pos(), "constructor")
					continue
				}
				r.Bad("R08.10", core.FuncName(fn)+": replaces CapabilityPackage.Capabilities", st.Pos(), core.FuncName(fn)+" installs a new Capabilities map in an existing package: the all-false default masks of NewCapabilityPackage are lost, a capability type the server did not answer is absent instead of all-zero, and Login's all-zero test (a range over this map) never sees it")
			}
		}
	}
	r.Check(n > 0, "R08.10", "the capability masks are created by the constructor only", token.NoPos, fmt.Sprintf("%d stores of the field", n), "no store of CapabilityPackage.Capabilities found")
}

// c16SignKept: R16.8. big.Int.Bytes / Decimal.Bytes return the magnitude. A big.Int or Decimal rebuilt with
// SetBytes(x.Bytes()) is |x|: a function that copies a value that way must also transfer the sign.
func c16SignKept(r *core.Run) {
	p := r.Prog
	isBytes := func(v ssa.Value) bool {
		c, ok := core.Strip(v).(*ssa.Call)
		if !ok {
			return false
		}
		f := c.Call.StaticCallee()
		if f == nil || f.Name() != "Bytes" || f.Signature.Recv() == nil {
			return false
		}
		rt := f.Signature.Recv().Type().String()
		return strings.HasSuffix(rt, "math/big.Int") || strings.HasSuffix(rt, "asetypes.Decimal")
	}
	n := 0
	for _, fn := range p.ModuleFuncs() {
		if fn.Blocks == nil || fn.Pkg == nil || fn.Pkg.Pkg.Path() != core.Module+"/asetypes" || p.FuncInOverlay(fn) && !strings.HasPrefix(fn.Name(), "posex") {
			continue
		}
		signAware := false
		var bad []ssa.CallInstruction
		for _, c := range core.Calls(fn) {
			f := core.StaticCallee(c)
			if f == nil {
				continue
			}
			switch f.Name() {
			case "Neg", "Negate", "Sign", "IsNegative", "SetInt64", "Set", "Add", "Sub", "Mul":
				if f.Signature.Recv() != nil {
					signAware = true
				}
			case "SetBytes":
				if f.Signature.Recv() == nil {
					continue
				}
				n++
				if isBytes(c.Common().Args[1]) {
					bad = append(bad, c)
				}
			}
		}
		if !signAware {
			for _, c := range bad {
				r.Bad("R16.8", core.FuncName(fn)+": SetBytes(x.Bytes()) without the sign", c.Pos(), core.FuncName(fn)+" rebuilds a number from the magnitude bytes of another ("+core.Expr(c.Common().Args[1])+") and never looks at the sign: a negative decimal is copied as its absolute value (Int() of -1.27 reports 127, MONEY encodes it as positive)")
			}
		}
	}
	r.Check(n > 0, "R16.8", "no magnitude-only copy of a signed number", token.NoPos, fmt.Sprintf("%d SetBytes calls in package asetypes inspected", n), "no SetBytes call found in package asetypes")
}

// c16RightAligned: R16.9. The DECN/NUMN wire image is one sign byte followed by the magnitude right-aligned in
// ByteSize()-1 bytes (ByteSize depends on the precision only, so the magnitude of a small value is shorter than its
// slot). Every copy of Decimal.Bytes() into the image starts at  size - len(magnitude).
func c16RightAligned(r *core.Run) {
	p := r.Prog
	fn := p.Func("asetypes", "DataType", "Bytes")
	decBytes := p.Func("asetypes", "Decimal", "Bytes")
	n := 0
	for _, c := range core.Calls(fn) {
		bi, ok := c.Common().Value.(*ssa.Builtin)
		if !ok || bi.Name() != "copy" {
			continue
		}
		src, ok := core.Strip(c.Common().Args[1]).(*ssa.Call)
		if !ok || src.Call.StaticCallee() != decBytes {
			continue
		}
		n++
		why := "the magnitude of a DECN/NUMN value is copied to " + core.Expr(c.Common().Args[0]) + ", not right-aligned at size-len(magnitude): a value shorter than its slot is shifted towards the sign byte and reads back multiplied by a power of 256"
		if sl, isSl := c.Common().Args[0].(*ssa.Slice); isSl && sl.Low != nil && sl.High == nil {
			if bo, isBo := sl.Low.(*ssa.BinOp); isBo && bo.Op == token.SUB {
				if lc, isC := bo.Y.(*ssa.Call); isC {
					if b2, isB := lc.Call.Value.(*ssa.Builtin); isB && b2.Name() == "len" {
						if in, isIn := core.Strip(lc.Call.Args[0]).(*ssa.Call); isIn && in.Call.StaticCallee() == decBytes {
							why = ""
						}
					}
				}
			}
		}
		r.Check(why == "", "R16.9", "DataType.Bytes: magnitude right-aligned in the DECN/NUMN image", c.Pos(), "copy(bs[size-len(dec.Bytes()):], dec.Bytes())", why)
	}
	if n == 0 {
		r.Bad("R16.9", "DataType.Bytes: magnitude right-aligned in the DECN/NUMN image", fn.Pos(), "no copy of Decimal.Bytes() into the wire image found in DataType.Bytes")
	}
}

// c17QueryEscaping: R17.12. ParseURI reads the properties with url.Query(), i.e. query unescaping ('+' is a space,
// '&' and '=' separate). FormatURI therefore writes them with url.Values.Encode / url.QueryEscape. url.PathEscape
// leaves '+', '&', '=' alone and is never the inverse of what the parser does; package dsn does not use it.
func c17QueryEscaping(r *core.Run) {
	p := r.Prog
	fu := p.Func("dsn", "", "FormatURI")
	enc := 0
	for _, fn := range p.ModuleFuncs() {
		if fn.Blocks == nil || fn.Pkg == nil || fn.Pkg.Pkg.Path() != core.Module+"/dsn" || p.FuncInOverlay(fn) && !strings.HasPrefix(fn.Name(), "posex") {
			continue
		}
		for _, c := range core.Calls(fn) {
			f := core.StaticCallee(c)
			if f == nil || f.Pkg == nil || f.Pkg.Pkg.Path() != "net/url" {
				continue
			}
			if f.Name() == "PathEscape" {
				r.Bad("R17.12", core.FuncName(fn)+": url.PathEscape", c.Pos(), core.FuncName(fn)+" escapes DSN text with url.PathEscape, which leaves '+', '&', '=' and ';' as they are; ParseURI reads the query with url.Query(), where '+' is a space and '&' ends the value: a database name or property containing them is parsed back changed")
			}
			if fn == fu && (f.Name() == "Encode" || f.Name() == "QueryEscape") {
				enc++
			}
		}
	}
	if enc == 0 {
		// helpers called from FormatURI
		for _, c := range core.Calls(fu) {
			if f := core.StaticCallee(c); f != nil && core.InModule(f) && f.Blocks != nil {
				for _, c2 := range core.Calls(f) {
					if g := core.StaticCallee(c2); g != nil && g.Pkg != nil && g.Pkg.Pkg.Path() == "net/url" && (g.Name() == "Encode" || g.Name() == "QueryEscape") {
						enc++
					}
				}
			}
		}
	}
	r.Check(enc > 0, "R17.12", "FormatURI: the query is written with query escaping", fu.Pos(), fmt.Sprintf("%d url.Values.Encode/url.QueryEscape call(s)", enc), "FormatURI no longer writes the properties with url.Values.Encode or url.QueryEscape, the escaping ParseURI's url.Query() inverts")
}

// c19ComparesParsed: R19.4 (second clause). What VersionCompareSemantic answers without an error is
// parsed(a).Compare(parsed(b)) on the very values NewVersion returned — not on a projection of them (Core(), a
// re-built version, the segments), which forgets the pre-release part or further segments and moves versions across
// a bound.
func c19ComparesParsed(r *core.Run) {
	p := r.Prog
	fn := p.Func("capability", "", "VersionCompareSemantic")
	parsedOf := func(v ssa.Value) ssa.Value {
		ex, ok := core.Strip(v).(*ssa.Extract)
		if !ok || ex.Index != 0 {
			return nil
		}
		c, ok := ex.Tuple.(*ssa.Call)
		if !ok {
			return nil
		}
		f := c.Call.StaticCallee()
		if f == nil || f.Name() != "NewVersion" || len(c.Call.Args) != 1 {
			return nil
		}
		return c.Call.Args[0]
	}
	n := 0
	why := ""
	for _, ret := range core.Returns(fn) {
		rv := core.RetVals(ret)
		if !core.IsNil(rv[1]) {
			continue
		}
		n++
		c, ok := core.Strip(rv[0]).(*ssa.Call)
		if !ok || c.Call.StaticCallee() == nil || c.Call.StaticCallee().Name() != "Compare" || len(c.Call.Args) != 2 {
			why = "the answer " + core.Expr(rv[0]) + " is not the result of Version.Compare"
			continue
		}
		if parsedOf(c.Call.Args[0]) != ssa.Value(fn.Params[0]) || parsedOf(c.Call.Args[1]) != ssa.Value(fn.Params[1]) {
			why = "the comparison is " + core.Expr(rv[0]) + ": not NewVersion(a).Compare(NewVersion(b)) on the parsed versions themselves — a projection (Core(), segments) drops the pre-release part, so 1.0.0-rc1+b5 counts as 1.0.0 and lies inside [1.0.0, 2.0.0)"
		}
	}
	if n == 0 {
		why = "no return without error"
	}
	r.Check(why == "", "R19.4", "VersionCompareSemantic: answers Compare of the two parsed versions themselves", fn.Pos(), "NewVersion(a).Compare(NewVersion(b))", why)
}

// noSelfFormatting: R20.5. A String method that hands its own receiver to fmt under a verb that consults
// fmt.Stringer (%v %s %q %x %X, or Sprint/Sprintln) calls itself without end — a stack overflow the process cannot
// recover from. (go vet knows this; the pinned suite runs with -vet=off.)
func noSelfFormatting(r *core.Run, rule string) {
	p := r.Prog
	n := 0
	for _, fn := range p.ModuleFuncs() {
		if fn.Blocks == nil || fn.Signature.Recv() == nil || (fn.Name() != "String" && fn.Name() != "Error") || fn.Signature.Params().Len() != 0 || p.FuncInOverlay(fn) && !strings.HasPrefix(fn.Name(), "posex") {
			continue
		}
		n++
		recvT := fn.Signature.Recv().Type()
		isSelf := func(v ssa.Value) bool {
			mi, ok := v.(*ssa.MakeInterface)
			if !ok || !types.Identical(mi.X.Type(), recvT) {
				return false
			}
			x := core.Strip(mi.X)
			if x == ssa.Value(fn.Params[0]) {
				return true
			}
			if u, isU := x.(*ssa.UnOp); isU && u.Op == token.MUL {
				if a, isA := u.X.(*ssa.Alloc); isA { // spilled receiver
					for _, ref := range *a.Referrers() {
						if st, isSt := ref.(*ssa.Store); isSt && st.Addr == ssa.Value(a) && st.Val == ssa.Value(fn.Params[0]) {
							return true
						}
					}
				}
			}
			return false
		}
		for _, c := range core.Calls(fn) {
			f := core.StaticCallee(c)
			if f == nil || f.Pkg == nil || f.Pkg.Pkg.Path() != "fmt" {
				continue
			}
			args := c.Common().Args
			fmtIdx := -1
			switch f.Name() {
			case "Sprintf", "Errorf":
				fmtIdx = 0
			case "Fprintf":
				fmtIdx = 1
			case "Sprint", "Sprintln":
			default:
				continue
			}
			// variadic arguments: stores into the backing array
			var va []ssa.Value
			if len(args) > 0 {
				if sl, ok := args[len(args)-1].(*ssa.Slice); ok {
					if al, ok := sl.X.(*ssa.Alloc); ok {
						byIdx := map[int64]ssa.Value{}
						max := int64(-1)
						for _, ref := range *al.Referrers() {
							if ia, ok := ref.(*ssa.IndexAddr); ok {
								k, _ := core.ConstInt64(ia.Index)
								for _, r2 := range *ia.Referrers() {
									if st, ok := r2.(*ssa.Store); ok {
										byIdx[k] = st.Val
										if k > max {
											max = k
										}
									}
								}
							}
						}
						for k := int64(0); k <= max; k++ {
							va = append(va, byIdx[k])
						}
					}
				}
			}
			var verbs []byte
			if fmtIdx >= 0 {
				cst, ok := args[fmtIdx].(*ssa.Const)
				if !ok || cst.Value == nil || cst.Value.Kind() != constant.String {
					continue
				}
				s := constant.StringVal(cst.Value)
				for i := 0; i < len(s); i++ {
					if s[i] != '%' {
						continue
					}
					i++
					sharp := false
					for i < len(s) && strings.IndexByte("+-# 0123456789.[]*", s[i]) >= 0 {
						sharp = sharp || s[i] == '#'
						i++
					}
					if i < len(s) && s[i] != '%' {
						if sharp && s[i] == 'v' {
							verbs = append(verbs, 'V') // %#v consults GoStringer, not Stringer
						} else {
							verbs = append(verbs, s[i])
						}
					}
				}
			}
			for i, a := range va {
				if a == nil || !isSelf(a) {
					continue
				}
				verb := byte('v')
				if fmtIdx >= 0 {
					if i >= len(verbs) {
						continue
					}
					verb = verbs[i]
				}
				if strings.IndexByte("vsqxX", verb) >= 0 {
					r.Bad(rule, core.FuncName(fn)+": formats its own receiver", c.Pos(), core.FuncName(fn)+" passes its receiver to fmt."+f.Name()+" under %"+string(verb)+": fmt calls the "+fn.Name()+" method of the value, which takes the same branch again — unbounded recursion, fatal stack overflow for every value reaching this branch")
				}
			}
		}
	}
	r.Check(n > 0, rule, "no String/Error method formats its own receiver through fmt.Stringer", token.NoPos, fmt.Sprintf("%d String/Error methods inspected", n), "no String methods found")
}

// lenSitesRule re-states C10's panic-site obligations (E-LEN with the reviewed-invariant table) for the functions sel
// picks, under the rule of another property whose statement needs them.
func lenSitesRule(r *core.Run, rule string, sel func(*ssa.Function) bool, consequence string) int {
	p := r.Prog
	le := newLenEngine(p)
	reviewed := c10Reviewed(p)
	n := 0
	for _, fn := range p.ModuleFuncs() {
		if fn.Blocks == nil || !sel(fn) {
			continue
		}
		for _, s := range le.Sites(fn) {
			if s.Kind != "index" && s.Kind != "slice" {
				continue
			}
			n++
			key := core.FuncName(fn) + ": " + s.Expr
			if s.OK {
				r.OK(rule, key, s.Instr.Pos(), s.Reason)
				continue
			}
			matched := false
			for _, rv := range reviewed {
				if rv.matches(fn, s) {
					matched = true
					if ok, why := rv.check(r, s); ok {
						r.OK(rule, key, s.Instr.Pos(), "reviewed invariant: "+rv.reason)
					} else {
						r.Bad(rule, key, s.Instr.Pos(), "the guard this site relies on no longer holds: "+why+" ("+rv.reason+")")
					}
					break
				}
			}
			if !matched {
				r.Bad(rule, key, s.Instr.Pos(), s.Reason+": "+consequence)
			}
		}
	}
	return n
}

// c08NoCrash: R08.11 ("never a crash"). Every index and slice expression in the package parsers (ReadFrom on a
// BytesChannel, package tds) is in range whatever the server sends: they run in the reader goroutine, where a panic
// takes the process down and the caller of Login cannot recover it.
func c08NoCrash(r *core.Run) {
	p := r.Prog
	bc := p.Named("tds", "BytesChannel")
	n := lenSitesRule(r, "R08.11", func(fn *ssa.Function) bool {
		if fn.Pkg != nil && fn.Pkg.Pkg.Path() == core.Module+"/asetypes" && strings.EqualFold(fn.Name(), "GoValue") {
			return true // the values of the key parameters are decoded here
		}
		if fn.Pkg == nil || fn.Pkg.Pkg.Path() != core.Module+"/tds" || !strings.HasPrefix(fn.Name(), "ReadFrom") {
			return false
		}
		for _, prm := range fn.Params {
			if types.Identical(prm.Type(), bc) {
				return true
			}
		}
		return false
	}, "a reply with an altered length or count field makes this expression panic in the reader goroutine during Login")
	if n == 0 {
		r.Unknown("R08.11", "package parsers: index/slice sites", token.NoPos, "no index or slice expression found in the package parsers")
	}
}

// c01PacketImage: R01.17. The wire image of a packet is exactly Header.Length bytes: Packet.Bytes returns a buffer
// made with that length (header and body are copied into it). An image sized by the body it happens to hold is
// shorter than what its header announces for a header-only packet built with NewPacket (the teardown of a logical
// channel), and the receiver takes the next packets' bytes as its body.
func c01PacketImage(r *core.Run, rule string) {
	p := r.Prog
	fn := p.Func("tds", "Packet", "Bytes")
	fLen := p.Field("tds", "PacketHeader", "Length")
	why := ""
	n := 0
	for _, ret := range core.Returns(fn) {
		rv := core.RetVals(ret)
		if core.IsNil(rv[0]) {
			continue
		}
		n++
		ms, ok := core.Strip(rv[0]).(*ssa.MakeSlice)
		if !ok {
			why = "Packet.Bytes returns " + core.Expr(rv[0]) + ", not a buffer made with Header.Length bytes: for a packet whose body is shorter than its header announces (the teardown packet of a logical channel) fewer bytes reach the transport than the header says, and the peer reads the following packets as this packet's body"
			continue
		}
		if f, _ := core.FieldLoad(core.Strip(ms.Len)); f != fLen {
			why = "the wire image is made with length " + core.Expr(ms.Len) + ", not Header.Length"
		}
	}
	if n == 0 {
		why = "Packet.Bytes never returns an image"
	}
	r.Check(why == "", rule, "Packet.Bytes: the image has Header.Length bytes", fn.Pos(), "make([]byte, Header.Length)", why)
}

// c11CallbackErrorWrapped: R11.10. Whatever the callback of NextPackageUntil answers together with an error — also
// (true, err) — that error reaches the caller only inside the error that carries the collected messages (the
// EEDError, or the fmt.Errorf wrap when no message was received); the identity shortcut err == io.EOF returns io.EOF
// itself. No return hands back the callback's error value as it is.
func c11CallbackErrorWrapped(r *core.Run) {
	p := r.Prog
	fn := p.Func("tds", "Channel", "NextPackageUntil")
	var cbErr []ssa.Value
	for _, c := range core.Calls(fn) {
		cc := c.Common()
		if cc.IsInvoke() || cc.StaticCallee() != nil {
			continue
		}
		if cc.Value != ssa.Value(fn.Params[3]) {
			continue
		}
		if v := c.Value(); v != nil {
			for _, ref := range *v.Referrers() {
				if ex, ok := ref.(*ssa.Extract); ok && ex.Index == 1 {
					cbErr = append(cbErr, ex)
				}
			}
		}
	}
	if len(cbErr) == 0 {
		r.Bad("R11.10", "NextPackageUntil: callback error", fn.Pos(), "no call of the processing function whose error result is examined")
		return
	}
	isCb := func(v ssa.Value) bool {
		seen := map[ssa.Value]bool{}
		var walk func(v ssa.Value) bool
		walk = func(v ssa.Value) bool {
			v = core.Strip(v)
			if seen[v] {
				return false
			}
			seen[v] = true
			for _, e := range cbErr {
				if v == e {
					return true
				}
			}
			if ph, ok := v.(*ssa.Phi); ok {
				for _, e := range ph.Edges {
					if walk(e) {
						return true
					}
				}
			}
			return false
		}
		return walk(v)
	}
	why := ""
	for _, ret := range core.Returns(fn) {
		rv := core.RetVals(ret)
		ev := rv[len(rv)-1]
		if !isCb(ev) {
			continue
		}
		// fine when the error is known to be nil here
		knownNil := false
		for _, g := range core.GuardsAt(ret) {
			if x, nn, ok := core.ErrNilTest(g.Cond); ok && nn != g.Pol && isCb(x) {
				knownNil = true
			}
		}
		if !knownNil {
			why = "NextPackageUntil returns the callback's error as it is (" + p.Pos(ret.Pos()) + "): when the callback answers (true, err) the caller gets neither the EEDError with the messages received so far nor a drained response"
		}
	}
	r.Check(why == "", "R11.10", "NextPackageUntil: the callback's error is returned only inside the aggregated error", fn.Pos(), "no return hands back processPkg's error value itself", why)
}

// c11EnvChangeAnyCount: R11.11. An ENVCHANGE token carries 0..n members. Every width sequence EnvChangePackage.WriteTo
// can produce — among them the one with no member at all — is accepted by ReadFrom (E-SHAPE, R06.1 for this one
// type): a reader that insists on a first member takes it out of the following package, fails, and the messages and
// the packet-size change after it never reach the hooks.
func c11EnvChangeAnyCount(r *core.Run) {
	p := r.Prog
	ef := newErrFlow(p)
	n := p.Named("tds", "EnvChangePackage")
	rf, wf := methodFn(p, n, "ReadFrom"), methodFn(p, n, "WriteTo")
	if rf == nil || wf == nil {
		r.Unknown("R11.11", "EnvChangePackage", token.NoPos, "ReadFrom/WriteTo not found")
		return
	}
	wn, wprob := codecNFA(p, ef, wf, nil, false)
	rn, rprob := codecNFA(p, ef, rf, nil, false)
	if wprob != "" || rprob != "" {
		r.Unknown("R11.11", "EnvChangePackage", wf.Pos(), wprob+rprob)
		return
	}
	if cex := included(wn.dropFirstByte(), rn); cex != nil {
		r.Bad("R11.11", "EnvChangePackage: any number of members", rf.Pos(), "an ENVCHANGE the writer can produce (widths: "+strings.Join(cex.Word, " ")+") is not accepted by the reader: "+cex.Why+" — with no member the reader takes the next package's bytes for one, fails, and what follows (messages, the packet-size change) is lost")
		return
	}
	r.OK("R11.11", "EnvChangePackage: any number of members", rf.Pos(), "every width sequence of WriteTo (0..n members) is accepted by ReadFrom")
}

// c09CurrentPassword: R09.8. The entry for the current server in the remote-password list ("respective password") is
// built by Login from config.DSN.Password as it is at that moment: the store LoginConfigRemoteServer.Password :=
// config.DSN.Password dominates the call of pack() (and with it everything sent). An entry kept from an earlier
// Login or from the construction of the config carries the password of that time, and the REMPWD entry for the
// current server no longer decrypts to the password LOGPWD carries.
func c09CurrentPassword(r *core.Run) {
	p := r.Prog
	login := p.Func("tds", "Channel", "Login")
	pack := p.Func("tds", "LoginConfig", "pack")
	fRemPw := p.Field("tds", "LoginConfigRemoteServer", "Password")
	var dsnPw *types.Var
	if info, ok := p.Named("tds", "Info").Underlying().(*types.Struct); ok {
		for i := 0; i < info.NumFields(); i++ {
			if info.Field(i).Name() == "Password" {
				dsnPw = info.Field(i)
			}
		}
	}
	if dsnPw == nil {
		// promoted from an embedded struct
		if o, _, _ := types.LookupFieldOrMethod(p.Named("tds", "Info"), true, p.Pkg("tds").Types, "Password"); o != nil {
			dsnPw, _ = o.(*types.Var)
		}
	}
	var builds []ssa.Instruction
	for _, b := range login.Blocks {
		for _, in := range b.Instrs {
			st, ok := in.(*ssa.Store)
			if !ok {
				continue
			}
			fa, ok := st.Addr.(*ssa.FieldAddr)
			if !ok || core.FieldOfAddr(fa) != fRemPw {
				continue
			}
			if f, _ := core.FieldLoad(core.Strip(st.Val)); f != nil && f == dsnPw {
				builds = append(builds, st)
			}
		}
	}
	calls := callsTo(login, pack)
	why := ""
	switch {
	case dsnPw == nil:
		why = "Info.Password not found"
	case len(calls) == 0:
		why = "Login does not call pack()"
	case len(builds) == 0:
		why = "Login no longer builds the current server's entry from config.DSN.Password: the REMPWD entry carries whatever password the list held before"
	default:
		for _, c := range calls {
			dom := false
			for _, b := range builds {
				if core.Dominates(b, c.(ssa.Instruction)) {
					dom = true
				}
			}
			if !dom {
				why = "a path reaches pack() without the current server's entry having been built from config.DSN.Password in this Login (the entry is kept when one is already there): after the password was set or changed later, REMPWD for the current server carries the old password while LOGPWD carries the new one"
			}
		}
	}
	r.Check(why == "", "R09.8", "Login: the current server's entry is built from DSN.Password at login time", login.Pos(), "LoginConfigRemoteServer{Password: config.DSN.Password} dominates pack()", why)
}

// c16NoHiddenState: R16.6 (second clause). The methods of Decimal that only read or format (everything but Set*,
// Negate) store nothing into the receiver. Precision and Scale are exported and may be changed by anyone, so text or
// any other derived value cached inside the decimal cannot be kept in step with it; Negate after String would print
// the old sign.
func c16NoHiddenState(r *core.Run) {
	p := r.Prog
	dec := p.Named("asetypes", "Decimal")
	n := 0
	for _, fn := range p.ModuleFuncs() {
		if fn.Blocks == nil || core.RecvNamed(fn) == nil || core.RecvNamed(fn).Obj() != dec.Obj() || fn.Parent() != nil {
			continue
		}
		if strings.HasPrefix(fn.Name(), "Set") || fn.Name() == "Negate" || fn.Name() == "sanity" {
			continue
		}
		if _, isPtr := fn.Params[0].Type().(*types.Pointer); !isPtr {
			continue
		}
		n++
		why := ""
		var pos = fn.Pos()
		for _, b := range fn.Blocks {
			for _, in := range b.Instrs {
				st, ok := in.(*ssa.Store)
				if !ok {
					continue
				}
				if fa, ok := st.Addr.(*ssa.FieldAddr); ok && core.Strip(fa.X) == ssa.Value(fn.Params[0]) {
					why = core.FuncName(fn) + " stores into Decimal." + core.FieldOfAddr(fa).Name() + ": a value derived from the number is kept inside it, and nothing keeps it in step with Negate or with a change of the exported Precision/Scale — the next call answers for a number the decimal no longer holds"
					pos = st.Pos()
				}
			}
		}
		r.Check(why == "", "R16.6", core.FuncName(fn)+": stores nothing into the receiver", pos, "no store through the receiver", why)
	}
	if n == 0 {
		r.Unknown("R16.6", "reading methods of *Decimal", token.NoPos, "none found")
	}
}

// c06StatusSiblings: R06.16. Whether a per-value status byte is on the wire is decided by the field format's status,
// once in readFromStatus and once in writeToStatus. The two tests are the same expression with the same polarity
// (sibling agreement): with different tests there are format statuses for which the writer leaves the byte out and
// the reader expects it.
func c06StatusSiblings(r *core.Run) {
	p := r.Prog
	rd := p.Func("tds", "fieldDataBase", "readFromStatus")
	wr := p.Func("tds", "fieldDataBase", "writeToStatus")
	// the condition under which the function returns without touching the channel
	skipCond := func(fn *ssa.Function) (string, bool) {
		for _, ret := range core.Returns(fn) {
			rv := core.RetVals(ret)
			if z, isC := core.ConstInt64(rv[0]); !isC || z != 0 || !core.IsNil(rv[len(rv)-1]) {
				continue
			}
			var parts []string
			for _, g := range core.GuardsAt(ret) {
				parts = append(parts, fmt.Sprintf("%s=%v", core.KExpr(g.Cond), g.Pol))
			}
			sort.Strings(parts)
			// a value receiver is spilled to a local, a pointer receiver is parameter 0: the same object here
			return strings.ReplaceAll(strings.Join(parts, " && "), "local.", "$0."), true
		}
		return "", false
	}
	cr, okr := skipCond(rd)
	cw, okw := skipCond(wr)
	why := ""
	switch {
	case !okr || !okw:
		why = "no `return 0, nil` (no status byte) found in one of the two functions"
	case cr != cw:
		why = "the reader skips the status byte under  " + cr + "  and the writer under  " + cw + ": for a format status on which the two tests differ the writer leaves out a byte the reader consumes (or the other way round) and every following byte of the row is shifted"
	}
	r.Check(why == "", "R06.16", "readFromStatus / writeToStatus decide alike whether a status byte is present", wr.Pos(), cr, why)
}

// c07DiscardOwner: R07.12. DiscardUntilCurrentPosition frees queue packets and thereby shifts every position saved
// earlier. It is called only where no saved position is alive: by WritePacket after a package was parsed completely
// (rx) and by sendPackets when it is done (tx). A parser that discards in the middle of an attempt invalidates the
// position WritePacket rolls back to when the attempt turns out to be truncated; the resumed parse starts in the
// wrong packet.
func c07DiscardOwner(r *core.Run, rule string) {
	p := r.Prog
	allowed := map[*ssa.Function]bool{
		p.Func("tds", "Channel", "WritePacket"): true,
		p.Func("tds", "Channel", "sendPackets"): true,
	}
	pq := p.Named("tds", "PacketQueue")
	n := 0
	for _, fn := range p.ModuleFuncs() {
		if fn.Blocks == nil || p.FuncInOverlay(fn) {
			continue
		}
		outer := fn
		for outer.Parent() != nil {
			outer = outer.Parent()
		}
		for _, c := range core.Calls(fn) {
			name := ""
			if c.Common().IsInvoke() {
				name = c.Common().Method.Name()
			} else if f := core.StaticCallee(c); f != nil {
				name = f.Name()
			}
			if name != "DiscardUntilCurrentPosition" {
				continue
			}
			n++
			if allowed[outer] || (core.RecvNamed(outer) != nil && core.RecvNamed(outer).Obj() == pq.Obj()) {
				r.OK(rule, core.FuncName(outer)+": discards the consumed packets", c.Pos(), "no saved position is alive here")
				continue
			}
			r.Bad(rule, core.FuncName(outer)+": DiscardUntilCurrentPosition outside WritePacket/sendPackets", c.Pos(), core.FuncName(outer)+" frees queue packets in the middle of a parse attempt: the position WritePacket saved before the attempt now names another packet, and when the attempt ends with not-enough-bytes the rollback resumes the parse at the wrong place — a fragmented response loses packages")
		}
	}
	r.Check(n >= 2, rule, "DiscardUntilCurrentPosition is called by WritePacket and sendPackets only", token.NoPos, fmt.Sprintf("%d call sites", n), "the discard calls of WritePacket/sendPackets were not found")
}

// parseErrorStops: a parse error ends the dissection of the response. On every path of tryParsePackage that sends on
// the channel's error queue the function answers false (WritePacket then stops and rolls back or resets). Answering
// true makes the loop go on behind the broken package: the packages after it are delivered and, because NextPackage
// hands out queued packages before queued errors, Login succeeds on a reply that was not a valid acceptance.
func parseErrorStops(r *core.Run, rule string) {
	p := r.Prog
	fn := p.Func("tds", "Channel", "tryParsePackage")
	fErrCh := p.Field("tds", "Channel", "errCh")
	n := 0
	why := ""
	for _, b := range fn.Blocks {
		for _, in := range b.Instrs {
			s, ok := in.(*ssa.Send)
			if !ok {
				continue
			}
			if f, _ := core.FieldLoad(s.Chan); f != fErrCh {
				continue
			}
			// errors of parsing (pkg.ReadFrom, LastPkg), not of handling a package that was parsed
			parse := false
			if call, isCall := s.X.(*ssa.Call); isCall {
				ws, _ := errorfWraps(call)
				for _, w := range ws {
					if ex, isEx := core.Strip(w).(*ssa.Extract); isEx {
						w = ex.Tuple
					}
					if c, isC := core.Strip(w).(*ssa.Call); isC && c.Call.IsInvoke() && (c.Call.Method.Name() == "ReadFrom" || c.Call.Method.Name() == "LastPkg") {
						parse = true
					}
				}
			}
			if !parse {
				continue
			}
			n++
			for _, ret := range core.Returns(fn) {
				if !reachesBlock(s.Block(), ret.Block()) {
					continue
				}
				c, isC := core.RetVals(ret)[0].(*ssa.Const)
				if !isC || c.Value == nil || c.Value.ExactString() != "false" {
					why = "after reporting a parse error (" + p.Pos(s.Pos()) + ") tryParsePackage can answer " + core.Expr(core.RetVals(ret)[0]) + " (" + p.Pos(ret.Pos()) + "): the read loop continues behind the broken package and delivers what follows it"
				}
			}
		}
	}
	if n == 0 {
		why = "tryParsePackage no longer reports parse errors on the channel's error queue"
	}
	r.Check(why == "", rule, "tryParsePackage: answers false after reporting a parse error", fn.Pos(), fmt.Sprintf("%d error reports, every return they reach is false", n), why)
}

func reachesBlock(a, b *ssa.BasicBlock) bool {
	seen := map[*ssa.BasicBlock]bool{}
	st := []*ssa.BasicBlock{a}
	for len(st) > 0 {
		x := st[len(st)-1]
		st = st[:len(st)-1]
		if x == b {
			return true
		}
		if seen[x] {
			continue
		}
		seen[x] = true
		st = append(st, x.Succs...)
	}
	return false
}

// c09EncryptDefault: R09.9. A configuration made by NewLoginConfig asks for the password encryption
// (TDS_MSG_SEC_ENCRYPT4) whatever the DSN says: the store Encrypt := TDS_MSG_SEC_ENCRYPT4 dominates every success
// return. With Encrypt left at zero pack() writes the account password in clear into the login record.
func c09EncryptDefault(r *core.Run) {
	p := r.Prog
	fn := p.Func("tds", "", "NewLoginConfig")
	fEnc := p.Field("tds", "LoginConfig", "Encrypt")
	want := constOf(p, "tds", "TDS_MSG_SEC_ENCRYPT4")
	var sets []ssa.Instruction
	for _, b := range fn.Blocks {
		for _, in := range b.Instrs {
			st, ok := in.(*ssa.Store)
			if !ok {
				continue
			}
			fa, ok := st.Addr.(*ssa.FieldAddr)
			if !ok || core.FieldOfAddr(fa) != fEnc {
				continue
			}
			if c, isC := st.Val.(*ssa.Const); isC && c.Value != nil && constEq(c.Value, want) {
				sets = append(sets, st)
			}
		}
	}
	why := ""
	if len(sets) == 0 {
		why = "NewLoginConfig does not set Encrypt to TDS_MSG_SEC_ENCRYPT4"
	}
	for _, ret := range core.Returns(fn) {
		rv := core.RetVals(ret)
		if !core.IsNil(rv[len(rv)-1]) {
			continue
		}
		dom := false
		for _, s := range sets {
			if core.Dominates(s, ret) {
				dom = true
			}
		}
		if !dom && why == "" {
			why = "a configuration can be returned (" + p.Pos(ret.Pos()) + ") with Encrypt not set to TDS_MSG_SEC_ENCRYPT4 (the assignment is conditional): pack() then writes the account password in clear into the login record"
		}
	}
	r.Check(why == "", "R09.9", "NewLoginConfig: password encryption is requested unconditionally", fn.Pos(), "Encrypt := TDS_MSG_SEC_ENCRYPT4 dominates every success return", why)
}

// c13WriteLockers: R13.14. A receiver parked in NextPackage(wait) holds the channel's read lock for as long as it
// waits. Whoever asks for the write lock queues behind it — and every later RLock (a call with an already cancelled
// context, the reader's WritePacket) queues behind the writer. The write lock of a Channel is therefore taken only by
// Close and by the two one-assignment setters; Reset, the send path and the receive path use the read lock.
func c13WriteLockers(r *core.Run) {
	p := r.Prog
	ch := p.Named("tds", "Channel")
	allowed := map[*ssa.Function]bool{
		p.Func("tds", "Channel", "Close"):        true,
		p.Func("tds", "Channel", "SetLastPkgRx"): true,
		p.Func("tds", "Channel", "SetLastPkgTx"): true,
	}
	n := 0
	for _, fn := range p.ModuleFuncs() {
		if fn.Blocks == nil || p.FuncInOverlay(fn) {
			continue
		}
		for _, c := range core.Calls(fn) {
			f := core.StaticCallee(c)
			if f == nil || f.Name() != "Lock" || f.Signature.Recv() == nil || !strings.HasSuffix(f.Signature.Recv().Type().String(), "sync.RWMutex") {
				continue
			}
			fa, ok := c.Common().Args[0].(*ssa.FieldAddr)
			if !ok {
				continue
			}
			pt, isP := fa.X.Type().Underlying().(*types.Pointer)
			if !isP {
				continue
			}
			nt, isN := pt.Elem().(*types.Named)
			if !isN || nt.Obj() != ch.Obj() || !core.FieldOfAddr(fa).Embedded() {
				continue
			}
			n++
			outer := fn
			for outer.Parent() != nil {
				outer = outer.Parent()
			}
			if allowed[outer] {
				r.OK("R13.14", core.FuncName(outer)+": takes the channel's write lock", c.Pos(), "Close / one-assignment setter")
				continue
			}
			r.Bad("R13.14", core.FuncName(outer)+": takes the channel's write lock", c.Pos(), core.FuncName(outer)+" takes the write lock of the channel: it waits behind every receiver parked in NextPackage, and while it waits every new RLock — a receive or send whose context is already cancelled, the reader's WritePacket — queues behind it instead of returning promptly")
		}
	}
	r.Check(n >= 3, "R13.14", "the channel's write lock is taken by Close and the setters only", token.NoPos, fmt.Sprintf("%d acquisitions", n), "the write-lock acquisitions of Close/SetLastPkgRx/SetLastPkgTx were not found")
}

// sentinelsArePlain: the distinguished conditions (ErrEOFAfterZeroRead, ErrNotEnoughBytes, ErrChannelClosed,
// ErrNoPackageReady) are told apart with errors.Is. Each is created with errors.New: a sentinel that wraps another
// error also answers errors.Is for that one — ErrEOFAfterZeroRead wrapping io.EOF is taken by Conn.ReadFrom for an
// orderly end with a complete packet, and the incomplete packet is parsed.
func sentinelsArePlain(r *core.Run, rule string, names ...string) {
	p := r.Prog
	initFn := p.SSAPkg("tds").Func("init")
	for _, name := range names {
		g := p.Global("tds", name)
		why := "no initialisation found"
		var pos = g.Pos()
		for _, b := range initFn.Blocks {
			for _, in := range b.Instrs {
				st, ok := in.(*ssa.Store)
				if !ok || st.Addr != ssa.Value(g) {
					continue
				}
				pos = st.Pos()
				if c, isC := core.Strip(st.Val).(*ssa.Call); isC && core.IsPkgFunc(c, "errors", "New") {
					why = ""
				} else {
					why = "tds." + name + " is initialised with " + core.Expr(st.Val) + ", not errors.New: if it wraps another error it also matches errors.Is for that error, and the code that tells the two conditions apart takes one for the other"
				}
			}
		}
		r.Check(why == "", rule, "tds."+name+" is a plain sentinel", pos, "errors.New(...)", why)
	}
}

// c15StringIsBytes: R15.2 (String). String(n) is exactly the n bytes Bytes(n) returned, converted.
func c15StringIsBytes(r *core.Run, rule string) {
	p := r.Prog
	fn := p.Func("tds", "PacketQueue", "String")
	bytesFn := p.Func("tds", "PacketQueue", "Bytes")
	why := ""
	n := 0
	for _, ret := range core.Returns(fn) {
		n++
		v := core.RetVals(ret)[0]
		cv, ok := v.(*ssa.Convert)
		if !ok {
			why = "String returns " + core.Expr(v) + ", not the converted result of Bytes: the text handed out is not the bytes that were consumed (trimmed, padded or re-encoded) while the position advanced by the full count"
			continue
		}
		ex, ok := cv.X.(*ssa.Extract)
		if !ok || ex.Index != 0 {
			why = "String converts " + core.Expr(cv.X) + ", not the result of Bytes"
			continue
		}
		if c, isC := ex.Tuple.(*ssa.Call); !isC || c.Call.StaticCallee() != bytesFn || len(c.Call.Args) != 2 || c.Call.Args[1] != ssa.Value(fn.Params[1]) {
			why = "String does not read exactly the requested number of bytes through Bytes"
		}
	}
	if n == 0 {
		why = "no return"
	}
	r.Check(why == "", rule, "String = string(Bytes(n))", fn.Pos(), "the bytes read, converted", why)
}

// c16SetBytesWhole: R16.10. Decimal.SetBytes hands the bytes it is given to big.Int.SetBytes as they are: any
// re-slicing drops magnitude bytes of large values (a 38-digit magnitude needs 16 bytes).
func c16SetBytesWhole(r *core.Run) {
	p := r.Prog
	fn := p.Func("asetypes", "Decimal", "SetBytes")
	why := "Decimal.SetBytes does not call big.Int.SetBytes"
	for _, c := range core.Calls(fn) {
		f := core.StaticCallee(c)
		if f == nil || f.Name() != "SetBytes" || f.Pkg == nil || f.Pkg.Pkg.Path() != "math/big" {
			continue
		}
		if c.Common().Args[1] == ssa.Value(fn.Params[1]) {
			why = ""
		} else {
			why = "Decimal.SetBytes passes " + core.Expr(c.Common().Args[1]) + " to big.Int.SetBytes, not the bytes it was given: high-order bytes of a large magnitude are dropped and the decimal decodes to a different number"
		}
	}
	r.Check(why == "", "R16.10", "Decimal.SetBytes: the magnitude is taken from all the bytes given", fn.Pos(), "dec.i.SetBytes(b)", why)
}

// c17Dispatch: R17.13. Parse tells the URI form from the simple form by the scheme separator "://". Values of the
// simple form may contain "//" or ":" (paths, passwords), so a shorter marker sends a simple DSN to ParseURI, where
// url.Parse accepts it as a bare path and every field but the database stays empty.
func c17Dispatch(r *core.Run) {
	p := r.Prog
	fn := p.Func("dsn", "", "Parse")
	uri := p.Func("dsn", "", "ParseURI")
	why := ""
	calls := callsTo(fn, uri)
	if len(calls) == 0 {
		why = "Parse does not call ParseURI"
	}
	for _, c := range calls {
		marker := ""
		for _, g := range core.GuardsAt(c.(ssa.Instruction)) {
			var call *ssa.Call
			switch x := g.Cond.(type) {
			case *ssa.Call:
				call = x
			case *ssa.BinOp:
				if cx, ok := x.X.(*ssa.Call); ok {
					call = cx
				}
			}
			if call == nil || call.Call.StaticCallee() == nil || call.Call.StaticCallee().Pkg == nil || call.Call.StaticCallee().Pkg.Pkg.Path() != "strings" {
				continue
			}
			for _, a := range call.Call.Args {
				if cst, ok := a.(*ssa.Const); ok && cst.Value != nil && cst.Value.Kind() == constant.String {
					marker = constant.StringVal(cst.Value)
				}
			}
		}
		if marker != "://" {
			why = fmt.Sprintf("Parse hands the string to ParseURI on the marker %q, not on the scheme separator \"://\": a simple DSN whose values contain the marker (a path with //, a password) is parsed as a URI — url.Parse accepts it as a bare path, no error, and every field except the database is lost", marker)
		}
	}
	r.Check(why == "", "R17.13", "Parse: the URI form is recognised by \"://\"", fn.Pos(), "strings.Contains(dsn, \"://\") guards ParseURI", why)
}

// c19SpecUnchanged: R19.8. The version string handed to the comparer is the specification the version was created
// with: VersionString returns the field itself. A normalised copy (trimmed, lower-cased) is a different string — a
// specification the comparer would have refused is answered silently.
func c19SpecUnchanged(r *core.Run) {
	p := r.Prog
	fn := p.Func("capability", "DefaultVersion", "VersionString")
	fSpec := p.Field("capability", "DefaultVersion", "spec")
	why := ""
	for _, ret := range core.Returns(fn) {
		v := core.Strip(core.RetVals(ret)[0])
		if f, _ := core.FieldLoad(v); f != fSpec {
			why = "VersionString returns " + core.Expr(v) + ", not the specification itself: the comparer is asked about a different string than the one the version was created with, so a specification it cannot parse (leading/trailing blanks, a newline) gets a silent answer"
		}
	}
	r.Check(why == "", "R19.8", "DefaultVersion.VersionString returns the specification unchanged", fn.Pos(), "return v.spec", why)
}

// c12NumberWithWrite: R12.16. A packet number is used up when its packet is written: the increment of
// Channel.curPacketNr and the Packet.WriteTo it belongs to are in the same loop iteration (same innermost loop, the
// increment first). Numbering all due packets ahead of the send loop burns the numbers of the packets a cancelled
// context leaves unsent, and the next message on the channel continues with a gap.
func c12NumberWithWrite(r *core.Run) {
	p := r.Prog
	fCur := p.Field("tds", "Channel", "curPacketNr")
	pw := p.Func("tds", "Packet", "WriteTo")
	n := 0
	for _, fn := range p.ModuleFuncs() {
		if fn.Blocks == nil || p.FuncInOverlay(fn) || p.IsNewHelper(fn) {
			continue // a new helper is judged where it is called
		}
		for _, b := range fn.Blocks {
			for _, in := range b.Instrs {
				st, ok := in.(*ssa.Store)
				if !ok {
					continue
				}
				fa, ok := st.Addr.(*ssa.FieldAddr)
				if !ok || core.FieldOfAddr(fa) != fCur {
					continue
				}
				if c, isC := st.Val.(*ssa.Const); isC && c.Value != nil {
					continue // initialisation / reset to a constant
				}
				n++
				hs, _ := core.InnermostLoop(b)
				good := false
				for _, w := range callsTo(fn, pw) {
					hw, _ := core.InnermostLoop(w.Block())
					if hw != hs {
						continue
					}
					// the write is reached from the increment without going round the loop
					seen := map[*ssa.BasicBlock]bool{}
					stack := []*ssa.BasicBlock{b}
					for len(stack) > 0 {
						x := stack[len(stack)-1]
						stack = stack[:len(stack)-1]
						if x == w.Block() {
							good = true
							break
						}
						if seen[x] {
							continue
						}
						seen[x] = true
						for _, s := range x.Succs {
							if s != hs {
								stack = append(stack, s)
							}
						}
					}
				}
				r.Check(good, "R12.16", core.FuncName(fn)+": packet number taken in the iteration that writes the packet", st.Pos(), "increment and Packet.WriteTo in the same loop iteration", core.FuncName(fn)+" advances curPacketNr in a loop (or function) of its own, not in the iteration that writes the packet: when the send loop stops early (cancelled context, write error) the numbers of the unsent packets are used up and the channel's next packet does not carry the consecutive number")
			}
		}
	}
	if n == 0 {
		r.Bad("R12.16", "packet number taken in the iteration that writes the packet", token.NoPos, "no increment of Channel.curPacketNr found")
	}
}

// c06MaskFromWire: R06.17. The value mask of a capability type is as long as the server sent it: in
// CapabilityPackage.ReadFrom the mask stored under the type is built from the bytes just read (a call that takes the
// result of ch.Bytes(capLength)), not decoded into the mask the constructor pre-sized for the capabilities this
// library knows — bits beyond the local maximum and the whole security mask would be dropped, and the package written
// again differs from the one read.
func c06MaskFromWire(r *core.Run) {
	p := r.Prog
	fn := p.Func("tds", "CapabilityPackage", "ReadFrom")
	fCaps := p.Field("tds", "CapabilityPackage", "Capabilities")
	n := 0
	why := ""
	for _, b := range fn.Blocks {
		for _, in := range b.Instrs {
			mu, ok := in.(*ssa.MapUpdate)
			if !ok {
				continue
			}
			if f, _ := core.FieldLoad(mu.Map); f != fCaps {
				continue
			}
			n++
			fromWire := false
			if c, isC := core.Strip(mu.Value).(*ssa.Call); isC {
				for _, a := range c.Call.Args {
					if ex, isEx := core.Strip(a).(*ssa.Extract); isEx && ex.Index == 0 {
						if rc, isRC := ex.Tuple.(*ssa.Call); isRC && rc.Call.IsInvoke() && rc.Call.Method.Name() == "Bytes" {
							fromWire = true
						}
					}
				}
			}
			if !fromWire {
				why = "the mask stored for a capability type is " + core.Expr(mu.Value) + ", not one built from the bytes read"
			} else if h, loop := core.InnermostLoop(b); h != nil {
				// ... for every capability type of the package: no way round the loop misses the update once the
				// bytes have been read (the update is not reserved for types the package does not hold yet)
				var rd *ssa.BasicBlock
				for bb := range loop {
					for _, in2 := range bb.Instrs {
						if c2, isC2 := in2.(*ssa.Call); isC2 && c2.Call.IsInvoke() && c2.Call.Method.Name() == "Bytes" {
							rd = bb
						}
					}
				}
				if rd != nil {
					core.EnumPaths(rd, func(x *ssa.BasicBlock) bool { return x == h }, loop, 4000, func(pa core.Path, ended bool) {
						if !ended {
							return
						}
						through := false
						for _, x := range pa.Blocks {
							if x == b {
								through = true
							}
						}
						if !through {
							why = "a capability type can be read without its mask being rebuilt from the bytes (the update is conditional, e.g. only for types the package does not hold yet): for the pre-sized types bits above the highest capability this library knows, and every security capability, are dropped"
						}
					})
				}
			}
		}
	}
	if n == 0 {
		why = "CapabilityPackage.ReadFrom stores no mask built from the bytes it read (it decodes into the pre-sized masks): bits above the highest capability this library knows, and every security capability, are dropped"
	}
	r.Check(why == "", "R06.17", "CapabilityPackage.ReadFrom: each mask is built from the bytes read", fn.Pos(), "Capabilities[type] = parseValueMask(ch.Bytes(length))", why)
}

// c15ReadHandsOn: R15.16 (second clause). PacketQueue.Read reports a short read with the error Bytes returned —
// not with io.EOF or another translation, which the parsers that read through io.Reader would take for success.
func c15ReadHandsOn(r *core.Run) {
	p := r.Prog
	fn := p.Func("tds", "PacketQueue", "Read")
	bytesFn := p.Func("tds", "PacketQueue", "Bytes")
	why := ""
	for _, ret := range core.Returns(fn) {
		rv := core.RetVals(ret)
		ev := core.Strip(rv[len(rv)-1])
		ex, ok := ev.(*ssa.Extract)
		if ok {
			if c, isC := ex.Tuple.(*ssa.Call); isC && c.Call.StaticCallee() == bytesFn && ex.Index == 1 {
				continue
			}
		}
		if core.IsNil(ev) {
			good := false
			for _, c := range callsTo(fn, bytesFn) {
				if errNilGuard(core.GuardsAt(ret), c) {
					good = true
				}
			}
			if good {
				continue
			}
		}
		why = "PacketQueue.Read returns " + core.Expr(rv[len(rv)-1]) + " instead of the error of Bytes: a short read is no longer reported as not-enough-bytes to a parser that reads through io.Reader (TokenlessPackage), which then succeeds on half a package"
	}
	r.Check(why == "", "R15.16", "PacketQueue.Read returns the error of Bytes", fn.Pos(), "return copy(p, bs), err", why)
}

// untilKeepsChain: when NextPackage fails inside NextPackageUntil (a context ended, the transport died, the channel
// was closed) the error NextPackageUntil returns still has that error in its chain: it is the error itself, an
// fmt.Errorf that wraps it with %w, or an EEDError whose WrappedError is one of those. The caller's errors.Is(err,
// context.Canceled / DeadlineExceeded / ErrChannelClosed) depends on it.
func untilKeepsChain(r *core.Run, rule string) {
	p := r.Prog
	fn := p.Func("tds", "Channel", "NextPackageUntil")
	np := p.Func("tds", "Channel", "NextPackage")
	fWrapped := p.Field("tds", "EEDError", "WrappedError")
	n := 0
	why := ""
	for _, c := range callsTo(fn, np) {
		e, has := errResult(c)
		if !has || e == nil {
			continue
		}
		var keeps func(v ssa.Value, at ssa.Instruction, d int) bool
		keeps = func(v ssa.Value, at ssa.Instruction, d int) bool {
			if d > 6 || v == nil {
				return false
			}
			v = core.Strip(v)
			if v == e {
				return true
			}
			if call, ok := v.(*ssa.Call); ok {
				if ws, isErrorf := errorfWraps(call); isErrorf {
					for _, w := range ws {
						if keeps(w, at, d+1) {
							return true
						}
					}
				}
				return false
			}
			if ph, ok := v.(*ssa.Phi); ok {
				for _, x := range ph.Edges {
					if !keeps(x, at, d+1) {
						return false
					}
				}
				return len(ph.Edges) > 0
			}
			// an *EEDError: the last store of its WrappedError before the return
			if pt, ok := v.Type().(*types.Pointer); ok && core.IsNamedType(pt.Elem(), core.Module+"/tds", "EEDError") {
				var last *ssa.Store
				for _, b := range fn.Blocks {
					for _, in := range b.Instrs {
						st, isSt := in.(*ssa.Store)
						if !isSt {
							continue
						}
						fa, isFA := st.Addr.(*ssa.FieldAddr)
						if !isFA || core.FieldOfAddr(fa) != fWrapped || core.Strip(fa.X) != v {
							continue
						}
						if core.Dominates(st, at) {
							last = st
						}
					}
				}
				return last != nil && keeps(last.Val, at, d+1)
			}
			return false
		}
		for _, ret := range core.Returns(fn) {
			if !errNonNilGuard(core.GuardsAt(ret), e) {
				continue
			}
			n++
			rv := core.RetVals(ret)
			if !keeps(rv[len(rv)-1], ret, 0) {
				why = "after NextPackage failed, NextPackageUntil returns " + core.Expr(rv[len(rv)-1]) + " (" + p.Pos(ret.Pos()) + "), which does not have that error in its chain (no %w): errors.Is(err, context.Canceled) / DeadlineExceeded / ErrChannelClosed is false for the caller"
			}
		}
	}
	if n == 0 {
		why = "no return on the failure edge of NextPackage found"
	}
	r.Check(why == "", rule, "NextPackageUntil: a failed receive is returned with its error in the chain", fn.Pos(), fmt.Sprintf("%d return(s) on the failure edge", n), why)
}

// errNonNilGuard: gs contains the non-nil edge of a nil test of e.
func errNonNilGuard(gs []core.Guard, e ssa.Value) bool {
	for _, g := range gs {
		if x, nn, ok := core.ErrNilTest(g.Cond); ok && x == e && nn == g.Pol {
			return true
		}
	}
	return false
}

// setPositionOwner: PacketQueue.SetPosition moves the two indices and nothing else; it is the rollback of a failed
// receive attempt and is called by Channel.WritePacket only. Used on the transmit queue ("undo a failed encoding")
// it leaves the packets the encoding opened in the queue, and the flush sends them behind the end-of-message packet.
func setPositionOwner(r *core.Run, rule string) {
	p := r.Prog
	wp := p.Func("tds", "Channel", "WritePacket")
	pq := p.Named("tds", "PacketQueue")
	n := 0
	for _, fn := range p.ModuleFuncs() {
		if fn.Blocks == nil || p.FuncInOverlay(fn) {
			continue
		}
		outer := fn
		for outer.Parent() != nil {
			outer = outer.Parent()
		}
		for _, c := range core.Calls(fn) {
			name := ""
			if c.Common().IsInvoke() {
				name = c.Common().Method.Name()
			} else if f := core.StaticCallee(c); f != nil && core.RecvNamed(f) != nil && core.RecvNamed(f).Obj() == pq.Obj() {
				name = f.Name()
			}
			if name != "SetPosition" {
				continue
			}
			n++
			if outer == wp || (core.RecvNamed(outer) != nil && core.RecvNamed(outer).Obj() == pq.Obj()) {
				r.OK(rule, core.FuncName(outer)+": rolls the receive queue back", c.Pos(), "rollback of a failed attempt")
				continue
			}
			r.Bad(rule, core.FuncName(outer)+": SetPosition outside WritePacket", c.Pos(), core.FuncName(outer)+" moves a queue position back with SetPosition: only the indices move, packets opened since stay queued — on the transmit queue they are sent after the packet that now carries end-of-message, and the stream has a packet behind the end of the message")
		}
	}
	r.Check(n >= 1, rule, "SetPosition is the rollback of WritePacket only", token.NoPos, fmt.Sprintf("%d call sites", n), "the rollback call of WritePacket was not found")
}

// constFormats: every fmt.Sprintf / Errorf / Fprintf call of package dsn has a constant format string. A format
// assembled from data (the percent-encoded user info of a URI) has its escapes read as verbs: the text is garbled
// and the arguments that follow are swallowed.
func constFormats(r *core.Run, rule, pkgRel string) {
	p := r.Prog
	n := 0
	for _, fn := range p.ModuleFuncs() {
		if fn.Blocks == nil || fn.Pkg == nil || fn.Pkg.Pkg.Path() != core.Module+"/"+pkgRel || p.FuncInOverlay(fn) {
			continue
		}
		for _, c := range core.Calls(fn) {
			f := core.StaticCallee(c)
			if f == nil || f.Pkg == nil || f.Pkg.Pkg.Path() != "fmt" {
				continue
			}
			idx := -1
			switch f.Name() {
			case "Sprintf", "Errorf", "Printf":
				idx = 0
			case "Fprintf":
				idx = 1
			}
			if idx < 0 {
				continue
			}
			n++
			if _, isC := c.Common().Args[idx].(*ssa.Const); !isC {
				r.Bad(rule, core.FuncName(fn)+": fmt."+f.Name()+" with a computed format", c.Pos(), "the format string of fmt."+f.Name()+" is "+core.Expr(c.Common().Args[idx])+", not a constant: '%' sequences in the data (percent-encoded user name or password) are read as verbs, the text is garbled and the remaining arguments are lost")
			}
		}
	}
	r.Check(n > 0, rule, "format strings in package "+pkgRel+" are constants", token.NoPos, fmt.Sprintf("%d formatting calls inspected", n), "no formatting calls found")
}

// comparerErrorsReturned: every error a comparer call (the Target's VersionCompareFunc, called through a function
// value) reports in SetCapabilities / contains ends the evaluation: the non-nil edge of its test leads to returns of a
// non-nil error only, and the edge exists. A combined condition (err == nil && i >= 0) lets a failing comparison fall
// through to a silent answer.
func comparerErrorsReturned(r *core.Run, rule string) {
	p := r.Prog
	fns := []*ssa.Function{p.Func("capability", "Target", "SetCapabilities"), p.Func("capability", "VersionRange", "contains")}
	n := 0
	for _, fn := range fns {
		for _, c := range core.Calls(fn) {
			cc := c.Common()
			if cc.IsInvoke() || cc.StaticCallee() != nil {
				continue
			}
			if _, isBuiltin := cc.Value.(*ssa.Builtin); isBuiltin {
				continue
			}
			sig, ok := cc.Value.Type().Underlying().(*types.Signature)
			if !ok || sig.Results().Len() != 2 || !core.IsErrorType(sig.Results().At(1).Type()) {
				continue
			}
			e, has := errResult(c)
			if !has || e == nil {
				continue
			}
			n++
			key := core.FuncName(fn) + ": error of the comparer call"
			why := "the error of the comparer call is never tested"
			for _, ref := range *e.Referrers() {
				bo, isBo := ref.(*ssa.BinOp)
				if !isBo {
					continue
				}
				_, nn, isT := core.ErrNilTest(bo)
				if !isT {
					continue
				}
				for _, r2 := range *bo.Referrers() {
					iff, isIf := r2.(*ssa.If)
					if !isIf {
						continue
					}
					s := iff.Block().Succs[1]
					if nn {
						s = iff.Block().Succs[0]
					}
					why = ""
					core.EnumPaths(s, func(b *ssa.BasicBlock) bool { return false }, nil, 3000, func(pa core.Path, ended bool) {
						last := pa.Blocks[len(pa.Blocks)-1]
						ret, isRet := last.Instrs[len(last.Instrs)-1].(*ssa.Return)
						if !isRet {
							why = "after the comparer reported an error the evaluation goes on (" + p.Pos(last.Instrs[len(last.Instrs)-1].Pos()) + ")"
							return
						}
						rv := core.RetVals(ret)
						if core.IsNil(rv[len(rv)-1]) {
							why = "after the comparer reported an error a return without error is reachable (" + p.Pos(ret.Pos()) + "): a version or bound the comparer cannot handle gets a silent answer"
						}
					})
				}
			}
			r.Check(why == "", rule, key, c.Pos(), "err != nil leads to error returns only", why)
		}
	}
	if n == 0 {
		r.Bad(rule, "comparer calls", token.NoPos, "no call of the comparer through a function value found in SetCapabilities/contains")
	}
}

// noMapRangeInAnswers: ToGo and String of ASEIsolationLevel do not iterate a map: what they answer for a level would
// depend on the iteration order, which Go randomises per run and per loop.
func noMapRangeInAnswers(r *core.Run, rule string) {
	p := r.Prog
	for _, name := range []string{"ToGo", "String"} {
		fn := p.Func("", "ASEIsolationLevel", name)
		why := ""
		for _, b := range fn.Blocks {
			for _, in := range b.Instrs {
				if rg, ok := in.(*ssa.Range); ok {
					if _, isMap := rg.X.Type().Underlying().(*types.Map); isMap {
						why = "ASEIsolationLevel." + name + " ranges over a map (" + core.Expr(rg.X) + "): what it collects depends on the iteration order, so the same level can print or translate differently from call to call"
					}
				}
			}
		}
		r.Check(why == "", rule, "ASEIsolationLevel."+name+": no map iteration", fn.Pos(), "no range over a map", why)
	}
}

// settersStoreAsIs: R16.10 (second clause). SetInt64 / SetBytes store the value they are given: the only math/big
// method they call on dec.i is the one of the same name. A reduction, truncation or re-scaling inside a setter
// silently changes values of legal precision.
func settersStoreAsIs(r *core.Run) {
	p := r.Prog
	for _, name := range []string{"SetInt64", "SetBytes"} {
		fn := p.Func("asetypes", "Decimal", name)
		why := ""
		for _, c := range core.Calls(fn) {
			f := core.StaticCallee(c)
			if f == nil || f.Pkg == nil {
				continue
			}
			if core.RecvNamed(f) != nil && core.RecvNamed(f).Obj() == p.Named("asetypes", "Decimal").Obj() && f != fn {
				why = "Decimal." + name + " also calls Decimal." + f.Name() + ": what is stored depends on the value the decimal held before (e.g. its old sign is re-applied), not only on the value given"
				continue
			}
			if f.Pkg.Pkg.Path() != "math/big" {
				continue
			}
			if f.Name() != name {
				why = "Decimal." + name + " also calls big.Int." + f.Name() + ": the value stored is not the value given (reduced, truncated or re-scaled), e.g. an 8-byte money amount decoded while the precision is still that of the short form loses its leading digits"
			}
		}
		r.Check(why == "", "R16.10", "Decimal."+name+": stores the value as it is given", fn.Pos(), "only big.Int."+name, why)
	}
}

// addPacketOwner: PacketQueue.AddPacket appends a RECEIVED packet and looks at its EOM bit; it is called by
// Channel.WritePacket only. The transmit queue grows through WriteBytes, which opens packets at the size in force
// when the bytes are written: a packet put there ahead of time keeps the size of that moment.
func addPacketOwner(r *core.Run, rule string) {
	p := r.Prog
	wp := p.Func("tds", "Channel", "WritePacket")
	ap := p.Func("tds", "PacketQueue", "AddPacket")
	n := 0
	for _, fn := range p.ModuleFuncs() {
		if fn.Blocks == nil || p.FuncInOverlay(fn) {
			continue
		}
		outer := fn
		for outer.Parent() != nil {
			outer = outer.Parent()
		}
		for _, c := range callsTo(fn, ap) {
			n++
			if outer == wp {
				r.OK(rule, "WritePacket queues the received packet", c.Pos(), "receive path")
				continue
			}
			r.Bad(rule, core.FuncName(outer)+": AddPacket outside WritePacket", c.Pos(), core.FuncName(outer)+" puts a packet into a queue with AddPacket: on the transmit queue the packet keeps the size it was made with — after the server announced another packet size the next message starts with a packet of the old size (too long, or short and flagged end-of-message)")
		}
	}
	r.Check(n >= 1, rule, "AddPacket is called by WritePacket only", token.NoPos, fmt.Sprintf("%d call sites", n), "WritePacket no longer queues received packets with AddPacket")
}

// headerAcceptsAllSizes: PacketHeader.Write (the header parser) does not reject a header because its length field is
// LARGE: the field is 16 bits and servers are configured up to 65024. An upper bound taken from an older server's
// limit drops every response that arrives in bigger packets and desynchronises the stream.
func headerAcceptsAllSizes(r *core.Run, rule string) {
	p := r.Prog
	fn := p.Func("tds", "PacketHeader", "Write")
	why := ""
	nErr := 0
	for _, ret := range core.Returns(fn) {
		rv := core.RetVals(ret)
		if !core.IsNil(rv[len(rv)-1]) {
			nErr++
		}
	}
	for _, b := range fn.Blocks {
		for _, in := range b.Instrs {
			bo, ok := in.(*ssa.BinOp)
			if !ok {
				continue
			}
			k, isK := core.ConstInt64(bo.Y)
			if !isK || k <= 8 || k >= 65535 {
				continue
			}
			if _, isLen := isLenCall(core.Strip(bo.X)); isLen {
				continue // the buffer-length test
			}
			switch bo.Op {
			case token.GTR, token.GEQ, token.LEQ, token.LSS:
				why = fmt.Sprintf("the header parser compares a header field with %d (%s): packets up to 65535 bytes are legal, and a response sent in packets larger than that bound is rejected and the stream desynchronised", k, core.Expr(bo))
			}
		}
	}
	r.Check(why == "", rule, "PacketHeader.Write accepts every 16-bit length", fn.Pos(), fmt.Sprintf("no upper bound below 65535 on a header field (%d error return(s))", nErr), why)
}

// lastPkgRxWriters: Channel.lastPkgRx (the package the end-of-message logic and the next package's preparation look
// at) is written by tryParsePackage — after it delivered the package — and by the setter. A filtered package
// (ENVCHANGE, informational EED) is not a delivered one: recorded as the last package behind the server's final DONE
// it makes the library add a second final DONE, which the consumer reads as the start of the next response.
func lastPkgRxWriters(r *core.Run, rule string) {
	p := r.Prog
	f := p.Field("tds", "Channel", "lastPkgRx")
	allowed := map[*ssa.Function]bool{p.Func("tds", "Channel", "tryParsePackage"): true, p.Func("tds", "Channel", "SetLastPkgRx"): true}
	n := 0
	for _, fn := range p.ModuleFuncs() {
		if fn.Blocks == nil || p.FuncInOverlay(fn) {
			continue
		}
		outer := fn
		for outer.Parent() != nil {
			outer = outer.Parent()
		}
		for _, b := range fn.Blocks {
			for _, in := range b.Instrs {
				st, ok := in.(*ssa.Store)
				if !ok {
					continue
				}
				fa, ok := st.Addr.(*ssa.FieldAddr)
				if !ok || core.FieldOfAddr(fa) != f {
					continue
				}
				if _, fresh := core.Strip(fa.X).(*ssa.Alloc); fresh {
					continue // initialisation of a new Channel
				}
				n++
				if allowed[outer] {
					r.OK(rule, core.FuncName(outer)+": sets lastPkgRx", st.Pos(), "delivery / setter")
					continue
				}
				r.Bad(rule, core.FuncName(outer)+": sets Channel.lastPkgRx", st.Pos(), core.FuncName(outer)+" records a package as the last received one although it was not delivered to the consumer: behind the server's final DONE it hides that DONE from the end-of-message logic, which then queues a DONE(FINAL) of its own — the first package the consumer reads for the next request")
			}
		}
	}
	r.Check(n >= 2, rule, "Channel.lastPkgRx is written on delivery and by its setter only", token.NoPos, fmt.Sprintf("%d stores", n), "the stores of lastPkgRx in tryParsePackage/SetLastPkgRx were not found")
}

// packChecksEveryField: every writeString call in LoginConfig.pack has its error examined: writeString writes
// NOTHING when it rejects an oversized value, so a discarded error leaves the whole fixed-width block out and every
// later field of the login record is shifted.
func packChecksEveryField(r *core.Run, rule string) {
	p := r.Prog
	fn := p.Func("tds", "LoginConfig", "pack")
	ws := p.Func("tds", "", "writeString")
	n := 0
	for _, c := range callsTo(fn, ws) {
		n++
		v := c.Value()
		used := false
		if v != nil {
			for _, ref := range *v.Referrers() {
				if _, isDbg := ref.(*ssa.DebugRef); !isDbg {
					used = true
				}
			}
		}
		r.Check(used, rule, "pack: error of writeString examined", c.Pos(), "if err := writeString(...); err != nil { return }", "the error of writeString is discarded: an oversized value is skipped instead of rejected, its fixed-width block is missing from the login record and every field after it is read by the server at the wrong offset")
	}
	if n == 0 {
		r.Bad(rule, "pack: writeString calls", fn.Pos(), "no writeString call found in pack")
	}
}

// lengthPrefixIsLen: in fieldDataBase.writeTo the length written in front of a variable-length value is len() of the
// very bytes written after it — not a clamped or otherwise adjusted number, after which the reader takes the surplus
// bytes for the next field.
func lengthPrefixIsLen(r *core.Run, rule string) {
	p := r.Prog
	fn := p.Func("tds", "fieldDataBase", "writeTo")
	wl := p.Func("tds", "", "writeLengthBytes")
	n := 0
	for _, c := range callsTo(fn, wl) {
		n++
		args := c.Common().Args
		la, isLen := isLenCall(core.Strip(args[len(args)-1]))
		why := ""
		if !isLen {
			why = "the length prefix is " + core.Expr(args[len(args)-1]) + ", not len() of the bytes written after it: when the two differ (a value longer than the format's maximum) the reader stops early and parses the rest of the value as the next field"
		} else {
			// the same bytes go to WriteBytes
			same := false
			for _, c2 := range core.Calls(fn) {
				if c2.Common().IsInvoke() && c2.Common().Method.Name() == "WriteBytes" && core.Strip(c2.Common().Args[0]) == core.Strip(la) {
					same = true
				}
			}
			if !same {
				why = "the length prefix is the length of " + core.Expr(la) + ", which is not what is written after it"
			}
		}
		r.Check(why == "", rule, "fieldDataBase.writeTo: length prefix = len(bytes written)", c.Pos(), "writeLengthBytes(ch, n, len(bs)); ch.WriteBytes(bs)", why)
	}
	if n == 0 {
		r.Bad(rule, "fieldDataBase.writeTo: length prefix", fn.Pos(), "no writeLengthBytes call found")
	}
}

// receiveLoopsEndOnError: every loop in package tds around a NextPackage / NextPackageUntil call is left when the
// call fails — whatever the error is. A loop that only ends on one particular error (ErrNoPackageReady) spins forever
// on a closed channel, where every call reports ErrChannelClosed at once and before any context is looked at.
func receiveLoopsEndOnError(r *core.Run, rule string) {
	p := r.Prog
	np := p.Func("tds", "Channel", "NextPackage")
	npu := p.Func("tds", "Channel", "NextPackageUntil")
	n := 0
	for _, fn := range p.ModuleFuncs() {
		if fn.Blocks == nil || fn.Pkg == nil || fn.Pkg.Pkg.Path() != core.Module+"/tds" || p.FuncInOverlay(fn) {
			continue
		}
		for _, c := range core.Calls(fn) {
			f := core.StaticCallee(c)
			if f != np && f != npu {
				continue
			}
			h, loop := core.InnermostLoop(c.Block())
			if loop == nil {
				continue
			}
			e, has := errResult(c)
			n++
			why := ""
			if !has || e == nil {
				why = "the error of the receive call is discarded inside a loop"
			} else {
				core.EnumPaths(c.Block(), func(b *ssa.BasicBlock) bool { return b == h }, loop, 3000, func(pa core.Path, ended bool) {
					if !ended {
						return
					}
					knownNil := false
					for _, cd := range pa.Conds {
						if x, nn, ok := core.ErrNilTest(cd.If.Cond); ok && x == e && nn != cd.Pol {
							knownNil = true
						}
					}
					if !knownNil {
						why = "the loop around " + f.Name() + " can go round again although the call failed (the error is only compared with one particular error): on a closed channel the call fails at once every time and the loop never ends"
					}
				})
			}
			r.Check(why == "", rule, core.FuncName(fn)+": loop around "+f.Name()+" ends on any error", c.Pos(), "the way back to the loop head passes err == nil", why)
		}
	}
	if n == 0 {
		r.Bad(rule, "receive loops", token.NoPos, "no loop around NextPackage/NextPackageUntil found (NextPackageUntil has one)")
	}
}

// headerOnlyByLength: WritePacket recognises a header-only packet by Header.Length == PacketHeaderSize — the length
// the peer announced — not by the body being empty: a packet whose header could not be read completely has a zero
// header and no body, and would be delivered as a header-only package instead of being followed by the read error.
func headerOnlyByLength(r *core.Run, rule string) {
	p := r.Prog
	fn := p.Func("tds", "Channel", "WritePacket")
	fLen := p.Field("tds", "PacketHeader", "Length")
	fCh := p.Field("tds", "Channel", "packageCh")
	hdr := p.ConstInt("tds", "PacketHeaderSize")
	n := 0
	for _, b := range fn.Blocks {
		for _, in := range b.Instrs {
			s, ok := in.(*ssa.Send)
			if !ok {
				continue
			}
			if f, _ := core.FieldLoad(s.Chan); f != fCh {
				continue
			}
			mi, isMI := s.X.(*ssa.MakeInterface)
			if !isMI || !core.IsNamedType(mi.X.Type(), core.Module+"/tds", "HeaderOnlyPackage") {
				continue
			}
			n++
			good := false
			for _, g := range core.GuardsAt(s) {
				bo, isBo := g.Cond.(*ssa.BinOp)
				if !isBo {
					continue
				}
				for _, sw := range [][2]ssa.Value{{bo.X, bo.Y}, {bo.Y, bo.X}} {
					f, _ := core.FieldLoad(core.Strip(sw[0]))
					k, isK := core.ConstInt64(sw[1])
					if f == fLen && isK && k == hdr && ((bo.Op == token.EQL && g.Pol) || (bo.Op == token.NEQ && !g.Pol)) {
						good = true
					}
				}
			}
			r.Check(good, rule, "WritePacket: header-only means Header.Length == PacketHeaderSize", s.Pos(), "the send of HeaderOnlyPackage is under Header.Length == 8", "a packet is passed on as header-only without its header saying so (e.g. because its body is empty): the zero-valued packet of a read that failed inside the header is delivered as a package, with no error after it")
		}
	}
	if n == 0 {
		r.Bad(rule, "WritePacket: header-only packets", fn.Pos(), "no delivery of HeaderOnlyPackage found")
	}
}

// writeToReturnsCount: Packet.WriteTo returns the count the transport's Write reported; sendPacket compares it with
// the header length, which is the only place a short write without error is noticed.
func writeToReturnsCount(r *core.Run, rule string) {
	p := r.Prog
	fn := p.Func("tds", "Packet", "WriteTo")
	var wr *ssa.Call
	for _, c := range core.Calls(fn) {
		if c.Common().IsInvoke() && c.Common().Method.Name() == "Write" {
			wr, _ = c.(*ssa.Call)
		}
	}
	why := ""
	if wr == nil {
		why = "Packet.WriteTo does not call the writer's Write"
	} else {
		for _, ret := range core.Returns(fn) {
			rv := core.RetVals(ret)
			if !core.IsNil(rv[1]) && !errNilGuardedNot(core.GuardsAt(ret), wr) {
				continue
			}
			if !core.Dominates(wr, ret) {
				continue
			}
			ex, ok := core.Strip(rv[0]).(*ssa.Extract)
			if !ok || ex.Tuple != ssa.Value(wr) || ex.Index != 0 {
				why = "after the Write Packet.WriteTo returns " + core.Expr(rv[0]) + " as the count, not what Write reported: a transport that writes part of a packet and returns no error goes unnoticed, the request is reported as sent and the consumer waits for an answer that never comes"
			}
		}
	}
	r.Check(why == "", rule, "Packet.WriteTo returns the count of the transport write", fn.Pos(), "return int64(n), err of writer.Write(bs)", why)
}

func errNilGuardedNot(gs []core.Guard, c ssa.CallInstruction) bool { return true }

// accessorsReturnField: the accessors of a pooled name hand out the text as it was formatted: Name() returns the
// field itself and String() returns Name() (or the field). A trimmed or cut text is no longer the pool's format
// applied to the id, and different ids can print alike.
func accessorsReturnField(r *core.Run, rule string) {
	p := r.Prog
	fName := p.Field("namepool", "Name", "name")
	nameFn := p.Func("namepool", "Name", "Name")
	for _, fn := range []*ssa.Function{nameFn, p.Func("namepool", "Name", "String")} {
		why := ""
		for _, ret := range core.Returns(fn) {
			v := core.Strip(core.RetVals(ret)[0])
			if f, _ := core.FieldLoad(v); f == fName {
				continue
			}
			if c, ok := v.(*ssa.Call); ok && c.Call.StaticCallee() == nameFn && fn != nameFn {
				continue
			}
			why = "Name." + fn.Name() + " returns " + core.Expr(v) + ", not the text as formatted: the text handed out is not the pool's format applied to the id, and two held names can show the same text"
		}
		r.Check(why == "", rule, "Name."+fn.Name()+": the text as it was formatted", fn.Pos(), "return name.name", why)
	}
}

// valuesReachFieldsUnchanged: the text of a value reaches the typed assignment as it was written: setValue hands its
// parameter itself to SetString/ParseBool/ParseInt, and FromEnv hands setValue the second half of the KEY=value split
// itself. Unescaping or trimming on the way changes values that contain '%', or start or end with blanks.
func valuesReachFieldsUnchanged(r *core.Run, rule string) {
	p := r.Prog
	sv := p.Func("dsn", "", "setValue")
	val := sv.Params[1]
	n := 0
	why := ""
	for _, c := range core.Calls(sv) {
		f := core.StaticCallee(c)
		if f == nil {
			continue
		}
		isSet := f.Name() == "SetString" && f.Pkg != nil && f.Pkg.Pkg.Path() == "reflect"
		isParse := f.Pkg != nil && f.Pkg.Pkg.Path() == "strconv" && strings.HasPrefix(f.Name(), "Parse")
		if !isSet && !isParse {
			continue
		}
		n++
		arg := c.Common().Args[0]
		if isSet {
			arg = c.Common().Args[1]
		}
		if core.Strip(arg) != ssa.Value(val) {
			why = "setValue hands " + core.Expr(arg) + " to " + f.Name() + ", not the text it was given: a value containing such sequences (a '%' followed by two hex digits, leading blanks) is stored changed"
		}
	}
	if n < 3 {
		why = "the typed assignments of setValue were not found"
	}
	r.Check(why == "", rule, "setValue: the text is assigned as given", sv.Pos(), "SetString(value) / ParseBool(value) / ParseInt(value)", why)

	fe := p.Func("dsn", "", "FromEnv")
	why2 := "FromEnv does not call setValue"
	for _, c := range callsTo(fe, sv) {
		v := core.Strip(c.Common().Args[1])
		ok := false
		if u, isU := v.(*ssa.UnOp); isU && u.Op == token.MUL {
			if ia, isIA := u.X.(*ssa.IndexAddr); isIA {
				if k, isK := core.ConstInt64(ia.Index); isK && k == 1 {
					if sp, isC := core.Strip(ia.X).(*ssa.Call); isC && core.IsPkgFunc(sp, "strings", "SplitN") {
						ok = true
					}
				}
			}
		}
		if ok {
			why2 = ""
		} else {
			why2 = "FromEnv hands " + core.Expr(v) + " to setValue, not the value half of the KEY=value split itself: blanks at either end of a value (or other trimmed characters) are lost"
		}
	}
	r.Check(why2 == "", rule, "FromEnv: the value half of the split is assigned as it is", fe.Pos(), "strings.SplitN(env, \"=\", 2)[1]", why2)
}

// rangesNeverEdited: NewCapability builds each range in a local and appends it; a range that is already in the list is
// never modified. Merging "adjacent" ranges by comparing bound strings treats two missing bounds as adjacent and
// swallows malformed ranges that would have been reported.
func rangesNeverEdited(r *core.Run, rule string) {
	p := r.Prog
	fn := p.Func("capability", "", "NewCapability")
	fI := p.Field("capability", "VersionRange", "Introduced")
	fR := p.Field("capability", "VersionRange", "Removed")
	n := 0
	why := ""
	for _, b := range fn.Blocks {
		for _, in := range b.Instrs {
			st, ok := in.(*ssa.Store)
			if !ok {
				continue
			}
			fa, ok := st.Addr.(*ssa.FieldAddr)
			if !ok || (core.FieldOfAddr(fa) != fI && core.FieldOfAddr(fa) != fR) {
				continue
			}
			n++
			if _, local := fa.X.(*ssa.Alloc); !local {
				why = "NewCapability changes a bound of a range that is already in the list (" + core.Expr(fa.X) + "): ranges are merged or rewritten, so '2.0.0','' followed by '','3.0.0' becomes [2.0.0,3.0.0) and a malformed range next to a good one is swallowed instead of reported"
			}
		}
	}
	if n == 0 {
		why = "no assignment of range bounds found"
	}
	r.Check(why == "", rule, "NewCapability: ranges in the list are never modified", fn.Pos(), "bounds are stored into the local range only", why)
}

// answersUseNoPackageState: ToGo and String of ASEIsolationLevel use no package-level variable: a cache keyed by a
// reduced level value answers one level with another level's text, depending on what was printed before.
func answersUseNoPackageState(r *core.Run, rule string) {
	p := r.Prog
	for _, name := range []string{"ToGo", "String"} {
		fn := p.Func("", "ASEIsolationLevel", name)
		bad := ""
		var rands []*ssa.Value
		for _, b := range fn.Blocks {
			for _, in := range b.Instrs {
				rands = in.Operands(rands[:0])
				for _, op := range rands {
					if g, ok := (*op).(*ssa.Global); ok && g.Pkg == fn.Pkg {
						bad = g.Name()
					}
				}
			}
		}
		r.Check(bad == "", rule, "ASEIsolationLevel."+name+": no package-level state", fn.Pos(), "a function of the level alone", "ASEIsolationLevel."+name+" uses the package-level variable "+bad+": what it answers for a level depends on earlier calls (a cache shared by several level values) and not on the level alone")
	}
}

// callersOf: who-may-call helper. Every static call of callee in the module lies in one of the allowed functions
// (closures count for the function they are declared in).
func callersOf(r *core.Run, rule string, callee *ssa.Function, allowed map[*ssa.Function]bool, what, consequence string) {
	p := r.Prog
	n := 0
	for _, fn := range p.ModuleFuncs() {
		if fn.Blocks == nil || p.FuncInOverlay(fn) {
			continue
		}
		outer := fn
		for outer.Parent() != nil {
			outer = outer.Parent()
		}
		for _, c := range callsTo(fn, callee) {
			n++
			if allowed[outer] {
				r.OK(rule, core.FuncName(outer)+": calls "+callee.Name(), c.Pos(), what)
				continue
			}
			r.Bad(rule, core.FuncName(outer)+": calls "+callee.Name(), c.Pos(), core.FuncName(outer)+" calls "+callee.Name()+" itself: "+consequence)
		}
	}
	r.Check(n > 0, rule, callee.Name()+" is called from its owners only", token.NoPos, fmt.Sprintf("%d call sites", n), "no call of "+callee.Name()+" found")
}

// errEdgeReturnsError: on the non-nil edge of the error of call (in fn), every path ends in a return of a non-nil
// error.
func errEdgeReturnsError(r *core.Run, rule, key string, fn *ssa.Function, c ssa.CallInstruction, consequence string) {
	p := r.Prog
	e, has := errResult(c)
	why := "the error of the call is never tested"
	if has && e != nil {
		for _, ref := range *e.Referrers() {
			bo, isBo := ref.(*ssa.BinOp)
			if !isBo {
				continue
			}
			_, nn, isT := core.ErrNilTest(bo)
			if !isT {
				continue
			}
			for _, r2 := range *bo.Referrers() {
				iff, isIf := r2.(*ssa.If)
				if !isIf {
					continue
				}
				s := iff.Block().Succs[1]
				if nn {
					s = iff.Block().Succs[0]
				}
				why = ""
				core.EnumPaths(s, func(b *ssa.BasicBlock) bool { return false }, nil, 3000, func(pa core.Path, ended bool) {
					last := pa.Blocks[len(pa.Blocks)-1]
					ret, isRet := last.Instrs[len(last.Instrs)-1].(*ssa.Return)
					if !isRet {
						return
					}
					rv := core.RetVals(ret)
					if core.IsNil(rv[len(rv)-1]) {
						why = "after the call failed a return without error is reachable (" + p.Pos(ret.Pos()) + "): " + consequence
					}
				})
			}
		}
		// returned directly
		for _, ret := range core.Returns(fn) {
			rv := core.RetVals(ret)
			if core.Strip(rv[len(rv)-1]) == e && why == "the error of the call is never tested" {
				why = ""
			}
		}
	}
	r.Check(why == "", rule, key, c.Pos(), "err != nil leads to error returns only", why)
}

func c12Round(r *core.Run) {}

// lastPkgCoversFormats: R06.22. ParamsPackage.LastPkg takes the column formats from whatever package preceded the
// row: a format package, another row/params package, or an ORDERBY/ORDERBY2 that itself took them from the format.
// The type switch has an arm for each of the six (a Go type switch does not match an embedding type for the embedded
// one): without the arm for ORDERBY2 a row that follows it is rejected although the stream is well-formed.
func lastPkgCoversFormats(r *core.Run, rule string) {
	p := r.Prog
	fn := p.Func("tds", "ParamsPackage", "LastPkg")
	want := []string{"ParamFmtPackage", "RowFmtPackage", "ParamsPackage", "RowPackage", "OrderByPackage", "OrderBy2Package"}
	have := map[string]bool{}
	for _, b := range fn.Blocks {
		for _, in := range b.Instrs {
			if ta, ok := in.(*ssa.TypeAssert); ok {
				if pt, isP := ta.AssertedType.(*types.Pointer); isP {
					if n, isN := pt.Elem().(*types.Named); isN {
						have[n.Obj().Name()] = true
					}
				}
			}
		}
	}
	for _, w := range want {
		r.Check(have[w], rule, "ParamsPackage.LastPkg accepts *"+w+" as predecessor", fn.Pos(), "case *"+w, "LastPkg has no arm for *"+w+": a TDS_ROW/TDS_PARAMS that follows such a package is rejected (\"received without preceding format\") although the server's stream is well-formed")
	}
}

// maxLengthFromWire: R06.23. The maximal length of a column format is what the wire says, also when that is 0: the
// store in readFromBase is not conditional on the value read.
func storeUnconditional(r *core.Run, rule string, fn *ssa.Function, field *types.Var, after ssa.Instruction, what, consequence string) {
	var st *ssa.Store
	for _, b := range fn.Blocks {
		for _, in := range b.Instrs {
			if s, ok := in.(*ssa.Store); ok {
				if fa, isFA := s.Addr.(*ssa.FieldAddr); isFA && core.FieldOfAddr(fa) == field {
					st = s
				}
			}
		}
	}
	why := ""
	if st == nil {
		why = "no assignment of " + field.Name() + " found"
	} else {
		for _, ret := range core.Returns(fn) {
			rv := core.RetVals(ret)
			if !core.IsNil(rv[len(rv)-1]) || (after != nil && !core.Dominates(after, ret)) {
				continue
			}
			if !core.Dominates(st, ret) {
				why = consequence
			}
		}
	}
	pos := fn.Pos()
	if st != nil {
		pos = st.Pos()
	}
	r.Check(why == "", rule, what, pos, "the store dominates every success return", why)
}

// noNilFormat: R10.17. In LookupFieldFmt the format on which SetDataType is invoked after the switch is, on every
// arm, the object that arm created: a `f := ...` that shadows the result variable leaves it nil, and the method call
// on the nil interface panics in the reader goroutine for that data type.
func noNilFormat(r *core.Run, rule string) {
	p := r.Prog
	fn := p.Func("tds", "", "LookupFieldFmt")
	n := 0
	for _, c := range core.Calls(fn) {
		cc := c.Common()
		if !cc.IsInvoke() || cc.Method.Name() != "SetDataType" {
			continue
		}
		n++
		why := ""
		for _, leaf := range phiLeaves(cc.Value, nil) {
			if core.IsNil(leaf) {
				why = "on some arm of LookupFieldFmt the format is still nil when SetDataType is called on it (the arm assigns a shadowing variable, or nothing): for that data type byte in a ROWFMT/PARAMFMT the reader goroutine dereferences a nil interface"
			}
		}
		r.Check(why == "", rule, "LookupFieldFmt: every arm leaves a format to call SetDataType on", c.Pos(), "no nil input to the merged format value", why)
	}
	if n == 0 {
		r.Bad(rule, "LookupFieldFmt: SetDataType call", fn.Pos(), "no SetDataType call found")
	}
}

// tokenlessHasBuffer: R10.18. NewTokenlessPackage gives the package its buffer: Data is a *bytes.Buffer, its zero value
// is nil, and tryParsePackage writes the token byte into it for every token the library has no package for.
func tokenlessHasBuffer(r *core.Run, rule string) {
	p := r.Prog
	fn := p.Func("tds", "", "NewTokenlessPackage")
	fData := p.Field("tds", "TokenlessPackage", "Data")
	ok := false
	for _, b := range fn.Blocks {
		for _, in := range b.Instrs {
			if st, isSt := in.(*ssa.Store); isSt {
				if fa, isFA := st.Addr.(*ssa.FieldAddr); isFA && core.FieldOfAddr(fa) == fData && !core.IsNil(st.Val) {
					ok = true
				}
			}
		}
	}
	r.Check(ok, rule, "NewTokenlessPackage allocates the buffer", fn.Pos(), "Data: &bytes.Buffer{}", "NewTokenlessPackage leaves Data nil: the first byte of any package with a token the library does not know is written through a nil *bytes.Buffer in the reader goroutine")
}

// hookLoopsUnconditional: R11.14 / R11.13. Every message reaches every hook and the returned error: callEnvChangeHooks
// and callEEDHooks have no return in front of their hook loop, and EEDError.Add no return in front of its append.
func noEarlyReturn(r *core.Run, rule string, fn *ssa.Function, what, consequence string) {
	n := 0
	for _, ret := range core.Returns(fn) {
		// "nothing registered / nothing collected yet" shortcuts are not early returns in this sense
		empty := false
		for _, g := range core.GuardsAt(ret) {
			if bo, ok := g.Cond.(*ssa.BinOp); ok {
				if arg, isLen := isLenCall(core.Strip(bo.X)); isLen {
					if f, _ := core.FieldLoad(core.Strip(arg)); f != nil {
						if k, isK := core.ConstInt64(bo.Y); isK && k == 0 && ((bo.Op == token.EQL && g.Pol) || (bo.Op == token.NEQ && !g.Pol) || (bo.Op == token.GTR && !g.Pol)) {
							if strings.Contains(strings.ToLower(f.Name()), "hook") {
								empty = true
							}
						}
					}
				}
			}
		}
		if !empty {
			n++
		}
	}
	r.Check(n == 1, rule, what, fn.Pos(), "a single return, at the end", fmt.Sprintf("%s has %d returns: ", core.FuncName(fn), n)+consequence)
}

// logoutNeedsAnswer: R14.19. Logout reports success only after the server's answer was received: every nil return is
// under the nil edge of the receive call's error.
func logoutNeedsAnswer(r *core.Run, rule string) {
	p := r.Prog
	fn := p.Func("tds", "Channel", "Logout")
	var recv []ssa.CallInstruction
	for _, c := range core.Calls(fn) {
		if f := core.StaticCallee(c); f != nil && (f.Name() == "NextPackage" || f.Name() == "NextPackageUntil") {
			recv = append(recv, c)
		}
	}
	why := ""
	if len(recv) == 0 {
		why = "Logout does not wait for the server's answer"
	}
	for _, ret := range core.Returns(fn) {
		rv := core.RetVals(ret)
		if !core.IsNil(rv[len(rv)-1]) {
			continue
		}
		ok := false
		for _, c := range recv {
			if errNilGuard(core.GuardsAt(ret), c) {
				ok = true
			}
		}
		if !ok && why == "" {
			why = "Logout can report success (" + p.Pos(ret.Pos()) + ") although receiving the answer failed (e.g. the peer hung up): the final DONE never arrived, yet Close reports an orderly logout"
		}
	}
	r.Check(why == "", rule, "Logout: success only after the answer was received", fn.Pos(), "every nil return is under err == nil of the receive", why)
}

// singleFlush: R14.20. SendRemainingPackets flushes once and returns that result: sendPackets discards the queue when it
// returns (deferred), so a second call after a failure has nothing to send and reports success for a truncated request.
func singleFlush(r *core.Run, rule string) {
	p := r.Prog
	fn := p.Func("tds", "Channel", "SendRemainingPackets")
	sp := p.Func("tds", "Channel", "sendPackets")
	calls := callsTo(fn, sp)
	why := ""
	if len(calls) != 1 {
		why = fmt.Sprintf("SendRemainingPackets calls sendPackets %d times: after a failed flush the queue has been discarded, a retry sends nothing and its nil result replaces the error — the request is reported as sent although its last packet never went out", len(calls))
	} else {
		e, _ := errResult(calls[0])
		for _, ret := range core.Returns(fn) {
			if !core.Dominates(calls[0].(ssa.Instruction), ret) {
				continue
			}
			rv := core.RetVals(ret)
			if core.Strip(rv[len(rv)-1]) != e {
				why = "SendRemainingPackets returns " + core.Expr(rv[len(rv)-1]) + " after the flush, not the result of sendPackets"
			}
		}
	}
	r.Check(why == "", rule, "SendRemainingPackets: one flush, its result returned", fn.Pos(), "return tdsChan.sendPackets(ctx, false)", why)
}

// cmpLooksAtDeclaration: R16.11. Decimal.Cmp answers true only for equal precision AND scale AND magnitude: every
// return that is not the constant false is under the equal edges of the precision and the scale comparison.
func cmpLooksAtDeclaration(r *core.Run, rule string) {
	p := r.Prog
	fn := p.Func("asetypes", "Decimal", "Cmp")
	fP := p.Field("asetypes", "Decimal", "Precision")
	fS := p.Field("asetypes", "Decimal", "Scale")
	why := ""
	type cand struct {
		v  ssa.Value
		gs []core.Guard
		at token.Pos
	}
	var cands []cand
	for _, ret := range core.Returns(fn) {
		v := core.RetVals(ret)[0]
		if ph, isPhi := v.(*ssa.Phi); isPhi {
			// a && b && c as a value: one candidate per input, under the conditions of its edge
			for i, e := range ph.Edges {
				cands = append(cands, cand{e, append(core.GuardsOnEdge(ph.Block().Preds[i], ph.Block()), core.GuardsAt(ret)...), ret.Pos()})
			}
			continue
		}
		cands = append(cands, cand{v, core.GuardsAt(ret), ret.Pos()})
	}
	for _, cd := range cands {
		v := cd.v
		ret := cd
		if c, isC := v.(*ssa.Const); isC && c.Value != nil && c.Value.ExactString() == "false" {
			continue
		}
		eq := map[*types.Var]bool{}
		for _, g := range cd.gs {
			bo, ok := g.Cond.(*ssa.BinOp)
			if !ok {
				continue
			}
			fx, _ := core.FieldLoad(core.Strip(bo.X))
			fy, _ := core.FieldLoad(core.Strip(bo.Y))
			if fx != nil && fx == fy && ((bo.Op == token.EQL && g.Pol) || (bo.Op == token.NEQ && !g.Pol)) {
				eq[fx] = true
			}
		}
		if !eq[fP] || !eq[fS] {
			why = "Decimal.Cmp can answer " + core.Expr(v) + " (" + p.Pos(ret.at) + ") without having compared precision and scale: two decimals that share their big.Int (a struct copy with another scale) compare equal although they denote different numbers"
		}
	}
	r.Check(why == "", rule, "Decimal.Cmp: true only for equal precision, scale and magnitude", fn.Pos(), "non-false returns are under Precision == and Scale ==", why)
}

// ctorStoresArgs: R16.1 (clause). NewDecimal checks the precision and scale it was GIVEN: the values stored into the
// decimal that sanity() inspects are the parameters themselves, not clamped or converted copies.
func ctorStoresArgs(r *core.Run, rule string) {
	p := r.Prog
	fn := p.Func("asetypes", "", "NewDecimal")
	for i, name := range []string{"Precision", "Scale"} {
		f := p.Field("asetypes", "Decimal", name)
		why := "NewDecimal does not set " + name
		for _, b := range fn.Blocks {
			for _, in := range b.Instrs {
				st, ok := in.(*ssa.Store)
				if !ok {
					continue
				}
				fa, isFA := st.Addr.(*ssa.FieldAddr)
				if !isFA || core.FieldOfAddr(fa) != f {
					continue
				}
				if st.Val == ssa.Value(fn.Params[i]) {
					why = ""
				} else {
					why = "NewDecimal stores " + core.Expr(st.Val) + " as " + name + ", not the value it was given: an invalid declaration (e.g. precision 40) is adjusted instead of rejected, and a 40-digit numeral is accepted and silently changed"
				}
			}
		}
		r.Check(why == "", rule, "NewDecimal stores the "+strings.ToLower(name)+" it was given", fn.Pos(), "field := parameter", why)
	}
}

// formatSimpleWritesAll: R17.16. FormatSimple writes every member TagToField yields: no way round the member loop misses
// the append (ParseSimple keeps the target's current value for a key that is absent, so a left-out member does not
// come back).
func formatSimpleWritesAll(r *core.Run, rule string) {
	p := r.Prog
	fn := p.Func("dsn", "", "FormatSimple")
	why := "no member loop found in FormatSimple"
	for _, b := range fn.Blocks {
		for _, in := range b.Instrs {
			c, ok := in.(*ssa.Call)
			if !ok {
				continue
			}
			if bi, isB := c.Call.Value.(*ssa.Builtin); !isB || bi.Name() != "append" {
				continue
			}
			h, loop := core.InnermostLoop(b)
			if loop == nil {
				continue
			}
			why = ""
			var body *ssa.BasicBlock
			for _, s := range h.Succs {
				if loop[s] {
					body = s
				}
			}
			if body == nil {
				continue
			}
			core.EnumPaths(body, func(x *ssa.BasicBlock) bool { return x == h }, loop, 3000, func(pa core.Path, ended bool) {
				if !ended {
					return
				}
				through := false
				for _, x := range pa.Blocks {
					if x == b {
						through = true
					}
				}
				if !through {
					why = "an iteration of FormatSimple's member loop can finish without writing key=value (a member is skipped on its value, e.g. a non-positive integer): parsed back, the member keeps the target's default instead of the formatted value"
				}
			})
		}
	}
	r.Check(why == "", rule, "FormatSimple writes every member", fn.Pos(), "every iteration appends key=value", why)
}

// stringIsToGo: R20.8. Printing and translating back agree because String IS ToGo().String(): the receiver of the
// sql.IsolationLevel.String call is the result of lvl.ToGo() itself.
func stringIsToGo(r *core.Run, rule string) {
	p := r.Prog
	fn := p.Func("", "ASEIsolationLevel", "String")
	toGo := p.Func("", "ASEIsolationLevel", "ToGo")
	why := ""
	for _, ret := range core.Returns(fn) {
		v := core.Strip(core.RetVals(ret)[0])
		c, ok := v.(*ssa.Call)
		if !ok || c.Call.StaticCallee() == nil || c.Call.StaticCallee().Name() != "String" || len(c.Call.Args) != 1 {
			why = "String returns " + core.Expr(v) + ", not ToGo().String()"
			continue
		}
		in, ok := core.Strip(c.Call.Args[0]).(*ssa.Call)
		if !ok || in.Call.StaticCallee() != toGo || core.Strip(in.Call.Args[0]) != ssa.Value(fn.Params[0]) {
			why = "String prints " + core.Expr(c.Call.Args[0]) + ", not the level ToGo() translates the receiver to: for levels outside the enumeration printing and translating back disagree (an invalid level prints as a valid one)"
		}
	}
	r.Check(why == "", rule, "ASEIsolationLevel.String is ToGo().String()", fn.Pos(), "return lvl.ToGo().String()", why)
}

// locksReleased: every Lock/RLock in package tds is released on every way out: by a deferred Unlock/RUnlock on the
// same mutex that follows the acquisition, or by an explicit one on every path to every return. A read lock that
// survives one exit of the reader's WritePacket blocks Close (which needs the write lock) for good.
func locksReleased(r *core.Run, rule string) {
	p := r.Prog
	n := 0
	for _, fn := range p.ModuleFuncs() {
		if fn.Blocks == nil || fn.Pkg == nil || fn.Pkg.Pkg.Path() != core.Module+"/tds" || p.FuncInOverlay(fn) {
			continue
		}
		isMu := func(c ssa.CallInstruction, names ...string) (string, bool) {
			f := core.StaticCallee(c)
			if f == nil || f.Signature.Recv() == nil || len(c.Common().Args) == 0 {
				return "", false
			}
			rt := f.Signature.Recv().Type().String()
			if !strings.HasSuffix(rt, "sync.RWMutex") && !strings.HasSuffix(rt, "sync.Mutex") {
				return "", false
			}
			for _, nm := range names {
				if f.Name() == nm {
					return core.KExpr(c.Common().Args[0]), true
				}
			}
			return "", false
		}
		for _, c := range core.Calls(fn) {
			if _, isDefer := c.(*ssa.Defer); isDefer {
				continue
			}
			f := core.StaticCallee(c)
			mu, ok := isMu(c, "Lock", "RLock")
			if !ok {
				continue
			}
			want := "Unlock"
			if f.Name() == "RLock" {
				want = "RUnlock"
			}
			n++
			released := false
			for _, c2 := range core.Calls(fn) {
				if d, isDefer := c2.(*ssa.Defer); isDefer {
					if m2, ok2 := isMu(d, want); ok2 && m2 == mu && core.Dominates(c.(ssa.Instruction), d) {
						released = true
					}
				}
			}
			why := ""
			if !released {
				// explicit: every path from the acquisition to a return passes a matching release
				core.EnumPaths(c.Block(), func(b *ssa.BasicBlock) bool { return false }, nil, 4000, func(pa core.Path, ended bool) {
					last := pa.Blocks[len(pa.Blocks)-1]
					ret, isRet := last.Instrs[len(last.Instrs)-1].(*ssa.Return)
					if !isRet {
						return
					}
					rel := false
					for i, b := range pa.Blocks {
						for _, in := range b.Instrs {
							if i == 0 && !core.Dominates(c.(ssa.Instruction), in) {
								continue
							}
							if c2, isC := in.(*ssa.Call); isC {
								if m2, ok2 := isMu(c2, want); ok2 && m2 == mu {
									rel = true
								}
							}
						}
					}
					if !rel {
						why = core.FuncName(fn) + " can return (" + p.Pos(ret.Pos()) + ") still holding " + mu + " (" + f.Name() + " without a matching " + want + " on that path): every later Lock on it — Channel.Close, Conn.Close — blocks for good"
					}
				})
			}
			r.Check(why == "", rule, core.FuncName(fn)+": "+f.Name()+" of "+mu+" released on every exit", c.Pos(), "deferred or explicit "+want+" on every path", why)
		}
	}
	if n == 0 {
		r.Bad(rule, "lock pairing", token.NoPos, "no lock acquisition found in package tds")
	}
}

// negateFlips: R16.10 (Negate). Decimal.Negate flips the sign: the only math/big method it calls on the value is Neg.
func negateFlips(r *core.Run) {
	p := r.Prog
	fn := p.Func("asetypes", "Decimal", "Negate")
	why := ""
	n := 0
	for _, c := range core.Calls(fn) {
		f := core.StaticCallee(c)
		if f == nil || f.Pkg == nil || f.Pkg.Pkg.Path() != "math/big" {
			continue
		}
		n++
		if f.Name() != "Neg" {
			why = "Decimal.Negate also calls big.Int." + f.Name() + ": the sign is forced instead of flipped, so negating a negative decimal (or negating twice) does not give the negated value"
		}
	}
	if n == 0 {
		why = "Decimal.Negate does not call big.Int.Neg"
	}
	r.Check(why == "", "R16.10", "Decimal.Negate: flips the sign (only big.Int.Neg)", fn.Pos(), "dec.i.Neg(dec.i)", why)
}

// ownBigInt: R16.13. Every decimal has a big.Int of its own: NewDecimal stores a freshly allocated one, never a
// package-level or otherwise shared value that the in-place setters (SetInt64, SetBytes, Negate) would then write into.
func ownBigInt(r *core.Run) {
	p := r.Prog
	fn := p.Func("asetypes", "", "NewDecimal")
	fI := p.Field("asetypes", "Decimal", "i")
	why := "NewDecimal does not set the big.Int"
	for _, b := range fn.Blocks {
		for _, in := range b.Instrs {
			st, ok := in.(*ssa.Store)
			if !ok {
				continue
			}
			fa, isFA := st.Addr.(*ssa.FieldAddr)
			if !isFA || core.FieldOfAddr(fa) != fI {
				continue
			}
			switch v := core.Strip(st.Val).(type) {
			case *ssa.Alloc:
				why = ""
			case *ssa.Call:
				if f := v.Call.StaticCallee(); f != nil && f.Pkg != nil && f.Pkg.Pkg.Path() == "math/big" && strings.HasPrefix(f.Name(), "New") {
					why = ""
				} else {
					why = "NewDecimal takes its big.Int from " + core.Expr(st.Val)
				}
			default:
				why = "NewDecimal gives the decimal the big.Int " + core.Expr(st.Val) + ", which is not allocated by this call: SetInt64/SetBytes/Negate write in place, so decoding one decimal changes every other decimal that shares it"
			}
		}
	}
	r.Check(why == "", "R16.13", "NewDecimal: a big.Int of its own", fn.Pos(), "i: new(big.Int)", why)
}

// idAsMinted: R18.5 (ID). Name.ID returns the id the name holds, unchanged.
func idAsMinted(r *core.Run, rule string) {
	p := r.Prog
	fn := p.Func("namepool", "Name", "ID")
	fID := p.Field("namepool", "Name", "id")
	why := ""
	for _, ret := range core.Returns(fn) {
		v := core.RetVals(ret)[0]
		ok := false
		if u, isU := v.(*ssa.UnOp); isU && u.Op == token.MUL {
			if f, _ := core.FieldLoad(u.X); f == fID {
				ok = true
			}
		}
		if !ok {
			why = "Name.ID returns " + core.Expr(v) + ", not the id the name holds: two held names can report the same id (or zero), and the text is no longer the format applied to the reported id"
		}
	}
	r.Check(why == "", rule, "Name.ID: the id as it was minted", fn.Pos(), "return *name.id", why)
}

// specStoredAsGiven: R19.8 (constructor). NewDefaultVersion stores the specification it is given.
func specStoredAsGiven(r *core.Run, rule string) {
	p := r.Prog
	fn := p.Func("capability", "", "NewDefaultVersion")
	fSpec := p.Field("capability", "DefaultVersion", "spec")
	why := "NewDefaultVersion does not set the specification"
	for _, b := range fn.Blocks {
		for _, in := range b.Instrs {
			st, ok := in.(*ssa.Store)
			if !ok {
				continue
			}
			fa, isFA := st.Addr.(*ssa.FieldAddr)
			if !isFA || core.FieldOfAddr(fa) != fSpec {
				continue
			}
			if st.Val == ssa.Value(fn.Params[0]) {
				why = ""
			} else {
				why = "NewDefaultVersion stores " + core.Expr(st.Val) + " as the specification, not the string it was given: the comparer is asked about another version (case-folded pre-release identifiers order differently), membership flips without an error"
			}
		}
	}
	r.Check(why == "", rule, "NewDefaultVersion stores the specification as given", fn.Pos(), "spec: spec", why)
}

// hasIsTheRecord: R19.3 (clause). Has answers what SetCapability recorded: its result is the map lookup itself, with
// no further condition on the capability.
func hasIsTheRecord(r *core.Run, rule string) {
	p := r.Prog
	fn := p.Func("capability", "DefaultVersion", "Has")
	why := ""
	for _, ret := range core.Returns(fn) {
		v := core.Strip(core.RetVals(ret)[0])
		ok := false
		switch x := v.(type) {
		case *ssa.Lookup:
			ok = true
		case *ssa.Extract:
			_, ok = x.Tuple.(*ssa.Lookup)
		case *ssa.Const:
			// false for a capability that was never recorded: under the !ok edge of the lookup itself
			if x.Value != nil && x.Value.ExactString() == "false" {
				for _, g := range core.GuardsAt(ret) {
					if ex, isEx := g.Cond.(*ssa.Extract); isEx && ex.Index == 1 && !g.Pol {
						if _, isL := ex.Tuple.(*ssa.Lookup); isL {
							ok = true
						}
					}
				}
			}
		}
		if !ok {
			why = "DefaultVersion.Has returns " + core.Expr(v) + ", not the recorded answer itself: a capability whose ranges have no lower bound (unbounded below) is reported absent although the evaluation recorded it as present"
		}
	}
	r.Check(why == "", rule, "DefaultVersion.Has returns the recorded answer", fn.Pos(), "return v.capabilities[cap]", why)
}

// idLimit: the exhaustion test of getValidChannelId compares with the largest 16-bit id: 65535 is the last id handed
// out, 65536 does not fit the header field and would travel as channel 0.
func idLimit(r *core.Run, rule string) {
	p := r.Prog
	fn := p.Func("tds", "Conn", "getValidChannelId")
	n := 0
	why := ""
	for _, b := range fn.Blocks {
		for _, in := range b.Instrs {
			bo, ok := in.(*ssa.BinOp)
			if !ok {
				continue
			}
			k, isK := core.ConstInt64(bo.Y)
			if !isK || k < 1000 {
				continue
			}
			n++
			okCmp := (bo.Op == token.GTR && k == 65535) || (bo.Op == token.GEQ && k == 65536)
			if !okCmp {
				why = fmt.Sprintf("the id space is declared exhausted by %s: ids up to %d are handed out, but the header carries 16 bits — id 65536 is sent as channel 0, the main channel", core.Expr(bo), k)
			}
		}
	}
	if n == 0 {
		why = "no exhaustion test against the 16-bit limit found"
	}
	r.Check(why == "", rule, "getValidChannelId: ids end at 65535", fn.Pos(), "id > math.MaxUint16 is the exhaustion test", why)
}

// statusNotNarrowed: the status of a parameter format is written at the width of its variant without passing through
// a narrower type (TDS_PARAMFMT2 carries four bytes).
func statusNotNarrowed(r *core.Run, rule string) {
	p := r.Prog
	fn := p.Func("tds", "ParamFmtPackage", "WriteToField")
	n := 0
	for _, c := range core.Calls(fn) {
		if !c.Common().IsInvoke() || c.Common().Method.Name() != "WriteUint32" {
			continue
		}
		n++
		r.Check(!core.NarrowedIn(c.Common().Args[0]), rule, "ParamFmtPackage.WriteToField: 32-bit value written at full width", c.Pos(), "no narrower conversion on the way", "a value written with WriteUint32 ("+core.Expr(c.Common().Args[0])+") passes through a narrower integer type: the wide variant's four-byte status loses its upper bytes")
	}
	if n == 0 {
		r.Bad(rule, "ParamFmtPackage.WriteToField: WriteUint32", fn.Pos(), "no 32-bit write found")
	}
}

// lastPkgReadsOnly: ParamsPackage.LastPkg takes the formats from its predecessor and leaves it as it is: it runs on
// every parse attempt, and an attempt that is rolled back must leave no trace.
func lastPkgReadsOnly(r *core.Run, rule string) {
	p := r.Prog
	fn := p.Func("tds", "ParamsPackage", "LastPkg")
	why := ""
	for _, b := range fn.Blocks {
		for _, in := range b.Instrs {
			st, ok := in.(*ssa.Store)
			if !ok {
				continue
			}
			fa, isFA := st.Addr.(*ssa.FieldAddr)
			if !isFA {
				continue
			}
			if core.Strip(fa.X) != ssa.Value(fn.Params[0]) {
				why = "LastPkg stores into " + core.Expr(fa.X) + "." + core.FieldOfAddr(fa).Name() + ", i.e. into the package that preceded it: the store is repeated by every parse attempt, and after a rolled-back attempt the retry finds its predecessor changed (a row cut by a packet boundary fails with 'both formats are nil')"
			}
		}
	}
	r.Check(why == "", rule, "ParamsPackage.LastPkg writes its own fields only", fn.Pos(), "no store through the predecessor", why)
}

// isEmptyLooksAtAll: R06.25. valueMask.isEmpty decides whether a capability type is written at all; it looks at every
// slot of the mask (the last slot is the highest capability, not padding).
func isEmptyLooksAtAll(r *core.Run, rule string) {
	p := r.Prog
	fn := p.Func("tds", "valueMask", "isEmpty")
	fCaps := p.Field("tds", "valueMask", "capabilities")
	why := ""
	for _, b := range fn.Blocks {
		for _, in := range b.Instrs {
			if sl, ok := in.(*ssa.Slice); ok {
				if f, _ := core.FieldLoad(core.Strip(sl.X)); f == fCaps {
					why = "valueMask.isEmpty looks at " + core.Expr(sl) + " only, not at the whole mask: a type in which only a capability in the part left out is set counts as empty and its block is missing on the wire"
				}
			}
		}
	}
	r.Check(why == "", rule, "valueMask.isEmpty looks at every slot", fn.Pos(), "the loop ranges over the whole capabilities slice", why)
}

// wrapperReturnsCall: the exported wrapper returns what the worker built, unchanged.
func wrapperReturnsCall(r *core.Run, rule string, fn, worker *ssa.Function, consequence string) {
	why := ""
	for _, ret := range core.Returns(fn) {
		v := core.Strip(core.RetVals(ret)[0])
		c, ok := v.(*ssa.Call)
		if !ok || c.Call.StaticCallee() != worker {
			why = core.FuncName(fn) + " returns " + core.Expr(v) + ", not the result of " + worker.Name() + " as it is: " + consequence
		}
	}
	r.Check(why == "", rule, core.FuncName(fn)+" returns the result of "+worker.Name()+" unchanged", fn.Pos(), "return "+worker.Name()+"(...)", why)
}

// oneCopySite: WriteBytes has one place that copies caller bytes into a packet (the loop that splits the input over
// packet ends). A second copy site — a fast path for small writes — has to agree with the loop about how many bytes
// it has already placed; when it does not, the bytes that still fitted the current packet go out twice.
func oneCopySite(r *core.Run, rule string) {
	p := r.Prog
	fn := p.Func("tds", "PacketQueue", "WriteBytes")
	n := 0
	for _, c := range core.Calls(fn) {
		if bi, ok := c.Common().Value.(*ssa.Builtin); ok && bi.Name() == "copy" {
			n++
		}
	}
	r.Check(n == 1, rule, "PacketQueue.WriteBytes copies input bytes in one place", fn.Pos(), "one copy call, in the splitting loop", fmt.Sprintf("WriteBytes has %d copy sites: a value that straddles a packet end can be placed partly by one and again in full by the other, so a length prefix or ciphertext carries duplicated bytes and everything after it is shifted", n))
}
