package main

import (
	"fmt"
	"os"

	"dblint/internal/core"
)

// dumpFunc prints the analysed SSA form of one function (debugging aid: `dblint dump <repo> <pkg> <recv> <name>`).
func dumpFunc(args []string) {
	prog := core.Load(args[0], nil)
	fn := prog.Func(args[1], args[2], args[3])
	fn.WriteTo(os.Stdout)
	fmt.Println()
}
