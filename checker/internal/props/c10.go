package props

import (
	"fmt"
	"go/constant"
	"go/token"
	"go/types"
	"os"
	"sort"
	"strings"

	"dblint/internal/core"

	"golang.org/x/tools/go/ssa"
)

func init() {
	register(&Spec{ID: "C10", Title: "No server input can crash the client", Run: runC10,
		Meta: core.Meta{
			Explanation: "R10.20: every update of the map Conn.tdsChannels stores a non-nil *Channel (Conn.ReadFrom calls WritePacket on whatever the lookup finds; a closed channel is deleted, not blanked). R10.19 = R15.6 (a packet size announced while a packet is partly filled makes a free-space computation from the live size negative: slice bounds out of range). R10.17: no φ input of the interface value on which LookupFieldFmt invokes SetDataType is the nil constant. R10.18: NewTokenlessPackage stores a non-nil Data. R10.16 = R02.1 (on a failed attempt WritePacket resets at end of message and otherwise restores the saved position; a position restored into the emptied queue makes the next message's first read slice out of range). R10.15 = R03.2 (lastPkgRx is assigned after delivery only: a half-filled ROWFMT as predecessor makes the next ROW dereference nil column formats). Panic-site obligations over everything reachable from the reader goroutine. Scope: module functions reachable (VTA call graph, plus formatting edges: every String/Error method of the parsing packages) from (*Conn).ReadFrom, (*Channel).WritePacket, DataType.GoValue and rsaEncrypt; generated stringer files are excluded. R10.1: every slice/string index and every slice expression in scope is proved in range from length facts (allocation, constant-bound slicing, callee post-conditions, dominating len tests, lowered `switch len(bs)`), from induction/range-loop patterns, or is listed in the reviewed-invariant table together with the guard it relies on, which is re-checked on every run; a site that is neither is a violation (so a new unguarded index and the removal of an existing guard are both reported). R10.2: every encoding/binary ByteOrder UintN/PutUintN call (interface calls the compiler's bounds-check list does not contain) has len >= N. R10.3: no comma-less type assertion, explicit panic, or division by a possibly-zero value in scope. R10.4 (allocation provenance): the size of every make([]T, n) in scope is a constant, a length of received data, a <= 16-bit wire integer, or is dominated by a test against the bytes actually available; wire-controlled sizes that can be negative are violations. R10.5: the callee post-condition used by R10.1/R10.2 — PacketQueue.Bytes returns a slice of exactly n bytes on every return — is verified structurally; the DataType length oracle's premises (goValue's only caller is GoValue, behind the ByteSize test) are verified. R10.6: precision and scale copied from the wire into a Decimal are validated (sanity) before the value leaves the parser. R10.7: every loop in a wire-reading function performs a wire read per iteration or iterates over data already held. R10.8: a slice of pointers/interfaces allocated from a wire count and filled in a counted loop is filled completely before the parse can succeed (the loop's only normal exit is `i < n` turning false), so no nil entry is dereferenced by a later package. R10.11 = R07.1: every wire read reports a short read as ErrNotEnoughBytes and never as success — an io.Reader over the queue that answers (n, nil) without data makes bytes.Buffer.ReadFrom (TokenlessPackage) grow without bound from a one-byte input. R10.12: NextPackageUntil's self-calls are depth-bounded — a nil callback is passed only under processPkg != nil, and nil mode recurses with a function literal — so a server that never sends DONE(FINAL) cannot grow the stack with every package. R10.13: in scope, the result of indexing a map with pointer/interface/function elements is dereferenced only under `ok` or a != nil test (the key is frequently a server-chosen byte). R10.14 = R13.3 (every *Channel method that touches the queues or Go channels tests `closed` under the channel lock first; Close closes and nils the Go channels under the write lock — a header-only packet handed over before that test can hit a closed or nil channel). R10.9: the format pointers ParamsPackage.paramFmt/rowFmt, which come from whatever package the server sent before, are only dereferenced under a != nil test of that field.",
			NotDecided:  "Nil dereferences (nilaway's two reports on the pinned tree are infeasible), panics inside the standard library, stack exhaustion and unbounded CPU are not decided.",
			Assumptions: []string{"the reviewed-invariant table entries (each with the guard it names)", "math/big, bytes, encoding/binary do not panic on the inputs they are given"},
		}})
}

// lenScope returns the functions in scope for the given roots.
func lenScope(p *core.Prog, roots []*ssa.Function, fmtPkgs []string) []*ssa.Function {
	cg := p.CallGraph()
	seen := map[*ssa.Function]bool{}
	var work []*ssa.Function
	push := func(f *ssa.Function) {
		if f == nil || seen[f] || !core.InModule(f) || f.Blocks == nil {
			return
		}
		seen[f] = true
		work = append(work, f)
	}
	for _, r := range roots {
		push(r)
	}
	for _, fn := range p.ModuleFuncs() {
		pk := fn.Pkg
		if pk == nil {
			continue
		}
		for _, fp := range fmtPkgs {
			if pk.Pkg.Path() == core.Module+"/"+fp && fn.Signature.Recv() != nil {
				switch fn.Name() {
				case "String", "Error", "GoString":
					push(fn)
				}
			}
		}
	}
	for len(work) > 0 {
		f := work[len(work)-1]
		work = work[:len(work)-1]
		if n := cg.Nodes[f]; n != nil {
			for _, e := range n.Out {
				push(e.Callee.Func)
			}
		}
		for _, a := range f.AnonFuncs {
			push(a)
		}
	}
	var out []*ssa.Function
	for f := range seen {
		if f.Synthetic != "" || p.IsGenerated(f.Pos()) {
			continue
		}
		out = append(out, f)
	}
	sort.Slice(out, func(i, j int) bool { return core.FuncName(out[i]) < core.FuncName(out[j]) })
	return out
}

// reviewed: sites the fact engine cannot discharge, each with the guard it
// relies on (checked by `check`) and the reason. Keyed by function + expr.
type reviewedSite struct {
	fn, kind, base string
	reason         string
	check          func(r *core.Run, s lenSite) (bool, string)
}

func (rv reviewedSite) matches(fn *ssa.Function, s lenSite) bool {
	return rv.fn == core.FuncName(fn) && rv.kind == s.Kind && rv.base == s.Base
}

// reviewedSiteM matches by a predicate on the site instead of its rendering.
type reviewedSiteM struct {
	fn, kind, reason string
	match            func(s lenSite) bool
	check            func(r *core.Run, s lenSite) (bool, string)
}

func (rv reviewedSiteM) matches(fn *ssa.Function, s lenSite) bool {
	return rv.fn == core.FuncName(fn) && rv.kind == s.Kind && rv.match(s)
}

func guardCall(s lenSite, callee string, pol bool) bool {
	for _, g := range core.GuardsAt(s.Instr) {
		if c, ok := g.Cond.(*ssa.Call); ok && g.Pol == pol {
			if f := c.Call.StaticCallee(); f != nil && f.Name() == callee {
				return true
			}
		}
	}
	return false
}

func runC10(r *core.Run) {
	p := r.Prog
	r.Rule("R10.1", "slice/string indexing and slicing in range (facts or reviewed invariant)", 40, true)
	r.Rule("R10.2", "ByteOrder decoding has enough bytes", 10, true)
	r.Rule("R10.3", "no bare type assertion, explicit panic or division by a possibly-zero value", 0, true)
	r.Rule("R10.4", "allocation sizes are bounded by what was received", 6, true)
	r.Rule("R10.5", "premises: Bytes(n) returns n bytes; goValue only behind GoValue's size test", 3, false)
	r.Rule("R10.6", "wire precision/scale validated before a Decimal is produced", 1, false)
	r.Rule("R10.8", "slices sized from a wire count are filled completely before the parse succeeds", 2, false)
	r.Rule("R10.9", "the format pointers taken from the previous package are nil-checked before use", 2, false)
	r.Rule("R10.7", "parser loops consume input or range over data already held", 8, false)
	r.Rule("R10.10", "the server's public key: the PEM block is used only where it is known non-nil (R08.9)", 1, false)
	defer c08PemBlock(r, "R10.10")
	r.Rule("R10.13", "map elements of pointer type are dereferenced only under a presence test", 1, false)
	r.Rule("R10.12", "the depth of NextPackageUntil's self-recursion does not depend on what the server sends", 1, false)
	defer c10RecursionBounded(r)
	r.Rule("R10.14", "the reader touches a channel's Go channels only after the closed test under the lock (a send on a closed or nil channel panics or parks the reader) (R13.3)", 7, false)
	defer func() { c13Closed(r, newLockAnalysis(p, "tds"), "R10.14") }()
	r.Rule("R10.20", "the routing table never holds a nil channel", 1, false)
	defer noNilChannelRegistered(r, "R10.20")
	r.Rule("R10.15", "only completely parsed packages become the predecessor the next package is prepared from (R03.2)", 5, false)
	defer c03Synthetic(r, r.Prog.Field("tds", "DonePackage", "Status"), "R10.15")
	r.Rule("R10.16", "end of message either resets the receive queue or rolls it back, never both (R02.1)", 4, false)
	defer c02Rollback(r, "R10.16")
	r.Rule("R10.17", "LookupFieldFmt never calls a method on a nil format", 1, false)
	defer noNilFormat(r, "R10.17")
	r.Rule("R10.18", "a tokenless package has its buffer", 1, false)
	defer tokenlessHasBuffer(r, "R10.18")
	r.Rule("R10.19", "the live packet size only sizes new packets (R15.6): the room in a packet is that packet's own", 1, true)
	defer c15PacketSize(r, "R10.19")
	r.Rule("R10.11", "no reader reports success for bytes it did not have: every short read is ErrNotEnoughBytes (E-ERR, all call sites)", 213, true)
	defer func() { errSites(r, newErrFlow(p), "R10.11") }()

	roots := []*ssa.Function{
		p.Func("tds", "Conn", "ReadFrom"), p.Func("tds", "Channel", "WritePacket"),
		p.Func("asetypes", "DataType", "GoValue"), p.Func("tds", "", "rsaEncrypt"),
		p.Func("tds", "cipherChannel", "decrypt"), // works on ciphertext the server sends (exported API of the login negotiation, no caller inside the module)
	}
	scope := lenScope(p, roots, []string{"tds", "asetypes", "asetime"})
	for _, fn := range posexFuncs(p, "zzPosexLen") {
		scope = append(scope, fn)
	}
	r.Stats["functions_in_scope"] = len(scope)
	if os.Getenv("DBLINT_DEBUG") != "" {
		for _, f := range scope {
			fmt.Println("DEBUG scope", core.FuncName(f))
		}
	}
	le := newLenEngine(p)

	reviewed := c10Reviewed(p)
	used := map[int]bool{}
	for _, fn := range scope {
		for _, s := range le.Sites(fn) {
			rule := "R10.1"
			switch s.Kind {
			case "byteorder":
				rule = "R10.2"
			case "assert", "panic", "div":
				rule = "R10.3"
			}
			key := core.FuncName(fn) + ": " + s.Expr
			if s.OK {
				r.OK(rule, key, s.Instr.Pos(), s.Reason)
				continue
			}
			matched := false
			for i, rv := range reviewed {
				if rv.matches(fn, s) {
					matched = true
					used[i] = true
					ok, why := rv.check(r, s)
					if ok {
						r.OK(rule, key, s.Instr.Pos(), "reviewed invariant: "+rv.reason)
					} else {
						r.Bad(rule, key, s.Instr.Pos(), "the guard this site relies on no longer holds: "+why+" ("+rv.reason+")")
					}
					break
				}
			}
			if !matched {
				if os.Getenv("DBLINT_DEBUG") != "" {
					fmt.Printf("DEBUG unreviewed fn=%q kind=%q base=%q\n", core.FuncName(fn), s.Kind, s.Base)
				}
				r.Bad(rule, key, s.Instr.Pos(), s.Reason+": server-controlled input can make this "+s.Kind+" panic in the reader goroutine")
			}
		}
	}
	for i, rv := range reviewed {
		if !used[i] {
			r.Note("reviewed-invariant entry not matched on this tree: %s %s (%s)", rv.fn, rv.kind, rv.reason)
		}
	}
	c10Alloc(r, le, scope)
	c10Premises(r)
	c10Decimal(r)
	c10Loops(r)
	c10FillCompletely(r)
	c10FormatPointers(r, "R10.9")
	c10MapLookupNil(r, scope)
}

func c10Reviewed(p *core.Prog) []reviewedSiteM {
	fIdxPacket := p.Field("tds", "PacketQueue", "indexPacket")
	fQueue := p.Field("tds", "PacketQueue", "queue")
	notConsumed := func(r *core.Run, s lenSite) (bool, string) {
		if guardCall(s, "AllPacketsConsumed", false) {
			return true, ""
		}
		return false, "not dominated by AllPacketsConsumed() == false"
	}
	// indexPacket is only ever set to a constant >= 0, advanced by a positive constant, or set from SetPosition's
	// parameter (a position a caller obtained from Position(); not wire data)
	idxPacketInvariant := func() (bool, string) {
		for _, fn := range p.ModuleFuncs() {
			for _, b := range fn.Blocks {
				for _, in := range b.Instrs {
					st, ok := in.(*ssa.Store)
					if !ok {
						continue
					}
					fa, ok := st.Addr.(*ssa.FieldAddr)
					if !ok || core.FieldOfAddr(fa) != fIdxPacket {
						continue
					}
					if c, isC := core.ConstInt64(st.Val); isC && c >= 0 {
						continue
					}
					if bo, isB := st.Val.(*ssa.BinOp); isB && bo.Op == token.ADD {
						f, _ := core.FieldLoad(bo.X)
						if c, isC := core.ConstInt64(bo.Y); isC && c > 0 && f == fIdxPacket {
							// the increment in Bytes happens only while a packet is being read (not consumed)
							continue
						}
					}
					if pa, isP := st.Val.(*ssa.Parameter); isP && fn.Name() == "SetPosition" {
						_ = pa
						continue
					}
					return false, "indexPacket is assigned " + core.Expr(st.Val) + " in " + core.FuncName(fn)
				}
			}
		}
		return true, ""
	}
	guardIdxVsLen := func(s lenSite, want func(op token.Token, pol bool, rhsIsLenMinus1 bool) bool) bool {
		for _, g := range core.GuardsAt(s.Instr) {
			bo, ok := g.Cond.(*ssa.BinOp)
			if !ok {
				continue
			}
			f, _ := core.FieldLoad(bo.X)
			if f != fIdxPacket {
				continue
			}
			rhs := bo.Y
			minus1 := false
			if sub, isSub := rhs.(*ssa.BinOp); isSub && sub.Op == token.SUB {
				if c, isC := core.ConstInt64(sub.Y); isC && c == 1 {
					rhs, minus1 = sub.X, true
				}
			}
			x, isLen := isLenCall(rhs)
			if !isLen {
				continue
			}
			if fq, _ := core.FieldLoad(x); fq != fQueue {
				continue
			}
			op, pol := bo.Op, g.Pol
			if !pol {
				op = map[token.Token]token.Token{token.LSS: token.GEQ, token.GEQ: token.LSS, token.GTR: token.LEQ, token.LEQ: token.GTR, token.EQL: token.NEQ, token.NEQ: token.EQL}[op]
				pol = true
			}
			if want(op, pol, minus1) {
				return true
			}
		}
		return false
	}
	fData := p.Field("tds", "Packet", "Data")
	fCaps := p.Field("tds", "valueMask", "capabilities")
	cont := func(s lenSite) ssa.Value {
		switch x := s.Instr.(type) {
		case *ssa.IndexAddr:
			return x.X
		case *ssa.Index:
			return x.X
		case *ssa.Lookup:
			return x.X
		case *ssa.Slice:
			return x.X
		}
		return nil
	}
	loadOf := func(f *types.Var) func(lenSite) bool {
		return func(s lenSite) bool { g, _ := core.FieldLoad(cont(s)); return g == f }
	}
	isMake := func(s lenSite) bool { _, ok := cont(s).(*ssa.MakeSlice); return ok }
	isParam := func(s lenSite) bool { _, ok := cont(s).(*ssa.Parameter); return ok }
	callTo := func(pkg, name string) func(lenSite) bool {
		return func(s lenSite) bool {
			c, ok := cont(s).(*ssa.Call)
			if !ok {
				return false
			}
			if core.IsPkgFunc(c, pkg, name) {
				return true
			}
			f := c.Call.StaticCallee()
			return f != nil && f.Pkg != nil && f.Pkg.Pkg.Path() == pkg && f.Name() == name
		}
	}
	return []reviewedSiteM{
		{fn: "(*tds.PacketQueue).Bytes", kind: "index", reason: "AllPacketsConsumed() == false implies indexPacket < len(queue) (its `indexPacket >= len(queue)` arm answers true); indexPacket >= 0 by its stores", match: loadOf(fQueue), check: func(r *core.Run, s lenSite) (bool, string) {
			if ok, why := notConsumed(r, s); !ok {
				return false, why
			}
			return idxPacketInvariant()
		}},
		{fn: "(*tds.PacketQueue).AllPacketsConsumed", kind: "index", reason: "evaluated only under indexPacket == len(queue)-1, after the `indexPacket >= len(queue)` and empty-queue arms returned", match: loadOf(fQueue), check: func(r *core.Run, s lenSite) (bool, string) {
			if !guardIdxVsLen(s, func(op token.Token, pol, m1 bool) bool { return op == token.EQL && pol && m1 }) {
				return false, "not dominated by indexPacket == len(queue)-1"
			}
			if !guardIdxVsLen(s, func(op token.Token, pol, m1 bool) bool { return op == token.LSS && pol && !m1 }) {
				return false, "not dominated by the false edge of indexPacket >= len(queue)"
			}
			return idxPacketInvariant()
		}},
		{fn: "(*tds.PacketQueue).Bytes", kind: "slice", reason: "bsOffset grows by endIndex-startIndex, which the clamp keeps <= n-bsOffset; the loop ends at bsOffset == n", match: isMake, check: func(r *core.Run, s lenSite) (bool, string) {
			return notConsumed(r, s)
		}},
		{fn: "(*tds.PacketQueue).Bytes", kind: "slice", reason: "endIndex is clamped to len(data); indexData < len(data) whenever the packet is not consumed", match: loadOf(fData), check: func(r *core.Run, s lenSite) (bool, string) {
			if ok, why := notConsumed(r, s); !ok {
				return false, why
			}
			sl := s.Instr.(*ssa.Slice)
			ph, isPhi := sl.High.(*ssa.Phi)
			if !isPhi {
				return false, "the upper bound is no longer clamped (not a φ with len(data))"
			}
			clamped := false
			for _, e := range ph.Edges {
				if x, isLen := isLenCall(e); isLen && core.Strip(x) == core.Strip(sl.X) {
					clamped = true
				}
			}
			if !clamped {
				return false, "the upper bound is not clamped to len(data)"
			}
			return true, ""
		}},
		{fn: "(*tds.PacketQueue).DiscardUntilCurrentPosition", kind: "slice", reason: "indexPacket <= len(queue) (it is advanced only while a packet is being read); the second slice follows a successful index 0", match: loadOf(fQueue), check: func(r *core.Run, s lenSite) (bool, string) {
			sl := s.Instr.(*ssa.Slice)
			if c, isC := core.ConstInt64(sl.Low); isC && c == 1 {
				// queue.queue[1:] — dominated by the false edge of indexPacket >= len(queue) with indexPacket == 0
				if !guardIdxVsLen(s, func(op token.Token, pol, m1 bool) bool { return op == token.LSS && pol && !m1 }) {
					return false, "queue[1:] is not dominated by the false edge of indexPacket >= len(queue)"
				}
				return true, ""
			}
			if f, _ := core.FieldLoad(sl.Low); f != fIdxPacket {
				return false, "the lower bound is not indexPacket"
			}
			return idxPacketInvariant()
		}},
		{fn: "(*tds.PacketQueue).DiscardUntilCurrentPosition", kind: "index", reason: "dominated by the false edge of indexPacket >= len(queue)", match: loadOf(fQueue), check: func(r *core.Run, s lenSite) (bool, string) {
			if !guardIdxVsLen(s, func(op token.Token, pol, m1 bool) bool { return op == token.LSS && pol && !m1 }) {
				return false, "not dominated by the false edge of indexPacket >= len(queue)"
			}
			return idxPacketInvariant()
		}},
		{fn: "(*tds.Packet).ReadFrom", kind: "slice", reason: "totalBytes-n counts the body bytes read so far; io.Reader returns m <= len(p) and the loop ends at totalBytes == Header.Length", match: loadOf(fData), check: func(r *core.Run, s lenSite) (bool, string) {
			sl := s.Instr.(*ssa.Slice)
			sub, ok := sl.Low.(*ssa.BinOp)
			if !ok || sub.Op != token.SUB || sl.High != nil {
				return false, "the read buffer is no longer packet.Data[totalBytes-n:]"
			}
			// the slice is used as the buffer of reader.Read only
			for _, ref := range *sl.Referrers() {
				c, isCall := ref.(ssa.CallInstruction)
				if !isCall || !isReaderRead(c) {
					if _, isDbg := ref.(*ssa.DebugRef); isDbg {
						continue
					}
					return false, "the slice is used for something other than the transport read"
				}
			}
			return true, ""
		}},
		{fn: "(*tds.valueMask).setCapability", kind: "index", reason: "the index is a client-side capability constant, never wire data: the parser constructs capability packages with nil lists", match: loadOf(fCaps), check: func(r *core.Run, s lenSite) (bool, string) {
			lp := p.Func("tds", "", "LookupPackage")
			ncp := p.Func("tds", "", "NewCapabilityPackage")
			for _, c := range callsTo(lp, ncp) {
				for _, a := range c.Common().Args {
					if !core.IsNil(a) {
						return false, "LookupPackage passes capability lists to NewCapabilityPackage"
					}
				}
			}
			// no reader calls the setters
			ef := newErrFlow(p)
			for fn := range ef.W {
				for _, c := range core.Calls(fn) {
					if f := core.StaticCallee(c); f != nil && (f.Name() == "setCapability" || strings.HasPrefix(f.Name(), "Set") && strings.HasSuffix(f.Name(), "Capability") && core.RecvNamed(f) != nil && core.RecvNamed(f).Obj().Name() == "CapabilityPackage") {
						return false, "a wire-reading function calls " + f.Name()
					}
				}
			}
			return true, ""
		}},
		{fn: "(asetypes.DataType).goValue", kind: "index", reason: "BIT has the fixed size 1 (ByteSizes) and GoValue checks the length of fixed-size types before calling goValue; the bs[i+1] in the UNITEXT arm is behind utf16.IsSurrogate(rune(byte)), which is false for every byte value", match: isParam, check: func(r *core.Run, s lenSite) (bool, string) {
			if c, isC := core.ConstInt64(s.Idx); isC && c == 0 {
				return c10BitOracle(p, s)
			}
			for _, g := range core.GuardsAt(s.Instr) {
				call, ok := g.Cond.(*ssa.Call)
				if !ok || !g.Pol || !core.IsPkgFunc(call, "unicode/utf16", "IsSurrogate") {
					continue
				}
				if cv, isCv := call.Call.Args[0].(*ssa.Convert); isCv {
					if b, isB := cv.X.Type().Underlying().(*types.Basic); isB && b.Kind() == types.Uint8 {
						return true, ""
					}
				}
			}
			return false, "the index is neither the BIT arm's bs[0] nor behind utf16.IsSurrogate(rune(byte))"
		}},
		{fn: "(tds.TokenlessPackage).String", kind: "index", reason: "tryParsePackage writes the token byte into Data before the package is read or formatted, so Data is never empty for a package built from wire data", match: callTo("bytes", "Bytes"), check: func(r *core.Run, s lenSite) (bool, string) {
			tpp := p.Func("tds", "Channel", "tryParsePackage")
			for _, c := range core.Calls(tpp) {
				if core.IsMethod(c, "bytes", "Buffer", "WriteByte") {
					if len(assertGuards(core.GuardsAt(c.(ssa.Instruction)), ptrTo(p, "TokenlessPackage"))) > 0 {
						return true, ""
					}
				}
			}
			return false, "tryParsePackage no longer writes the token byte into a TokenlessPackage's Data"
		}},
		{fn: "tds.parseValueMask", kind: "index", reason: "newValueMask(len(bs)*8) allocates len(bs)*8+1 entries; the nested loops (len(bs) x 8) advance cur once per inner iteration", match: loadOf(fCaps), check: func(r *core.Run, s lenSite) (bool, string) {
			nvm := p.Func("tds", "", "newValueMask")
			okMake := false
			for _, b := range nvm.Blocks {
				for _, in := range b.Instrs {
					if ms, ok := in.(*ssa.MakeSlice); ok {
						if add, ok := ms.Len.(*ssa.BinOp); ok && add.Op == token.ADD && add.X == ssa.Value(nvm.Params[0]) {
							if c, isC := core.ConstInt64(add.Y); isC && c >= 1 {
								okMake = true
							}
						}
					}
				}
			}
			if !okMake {
				return false, "newValueMask no longer allocates max+1 entries"
			}
			// cur: φ advanced by exactly +1, inner loop bound is the constant 8
			ph, ok := s.Idx.(*ssa.Phi)
			if !ok {
				return false, "the index is not the running counter"
			}
			incs := 0
			var walk func(v ssa.Value, d int) bool
			seen := map[ssa.Value]bool{}
			walk = func(v ssa.Value, d int) bool {
				if d > 6 || seen[v] {
					return true
				}
				seen[v] = true
				switch x := v.(type) {
				case *ssa.Phi:
					for _, e := range x.Edges {
						if !walk(e, d+1) {
							return false
						}
					}
					return true
				case *ssa.BinOp:
					c, isC := core.ConstInt64(x.Y)
					if x.Op == token.ADD && isC && c == 1 {
						incs++
						return walk(x.X, d+1)
					}
					return false
				case *ssa.Const:
					c, _ := core.ConstInt64(x)
					return c == 0
				}
				return false
			}
			if !walk(ph, 0) || incs != 1 {
				return false, "the counter is not advanced by exactly one per inner iteration from 0"
			}
			eight := false
			le8 := newLenEngine(p)
			for _, g := range core.GuardsAt(s.Instr) {
				if bo, ok := g.Cond.(*ssa.BinOp); ok && bo.Op == token.LSS && g.Pol {
					if ib := le8.intBounds(bo.Y, s.Instr, 0); ib.lo == 8 && ib.hi == 8 {
						eight = true // the constant 8, or len() of the 8-element bit mask table
					}
				}
			}
			if !eight {
				return false, "the inner loop is no longer bounded by 8"
			}
			return true, ""
		}},
		{fn: "(*asetypes.Decimal).String", kind: "slice", reason: "0 <= Scale <= Precision holds for every Decimal: the constructors call sanity(), goValue assigns constant pairs, and values copied from the wire are validated (R10.6); the digit string is padded to at least Precision characters", match: callTo("fmt", "Sprintf"), check: func(r *core.Run, s lenSite) (bool, string) {
			return c10DecimalStores(p)
		}},
	}
}

// c10BitOracle: premises of the DataType length oracle for the BIT arm.
func c10BitOracle(p *core.Prog, s lenSite) (bool, string) {
	pk := p.Pkg("asetypes")
	// BIT: 1 in ByteSizes
	cl, _ := findVarLit(pk, "ByteSizes")
	if cl == nil {
		return false, "ByteSizes literal not found"
	}
	ents, _ := mapLitEntries(pk, cl)
	bit := constOf(p, "asetypes", "BIT")
	one := false
	for _, e := range ents {
		if e.Key != nil && constEq(e.Key, bit) && e.Val != nil && e.Val.ExactString() == "1" {
			one = true
		}
	}
	if !one {
		return false, "ByteSizes no longer gives BIT the fixed size 1"
	}
	// the site is in the arm for BIT only
	inBit := false
	for _, g := range core.GuardsAt(s.Instr) {
		if bo, ok := g.Cond.(*ssa.BinOp); ok && bo.Op == token.EQL && g.Pol {
			if c, isC := bo.Y.(*ssa.Const); isC && c.Value != nil && constEq(c.Value, bit) {
				inBit = true
			}
		}
	}
	if !inBit {
		return false, "bs[0] is not confined to the BIT arm"
	}
	return c10GoValuePremises(p)
}

// c10GoValuePremises: goValue's only caller is GoValue, behind the size test.
func c10GoValuePremises(p *core.Prog) (bool, string) {
	gv := p.Func("asetypes", "DataType", "GoValue")
	inner := p.Func("asetypes", "DataType", "goValue")
	bs := p.Func("asetypes", "DataType", "ByteSize")
	n := 0
	for _, fn := range p.ModuleFuncs() {
		for _, c := range callsTo(fn, inner) {
			n++
			if fn != gv {
				return false, "goValue is called from " + core.FuncName(fn) + ", bypassing GoValue's length check"
			}
			// dominated by !(t.ByteSize() != -1 && len(bs) != t.ByteSize())
			okDom := false
			for _, g := range core.GuardsAt(c.(ssa.Instruction)) {
				bo, ok := g.Cond.(*ssa.BinOp)
				if !ok {
					continue
				}
				if call, isCall := bo.X.(*ssa.Call); isCall && core.StaticCallee(call) == bs {
					okDom = true
				}
				if call, isCall := bo.Y.(*ssa.Call); isCall && core.StaticCallee(call) == bs {
					okDom = true
				}
			}
			// the short-circuit && makes the call reachable from two edges; accept if every path to the call passes a comparison involving ByteSize()
			if !okDom {
				all := true
				core.EnumPaths(gv.Blocks[0], func(b *ssa.BasicBlock) bool { return b == c.Block() }, nil, 200, func(pa core.Path, ended bool) {
					if !ended {
						return
					}
					has := pa.HasAny(func(cond ssa.Value) bool {
						bo, ok := cond.(*ssa.BinOp)
						if !ok {
							return false
						}
						for _, v := range []ssa.Value{bo.X, bo.Y} {
							if call, isCall := v.(*ssa.Call); isCall && core.StaticCallee(call) == bs {
								return true
							}
						}
						return false
					})
					if !has {
						all = false
					}
				})
				okDom = all
			}
			if !okDom {
				return false, "the call of goValue is not preceded by the ByteSize test"
			}
		}
	}
	if n != 1 {
		return false, "expected exactly one call site of goValue"
	}
	return true, ""
}

// c10DecimalStores: every store to Decimal.Precision/Scale outside the
// constructor is a constant pair with 0 <= S <= P, or is followed by a
// validation through NewDecimal/sanity on the same values.
func c10DecimalStores(p *core.Prog) (bool, string) {
	fP := p.Field("asetypes", "Decimal", "Precision")
	fS := p.Field("asetypes", "Decimal", "Scale")
	nd := p.Func("asetypes", "", "NewDecimal")
	for _, fn := range p.ModuleFuncs() {
		consts := map[ssa.Value][2]*int64{}
		var dyn []*ssa.Store
		for _, b := range fn.Blocks {
			for _, in := range b.Instrs {
				st, ok := in.(*ssa.Store)
				if !ok {
					continue
				}
				fa, ok := st.Addr.(*ssa.FieldAddr)
				if !ok || (core.FieldOfAddr(fa) != fP && core.FieldOfAddr(fa) != fS) {
					continue
				}
				if fn == nd {
					continue
				}
				if c, isC := core.ConstInt64(st.Val); isC {
					e := consts[fa.X]
					cc := c
					if core.FieldOfAddr(fa) == fP {
						e[0] = &cc
					} else {
						e[1] = &cc
					}
					consts[fa.X] = e
					continue
				}
				dyn = append(dyn, st)
			}
		}
		for _, e := range consts {
			if e[0] != nil && e[1] != nil && !(0 <= *e[1] && *e[1] <= *e[0] && *e[0] <= 38) {
				return false, fmt.Sprintf("%s assigns the constant precision %d / scale %d", core.FuncName(fn), *e[0], *e[1])
			}
		}
		if len(dyn) > 0 {
			// a NewDecimal(dec.Precision, dec.Scale) validation with its error returned must follow
			validated := false
			for _, c := range callsTo(fn, nd) {
				a := c.Common().Args
				f0, _ := core.FieldLoad(a[0])
				f1, _ := core.FieldLoad(a[1])
				if f0 == fP && f1 == fS {
					all := true
					for _, st := range dyn {
						if !core.Dominates(st, c.(ssa.Instruction)) && st.Block() != c.Block() {
							// stores in sibling switch arms precede the call on their own path
							reach := false
							core.EnumPaths(st.Block(), func(b *ssa.BasicBlock) bool { return b == c.Block() }, nil, 100, func(pa core.Path, ended bool) {
								if ended {
									reach = true
								}
							})
							if !reach {
								all = false
							}
						}
					}
					// success returns are dominated by the validation's nil error
					for _, ret := range core.Returns(fn) {
						rv := core.RetVals(ret)
						if core.IsNil(rv[len(rv)-1]) && core.Dominates(c.(ssa.Instruction), ret) && !errNilGuard(core.GuardsAt(ret), c) {
							all = false
						}
					}
					if all {
						validated = true
					}
				}
			}
			if !validated {
				return false, core.FuncName(fn) + " copies a precision or scale it did not validate into a Decimal"
			}
		}
	}
	return true, ""
}

func constant64(v constant.Value) (int64, bool) {
	if v == nil {
		return 0, false
	}
	return constant.Int64Val(constant.ToInt(v))
}

var _ = fmt.Sprintf
var _ = token.ADD
var _ = types.Typ
var _ = strings.TrimSpace

func c10Premises(r *core.Run) {
	p := r.Prog
	ok, why := c10GoValuePremises(p)
	r.Check(ok, "R10.5", "goValue is only reached through GoValue's size test", p.Func("asetypes", "DataType", "goValue").Pos(), "single caller, behind the ByteSize comparison", why)
	// ByteSize is a comma-ok lookup in ByteSizes answering -1 when absent
	bs := p.Func("asetypes", "DataType", "ByteSize")
	okBS := false
	for _, b := range bs.Blocks {
		for _, in := range b.Instrs {
			if lk, isL := in.(*ssa.Lookup); isL && lk.CommaOk {
				if u, isU := lk.X.(*ssa.UnOp); isU {
					if g, isG := u.X.(*ssa.Global); isG && g.Name() == "ByteSizes" {
						okBS = true
					}
				}
			}
		}
	}
	r.Check(okBS, "R10.5", "ByteSize is the comma-ok lookup in ByteSizes", bs.Pos(), "fixed sizes come from one table", "ByteSize no longer reads the ByteSizes table")
	// Bytes(n) returns n bytes on every return
	fn := p.Func("tds", "PacketQueue", "Bytes")
	n := fn.Params[1]
	okN, whyN := true, ""
	for _, ret := range core.Returns(fn) {
		v := core.RetVals(ret)[0]
		if ms, isMS := v.(*ssa.MakeSlice); isMS && ms.Len == ssa.Value(n) {
			continue
		}
		if k, isK := core.MakeLen(v); isK && k == 0 {
			// []byte{} — only under n == 0
			zero := false
			for _, g := range core.GuardsAt(ret) {
				if bo, isB := g.Cond.(*ssa.BinOp); isB && bo.Op == token.EQL && g.Pol && bo.X == ssa.Value(n) {
					if c, isC := core.ConstInt64(bo.Y); isC && c == 0 {
						zero = true
					}
				}
			}
			if zero {
				continue
			}
		}
		okN, whyN = false, "a return of Bytes hands back "+core.Expr(v)+", which is not the n-byte buffer (callers index and decode the result even when an error is returned)"
	}
	r.Check(okN, "R10.5", "PacketQueue.Bytes returns exactly n bytes on every return", fn.Pos(), "make([]byte, n) or []byte{} under n == 0", whyN)
}

func c10Decimal(r *core.Run) {
	p := r.Prog
	ok, why := c10DecimalStores(p)
	r.Check(ok, "R10.6", "every precision/scale stored into a Decimal is constant-valid or validated", p.Func("asetypes", "Decimal", "String").Pos(), "constructors, constant pairs, and NewDecimal-validated wire values only", why)
}

// ---------------------------------------------------------------------
// R10.4 allocation provenance

type allocIssue struct {
	pos  token.Pos
	key  string
	what string
	ok   bool
}

func c10Alloc(r *core.Run, le *lenEngine, scope []*ssa.Function) {
	p := r.Prog
	inScope := map[*ssa.Function]bool{}
	for _, f := range scope {
		inScope[f] = true
	}
	pq := p.Named("tds", "PacketQueue")
	// call sites per callee (static, plus BytesChannel invokes resolved to the PacketQueue method)
	sitesOf := func(callee *ssa.Function) []ssa.CallInstruction {
		var out []ssa.CallInstruction
		for _, fn := range scope {
			for _, c := range core.Calls(fn) {
				if core.StaticCallee(c) == callee {
					out = append(out, c)
					continue
				}
				cc := c.Common()
				if cc.IsInvoke() && cc.Method.Name() == callee.Name() && core.RecvNamed(callee) != nil && core.RecvNamed(callee).Obj() == pq.Obj() &&
					core.IsNamedType(cc.Value.Type(), core.Module+"/tds", "BytesChannel") {
					out = append(out, c)
				}
			}
		}
		return out
	}
	wireWidth := func(v ssa.Value) int {
		// bits of the integer type a wire read produced (0 = not a wire read)
		ex, ok := v.(*ssa.Extract)
		if !ok {
			return 0
		}
		c, ok := ex.Tuple.(*ssa.Call)
		if !ok || readLetter[calleeName(c)] == "" {
			return 0
		}
		if b, ok := ex.Type().Underlying().(*types.Basic); ok {
			switch b.Kind() {
			case types.Uint8, types.Int8:
				return 8
			case types.Uint16, types.Int16:
				return 16
			case types.Uint32, types.Int32:
				return 32
			case types.Uint64, types.Int64:
				return 64
			}
		}
		return 0
	}
	var visit func(size ssa.Value, site ssa.Instruction, ctx string, depth int, seen map[*ssa.Parameter]bool) []allocIssue
	visit = func(size ssa.Value, site ssa.Instruction, ctx string, depth int, seen map[*ssa.Parameter]bool) []allocIssue {
		if depth > 5 {
			return []allocIssue{{site.Pos(), ctx, "allocation size passes through more than five calls", false}}
		}
		if pa, ok := size.(*ssa.Parameter); ok {
			if seen[pa] {
				return nil
			}
			seen[pa] = true
			fn := pa.Parent()
			idx := -1
			for i, q := range fn.Params {
				if q == pa {
					idx = i
				}
			}
			var out []allocIssue
			cs := sitesOf(fn)
			for _, c := range cs {
				args := c.Common().Args
				ai := idx
				if c.Common().IsInvoke() {
					ai = idx - 1 // the receiver is not in Args for invokes
				}
				if ai < 0 || ai >= len(args) {
					continue
				}
				k := core.FuncName(c.Parent()) + " -> " + fn.Name() + "(" + core.KExpr(args[ai]) + ")"
				out = append(out, visit(args[ai], c.(ssa.Instruction), k, depth+1, seen)...)
			}
			if len(cs) == 0 {
				out = append(out, allocIssue{site.Pos(), ctx, "size is a parameter of a function without call sites in scope (client-side)", true})
			}
			return out
		}
		ib := le.intBounds(size, site, 0)
		// widest wire integer feeding the size (looking through module callees' return values)
		width := 0
		var walk func(v ssa.Value, d int)
		walk = func(v ssa.Value, d int) {
			if d > 8 || v == nil {
				return
			}
			if w := wireWidth(v); w > width {
				width = w
			}
			switch x := v.(type) {
			case *ssa.Convert:
				walk(x.X, d+1)
			case *ssa.BinOp:
				walk(x.X, d+1)
				walk(x.Y, d+1)
			case *ssa.Phi:
				for _, e := range x.Edges {
					walk(e, d+1)
				}
			case *ssa.Extract:
				if c, ok := x.Tuple.(*ssa.Call); ok {
					if f := c.Call.StaticCallee(); f != nil && core.InModule(f) && f.Blocks != nil {
						for _, ret := range core.Returns(f) {
							rv := core.RetVals(ret)
							if x.Index < len(rv) {
								walk(rv[x.Index], d+1)
							}
						}
					}
				}
			}
		}
		walk(size, 0)
		var out []allocIssue
		if ib.lo < 0 {
			if rv, ok := allocReviewedFor(ctx); ok {
				if good, why := rv(p, le, size, site); good {
					out = append(out, allocIssue{site.Pos(), ctx + " [non-negative]", "reviewed invariant: " + why, true})
				} else {
					out = append(out, allocIssue{site.Pos(), ctx + " [non-negative]", "the invariant this size relies on no longer holds: " + why, false})
				}
			} else {
				out = append(out, allocIssue{site.Pos(), ctx + " [non-negative]", "the allocation size " + core.Expr(size) + " can be negative for wire-controlled input: make panics (makeslice: len out of range) in the reader goroutine", false})
			}
		} else {
			out = append(out, allocIssue{site.Pos(), ctx + " [non-negative]", "size >= 0", true})
		}
		if width >= 32 && ib.hi > 1<<24 {
			out = append(out, allocIssue{site.Pos(), ctx + " [bounded]", fmt.Sprintf("a %d-bit length read from the wire sizes an allocation before the bytes are known to be available: a few received bytes can demand gigabytes", width), false})
		} else {
			why := "derived from lengths of data already held"
			if width > 0 {
				why = fmt.Sprintf("%d-bit wire value", width)
			} else if ib.hi != inf {
				why = fmt.Sprintf("at most %d elements", ib.hi)
			}
			out = append(out, allocIssue{site.Pos(), ctx + " [bounded]", why, true})
		}
		return out
	}
	for _, fn := range scope {
		for _, b := range fn.Blocks {
			for _, in := range b.Instrs {
				ms, ok := in.(*ssa.MakeSlice)
				if !ok {
					continue
				}
				if _, isC := core.ConstInt64(ms.Len); isC {
					continue
				}
				ctx := core.FuncName(fn) + ": make(" + core.KExpr(ms.Len) + ")"
				for _, is := range visit(ms.Len, ms, ctx, 0, map[*ssa.Parameter]bool{}) {
					if is.ok {
						r.OK("R10.4", is.key, is.pos, is.what)
					} else {
						r.Bad("R10.4", is.key, is.pos, is.what)
					}
				}
			}
		}
	}
}

// allocReviewed: allocation sizes whose non-negativity rests on an invariant
// the facts cannot derive; each entry re-checks its invariant.
var allocReviewed = map[string]func(p *core.Prog, le *lenEngine, size ssa.Value, site ssa.Instruction) (bool, string){
	"(*tds.fieldDataBase).readFrom -> Bytes(": func(p *core.Prog, le *lenEngine, size ssa.Value, site ssa.Instruction) (bool, string) {
		// fixed-length types: LengthBytes() = ByteSizes[t] (all table values >= 0); others: readLengthBytes' result >= 0
		pk := p.Pkg("asetypes")
		cl, _ := findVarLit(pk, "ByteSizes")
		if cl == nil {
			return false, "ByteSizes literal not found"
		}
		ents, allConst := mapLitEntries(pk, cl)
		if !allConst {
			return false, "ByteSizes has non-constant entries"
		}
		for _, e := range ents {
			if v, ok := constant64(e.Val); !ok || v < 0 {
				return false, "ByteSizes has a negative entry"
			}
		}
		rl := p.Func("tds", "", "readLengthBytes")
		for _, ret := range core.Returns(rl) {
			if b := le.intBounds(core.RetVals(ret)[0], ret, 0); b.lo < 0 {
				return false, "readLengthBytes can return a negative length"
			}
		}
		ph, ok := size.(*ssa.Phi)
		if !ok || len(ph.Edges) != 2 {
			return false, "the length is no longer φ(LengthBytes(), readLengthBytes())"
		}
		return true, "fixed sizes come from ByteSizes (all >= 0), variable sizes from readLengthBytes (unsigned wire integers)"
	},
}

func allocReviewedFor(ctx string) (func(p *core.Prog, le *lenEngine, size ssa.Value, site ssa.Instruction) (bool, string), bool) {
	for prefix, f := range allocReviewed {
		if strings.HasPrefix(ctx, prefix) {
			return f, true
		}
	}
	return nil, false
}

// R10.7: every loop in a wire-reading function consumes input on every
// iteration (contains a wire read), or iterates over data already held
// (a lowered range loop, or a counted loop whose bound is a len()).
func c10Loops(r *core.Run) {
	p := r.Prog
	ef := newErrFlow(p)
	le := newLenEngine(p)
	for _, fn := range ef.SortedW() {
		if fn.Blocks == nil || !core.InModule(fn) {
			continue
		}
		seen := map[*ssa.BasicBlock]bool{}
		for _, b := range fn.Blocks {
			loop := core.NaturalLoop(b)
			if loop == nil || seen[b] {
				continue
			}
			seen[b] = true
			reads := false
			for lb := range loop {
				for _, in := range lb.Instrs {
					if c, ok := in.(ssa.CallInstruction); ok && ef.IsWCall(c) {
						reads = true
					}
				}
			}
			key := core.FuncName(fn) + ": loop at " + core.KExpr(loopCond(b))
			pos := b.Instrs[0].Pos()
			if pos == token.NoPos && len(b.Instrs) > 1 {
				pos = b.Instrs[len(b.Instrs)-1].Pos()
			}
			if reads {
				r.OK("R10.7", key, pos, "every iteration performs a wire read (a short stream ends it with ErrNotEnoughBytes)")
				continue
			}
			// bounded by data already held?
			bounded := false
			if iff, ok := b.Instrs[len(b.Instrs)-1].(*ssa.If); ok {
				if bo, ok := iff.Cond.(*ssa.BinOp); ok && bo.Op == token.LSS {
					if _, isLen := isLenCall(bo.Y); isLen {
						bounded = true
					}
					if ib := le.intBounds(bo.Y, iff, 0); ib.hi != inf && ib.hi <= 1<<16 {
						bounded = true
					}
				}
			}
			r.Check(bounded, "R10.7", key, pos, "iterates over data already held", "a loop in a parser neither consumes input nor is bounded by data already received: a wire-controlled count can spin the reader goroutine")
		}
	}
}

func loopCond(h *ssa.BasicBlock) ssa.Value {
	if iff, ok := h.Instrs[len(h.Instrs)-1].(*ssa.If); ok {
		return iff.Cond
	}
	return ssa.NewConst(nil, types.Typ[types.Bool])
}

// c10FillCompletely: where a reader allocates field = make([]T, n) with a
// pointer/interface element type and fills it in a counted loop, the loop's
// only normal exit is `i < n` turning false: no element is left nil when the
// parse succeeds (a later package dereferences the elements).
func c10FillCompletely(r *core.Run) {
	p := r.Prog
	ef := newErrFlow(p)
	le := newLenEngine(p)
	for _, fn := range ef.SortedW() {
		if fn.Blocks == nil || !core.InModule(fn) {
			continue
		}
		for _, b := range fn.Blocks {
			for _, in := range b.Instrs {
				ia, ok := in.(*ssa.IndexAddr)
				if !ok {
					continue
				}
				// a store of an element into a field slice inside a loop
				stored := false
				for _, ref := range *ia.Referrers() {
					if st, isSt := ref.(*ssa.Store); isSt && st.Addr == ssa.Value(ia) {
						stored = true
					}
				}
				if !stored {
					continue
				}
				f, _ := core.FieldLoad(ia.X)
				if f == nil {
					continue
				}
				sl, isSl := f.Type().Underlying().(*types.Slice)
				if !isSl {
					continue
				}
				switch sl.Elem().Underlying().(type) {
				case *types.Pointer, *types.Interface:
				default:
					continue
				}
				n, hasN := le.lenEqualsValue(ia.X)
				h, loop := core.InnermostLoop(b)
				if !hasN || loop == nil {
					continue
				}
				key := core.FuncName(fn) + ": " + f.Name() + " filled up to its allocated length"
				// exits of the loop other than returns of an error: must be the false edge of `i < n`
				ok2, why := true, ""
				for lb := range loop {
					for _, s := range lb.Succs {
						if loop[s] {
							continue
						}
						if ret, isRet := s.Instrs[len(s.Instrs)-1].(*ssa.Return); isRet {
							rv := core.RetVals(ret)
							if len(rv) > 0 && !core.IsNil(rv[len(rv)-1]) && core.IsErrorType(rv[len(rv)-1].Type()) {
								continue
							}
						}
						iff, isIf := lb.Instrs[len(lb.Instrs)-1].(*ssa.If)
						good := false
						if isIf && lb == h && s == lb.Succs[1] {
							if bo, isB := iff.Cond.(*ssa.BinOp); isB && bo.Op == token.LSS && bo.X == ia.Index {
								if le.sameInt(bo.Y, n) {
									good = true
								}
								// range over the slice being filled: i < len(field)
								if lc, isC := bo.Y.(*ssa.Call); isC {
									if arg, isLen := isLenCall(lc); isLen {
										if f2, _ := core.FieldLoad(arg); f2 == f {
											good = true
										}
									}
								}
							}
						}
						if !good {
							ok2, why = false, "the loop that fills "+f.Name()+" can end before the index reaches the allocated length (its exit is not the plain `i < n` test): the parse succeeds with nil entries, which the next ROW/PARAMS package dereferences in the reader goroutine"
						}
					}
				}
				r.Check(ok2, "R10.8", key, ia.Pos(), "the only normal exit of the fill loop is i >= n", why)
			}
		}
	}
}

// c10FormatPointers: every dereference of ParamsPackage.paramFmt / rowFmt
// (set from whatever package the server sent before) is dominated by a
// != nil test of that field.
func c10FormatPointers(r *core.Run, rule string) {
	p := r.Prog
	fields := map[*types.Var]bool{p.Field("tds", "ParamsPackage", "paramFmt"): true, p.Field("tds", "ParamsPackage", "rowFmt"): true}
	for _, fn := range p.ModuleFuncs() {
		if fn.Pkg == nil || fn.Pkg.Pkg.Path() != core.Module+"/tds" {
			continue
		}
		for _, b := range fn.Blocks {
			for _, in := range b.Instrs {
				fa, ok := in.(*ssa.FieldAddr)
				if !ok {
					continue
				}
				// fa.X is a load of pkg.rowFmt / pkg.paramFmt ?
				f, base := core.FieldLoad(fa.X)
				if !fields[f] {
					continue
				}
				key := core.FuncName(fn) + ": use of " + f.Name() + "." + core.FieldOfAddr(fa).Name()
				guarded := false
				for _, g := range core.GuardsAt(fa) {
					bo, isB := g.Cond.(*ssa.BinOp)
					if !isB || !core.IsNil(bo.Y) {
						continue
					}
					f2, base2 := core.FieldLoad(bo.X)
					if f2 == f && sameBase(addrOf(base2), addrOf(base)) {
						if (bo.Op == token.NEQ && g.Pol) || (bo.Op == token.EQL && !g.Pol) {
							guarded = true
						}
					}
				}
				r.Check(guarded, rule, key, fa.Pos(), "dominated by "+f.Name()+" != nil", "the format pointer "+f.Name()+" is dereferenced without a nil test: a server that sends ROW/PARAMS after a package that carries no format makes the reader goroutine dereference nil")
			}
		}
	}
}

func addrOf(v ssa.Value) ssa.Value { return v }

// c10RecursionBounded: R10.12. NextPackageUntil calls itself to drain a response. The depth must not depend on what
// the server sends: a self-call that passes a nil callback is only made from an invocation whose own callback is
// non-nil (nil mode never recurses in nil mode again), and the callback nil mode passes on is a function literal of its
// own. Otherwise every package that is not the final DONE adds a stack frame and a server that never sends DONE(FINAL)
// overflows the goroutine stack (a fatal error that cannot be recovered).
func c10RecursionBounded(r *core.Run) {
	p := r.Prog
	fn := p.Func("tds", "Channel", "NextPackageUntil")
	cb := fn.Params[len(fn.Params)-1]
	n := 0
	for _, c := range callsTo(fn, fn) {
		n++
		arg := c.Common().Args[len(c.Common().Args)-1]
		key := "NextPackageUntil: recursion depth is bounded"
		switch {
		case core.IsNil(arg):
			under := false
			for _, g := range core.GuardsAt(c.(ssa.Instruction)) {
				if bo, ok := g.Cond.(*ssa.BinOp); ok && bo.X == ssa.Value(cb) && core.IsNil(bo.Y) {
					if (bo.Op == token.EQL && !g.Pol) || (bo.Op == token.NEQ && g.Pol) {
						under = true
					}
				}
			}
			r.Check(under, "R10.12", key, c.Pos(), "nil-callback drain started only from an invocation with a callback", "NextPackageUntil calls itself with a nil callback from its own nil-callback mode: every package that is not DONE(FINAL) adds a stack frame, and a server that keeps sending packages overflows the stack (fatal, not recoverable)")
		case arg == ssa.Value(cb):
			r.Bad("R10.12", key, c.Pos(), "NextPackageUntil calls itself with its own callback: the depth of the recursion is the number of packages received")
		default:
			_, isLit := arg.(*ssa.MakeClosure)
			_, isFn := arg.(*ssa.Function)
			r.Check(isLit || isFn, "R10.12", key, c.Pos(), "drain with a function literal as callback (that invocation does not take the nil branch)", "the callback handed to the recursive call is "+core.Expr(arg)+": it cannot be shown to be non-nil")
		}
	}
	if n == 0 {
		r.OK("R10.12", "NextPackageUntil: recursion depth is bounded", fn.Pos(), "no self-call")
	}
}

// c10MapLookupNil: R10.13. The result of indexing a map whose elements are pointers (or interfaces, functions) is nil
// for a key that is not in the map. In the functions reachable from the reader goroutine the key is often a byte the
// server sent, so such a result is dereferenced (field access, method call) only under a test that it is non-nil or
// under the `ok` of the comma-ok form.
func c10MapLookupNil(r *core.Run, scope []*ssa.Function) {
	n := 0
	for _, fn := range scope {
		for _, b := range fn.Blocks {
			for _, in := range b.Instrs {
				lk, ok := in.(*ssa.Lookup)
				if !ok {
					continue
				}
				mt, isMap := lk.X.Type().Underlying().(*types.Map)
				if !isMap {
					continue
				}
				switch mt.Elem().Underlying().(type) {
				case *types.Pointer, *types.Interface, *types.Signature:
				default:
					continue
				}
				var val ssa.Value = lk
				var okVal ssa.Value
				if lk.CommaOk {
					val = nil
					for _, ref := range *lk.Referrers() {
						if ex, isEx := ref.(*ssa.Extract); isEx {
							if ex.Index == 0 {
								val = ex
							} else {
								okVal = ex
							}
						}
					}
					if val == nil {
						continue
					}
				}
				for _, ref := range *val.Referrers() {
					deref := false
					switch u := ref.(type) {
					case *ssa.FieldAddr:
						deref = u.X == val
					case *ssa.UnOp:
						deref = u.Op == token.MUL && u.X == val
					case ssa.CallInstruction:
						deref = u.Common().IsInvoke() && u.Common().Value == val
						if !deref && !u.Common().IsInvoke() && u.Common().Value == val {
							deref = true // calling a nil func value
						}
					}
					if !deref {
						continue
					}
					n++
					guarded := false
					for _, g := range core.GuardsAt(ref.(ssa.Instruction)) {
						if okVal != nil && g.Cond == okVal && g.Pol {
							guarded = true
						}
						if bo, isB := g.Cond.(*ssa.BinOp); isB && bo.X == val && core.IsNil(bo.Y) {
							if (bo.Op == token.NEQ && g.Pol) || (bo.Op == token.EQL && !g.Pol) {
								guarded = true
							}
						}
					}
					key := core.FuncName(fn) + ": " + core.KExpr(lk.X) + "[" + core.KExpr(lk.Index) + "] used"
					r.Check(guarded, "R10.13", key, ref.Pos(), "under a nil / ok test", "the element of a map of "+core.TypeStr(mt.Elem())+" is dereferenced without a test that the key is present: for a key the map does not hold (e.g. a type byte the server made up) this is a nil pointer dereference in the reader goroutine")
				}
			}
		}
	}
	if n == 0 {
		r.OK("R10.13", "no map element of pointer type is dereferenced in scope", token.NoPos, "no such site")
	}
}
