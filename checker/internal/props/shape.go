package props

import (
	"fmt"
	"go/token"
	"go/types"
	"sort"
	"strings"

	"dblint/internal/core"

	"golang.org/x/tools/go/ssa"
)

// E-SHAPE: wire-shape automata. For a codec function the NFA whose letters
// are the byte widths of the BytesChannel operations it performs on its
// successful executions; writer ⊆ reader is decided by a product search.

type nfaEdge struct {
	to     int
	letter string // "" = ε
	pos    token.Pos
}

type nfa struct {
	edges  [][]nfaEdge
	accept map[int]bool
	start  int
}

func newNFA() *nfa { return &nfa{accept: map[int]bool{}} }

func (n *nfa) state() int {
	n.edges = append(n.edges, nil)
	return len(n.edges) - 1
}

func (n *nfa) add(from, to int, letter string, pos token.Pos) {
	n.edges[from] = append(n.edges[from], nfaEdge{to, letter, pos})
	if letter == "S" {
		// a variable-length run may be empty
		n.edges[from] = append(n.edges[from], nfaEdge{to, "", pos})
	}
}

var readLetter = map[string]string{
	"Byte": "1", "Uint8": "1", "Int8": "1", "Uint16": "2", "Int16": "2", "Uint32": "4", "Int32": "4",
	"Uint64": "8", "Int64": "8", "Bytes": "S", "String": "S", "Read": "S",
}
var writeLetter = map[string]string{
	"WriteByte": "1", "WriteUint8": "1", "WriteInt8": "1", "WriteUint16": "2", "WriteInt16": "2", "WriteUint32": "4", "WriteInt32": "4",
	"WriteUint64": "8", "WriteInt64": "8", "WriteBytes": "S", "WriteString": "S", "Write": "S",
}

type shapeBuilder struct {
	p         *core.Prog
	ef        *errFlow
	n         *nfa
	variant   *types.Var // the `wide` field of the package type under analysis (nil: none)
	wide      bool
	fieldFmt  *types.Named
	fieldData *types.Named
	depth     int
	// FirstWrite: constants seen as the operand of the first 1-byte write
	stack   []*ssa.Function
	problem string
}

func newShapeBuilder(p *core.Prog, ef *errFlow) *shapeBuilder {
	return &shapeBuilder{p: p, ef: ef, n: newNFA(), fieldFmt: p.Named("tds", "FieldFmt"), fieldData: p.Named("tds", "FieldData")}
}

// letterOf classifies a call: ("", false) = irrelevant.
func (sb *shapeBuilder) letterOf(c ssa.CallInstruction) (letter string, isLetter bool) {
	cc := c.Common()
	name := ""
	var recvT types.Type
	if cc.IsInvoke() {
		name = cc.Method.Name()
		recvT = cc.Value.Type()
	} else if f := cc.StaticCallee(); f != nil && f.Signature.Recv() != nil {
		name = f.Name()
		recvT = f.Signature.Recv().Type()
	} else {
		return "", false
	}
	if sb.ef.isBytesChannelType(recvT) {
		if l, ok := readLetter[name]; ok {
			return l, true
		}
		if l, ok := writeLetter[name]; ok {
			return l, true
		}
		return "", false
	}
	if cc.IsInvoke() && (name == "ReadFrom" || name == "WriteTo") {
		if n, ok := recvT.(*types.Named); ok {
			if n.Obj() == sb.fieldFmt.Obj() {
				return "FMT", true
			}
			if n.Obj() == sb.fieldData.Obj() {
				return "DAT", true
			}
		}
	}
	return "", false
}

func (sb *shapeBuilder) takesChannel(c ssa.CallInstruction) bool {
	for _, a := range c.Common().Args {
		t := a.Type()
		if mi, ok := a.(*ssa.MakeInterface); ok {
			t = mi.X.Type()
		}
		if sb.ef.isBytesChannelType(t) {
			return true
		}
	}
	return false
}

// variantCond: cond is (a negation of) a load of the variant field.
func (sb *shapeBuilder) variantCond(cond ssa.Value) (val bool, ok bool) {
	if sb.variant == nil {
		return false, false
	}
	neg := false
	for {
		if u, isU := cond.(*ssa.UnOp); isU && u.Op == token.NOT {
			neg = !neg
			cond = u.X
			continue
		}
		break
	}
	f, _ := core.FieldLoad(cond)
	if f == nil || f != sb.variant {
		return false, false
	}
	v := sb.wide
	if neg {
		v = !v
	}
	return v, true
}

func freshError(v ssa.Value) bool {
	switch x := v.(type) {
	case *ssa.Call:
		return core.IsPkgFunc(x, "fmt", "Errorf") || core.IsPkgFunc(x, "errors", "New")
	case *ssa.UnOp:
		if x.Op == token.MUL {
			if _, ok := x.X.(*ssa.Global); ok {
				return true
			}
		}
	case *ssa.MakeInterface:
		return true // a concrete error value built here
	}
	return false
}

// build splices the automaton of fn into sb.n and returns its entry state
// and the states at its successful returns.
func (sb *shapeBuilder) build(fn *ssa.Function) (entry int, accepts []int) {
	for _, f := range sb.stack {
		if f == fn {
			sb.problem = "recursive codec call " + core.FuncName(fn)
			s := sb.n.state()
			return s, []int{s}
		}
	}
	if len(sb.stack) > 12 {
		sb.problem = "inlining depth exceeded at " + core.FuncName(fn)
		s := sb.n.state()
		return s, []int{s}
	}
	sb.stack = append(sb.stack, fn)
	defer func() { sb.stack = sb.stack[:len(sb.stack)-1] }()

	entryOf := map[*ssa.BasicBlock]int{}
	var order []*ssa.BasicBlock
	var get func(b *ssa.BasicBlock) int
	get = func(b *ssa.BasicBlock) int {
		if s, ok := entryOf[b]; ok {
			return s
		}
		s := sb.n.state()
		entryOf[b] = s
		order = append(order, b)
		return s
	}
	entry = get(fn.Blocks[0])
	for i := 0; i < len(order); i++ {
		b := order[i]
		cur := entryOf[b]
		for _, in := range b.Instrs {
			switch x := in.(type) {
			case ssa.CallInstruction:
				if _, isDefer := x.(*ssa.Defer); isDefer {
					continue
				}
				if l, ok := sb.letterOf(x); ok {
					nx := sb.n.state()
					sb.n.add(cur, nx, l, x.Pos())
					cur = nx
					continue
				}
				f := x.Common().StaticCallee()
				if f != nil && core.InModule(f) && f.Blocks != nil && sb.takesChannel(x) {
					e, accs := sb.build(f)
					sb.n.add(cur, e, "", x.Pos())
					nx := sb.n.state()
					for _, a := range accs {
						sb.n.add(a, nx, "", x.Pos())
					}
					cur = nx
					continue
				}
				if sb.takesChannel(x) {
					nx := sb.n.state()
					sb.n.add(cur, nx, "?"+calleeKey(x), x.Pos())
					cur = nx
				}
			case *ssa.Return:
				rv := core.RetVals(x)
				if len(rv) > 0 && core.IsErrorType(rv[len(rv)-1].Type()) && freshError(rv[len(rv)-1]) && !core.IsNil(rv[len(rv)-1]) {
					continue
				}
				accepts = append(accepts, cur)
			case *ssa.If:
				t, f := b.Succs[0], b.Succs[1]
				if _, trueNonNil, ok := core.ErrNilTest(x.Cond); ok {
					if trueNonNil {
						sb.n.add(cur, get(f), "", x.Pos())
					} else {
						sb.n.add(cur, get(t), "", x.Pos())
					}
					continue
				}
				if v, ok := sb.variantCond(x.Cond); ok {
					if v {
						sb.n.add(cur, get(t), "", x.Pos())
					} else {
						sb.n.add(cur, get(f), "", x.Pos())
					}
					continue
				}
				sb.n.add(cur, get(t), "", x.Pos())
				sb.n.add(cur, get(f), "", x.Pos())
			case *ssa.Jump:
				sb.n.add(cur, get(b.Succs[0]), "", x.Pos())
			}
		}
	}
	return entry, accepts
}

// codecNFA builds the automaton of one top-level codec function.
func codecNFA(p *core.Prog, ef *errFlow, fn *ssa.Function, variant *types.Var, wide bool) (*nfa, string) {
	sb := newShapeBuilder(p, ef)
	sb.variant, sb.wide = variant, wide
	e, accs := sb.build(fn)
	sb.n.start = e
	for _, a := range accs {
		sb.n.accept[a] = true
	}
	return sb.n, sb.problem
}

func (n *nfa) closure(set map[int]bool) map[int]bool {
	var work []int
	for s := range set {
		work = append(work, s)
	}
	for len(work) > 0 {
		s := work[len(work)-1]
		work = work[:len(work)-1]
		for _, e := range n.edges[s] {
			if e.letter == "" && !set[e.to] {
				set[e.to] = true
				work = append(work, e.to)
			}
		}
	}
	return set
}

func setKey(set map[int]bool) string {
	ks := make([]int, 0, len(set))
	for s := range set {
		ks = append(ks, s)
	}
	sort.Ints(ks)
	var sb strings.Builder
	for _, k := range ks {
		fmt.Fprintf(&sb, "%d,", k)
	}
	return sb.String()
}

func (n *nfa) move(set map[int]bool, letter string) map[int]bool {
	out := map[int]bool{}
	for s := range set {
		for _, e := range n.edges[s] {
			if e.letter == letter {
				out[e.to] = true
			}
		}
	}
	return n.closure(out)
}

func (n *nfa) anyAccept(set map[int]bool) bool {
	for s := range set {
		if n.accept[s] {
			return true
		}
	}
	return false
}

// canAccept marks the states from which an accepting state is reachable.
func (n *nfa) canAccept() []bool {
	rev := make([][]int, len(n.edges))
	for s, es := range n.edges {
		for _, e := range es {
			rev[e.to] = append(rev[e.to], s)
		}
	}
	ok := make([]bool, len(n.edges))
	var work []int
	for s := range n.accept {
		ok[s] = true
		work = append(work, s)
	}
	for len(work) > 0 {
		s := work[len(work)-1]
		work = work[:len(work)-1]
		for _, pr := range rev[s] {
			if !ok[pr] {
				ok[pr] = true
				work = append(work, pr)
			}
		}
	}
	return ok
}

type shapeCex struct {
	Word    []string
	WPos    []token.Pos // source of each written letter
	Why     string
	ReadPos []token.Pos // where the reader stood
}

// included decides L(w) ⊆ L(r); on failure returns a shortest counterexample.
func included(w, r *nfa) *shapeCex {
	live := w.canAccept()
	type node struct {
		ws   int
		rset map[int]bool
		prev *node
		let  string
		pos  token.Pos
	}
	start := &node{ws: w.start, rset: r.closure(map[int]bool{r.start: true})}
	seen := map[string]bool{}
	queue := []*node{start}
	word := func(nd *node) ([]string, []token.Pos) {
		var ls []string
		var ps []token.Pos
		for x := nd; x != nil && x.prev != nil; x = x.prev {
			if x.let != "" {
				ls = append([]string{x.let}, ls...)
				ps = append([]token.Pos{x.pos}, ps...)
			}
		}
		return ls, ps
	}
	rpos := func(set map[int]bool) []token.Pos {
		var out []token.Pos
		for s := range set {
			for _, e := range r.edges[s] {
				if e.letter != "" && len(out) < 4 {
					out = append(out, e.pos)
				}
			}
		}
		return out
	}
	for len(queue) > 0 {
		nd := queue[0]
		queue = queue[1:]
		k := fmt.Sprintf("%d|%s", nd.ws, setKey(nd.rset))
		if seen[k] {
			continue
		}
		seen[k] = true
		if w.accept[nd.ws] && !r.anyAccept(nd.rset) {
			ls, ps := word(nd)
			return &shapeCex{ls, ps, "the writer can stop here; the reader expects more (or something else)", rpos(nd.rset)}
		}
		for _, e := range w.edges[nd.ws] {
			if !live[e.to] {
				continue
			}
			if e.letter == "" {
				queue = append(queue, &node{ws: e.to, rset: nd.rset, prev: nd})
				continue
			}
			nr := r.move(nd.rset, e.letter)
			nx := &node{ws: e.to, rset: nr, prev: nd, let: e.letter, pos: e.pos}
			if len(nr) == 0 {
				ls, ps := word(nx)
				return &shapeCex{ls, ps, "the reader cannot consume a field of width " + e.letter + " at this point", rpos(nd.rset)}
			}
			queue = append(queue, nx)
		}
	}
	return nil
}

// regexNFA compiles a layout such as "2 2 (1 S 1 4 1 FMT 1 S)*".
func regexNFA(spec string) *nfa {
	n := newNFA()
	toks := strings.Fields(strings.NewReplacer("(", " ( ", ")*", " )* ", ")?", " )? ").Replace(spec))
	var parse func(i int, from int) (int, int)
	parse = func(i int, from int) (int, int) {
		cur := from
		for i < len(toks) {
			t := toks[i]
			switch t {
			case "(":
				gs := n.state()
				n.add(cur, gs, "", token.NoPos)
				j, ge := parse(i+1, gs)
				closer := toks[j]
				after := n.state()
				n.add(ge, after, "", token.NoPos)
				if closer == ")*" {
					n.add(ge, gs, "", token.NoPos)
					n.add(gs, after, "", token.NoPos)
				} else if closer == ")?" {
					n.add(gs, after, "", token.NoPos)
				}
				cur = after
				i = j + 1
			case ")*", ")?", ")":
				return i, cur
			default:
				nx := n.state()
				n.add(cur, nx, t, token.NoPos)
				cur = nx
				i++
			}
		}
		return i, cur
	}
	s := n.state()
	n.start = s
	_, end := parse(0, s)
	n.accept[end] = true
	return n
}

// stripLeading removes the first letter (a token byte) from the writer's
// language: returns the constant operands of the first 1-byte writes and a
// flag whether every path starts with such a write.
func firstWriteConsts(p *core.Prog, ef *errFlow, fn *ssa.Function, variant *types.Var, wide bool) (consts []int64, allPathsStartWithByte bool, pos token.Pos) {
	sb := newShapeBuilder(p, ef)
	sb.variant, sb.wide = variant, wide
	// walk blocks in pruned order until the first channel operation on each path
	seen := map[*ssa.BasicBlock]bool{}
	all := true
	var walk func(b *ssa.BasicBlock, reach map[*ssa.BasicBlock]bool)
	reachable := map[*ssa.BasicBlock]bool{}
	followed := map[[2]*ssa.BasicBlock]bool{}
	var mark func(b *ssa.BasicBlock)
	mark = func(b *ssa.BasicBlock) {
		if reachable[b] {
			return
		}
		reachable[b] = true
		if iff, ok := b.Instrs[len(b.Instrs)-1].(*ssa.If); ok {
			if v, ok := sb.variantCond(iff.Cond); ok {
				t := b.Succs[1]
				if v {
					t = b.Succs[0]
				}
				followed[[2]*ssa.BasicBlock{b, t}] = true
				mark(t)
				return
			}
		}
		for _, s := range b.Succs {
			followed[[2]*ssa.BasicBlock{b, s}] = true
			mark(s)
		}
	}
	mark(fn.Blocks[0])
	walk = func(b *ssa.BasicBlock, _ map[*ssa.BasicBlock]bool) {
		if seen[b] || !reachable[b] {
			return
		}
		seen[b] = true
		for _, in := range b.Instrs {
			c, ok := in.(ssa.CallInstruction)
			if !ok {
				if _, isRet := in.(*ssa.Return); isRet {
					rv := core.RetVals(in.(*ssa.Return))
					if len(rv) > 0 && !freshError(rv[len(rv)-1]) {
						all = false // a success path without any write
					}
				}
				continue
			}
			if _, isDefer := c.(*ssa.Defer); isDefer {
				continue
			}
			l, isL := sb.letterOf(c)
			if !isL {
				if sb.takesChannel(c) {
					all = false
					return
				}
				continue
			}
			if l != "1" {
				all = false
				return
			}
			args := c.Common().Args
			arg := args[len(args)-1]
			pos = c.Pos()
			for _, v := range phiLeaves(arg, followed) {
				if k, ok := core.ConstInt64(v); ok {
					consts = append(consts, k)
				} else {
					all = false
				}
			}
			return
		}
		for _, s := range b.Succs {
			walk(s, nil)
		}
	}
	walk(fn.Blocks[0], nil)
	return consts, all, pos
}

func phiLeaves(v ssa.Value, followed map[[2]*ssa.BasicBlock]bool) []ssa.Value {
	v = core.Strip(v)
	if ph, ok := v.(*ssa.Phi); ok {
		var out []ssa.Value
		for i, e := range ph.Edges {
			if followed != nil && !followed[[2]*ssa.BasicBlock{ph.Block().Preds[i], ph.Block()}] {
				continue
			}
			out = append(out, phiLeaves(e, followed)...)
		}
		return out
	}
	return []ssa.Value{v}
}

// dropFirst returns an automaton for { w : a·w ∈ L(n), a a single letter "1" }.
func (n *nfa) dropFirstByte() *nfa {
	out := &nfa{edges: make([][]nfaEdge, len(n.edges)), accept: n.accept}
	for i, es := range n.edges {
		out.edges[i] = append([]nfaEdge(nil), es...)
	}
	ns := len(out.edges)
	out.edges = append(out.edges, nil)
	out.start = ns
	cl := n.closure(map[int]bool{n.start: true})
	for s := range cl {
		for _, e := range n.edges[s] {
			if e.letter == "1" {
				out.edges[ns] = append(out.edges[ns], nfaEdge{e.to, "", e.pos})
			}
		}
	}
	return out
}

// sampleWords lists up to k short accepted words (for evidence).
func (n *nfa) sampleWord() string {
	type node struct {
		set  map[int]bool
		word []string
	}
	start := node{n.closure(map[int]bool{n.start: true}), nil}
	queue := []node{start}
	seen := map[string]bool{}
	for len(queue) > 0 && len(seen) < 5000 {
		nd := queue[0]
		queue = queue[1:]
		k := setKey(nd.set)
		if seen[k] {
			continue
		}
		seen[k] = true
		if n.anyAccept(nd.set) && len(nd.word) > 0 {
			return strings.Join(nd.word, " ")
		}
		letters := map[string]bool{}
		for s := range nd.set {
			for _, e := range n.edges[s] {
				if e.letter != "" {
					letters[e.letter] = true
				}
			}
		}
		var ls []string
		for l := range letters {
			ls = append(ls, l)
		}
		sort.Strings(ls)
		for _, l := range ls {
			queue = append(queue, node{n.move(nd.set, l), append(append([]string(nil), nd.word...), l)})
		}
	}
	if n.anyAccept(start.set) {
		return "(empty)"
	}
	return "(none)"
}

// hasLetters reports whether any letter edge is reachable from the start.
func (n *nfa) hasLetters() bool {
	seen := map[int]bool{n.start: true}
	work := []int{n.start}
	for len(work) > 0 {
		s := work[len(work)-1]
		work = work[:len(work)-1]
		for _, e := range n.edges[s] {
			if e.letter != "" {
				return true
			}
			if !seen[e.to] {
				seen[e.to] = true
				work = append(work, e.to)
			}
		}
	}
	return false
}
