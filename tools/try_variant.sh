#!/bin/bash
# usage: try_variant.sh <patch.diff> <label> [ids...]   (default ids: all claimed)
# Applies a patch to a scratch copy of /repo (falls back to the pinned base a8cb25f when it does not apply) and
# runs the given checks on the copy; prints which fired and the first violated obligations.
patch=$(realpath "$1"); label="$2"; shift 2
tmp=$(mktemp -d /tmp/dblint-var.XXXXXX); out=$(mktemp -d /tmp/dblint-var-out.XXXXXX)
trap 'rm -rf $tmp $out' EXIT
rsync -a --exclude=.git /repo/ $tmp/
base=head
if ! ( cd $tmp && patch -p1 -s -f --dry-run -i "$patch" >/dev/null 2>&1 ); then
  rm -rf $tmp; mkdir $tmp; git -C /repo archive a8cb25f | tar -x -C $tmp; base=a8cb25f
fi
( cd $tmp && patch -p1 -s -f --no-backup-if-mismatch -i "$patch" >/dev/null 2>&1 ) || { echo "$label PATCH-DOES-NOT-APPLY"; exit 0; }
cp /verif/known_findings.json $out/
bin=${DBLINT:-/verif/bin/dblint}
ids="$*"; [ -n "$ids" ] || ids=$(python3 -c "import json; print(' '.join(c['property_id'] for c in json.load(open('/verif/MANIFEST.json'))['checks']))")
fired=""
for id in $ids; do
  o=$($bin check -property $id -repo $tmp -verif $out 2>&1); c=$?
  if [ $c != 0 ]; then fired="$fired $id"; [ -n "$VERBOSE" ] && echo "$o" | grep -E '^(VIOLATED|UNDECIDED|ANALYSIS-ERROR)' | sed "s/^/    [$label $id] /" | cut -c1-300; fi
done
echo "$label base=$base fired:${fired:- none}"
