package props

import (
	"fmt"
	"go/token"
	"go/types"
	"strings"

	"dblint/internal/core"

	"golang.org/x/tools/go/ssa"
)

func init() {
	register(&Spec{ID: "C01", Title: "Outgoing messages are well-formed TDS packet sequences", Run: runC01,
		Meta: core.Meta{
			Explanation: "R01.24: in no function of package tds is a call of Channel.Reset/reset (deferred calls excepted) followed on some path by SendPackage, QueuePackage, SendRemainingPackets or sendPackets. R01.25: Conn.NewChannel hands the method value tds.PacketSize itself to both NewPacketQueue calls, not a closure over a size captured at construction. R01.23 (E-CONST): the exhaustion test of getValidChannelId is id > 65535 (or >= 65536). R01.22 (who-may-call): Channel.sendPacket is called by sendPackets, Close (teardown) and NewChannel (setup) only. R01.21 (who-may-call): PacketQueue.AddPacket is called by Channel.WritePacket only. R01.20 = R15.14 (WriteUintK/WriteIntK/WriteString never index the queue themselves: a value that straddles a packet end is split by WriteBytes, once). R01.19 (who-may-call): PacketQueue.SetPosition is called by Channel.WritePacket (and PacketQueue itself) only. R01.18 = R08.8 (every PACKSIZE member of an ENVCHANGE is tested, and from the test every path to the next member stores Conn.packetSize or returns an error — no announced size is silently ignored). R01.17: every image Packet.Bytes returns is a slice made with Header.Length elements. Structural necessary conditions of well-formed packetisation; the numeric quantification (every length x packet size x call split) is not decided. R01.1 (E-OWN): the transport Conn.conn is referenced in exactly four roles — initialised in NewConn, closed in Conn.Close, reader argument of Packet.ReadFrom in Conn.ReadFrom, writer argument of Packet.WriteTo in sendPacket; any other use bypasses packetisation. R01.2: in sendPacket the write is dominated by Header.MsgType := CurrentHeaderType; the end-of-message flag is set exactly on the edge where len(packet.Data) differs from the LIVE Conn.PacketBodySize() (a call, not a cached value) by or-ing TDS_BUFSTAT_EOM into Header.Status before the write; the byte count returned by the write is compared with Header.Length. R01.3: NewPacket sets Header.Length = size and Data = make(size-8); the trim in sendPackets stores Header.Length = PacketHeaderSize + k and Data = Data[:k] for the same k (the tx queue's indexData). R01.4: in sendPackets the partial-packet test is `i == indexPacket && indexData < PacketBodySize()` with a strict comparison against the live body size; the early `return nil` lies on its onlyFull edge, the trim on the other; the deferred DiscardUntilCurrentPosition runs on every exit. R01.5: SendRemainingPackets calls sendPackets(ctx, false) under the closed protocol and resets the channel on every exit (C03 R03.4). R01.6: the flush reaches its success return only through at least one sendPacket call (path-insensitive on the loop). R01.7: Packet.WriteTo hands the whole serialised packet (packet.Bytes()) to the transport in exactly one Write call on every path — all channels share the transport without a send lock, so one Write per packet is what keeps packets of different channels from interleaving. R01.8: the tx side (header type, tx queue, lastPkgTx) is restored on every exit of SendRemainingPackets, also when the flush fails. R01.10 = R15.7: the deferred DiscardUntilCurrentPosition drops the packet under the position when indexData has reached (>= or ==, not >) the end of its body, after the queue was shifted — otherwise a message that ends exactly on a packet boundary is sent twice. R01.11 = R12.3 (channel id and packet number stamped, the number advanced by one modulo 256). R01.12 = R15.6 (WriteBytes computes the room left in a packet from that packet's own header length and body, never from the live packet size: a shortcut that compares with packetSize() instead of the body size drops the bytes that overhang). R01.13 (E-OWN): every store to Channel.CurrentHeaderType assigns a TDS_BUF_* constant (never a saved or computed value). R01.14 = R14.12 (after a failed sendPacket no further packet of the message is written and the error is returned). R01.15: PacketHeader.Read and PacketHeader.Write place/take MsgType, Status, Length, Channel, PacketNr, Window at offsets 0, 1, 2, 4, 6, 7 (compared with the specification, not with each other). R01.16 (E-OWN): no function statically reachable from (*Conn).ReadFrom stores CurrentHeaderType or lastPkgTx or calls a method of queueTx. R01.9: sendPackets/sendPacket decide 'full' and 'last' with Conn.PacketBodySize() while the tx queue sizes new packets with its packetSize function; both must be the one negotiated size: (*Conn).PacketSize returns Conn.packetSize itself on every path, PacketBodySize returns that value minus PacketHeaderSize, every value stored into Channel.queueTx is NewPacketQueue(<conn>.PacketSize) (the bound method of the channel's connection, or a function literal that only returns that call), and PacketQueue.packetSize is assigned only by NewPacketQueue from its parameter.",
			NotDecided:  "Byte-exact concatenation of bodies, 'every packet but the last is full' as arithmetic and packet-size changes between messages are not decided.",
			Assumptions: []string{"Packet.WriteTo serialises header then data (C15 / packet.go)", "channel id and packet number stamping is C12's R12.3"},
		}})
}

func runC01(r *core.Run) {
	p := r.Prog
	r.Rule("R01.1", "the transport is written only through sendPacket (E-OWN)", 4, true)
	r.Rule("R01.2", "sendPacket stamps the message type, derives EOM from the live body size, checks the written length", 3, false)
	r.Rule("R01.3", "header length and body stay coupled", 3, false)
	r.Rule("R01.4", "sendPackets: strict partial-packet test against the live body size; early return only for onlyFull; discard on exit", 4, false)
	r.Rule("R01.5", "SendRemainingPackets flushes with onlyFull == false", 1, false)
	r.Rule("R01.6", "a flush sends at least one packet (the one that carries EOM)", 1, false)
	r.Rule("R01.7", "a packet reaches the transport in one Write call (header and body cannot be torn apart by another channel)", 1, false)
	r.Rule("R01.8", "the tx side is reset on every exit of a flush (nothing is left behind for the next message)", 2, false)
	r.Rule("R01.9", "one packet size in force: the size that sizes new tx packets and the body size the send path reasons with are the same field", 4, false)
	defer c01OneSize(r, "R01.9")
	r.Rule("R01.10", "a packet that was sent is discarded, also when it was filled exactly (R15.7)", 1, false)
	defer c15Discard(r, "R01.10")
	r.Rule("R01.11", "outgoing packets carry the channel id and consecutive packet numbers modulo 256 (R12.3)", 3, false)
	defer c12Stamping(r, "R01.11")
	r.Rule("R01.12", "free space in the packet being filled comes from that packet's own length, the live packet size only sizes new packets (R15.6)", 1, true)
	defer c15PacketSize(r, "R01.12")
	r.Rule("R01.13", "the channel's message type is only ever set to a constant, by straight-line code", 4, false)
	defer c01HeaderTypeConst(r)
	r.Rule("R01.14", "a failed packet write ends the message: no later packet of it is written (R14.12)", 1, false)
	defer c14SendFailureReturns(r, "R01.14")
	r.Rule("R01.15", "the packet header is serialised and parsed at the offsets of the TDS 5.0 specification", 2, false)
	defer c01HeaderLayout(r, "R01.15")
	r.Rule("R01.16", "the transmit side of a channel is written by the sending goroutine only", 1, false)
	defer c01TxOwnership(r)
	r.Rule("R01.17", "the wire image of a packet has exactly Header.Length bytes", 1, false)
	defer c01PacketImage(r, "R01.17")
	r.Rule("R01.18", "the packet size in force is the one the server announced: a PACKSIZE member sets Conn.packetSize or fails (R08.8)", 2, false)
	defer packSizeEveryMember(r, "R01.18")
	r.Rule("R01.19", "SetPosition is the rollback of a failed receive attempt only (never an undo on the transmit queue)", 1, false)
	defer setPositionOwner(r, "R01.19")
	r.Rule("R01.20", "typed writers reach the stream through WriteBytes only: one place splits a value over a packet end (R15.14)", 20, false)
	defer c15TypedThroughBytes(r, "R01.20")
	r.Rule("R01.21", "packets enter the transmit queue through WriteBytes only (AddPacket is the receive path)", 1, false)
	defer addPacketOwner(r, "R01.21")
	r.Rule("R01.22", "packets reach the transport through the queue: sendPacket is called by sendPackets, Close and NewChannel only", 3, false)
	defer func() {
		r.Rule("R01.23", "channel ids fit the 16-bit header field (R12.4)", 1, false)
		defer idLimit(r, "R01.23")
		r.Rule("R01.24", "queued bytes are never discarded in front of a send", 2, false)
		defer noResetBeforeSend(r, "R01.24")
		r.Rule("R01.25", "the queues ask the connection for the packet size every time", 2, false)
		defer liveSizeGetter(r, "R01.25")
		p := r.Prog
		callersOf(r, "R01.22", p.Func("tds", "Channel", "sendPacket"), map[*ssa.Function]bool{p.Func("tds", "Channel", "sendPackets"): true, p.Func("tds", "Channel", "Close"): true, p.Func("tds", "Conn", "NewChannel"): true},
			"queue flush / teardown / setup", "a packet built outside the transmit queue (NewPacket with its body cut to nil keeps Header.Length at the full size) goes out zero-padded, so the message carries a body of zeros that belongs to no package")
	}()

	fConn := p.Field("tds", "Conn", "conn")
	roles := map[*ssa.Function]string{
		p.Func("tds", "", "NewConn"):           "init",
		p.Func("tds", "Conn", "Close"):         "close",
		p.Func("tds", "Conn", "ReadFrom"):      "read",
		p.Func("tds", "Channel", "sendPacket"): "write",
	}
	pread := p.Func("tds", "Packet", "ReadFrom")
	pwrite := p.Func("tds", "Packet", "WriteTo")
	for _, fn := range p.ModuleFuncs() {
		for _, b := range fn.Blocks {
			for _, in := range b.Instrs {
				fa, ok := in.(*ssa.FieldAddr)
				if !ok || core.FieldOfAddr(fa) != fConn {
					continue
				}
				role, known := roles[fn]
				key := core.FuncName(fn) + ": Conn.conn"
				if !known {
					r.Bad("R01.1", key, fa.Pos(), "the transport is used outside its four roles: bytes written here bypass packetisation (headers, EOM, channel id)")
					continue
				}
				good := false
				for _, ref := range *fa.Referrers() {
					switch u := ref.(type) {
					case *ssa.Store:
						good = good || (role == "init" && u.Addr == ssa.Value(fa))
					case *ssa.UnOp:
						for _, r2 := range *u.Referrers() {
							c, isC := r2.(ssa.CallInstruction)
							if !isC {
								if mi, isMI := r2.(*ssa.MakeInterface); isMI {
									for _, r3 := range *mi.Referrers() {
										if c3, ok := r3.(ssa.CallInstruction); ok {
											if role == "read" && core.StaticCallee(c3) == pread {
												good = true
											}
											if role == "write" && core.StaticCallee(c3) == pwrite {
												good = true
											}
										}
									}
								}
								if ci, isCI := r2.(*ssa.ChangeInterface); isCI {
									for _, r3 := range *ci.Referrers() {
										if c3, ok := r3.(ssa.CallInstruction); ok {
											if role == "read" && core.StaticCallee(c3) == pread {
												good = true
											}
											if role == "write" && core.StaticCallee(c3) == pwrite {
												good = true
											}
										}
									}
								}
								continue
							}
							if role == "close" && c.Common().IsInvoke() && c.Common().Method.Name() == "Close" {
								good = true
							}
							if role == "read" && core.StaticCallee(c) == pread {
								good = true
							}
							if role == "write" && core.StaticCallee(c) == pwrite {
								good = true
							}
						}
					}
				}
				r.Check(good, "R01.1", key, fa.Pos(), "role: "+role, "in "+core.FuncName(fn)+" the transport is used for something other than its role ("+role+")")
			}
		}
	}

	c01SendPacket(r, "R01.2")
	c01Coupling(r)
	c01SendPackets(r, "R01.4")
	c01SingleWrite(r, "R01.7")
	c03Reset(r, "R01.8")
}

func isBodySizeCall(p *core.Prog, v ssa.Value) bool {
	c, ok := v.(*ssa.Call)
	return ok && core.StaticCallee(c) == p.Func("tds", "Conn", "PacketBodySize")
}

func isLenOf(v ssa.Value, field *types.Var) bool {
	c, ok := v.(*ssa.Call)
	if !ok {
		return false
	}
	bi, ok := c.Call.Value.(*ssa.Builtin)
	if !ok || bi.Name() != "len" {
		return false
	}
	f, _ := core.FieldLoad(c.Call.Args[0])
	return f == field
}

func c01SendPacket(r *core.Run, rule string) {
	p := r.Prog
	fn := p.Func("tds", "Channel", "sendPacket")
	pwrite := p.Func("tds", "Packet", "WriteTo")
	fMsgType := p.Field("tds", "PacketHeader", "MsgType")
	fStatus := p.Field("tds", "PacketHeader", "Status")
	fLength := p.Field("tds", "PacketHeader", "Length")
	fData := p.Field("tds", "Packet", "Data")
	fCur := p.Field("tds", "Channel", "CurrentHeaderType")
	cEOM := constOf(p, "tds", "TDS_BUFSTAT_EOM")
	calls := callsTo(fn, pwrite)
	if len(calls) != 1 {
		r.Unknown(rule, "sendPacket: single transport write", fn.Pos(), "expected exactly one Packet.WriteTo call")
		return
	}
	w := calls[0].(ssa.Instruction)
	// MsgType
	ok := false
	for _, b := range fn.Blocks {
		for _, in := range b.Instrs {
			if st, isSt := in.(*ssa.Store); isSt {
				if fa, isFA := st.Addr.(*ssa.FieldAddr); isFA && core.FieldOfAddr(fa) == fMsgType {
					if f, _ := core.FieldLoad(st.Val); f == fCur && core.Dominates(st, w) {
						ok = true
					}
				}
			}
		}
	}
	r.Check(ok, rule, "sendPacket: Header.MsgType := CurrentHeaderType", fn.Pos(), "stored before the write on every path", "the packet's message type is not set from the channel's current header type before it is written")

	// EOM
	okEOM, whyEOM := false, "no test of len(packet.Data) against PacketBodySize() guarding the EOM flag"
	for _, b := range fn.Blocks {
		iff, isIf := b.Instrs[len(b.Instrs)-1].(*ssa.If)
		if !isIf {
			continue
		}
		bo, isB := iff.Cond.(*ssa.BinOp)
		if !isB || (bo.Op != token.NEQ && bo.Op != token.EQL) {
			continue
		}
		var other ssa.Value
		if isLenOf(bo.X, fData) {
			other = bo.Y
		} else if isLenOf(bo.Y, fData) {
			other = bo.X
		} else {
			continue
		}
		if !isBodySizeCall(p, other) {
			whyEOM = "the end-of-message flag is derived by comparing the body length with " + core.Expr(other) + " instead of the live Conn.PacketBodySize(): after the server changes the packet size the flag is set on the wrong packets"
			continue
		}
		short := b.Succs[0]
		if bo.Op == token.EQL {
			short = b.Succs[1]
		}
		// the short edge or-s EOM into Status before the write
		set := false
		for bb := range dominatedRegion(short) {
			for _, in := range bb.Instrs {
				st, isSt := in.(*ssa.Store)
				if !isSt {
					continue
				}
				fa, isFA := st.Addr.(*ssa.FieldAddr)
				if !isFA || core.FieldOfAddr(fa) != fStatus {
					continue
				}
				or, isOr := st.Val.(*ssa.BinOp)
				if !isOr || or.Op != token.OR {
					continue
				}
				if c, isC := or.Y.(*ssa.Const); isC && c.Value != nil && constEq(c.Value, cEOM) {
					set = true
				}
			}
		}
		if set && len(short.Preds) == 1 && core.Dominates(iff, w) {
			okEOM = true
		} else {
			whyEOM = "the short-body edge does not set TDS_BUFSTAT_EOM before the write"
		}
		// the full edge must not set it
		full := b.Succs[1]
		if bo.Op == token.EQL {
			full = b.Succs[0]
		}
		if full != short && len(full.Preds) == 1 {
			for bb := range dominatedRegion(full) {
				for _, in := range bb.Instrs {
					if st, isSt := in.(*ssa.Store); isSt {
						if fa, isFA := st.Addr.(*ssa.FieldAddr); isFA && core.FieldOfAddr(fa) == fStatus {
							okEOM, whyEOM = false, "the status flags are also modified for full packets"
						}
					}
				}
			}
		}
	}
	r.Check(okEOM, rule, "sendPacket: EOM exactly on packets shorter than the live body size", fn.Pos(), "len(Data) != PacketBodySize() → Status |= TDS_BUFSTAT_EOM, before the write", whyEOM)

	// written length check
	okLen := false
	if e, _ := errResult(calls[0]); e != nil {
		for _, b := range fn.Blocks {
			iff, isIf := b.Instrs[len(b.Instrs)-1].(*ssa.If)
			if !isIf {
				continue
			}
			bo, isB := iff.Cond.(*ssa.BinOp)
			if !isB || bo.Op != token.NEQ {
				continue
			}
			a, bb := core.Strip(bo.X), core.Strip(bo.Y)
			nIsResult := false
			if ex, isEx := a.(*ssa.Extract); isEx && ex.Tuple == calls[0].Value() && ex.Index == 0 {
				nIsResult = true
			}
			f, _ := core.FieldLoad(bb)
			if nIsResult && f == fLength {
				if ret, isRet := b.Succs[0].Instrs[len(b.Succs[0].Instrs)-1].(*ssa.Return); isRet && !core.IsNil(core.RetVals(ret)[0]) {
					okLen = true
				}
			}
		}
	}
	r.Check(okLen, rule, "sendPacket: written byte count compared with Header.Length", fn.Pos(), "n != Header.Length → error", "a short write to the transport is not detected")
}

func c01Coupling(r *core.Run) {
	p := r.Prog
	np := p.Func("tds", "", "NewPacket")
	fData := p.Field("tds", "Packet", "Data")
	fLength := p.Field("tds", "PacketHeader", "Length")
	cHdr := constOf(p, "tds", "PacketHeaderSize")
	// NewPacket: Data = make([]byte, size - PacketHeaderSize); Header = NewPacketHeader(size)
	okNP := false
	for _, b := range np.Blocks {
		for _, in := range b.Instrs {
			st, ok := in.(*ssa.Store)
			if !ok {
				continue
			}
			fa, ok := st.Addr.(*ssa.FieldAddr)
			if !ok || core.FieldOfAddr(fa) != fData {
				continue
			}
			ms, ok := st.Val.(*ssa.MakeSlice)
			if !ok {
				continue
			}
			sub, ok := ms.Len.(*ssa.BinOp)
			if ok && sub.Op == token.SUB && sub.X == ssa.Value(np.Params[0]) {
				if c, isC := sub.Y.(*ssa.Const); isC && c.Value != nil && constEq(c.Value, cHdr) {
					okNP = true
				}
			}
		}
	}
	nph := p.Func("tds", "", "NewPacketHeader")
	okH := false
	for _, c := range callsTo(np, nph) {
		if c.Common().Args[0] == ssa.Value(np.Params[0]) {
			okH = true
		}
	}
	r.Check(okNP && okH, "R01.3", "NewPacket: Length = size, Data = make(size - PacketHeaderSize)", np.Pos(), "header length and body are created from the same size", "a new packet's header length and body size no longer come from the same packet size")
	// NewPacketHeader stores Length: uint16(param)
	okNPH := false
	for _, b := range nph.Blocks {
		for _, in := range b.Instrs {
			if st, ok := in.(*ssa.Store); ok {
				if fa, ok := st.Addr.(*ssa.FieldAddr); ok && core.FieldOfAddr(fa) == fLength && core.Strip(st.Val) == ssa.Value(nph.Params[0]) {
					okNPH = true
				}
			}
		}
	}
	r.Check(okNPH, "R01.3", "NewPacketHeader: Length = packetSize", nph.Pos(), "Length: uint16(packetSize)", "the header length is not the packet size")

	// trim in sendPackets
	fn := p.Func("tds", "Channel", "sendPackets")
	fIdxData := p.Field("tds", "PacketQueue", "indexData")
	var lenStore, dataStore *ssa.Store
	for _, b := range fn.Blocks {
		for _, in := range b.Instrs {
			st, ok := in.(*ssa.Store)
			if !ok {
				continue
			}
			fa, ok := st.Addr.(*ssa.FieldAddr)
			if !ok {
				continue
			}
			if core.FieldOfAddr(fa) == fLength {
				lenStore = st
			}
			if core.FieldOfAddr(fa) == fData {
				dataStore = st
			}
		}
	}
	okTrim, whyTrim := false, "no trim of the last packet found"
	if lenStore != nil && dataStore != nil {
		whyTrim = "the trimmed header length and the trimmed body do not use the same byte count"
		add, isAdd := core.Strip(lenStore.Val).(*ssa.BinOp)
		sl, isSl := dataStore.Val.(*ssa.Slice)
		if isAdd && add.Op == token.ADD && isSl && sl.High != nil && sl.Low == nil {
			var k ssa.Value
			if c, isC := add.X.(*ssa.Const); isC && c.Value != nil && constEq(c.Value, cHdr) {
				k = add.Y
			} else if c, isC := add.Y.(*ssa.Const); isC && c.Value != nil && constEq(c.Value, cHdr) {
				k = add.X
			}
			fk, _ := core.FieldLoad(k)
			fh, _ := core.FieldLoad(sl.High)
			if k != nil && fk == fIdxData && fh == fIdxData && lenStore.Block() == dataStore.Block() {
				okTrim = true
			}
		}
	} else if lenStore != nil || dataStore != nil {
		whyTrim = "only one of header length and body is trimmed"
	}
	r.Check(okTrim, "R01.3", "sendPackets: trim sets Length = PacketHeaderSize + indexData and Data = Data[:indexData]", fn.Pos(), "same count, same block", whyTrim)
}

func c01SendPackets(r *core.Run, rule string) {
	p := r.Prog
	fn := p.Func("tds", "Channel", "sendPackets")
	sp := p.Func("tds", "Channel", "sendPacket")
	fIdxData := p.Field("tds", "PacketQueue", "indexData")
	fIdxPacket := p.Field("tds", "PacketQueue", "indexPacket")
	fLength := p.Field("tds", "PacketHeader", "Length")
	if len(fn.Params) < 3 {
		r.Unknown(rule, "sendPackets", fn.Pos(), "unexpected signature")
		return
	}
	onlyFull := fn.Params[2]
	// the partial test
	var partial *ssa.If
	why := "no comparison of the tx position with PacketBodySize() found"
	for _, b := range fn.Blocks {
		iff, ok := b.Instrs[len(b.Instrs)-1].(*ssa.If)
		if !ok {
			continue
		}
		bo, ok := iff.Cond.(*ssa.BinOp)
		if !ok {
			continue
		}
		f, _ := core.FieldLoad(bo.X)
		if f != fIdxData {
			continue
		}
		if !isBodySizeCall(p, bo.Y) {
			why = "the tx position is compared with " + core.Expr(bo.Y) + " instead of the live Conn.PacketBodySize()"
			continue
		}
		if bo.Op != token.LSS {
			why = "the partial-packet test uses " + bo.Op.String() + " instead of <: a packet that is exactly full is treated as partial (skipped by QueuePackage and then discarded, or trimmed and flagged EOM)"
			continue
		}
		partial = iff
	}
	r.Check(partial != nil, rule, "sendPackets: partial test is indexData < PacketBodySize()", fn.Pos(), "strict comparison against the live body size", why)
	if partial != nil {
		// under i == indexPacket
		under := false
		for _, g := range core.GuardsOf(partial.Block()) {
			if bo, ok := g.Cond.(*ssa.BinOp); ok && bo.Op == token.EQL && g.Pol {
				if f, _ := core.FieldLoad(bo.Y); f == fIdxPacket {
					under = true
				}
				if f, _ := core.FieldLoad(bo.X); f == fIdxPacket {
					under = true
				}
			}
		}
		r.Check(under, rule, "sendPackets: partial test only for the packet at the write position", partial.Pos(), "i == queueTx.indexPacket", "the partial-packet test is applied to packets other than the one being filled")
		// early return only under onlyFull; trim only under !onlyFull
		okEdges, whyEdges := true, ""
		part := partial.Block().Succs[0]
		for b := range dominatedRegion(part) {
			for _, in := range b.Instrs {
				switch x := in.(type) {
				case *ssa.Return:
					isOnly := false
					for _, g := range core.GuardsAt(x) {
						if g.Cond == ssa.Value(onlyFull) && g.Pol {
							isOnly = true
						}
					}
					if core.IsNil(core.RetVals(x)[0]) && !isOnly {
						okEdges, whyEdges = false, "the partial packet is skipped although onlyFull is false: the end of the message is never sent"
					}
				case *ssa.Store:
					if fa, ok := x.Addr.(*ssa.FieldAddr); ok && core.FieldOfAddr(fa) == fLength {
						notOnly := false
						for _, g := range core.GuardsAt(x) {
							if g.Cond == ssa.Value(onlyFull) && !g.Pol {
								notOnly = true
							}
						}
						if !notOnly {
							okEdges, whyEdges = false, "a packet is trimmed although only full packets should be sent"
						}
					}
				}
			}
		}
		r.Check(okEdges, rule, "sendPackets: early return only for onlyFull, trim only for !onlyFull", partial.Pos(), "edges as required", whyEdges)
	}
	// deferred discard
	disc := p.Func("tds", "PacketQueue", "DiscardUntilCurrentPosition")
	okDisc := false
	for _, c := range core.Calls(fn) {
		if d, ok := c.(*ssa.Defer); ok && core.StaticCallee(d) == disc && d.Block() == fn.Blocks[0] {
			okDisc = true
		}
	}
	r.Check(okDisc, rule, "sendPackets: sent packets are discarded on every exit", fn.Pos(), "defer queueTx.DiscardUntilCurrentPosition()", "packets that were sent stay in the tx queue on some exit: they are sent again with the next message")

	if rule != "R01.4" {
		return // re-run under another property: only the sendPackets clauses
	}
	// R01.5
	srp := p.Func("tds", "Channel", "SendRemainingPackets")
	okF := false
	for _, c := range callsTo(srp, fn) {
		a := c.Common().Args
		if cst, ok := a[2].(*ssa.Const); ok && cst.Value != nil && cst.Value.ExactString() == "false" {
			okF = true
		}
	}
	r.Check(okF, "R01.5", "SendRemainingPackets -> sendPackets(ctx, false)", srp.Pos(), "flush includes the partial packet", "SendRemainingPackets no longer flushes the partial packet")

	// R01.6: every path to `return nil` with onlyFull == false passes a sendPacket call
	zero := false
	core.EnumPaths(fn.Blocks[0], func(b *ssa.BasicBlock) bool { return false }, nil, 5000, func(pa core.Path, ended bool) {
		last := pa.Blocks[len(pa.Blocks)-1]
		ret, ok := last.Instrs[len(last.Instrs)-1].(*ssa.Return)
		if !ok || !core.IsNil(core.RetVals(ret)[0]) {
			return
		}
		for _, c := range pa.Conds {
			if c.If.Cond == ssa.Value(onlyFull) && c.Pol {
				return // onlyFull path
			}
		}
		sent := false
		for _, b := range pa.Blocks {
			for _, in := range b.Instrs {
				if c, ok := in.(*ssa.Call); ok && core.StaticCallee(c) == sp {
					sent = true
				}
			}
		}
		if !sent {
			zero = true
		}
	})
	r.Check(!zero, "R01.6", "sendPackets(false): success only after at least one sendPacket", fn.Pos(), "every non-onlyFull success path sends a packet", "the flush can succeed without sending any packet (the loop over the tx queue has a zero-iteration path): when the message length is an exact multiple of the body size, QueuePackage has already sent the last full packet without EOM and the queue is empty, so no packet of the message ever carries the end-of-message flag")
}

// c01SingleWrite: Packet.WriteTo hands the whole serialised packet to the
// transport in exactly one Write call on every path. All channels of a
// connection share the transport without a send lock; one Write per packet
// is what keeps packets of different channels from interleaving.
func c01SingleWrite(r *core.Run, rule string) {
	p := r.Prog
	fn := p.Func("tds", "Packet", "WriteTo")
	bytesFn := p.Func("tds", "Packet", "Bytes")
	if len(fn.Params) != 2 {
		r.Unknown(rule, "Packet.WriteTo: one Write per packet", fn.Pos(), "unexpected signature")
		return
	}
	w := fn.Params[1]
	isTransportWrite := func(in ssa.Instruction) (ssa.Value, bool) {
		c, ok := in.(*ssa.Call)
		if !ok {
			return nil, false
		}
		if c.Call.IsInvoke() && c.Call.Value == ssa.Value(w) {
			if len(c.Call.Args) == 1 {
				return c.Call.Args[0], true
			}
			return nil, true
		}
		// the writer handed on to another function also writes
		for _, a := range c.Call.Args {
			if a == ssa.Value(w) {
				return nil, true
			}
		}
		return nil, false
	}
	ok, why := true, ""
	nsucc := 0
	core.EnumPaths(fn.Blocks[0], func(b *ssa.BasicBlock) bool { return false }, nil, 500, func(pa core.Path, ended bool) {
		last := pa.Blocks[len(pa.Blocks)-1]
		if _, isRet := last.Instrs[len(last.Instrs)-1].(*ssa.Return); !isRet {
			return
		}
		n := 0
		whole := false
		for _, b := range pa.Blocks {
			for _, in := range b.Instrs {
				if arg, isW := isTransportWrite(in); isW {
					n++
					if ex, isEx := arg.(*ssa.Extract); isEx {
						if c, isC := ex.Tuple.(*ssa.Call); isC && core.StaticCallee(c) == bytesFn {
							whole = true
						}
					}
				}
			}
		}
		if n == 0 {
			return // error path before anything was written
		}
		nsucc++
		if n > 1 {
			ok, why = false, "a packet is written to the transport in more than one Write call: another channel's packet can land between header and body, and the byte stream no longer parses as consecutive packets"
		} else if !whole {
			ok, why = false, "the single Write does not carry the serialisation returned by packet.Bytes()"
		}
	})
	if nsucc == 0 {
		ok, why = false, "no path writes the packet"
	}
	r.Check(ok, rule, "Packet.WriteTo: one Write per packet", fn.Pos(), "writer.Write(packet.Bytes()) exactly once", why)
}

// c01OneSize: R01.9.
func c01OneSize(r *core.Run, rule string) {
	p := r.Prog
	fPS := p.Field("tds", "Conn", "packetSize")
	fQTx := p.Field("tds", "Channel", "queueTx")
	fQPS := p.Field("tds", "PacketQueue", "packetSize")
	psFn := p.Func("tds", "Conn", "PacketSize")
	bodyFn := p.Func("tds", "Conn", "PacketBodySize")
	npq := p.Func("tds", "", "NewPacketQueue")
	hdr := p.ConstInt("tds", "PacketHeaderSize")

	// the negotiated size as seen from a method of *Conn: the field itself, an atomic load of it, or PacketSize()
	isSize := func(fn *ssa.Function, v ssa.Value, allowCall bool) bool {
		v = core.Strip(v)
		if f, base := core.FieldLoad(v); f == fPS && base == ssa.Value(fn.Params[0]) {
			return true
		}
		if c, ok := v.(*ssa.Call); ok {
			if allowCall && core.StaticCallee(c) == psFn && len(c.Call.Args) == 1 && c.Call.Args[0] == ssa.Value(fn.Params[0]) {
				return true
			}
			if f := core.StaticCallee(c); f != nil && f.Pkg != nil && f.Pkg.Pkg.Path() == "sync/atomic" && len(f.Name()) >= 4 && f.Name()[:4] == "Load" && len(c.Call.Args) > 0 {
				if fa, ok := c.Call.Args[0].(*ssa.FieldAddr); ok && core.FieldOfAddr(fa) == fPS && fa.X == ssa.Value(fn.Params[0]) {
					return true
				}
			}
		}
		return false
	}
	okPS := len(core.Returns(psFn)) > 0
	for _, ret := range core.Returns(psFn) {
		if !isSize(psFn, core.RetVals(ret)[0], false) {
			okPS = false
		}
	}
	r.Check(okPS, rule, "(*Conn).PacketSize returns Conn.packetSize", psFn.Pos(), "every return is the field itself",
		"PacketSize() can return something other than the negotiated Conn.packetSize: new tx packets are sized differently from the body size sendPackets/sendPacket reason with (short packets flagged EOM, or packets longer than the size in force)")
	okBody := len(core.Returns(bodyFn)) > 0
	for _, ret := range core.Returns(bodyFn) {
		bo, ok := core.Strip(core.RetVals(ret)[0]).(*ssa.BinOp)
		c, isC := int64(0), false
		if ok {
			c, isC = core.ConstInt64(bo.Y)
		}
		if !ok || bo.Op != token.SUB || !isC || c != hdr || !isSize(bodyFn, bo.X, true) {
			okBody = false
		}
	}
	r.Check(okBody, rule, "(*Conn).PacketBodySize returns Conn.packetSize - PacketHeaderSize", bodyFn.Pos(), "every return is the negotiated size minus the header size",
		"PacketBodySize() is not the negotiated packet size minus the header size: 'full' and 'last packet' are judged against a different size than packets are built with")

	// stores to Channel.queueTx and PacketQueue.packetSize
	nTx := 0
	for _, fn := range p.ModuleFuncs() {
		for _, b := range fn.Blocks {
			for _, in := range b.Instrs {
				st, ok := in.(*ssa.Store)
				if !ok {
					continue
				}
				fa, ok := st.Addr.(*ssa.FieldAddr)
				if !ok {
					continue
				}
				switch core.FieldOfAddr(fa) {
				case fQPS:
					good := fn == npq && st.Val == ssa.Value(npq.Params[0])
					r.Check(good, rule, core.FuncName(fn)+": PacketQueue.packetSize assigned", st.Pos(), "NewPacketQueue stores its parameter", "a queue's packet size function is replaced outside NewPacketQueue (or by something other than its parameter)")
				case fQTx:
					nTx++
					key := core.FuncName(fn) + ": Channel.queueTx assigned"
					call, ok := st.Val.(*ssa.Call)
					if !ok || core.StaticCallee(call) != npq {
						r.Bad(rule, key, st.Pos(), "the tx queue is not built by NewPacketQueue")
						continue
					}
					why := ""
					mc, isMC := call.Call.Args[0].(*ssa.MakeClosure)
					switch {
					case !isMC:
						why = "the size function is " + core.Expr(call.Call.Args[0]) + ", not the connection's PacketSize method"
					case mc.Fn.(*ssa.Function).Object() == psFn.Object() && len(mc.Bindings) == 1:
						// bound to a *Conn (which one is not compared: a captured receiver is re-loaded per use)
					default:
						// a function literal: every return is <conn>.PacketSize()
						lit := mc.Fn.(*ssa.Function)
						if len(core.Returns(lit)) == 0 {
							why = "the size function never returns"
						}
						for _, ret := range core.Returns(lit) {
							c, ok := core.Strip(core.RetVals(ret)[0]).(*ssa.Call)
							if !ok || core.StaticCallee(c) != psFn {
								why = "the size function of the tx queue returns " + core.Expr(core.RetVals(ret)[0]) + " on some path, not the connection's PacketSize(): packets are built with a size the send path (PacketBodySize) does not reason with"
							}
						}
					}
					r.Check(why == "", rule, key, st.Pos(), "NewPacketQueue(conn.PacketSize)", why)
				}
			}
		}
	}
	if nTx == 0 {
		r.Unknown(rule, "Channel.queueTx assigned", token.NoPos, "no assignment of Channel.queueTx found")
	}
}

// c01HeaderTypeConst: R01.13. The message type stamped on outgoing packets (Channel.CurrentHeaderType) is only ever
// assigned a TDS_BUF_* constant, never a saved/computed value (a deferred "restore the previous type" runs after the
// reset that ends a message and leaves the wrong type for the next one).
func c01HeaderTypeConst(r *core.Run) {
	p := r.Prog
	fCur := p.Field("tds", "Channel", "CurrentHeaderType")
	n := 0
	for _, fn := range p.ModuleFuncs() {
		for _, b := range fn.Blocks {
			for _, in := range b.Instrs {
				st, ok := in.(*ssa.Store)
				if !ok {
					continue
				}
				fa, ok := st.Addr.(*ssa.FieldAddr)
				if !ok || core.FieldOfAddr(fa) != fCur {
					continue
				}
				n++
				key := core.FuncName(fn) + ": CurrentHeaderType assigned"
				_, isC := st.Val.(*ssa.Const)
				switch {
				case !isC:
					r.Bad("R01.13", key, st.Pos(), "the message type of the channel is set to the computed value "+core.Expr(st.Val)+" instead of a TDS_BUF_* constant: the next message can go out under a stale type (e.g. TDS_BUF_SETUP restored after the reset)")
				default:
					r.OK("R01.13", key, st.Pos(), "constant "+core.Expr(st.Val))
				}
			}
		}
	}
	if n == 0 {
		r.Unknown("R01.13", "CurrentHeaderType assignments", token.NoPos, "no assignment found")
	}
}

// c01HeaderLayout: R01.15. The eight header bytes are, per TDS 5.0: type(0) status(1) length(2..3, big endian)
// channel(4..5, big endian) packet number(6) window(7). PacketHeader.Read (serialise) and PacketHeader.Write (parse)
// put/take every field at that offset. A table of offsets shared by both directions keeps the library's own round trip
// intact when two one-byte fields change places, so the offsets are compared with the specification, not with each
// other.
func c01HeaderLayout(r *core.Run, rule string) {
	p := r.Prog
	spec := map[int64]string{0: "MsgType", 1: "Status", 2: "Length", 4: "Channel", 6: "PacketNr", 7: "Window"}
	fields := map[*types.Var]string{}
	for _, n := range spec {
		fields[p.Field("tds", "PacketHeader", n)] = n
	}
	var fieldOf func(v ssa.Value, d int) string
	fieldOf = func(v ssa.Value, d int) string {
		if d > 4 || v == nil {
			return ""
		}
		if f, _ := core.FieldLoad(core.Strip(v)); f != nil {
			return fields[f]
		}
		switch x := v.(type) {
		case *ssa.Convert:
			return fieldOf(x.X, d+1)
		case *ssa.ChangeType:
			return fieldOf(x.X, d+1)
		}
		return ""
	}
	check := func(fn *ssa.Function, what string, got map[int64]string) {
		bad := ""
		for off, name := range spec {
			if got[off] != name {
				have := got[off]
				if have == "" {
					have = "nothing recognised"
				}
				bad = fmt.Sprintf("%s handles %s at header offset %d where the TDS 5.0 packet header has %s: the peer reads the packet number / window / channel of every packet from the wrong byte", what, have, off, name)
			}
		}
		r.Check(bad == "", rule, "PacketHeader."+what+": fields at the offsets of the specification", fn.Pos(), "type 0, status 1, length 2, channel 4, packet number 6, window 7", bad)
	}
	// serialise: stores into bs[k], PutUint16(bs[k:k+2], field)
	rd := p.Func("tds", "PacketHeader", "Read")
	got := map[int64]string{}
	for _, b := range rd.Blocks {
		for _, in := range b.Instrs {
			switch x := in.(type) {
			case *ssa.Store:
				if ia, ok := x.Addr.(*ssa.IndexAddr); ok {
					if k, isC := core.ConstInt64(ia.Index); isC {
						if n := fieldOf(x.Val, 0); n != "" {
							got[k] = n
						}
					}
				}
			case *ssa.Call:
				if args := endianArgs(&x.Call, "PutUint16"); len(args) == 2 {
					if sl, ok := args[0].(*ssa.Slice); ok && sl.Low != nil {
						if k, isC := core.ConstInt64(sl.Low); isC {
							if n := fieldOf(args[1], 0); n != "" {
								got[k] = n
							}
						}
					}
				}
			}
		}
	}
	check(rd, "Read", got)
	// parse: field stores from bs[k] / Uint16(bs[k:k+2])
	wr := p.Func("tds", "PacketHeader", "Write")
	got = map[int64]string{}
	var offOf func(v ssa.Value, d int) (int64, bool)
	offOf = func(v ssa.Value, d int) (int64, bool) {
		if d > 5 || v == nil {
			return 0, false
		}
		switch x := v.(type) {
		case *ssa.Convert:
			return offOf(x.X, d+1)
		case *ssa.ChangeType:
			return offOf(x.X, d+1)
		case *ssa.UnOp:
			if ia, ok := x.X.(*ssa.IndexAddr); ok {
				return core.ConstInt64(ia.Index)
			}
		case *ssa.Call:
			if args := endianArgs(&x.Call, "Uint16"); len(args) == 1 {
				if sl, ok := args[0].(*ssa.Slice); ok && sl.Low != nil {
					return core.ConstInt64(sl.Low)
				}
			}
		case *ssa.Phi:
			for _, e := range x.Edges {
				if k, ok := offOf(e, d+1); ok {
					return k, true
				}
			}
		}
		return 0, false
	}
	for _, b := range wr.Blocks {
		for _, in := range b.Instrs {
			st, ok := in.(*ssa.Store)
			if !ok {
				continue
			}
			fa, ok := st.Addr.(*ssa.FieldAddr)
			if !ok || fields[core.FieldOfAddr(fa)] == "" {
				continue
			}
			if k, ok := offOf(st.Val, 0); ok {
				got[k] = fields[core.FieldOfAddr(fa)]
			}
		}
	}
	check(wr, "Write", got)
}

// endianArgs returns the non-receiver arguments of a call of encoding/binary's big-endian method name (through the
// ByteOrder interface or on binary.BigEndian itself), nil for anything else (little endian included).
func endianArgs(c *ssa.CallCommon, name string) []ssa.Value {
	if c.IsInvoke() {
		if c.Method.Name() == name && c.Method.Pkg() != nil && c.Method.Pkg().Path() == "encoding/binary" {
			if u, ok := core.Strip(c.Value).(*ssa.MakeInterface); ok && !strings.Contains(u.X.Type().String(), "bigEndian") {
				return nil
			}
			return c.Args
		}
		return nil
	}
	f := c.StaticCallee()
	if f == nil || f.Name() != name || f.Pkg == nil || f.Pkg.Pkg.Path() != "encoding/binary" || f.Signature.Recv() == nil {
		return nil
	}
	if !strings.Contains(f.Signature.Recv().Type().String(), "bigEndian") {
		return nil
	}
	return c.Args[1:]
}

// c01TxOwnership: R01.16. The transmit side of a channel (queueTx, CurrentHeaderType, lastPkgTx) belongs to the
// goroutine that sends on the channel. Nothing on the reader goroutine's path (functions statically reachable from
// (*Conn).ReadFrom) writes it — a "return to idle" at the end of a response runs concurrently with the caller that
// has already started its next message and throws queued bytes away or resets the message type.
func c01TxOwnership(r *core.Run) {
	p := r.Prog
	tx := map[*types.Var]string{
		p.Field("tds", "Channel", "queueTx"):           "queueTx",
		p.Field("tds", "Channel", "CurrentHeaderType"): "CurrentHeaderType",
		p.Field("tds", "Channel", "lastPkgTx"):         "lastPkgTx",
	}
	reader := readerPathFuncs(p)
	n := 0
	for fn := range reader {
		if p.FuncInOverlay(fn) {
			continue
		}
		for _, b := range fn.Blocks {
			for _, in := range b.Instrs {
				fa, ok := in.(*ssa.FieldAddr)
				if !ok || tx[core.FieldOfAddr(fa)] == "" {
					continue
				}
				n++
				name := tx[core.FieldOfAddr(fa)]
				for _, ref := range *fa.Referrers() {
					written := false
					if st, isSt := ref.(*ssa.Store); isSt && st.Addr == ssa.Value(fa) {
						written = true
					}
					if u, isU := ref.(*ssa.UnOp); isU && name == "queueTx" {
						for _, r2 := range *u.Referrers() {
							if _, isCall := r2.(ssa.CallInstruction); isCall {
								written = true // a method of the tx queue is called
							}
						}
					}
					if written {
						r.Bad("R01.16", core.FuncName(fn)+": reader goroutine touches Channel."+name, fa.Pos(), core.FuncName(fn)+" runs on the reader goroutine and modifies the transmit side (Channel."+name+"): the sending goroutine may already be queueing its next message, whose bytes or message type are then lost")
					}
				}
			}
		}
	}
	r.Check(len(reader) >= 3, "R01.16", "the reader goroutine does not write the transmit side of a channel", token.NoPos, fmt.Sprintf("%d functions on the reader path, %d references to tx state, none writing", len(reader), n), "reader path not found")
}
