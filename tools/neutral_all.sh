#!/bin/bash
# Runs every claimed check on every behaviour-preserving refactoring kept in /verif/neutral (each applied to a
# scratch copy of /repo). Every line must end in "fired: none": anything else is a false alarm of the checker.
# usage: tools/neutral_all.sh [parallelism]
cd /verif
(for d in neutral/*/; do l=$(basename $d); echo "$d/patch.diff $l"; done) | xargs -P "${1:-8}" -L 1 tools/try_neutral.sh | tee /tmp/dblint-neutral.log | grep -v "fired: none"
n=$(grep -c "fired: none" /tmp/dblint-neutral.log); t=$(ls -d neutral/*/ | wc -l)
echo "neutral refactorings silent: $n / $t"; rm -f /tmp/dblint-neutral.log
[ "$n" = "$t" ]
