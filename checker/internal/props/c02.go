package props

import (
	"go/token"

	"dblint/internal/core"

	"golang.org/x/tools/go/ssa"
)

func init() {
	register(&Spec{ID: "C02", Title: "Received package stream does not depend on fragmentation", Run: runC02,
		Meta: core.Meta{
			Explanation: "R02.21: fields of tds.Conn whose type implements io.Reader are stored by NewConn only (a reader replaced on a live connection loses what it had read ahead). R02.22 = R15.18. R02.23 = R03.21. R02.20: ParamsPackage.LastPkg stores through its receiver only. R02.18 = R15.14, R02.19 = R07.10. R02.17 (E-CONST): no error return of PacketHeader.Write is guarded by an upper bound below 65535 on a header field. R02.16 = R15.6 (queue.packetSize() is used for NewPacket only — not to guess from a short packet that a message ended). R02.15 = R15.11 (a derived 'unread bytes' counter must not make Bytes fail while bytes are queued: a package spanning several packets would never complete). R02.13 = R07.3 (the retry decision uses errors.Is, not identity: ROWFMT/ROW/PARAMS parsers return the sentinel wrapped). R02.14 = R15.7 (what a completed package frees is decided on the packet under the position after the shift: with packets of unequal size an unread remainder would be dropped). Structural necessary conditions of fragmentation independence; equality of delivered packages over all cut sets is not decided. R02.7: in NextPackageUntil the wait flag handed to NextPackage is the constant true on every back edge of the receive loop (only the first receive may poll). R02.9: in Packet.ReadFrom the buffer of every body read is packet.Data[off:] where off is the running byte count minus the header bytes, and that count is advanced by exactly the result of this read on the way back to it — a body that arrives in three or more reads is otherwise assembled with overwritten or skipped bytes. R02.10 = R12.2 (the reader hands each packet to the channel looked up under that packet's own Header.Channel; a channel remembered from the first packet of a message mis-routes packets of other channels that arrive in between). R02.11 (E-OWN): every use of Channel.queueRx lies in a function statically reachable from (*Conn).ReadFrom, or is the initialisation in NewChannel; a consumer-side function that resets it (e.g. the deferred reset after a send) can run between two packets of a response and discard the half package kept for the retry. R02.12 = R03.2 (lastPkgRx, which the next package's LastPkg consults, is assigned only after a package was delivered — a half-parsed package of a failed attempt must not become the predecessor of its own retry). R02.8 = R14.4 (the reader goroutine hands every completely received packet, including one returned together with io.EOF, to its channel). R02.1 (parse-or-rollback in WritePacket): the position handed to SetPosition on a failed attempt is exactly the pair returned by the Position() call made in the same loop iteration before tryParsePackage, with no DiscardUntilCurrentPosition in between (a discard shifts packet indices); a failed attempt returns through Reset() on the IsEOM edge or through that SetPosition; a successful attempt is followed by DiscardUntilCurrentPosition before the next attempt. R02.2: fresh parse state per attempt — every arm of LookupPackage returns a freshly allocated package, tryParsePackage calls it once per attempt, no wire-reading function writes a package-level variable. R02.3: transport reads that must fill a fixed buffer are io.ReadFull or sit in a counted loop: PacketHeader.ReadFrom returns success only after a full 8-byte read, Packet.ReadFrom returns success only when totalBytes == Header.Length. R02.4: AddPacket appends at the end of the queue and derives recvEOM from the packet's EOM bit only. R02.5: the parser side of fragmentation tolerance — every short read surfaces as ErrNotEnoughBytes — is C07's E-ERR rule, re-run here over all wire-read call sites (a parser that loses one such check reports a parse error for a response that is merely fragmented at that point). R02.1 also requires that tryParsePackage handles one package per invocation (no self-call, no loop around LookupPackage), so that the discard and the next saved position follow every handled package. R02.6: every return of PacketQueue.Bytes hands back the buffer allocated by that call (never a sub-slice of packet storage or a reused buffer that later reads overwrite while delivered packages still reference it).",
			NotDecided:  "Values, order and exactly-once delivery of packages across packetisations are not decided.",
			Assumptions: []string{"io.ReadFull contract (standard library)"},
		}})
}

func runC02(r *core.Run) {
	p := r.Prog
	ef := newErrFlow(p)
	r.Rule("R02.1", "parse-or-rollback: restore exactly the position saved for this attempt; discard only after success", 4, false)
	r.Rule("R02.2", "fresh parse state per attempt", 30, true)
	r.Rule("R02.3", "fixed-size transport reads are complete before success", 3, false)
	r.Rule("R02.4", "AddPacket appends in arrival order; recvEOM from the EOM bit only", 2, false)
	r.Rule("R02.6", "values handed to the parsers do not alias queue storage", 1, false)
	r.Rule("R02.7", "NextPackageUntil waits for every package after the first", 1, false)
	r.Rule("R02.10", "every packet is routed by its own header's channel id (R12.2)", 2, false)
	r.Rule("R02.11", "the receive queue is touched by the reader goroutine only (what a failed attempt kept is not discarded behind its back)", 1, false)
	r.Rule("R02.12", "a failed attempt leaves no trace: lastPkgRx is set only from delivered packages; synthetic DONE only at end of message (R03.2)", 5, false)
	r.Rule("R02.13", "an incomplete package is recognised with errors.Is(err, ErrNotEnoughBytes) — parsers wrap the sentinel (R07.3)", 1, false)
	defer c07Retry(r, ef, "R02.13")
	r.Rule("R02.14", "DiscardUntilCurrentPosition drops the packet under the position only, after the shift (R15.7)", 1, false)
	defer c15Discard(r, "R02.14")
	r.Rule("R02.15", "Bytes reports not-enough-bytes only when every queued packet is consumed (R15.11)", 1, false)
	defer c15BytesFailsOnlyWhenEmpty(r, "R02.15")
	r.Rule("R02.16", "the live packet size only sizes new packets (R15.6): end of message comes from the EOM bit, not from a packet being short", 1, true)
	defer c15PacketSize(r, "R02.16")
	r.Rule("R02.17", "the header parser accepts every 16-bit packet length", 1, false)
	defer headerAcceptsAllSizes(r, "R02.17")
	r.Rule("R02.18", "typed readers reach the stream through Bytes only (R15.14): one place steps over packet ends", 20, false)
	defer c15TypedThroughBytes(r, "R02.18")
	r.Rule("R02.19", "no io.ReadFull/ReadAtLeast/Copy/bufio over a BytesChannel (R07.10): a value cut by a packet boundary is retried, not zero-filled", 1, false)
	defer noGenericReaderOverQueue(r, "R02.19")
	r.Rule("R02.20", "preparing a row from its predecessor leaves the predecessor unchanged (a rolled-back attempt leaves no trace)", 1, false)
	defer lastPkgReadsOnly(r, "R02.20")
	r.Rule("R02.21", "the transport is read through one reader for the life of the connection", 1, false)
	defer readerFieldsSetOnce(r, "R02.21")
	r.Rule("R02.22", "end of data is decided from both coordinates of the position (R15.18)", 1, false)
	defer consumedLooksAtBoth(r, "R02.22")
	r.Rule("R02.23", "every received packet is an object of its own (R03.21)", 1, false)
	defer freshPacketPerRead(r, "R02.23")
	r.Rule("R02.9", "every transport read of a packet body continues where the previous one stopped", 1, false)
	r.Rule("R02.8", "the reader goroutine routes every completely received packet (R14.4)", 4, false)
	r.Rule("R02.5", "every short read surfaces as ErrNotEnoughBytes (E-ERR, all call sites)", 213, true)

	c02Rollback(r, "R02.1")
	okF, whyF := bytesReturnsFresh(p)
	r.Check(okF, "R02.6", "PacketQueue.Bytes returns a buffer of its own", p.Func("tds", "PacketQueue", "Bytes").Pos(), "make([]byte, n) allocated by the call", whyF)
	freshRule(r, ef, "R02.2")
	eofZero := p.Global("tds", "ErrEOFAfterZeroRead")
	c14Complete(r, "R02.3", func(v ssa.Value) bool {
		u, ok := v.(*ssa.UnOp)
		return ok && u.Op == token.MUL && u.X == ssa.Value(eofZero)
	})
	c02AddPacket(r, "R02.4")
	errSites(r, ef, "R02.5")
	c02WaitAfterFirst(r, "R02.7")
	c02BodyOffset(r)
	c12Routing(r, "R02.10")
	rxOwnership(r, "R02.11")
	c03Synthetic(r, p.Field("tds", "DonePackage", "Status"), "R02.12")
	c14Conn(r, "R02.8")
}

// c02WaitAfterFirst: R02.7. NextPackageUntil polls (wait == false) at most for the FIRST package: once a package of a
// response was consumed every further NextPackage call of the loop waits — otherwise a response that is cut into
// packets behind the packages consumed so far ends the loop early ("no package") and its rest is left in the queue.
func c02WaitAfterFirst(r *core.Run, rule string) {
	p := r.Prog
	fn := p.Func("tds", "Channel", "NextPackageUntil")
	np := p.Func("tds", "Channel", "NextPackage")
	n := 0
	for _, c := range callsTo(fn, np) {
		n++
		arg := c.Common().Args[2]
		h, loop := core.InnermostLoop(c.Block())
		why := ""
		switch x := arg.(type) {
		case *ssa.Const:
			if x.Value == nil || x.Value.ExactString() != "true" {
				why = "NextPackage is always called with wait == false"
			}
		case *ssa.Phi:
			if h == nil || x.Block() != h {
				why = "the wait flag is not the loop-carried flag of the receive loop"
				break
			}
			for i, e := range x.Edges {
				if !loop[h.Preds[i]] {
					continue // entry edge: the caller's choice
				}
				if !allLeavesTrue(e, map[*ssa.Phi]bool{x: true}) {
					why = "the loop can come back to NextPackage with wait still being " + core.Expr(e) + ": after a package was consumed the next receive may poll instead of wait, and a response fragmented behind that package is abandoned half-read"
				}
			}
		default:
			if h != nil {
				why = "the wait flag " + core.Expr(arg) + " is never set to true inside the receive loop"
			}
		}
		r.Check(why == "", rule, "NextPackageUntil: every receive after the first waits", c.Pos(), "wait is the constant true on every back edge of the receive loop", why)
	}
	if n == 0 {
		r.Unknown(rule, "NextPackageUntil: NextPackage call", fn.Pos(), "no NextPackage call found")
	}
}

func c02Rollback(r *core.Run, rule string) {
	p := r.Prog
	fn := p.Func("tds", "Channel", "WritePacket")
	tpp := p.Func("tds", "Channel", "tryParsePackage")
	pos := p.Func("tds", "PacketQueue", "Position")
	setPos := p.Func("tds", "PacketQueue", "SetPosition")
	disc := p.Func("tds", "PacketQueue", "DiscardUntilCurrentPosition")
	reset := p.Func("tds", "PacketQueue", "Reset")
	isEOM := p.Func("tds", "PacketQueue", "IsEOM")
	fRx := p.Field("tds", "Channel", "queueRx")
	onRx := func(c ssa.CallInstruction) bool {
		a := c.Common().Args
		if len(a) == 0 {
			return false
		}
		f, _ := core.FieldLoad(a[0])
		return f == fRx
	}
	tries := callsTo(fn, tpp)
	if len(tries) != 1 {
		r.Unknown(rule, "WritePacket: tryParsePackage call", fn.Pos(), "expected one call site")
		return
	}
	try := tries[0].(ssa.Instruction)
	_, loop := core.InnermostLoop(try.Block())
	if loop == nil {
		r.Bad(rule, "WritePacket: attempts in a loop", try.Pos(), "tryParsePackage is not called in a loop: only one package per packet is parsed")
		return
	}
	// SetPosition args
	sets := callsTo(fn, setPos)
	okSet, whySet := len(sets) > 0, "no rollback (SetPosition) on a failed attempt"
	for _, s := range sets {
		if !onRx(s) {
			continue
		}
		a := s.Common().Args
		var posCall *ssa.Call
		good := len(a) == 3
		for i := 1; good && i <= 2; i++ {
			ex, isEx := a[i].(*ssa.Extract)
			if !isEx || ex.Index != i-1 {
				good = false
				break
			}
			c, isC := ex.Tuple.(*ssa.Call)
			if !isC || core.StaticCallee(c) != pos || !onRx(c) {
				good = false
				break
			}
			if posCall != nil && posCall != c {
				good = false
			}
			posCall = c
		}
		if !good {
			okSet, whySet = false, "SetPosition is not given the pair returned by one Position() call ("+core.Expr(a[1])+", "+core.Expr(a[2])+"): the rollback target can be a position saved for an earlier attempt, which a discard has since invalidated"
			continue
		}
		// same iteration, before the attempt, no discard between
		if !loop[posCall.Block()] || !core.Dominates(posCall, try) {
			okSet, whySet = false, "the position is not saved inside the loop before each attempt: after a successful parse and discard the saved packet index is stale"
			continue
		}
		between := false
		if posCall.Block() == try.Block() {
			seen := false
			for _, in := range posCall.Block().Instrs {
				if in == ssa.Instruction(posCall) {
					seen = true
				}
				if in == try {
					break
				}
				if c, isC := in.(*ssa.Call); isC && seen && core.StaticCallee(c) == disc {
					between = true
				}
			}
		} else {
			core.EnumPaths(posCall.Block(), func(b *ssa.BasicBlock) bool { return b == try.Block() }, loop, 500, func(pa core.Path, ended bool) {
				for _, b := range pa.Blocks {
					for _, in := range b.Instrs {
						if c, isC := in.(*ssa.Call); isC && core.StaticCallee(c) == disc {
							if b == posCall.Block() && !core.Dominates(posCall, c) {
								continue
							}
							if b == try.Block() && !core.Dominates(c, try) {
								continue
							}
							between = true
						}
					}
				}
			})
		}
		if between {
			okSet, whySet = false, "the queue is discarded between saving the position and the attempt"
		}
		// SetPosition on the failed edge
		failed := false
		for _, g := range core.GuardsAt(s.(ssa.Instruction)) {
			if g.Cond == ssa.Value(tries[0].Value()) && !g.Pol {
				failed = true
			}
		}
		if !failed {
			okSet, whySet = false, "SetPosition is not confined to the failed-attempt edge"
		}
	}
	r.Check(okSet, rule, "WritePacket: rollback to the position saved for this attempt", fn.Pos(), "SetPosition(Position() of the same iteration)", whySet)

	// failed edge: Reset under IsEOM, else SetPosition; then return
	okFail, whyFail := true, ""
	var tryIf *ssa.If
	for _, ref := range *tries[0].Value().Referrers() {
		if i, ok := ref.(*ssa.If); ok {
			tryIf = i
		}
	}
	if tryIf == nil {
		okFail, whyFail = false, "the attempt's result does not branch"
	} else {
		fail := tryIf.Block().Succs[1]
		core.EnumPaths(fail, func(b *ssa.BasicBlock) bool { return false }, nil, 500, func(pa core.Path, ended bool) {
			last := pa.Blocks[len(pa.Blocks)-1]
			if _, isRet := last.Instrs[len(last.Instrs)-1].(*ssa.Return); !isRet {
				okFail, whyFail = false, "a failed attempt does not end WritePacket"
				return
			}
			eom := pa.Has(func(c ssa.Value) bool {
				call, ok := c.(*ssa.Call)
				return ok && core.StaticCallee(call) == isEOM
			}, true)
			hasReset, hasSet := false, false
			for _, b := range pa.Blocks {
				for _, in := range b.Instrs {
					if c, isC := in.(*ssa.Call); isC {
						if core.StaticCallee(c) == reset && onRx(c) {
							hasReset = true
						}
						if core.StaticCallee(c) == setPos && onRx(c) {
							hasSet = true
						}
					}
				}
			}
			if eom && !hasReset {
				okFail, whyFail = false, "at end of message the rx queue is not reset"
			}
			if eom && hasSet {
				okFail, whyFail = false, "at end of message the queue is reset AND the saved position is restored: the empty queue keeps a data index from the old message, and the first packet of the next response is read from that offset (slice bounds out of range when it is shorter)"
			}
			if !eom && !hasSet {
				okFail, whyFail = false, "a failed attempt before end of message does not roll the read position back: the bytes consumed by the incomplete parse are lost"
			}
		})
	}
	r.Check(okFail, rule, "WritePacket: failed attempt resets at EOM or rolls back, then returns", fn.Pos(), "IsEOM → Reset, else SetPosition", whyFail)

	// success edge: discard before the back edge
	okDisc := false
	if tryIf != nil {
		succ := tryIf.Block().Succs[0]
		for _, in := range succ.Instrs {
			if c, isC := in.(*ssa.Call); isC && core.StaticCallee(c) == disc && onRx(c) {
				okDisc = true
			}
		}
	}
	r.Check(okDisc, rule, "WritePacket: consumed packets discarded after each parsed package", fn.Pos(), "DiscardUntilCurrentPosition on the success edge", "consumed packets are not discarded after a successful parse")
	r.Check(len(callsTo(fn, pos)) >= 1, rule, "WritePacket: position saved", fn.Pos(), "Position() called", "the read position is never saved")
	onePerAttempt(r, rule)
}

func c02AddPacket(r *core.Run, rule string) {
	p := r.Prog
	fn := p.Func("tds", "PacketQueue", "AddPacket")
	fQueue := p.Field("tds", "PacketQueue", "queue")
	fEOM := p.Field("tds", "PacketQueue", "recvEOM")
	fStatus := p.Field("tds", "PacketHeader", "Status")
	cEOM := constOf(p, "tds", "TDS_BUFSTAT_EOM")
	okApp := false
	for _, b := range fn.Blocks {
		for _, in := range b.Instrs {
			st, ok := in.(*ssa.Store)
			if !ok {
				continue
			}
			fa, ok := st.Addr.(*ssa.FieldAddr)
			if !ok || core.FieldOfAddr(fa) != fQueue {
				continue
			}
			call, ok := st.Val.(*ssa.Call)
			if !ok {
				continue
			}
			if bi, isB := call.Call.Value.(*ssa.Builtin); isB && bi.Name() == "append" {
				f0, _ := core.FieldLoad(call.Call.Args[0])
				// second arg: slice of a 1-element array holding the packet parameter
				elems := variadicElems(call.Call.Args[1])
				if f0 == fQueue && len(elems) == 1 && elems[0] == ssa.Value(fn.Params[1]) {
					okApp = true
				}
			}
		}
	}
	r.Check(okApp, rule, "AddPacket: queue = append(queue, packet)", fn.Pos(), "appended at the end", "a received packet is not appended at the end of the rx queue: arrival order is not preserved")
	okEOM, whyEOM := false, "recvEOM is never set"
	for _, b := range fn.Blocks {
		for _, in := range b.Instrs {
			st, ok := in.(*ssa.Store)
			if !ok {
				continue
			}
			fa, ok := st.Addr.(*ssa.FieldAddr)
			if !ok || core.FieldOfAddr(fa) != fEOM {
				continue
			}
			// guarded by Status & EOM == EOM (non-vacuous)
			dom := false
			for _, g := range core.GuardsAt(st) {
				bo, isB := g.Cond.(*ssa.BinOp)
				if !isB || bo.Op != token.EQL || !g.Pol {
					continue
				}
				and, isAnd := bo.X.(*ssa.BinOp)
				if !isAnd || and.Op != token.AND {
					continue
				}
				f, _ := core.FieldLoad(core.Strip(and.X))
				m, isM := and.Y.(*ssa.Const)
				c, isC := bo.Y.(*ssa.Const)
				if f == fStatus && isM && isC && m.Value != nil && c.Value != nil && constEq(m.Value, cEOM) && constEq(c.Value, cEOM) {
					dom = true
				}
			}
			cst, isC := st.Val.(*ssa.Const)
			if dom && isC && cst.Value != nil && cst.Value.ExactString() == "true" {
				okEOM = true
			} else {
				whyEOM = "recvEOM is set on something other than the packet's EOM status bit"
			}
		}
	}
	r.Check(okEOM, rule, "AddPacket: recvEOM only from the EOM bit", fn.Pos(), "Status&TDS_BUFSTAT_EOM == TDS_BUFSTAT_EOM → recvEOM = true", whyEOM)
}

// onePerAttempt: tryParsePackage handles at most one package per invocation
// (no self-call, no loop around the parse), so that WritePacket's discard and
// its next saved position follow every handled package. Otherwise a handled
// special package shares its rollback position with the package after it and
// is parsed (and reported to hooks) again when that package is fragmented.
func onePerAttempt(r *core.Run, rule string) {
	p := r.Prog
	tpp := p.Func("tds", "Channel", "tryParsePackage")
	lp := p.Func("tds", "", "LookupPackage")
	ok, why := true, ""
	if len(callsTo(tpp, tpp)) > 0 {
		ok, why = false, "tryParsePackage calls itself: a package it has already handled (e.g. an ENVCHANGE reported to hooks) is not discarded before the next one is attempted, and is parsed again when the next one turns out to be incomplete"
	}
	for _, c := range callsTo(tpp, lp) {
		if _, loop := core.InnermostLoop(c.Block()); loop != nil {
			ok, why = false, "tryParsePackage parses packages in a loop: handled packages are not discarded one by one"
		}
	}
	r.Check(ok, rule, "tryParsePackage: one package per attempt", tpp.Pos(), "no self-call, no loop around LookupPackage", why)
}

// allLeavesTrue: v is the constant true, or a φ (not one of stop) all of whose inputs are.
func allLeavesTrue(v ssa.Value, stop map[*ssa.Phi]bool) bool {
	switch x := v.(type) {
	case *ssa.Const:
		return x.Value != nil && x.Value.ExactString() == "true"
	case *ssa.Phi:
		if stop[x] {
			return false
		}
		stop[x] = true
		for _, e := range x.Edges {
			if !allLeavesTrue(e, stop) {
				return false
			}
		}
		return true
	}
	return false
}

// c02BodyOffset: R02.9.
func c02BodyOffset(r *core.Run) {
	p := r.Prog
	fn := p.Func("tds", "Packet", "ReadFrom")
	fData := p.Field("tds", "Packet", "Data")
	n := 0
	for _, c := range core.Calls(fn) {
		if !isReaderRead(c) || !c.Common().IsInvoke() || c.Common().Method.Name() != "Read" {
			continue
		}
		n++
		key := "Packet.ReadFrom: body read buffer"
		why := ""
		sl, ok := c.Common().Args[0].(*ssa.Slice)
		rest, isRest := c.Common().Args[0].(*ssa.Phi)
		switch {
		case isRest:
			// the other way of writing it: the buffer is the rest of packet.Data, advanced by every read's count
			var cnt ssa.Value
			if rv := c.Value(); rv != nil {
				for _, ref := range *rv.Referrers() {
					if ex, isEx := ref.(*ssa.Extract); isEx && ex.Index == 0 {
						cnt = ex
					}
				}
			}
			if good, w := restSliceAdvanced(rest, cnt, fData); !good {
				why = w
			}
		case !ok:
			why = "the buffer handed to Read is " + core.Expr(c.Common().Args[0]) + ", not a slice expression of packet.Data"
		default:
			f, base := core.FieldLoad(sl.X)
			sub, isSub := sl.Low.(*ssa.BinOp)
			switch {
			case f != fData || base != ssa.Value(fn.Params[0]):
				why = "the buffer handed to Read is a slice of " + core.Expr(sl.X) + ", not of packet.Data itself (an offset relative to a moving slice is applied twice)"
			case sl.High != nil:
				why = "the buffer is bounded above"
			case !isSub || sub.Op != token.SUB:
				why = "the offset of the buffer is not `bytes read so far - header bytes`"
			default:
				// the running count: a φ one of whose inputs is φ + int64(result of this read)
				ph, isPh := sub.X.(*ssa.Phi)
				adv := false
				if isPh {
					for _, e := range ph.Edges {
						add, isAdd := e.(*ssa.BinOp)
						if !isAdd || add.Op != token.ADD || add.X != ssa.Value(ph) {
							continue
						}
						if ex, isEx := core.Strip(add.Y).(*ssa.Extract); isEx && ex.Tuple == c.Value() && ex.Index == 0 {
							adv = true
						}
					}
				}
				if !adv {
					why = "the offset of the buffer is not a running count advanced by the result of this very read"
				}
			}
		}
		r.Check(why == "", "R02.9", key, c.Pos(), "reader.Read(packet.Data[total-headerBytes:]) with total += m", why)
	}
	if n == 0 {
		r.Unknown("R02.9", "Packet.ReadFrom: body read", fn.Pos(), "no transport Read call found")
	}
}
