package props

import (
	"fmt"
	"go/constant"
	"go/token"
	"go/types"
	"strings"

	"dblint/internal/core"

	"golang.org/x/tools/go/ssa"
)

// noGenericReaderOverQueue: R07.10. PacketQueue.Read is `copy(p, bs), err` over Bytes(len(p)), which always hands
// back len(p) bytes — zero-filled past the end of what has arrived — together with ErrNotEnoughBytes. The io helpers
// that read "until the buffer is full" (io.ReadFull, io.ReadAtLeast) drop the error of a read that filled the buffer,
// so a version / length / value read through them from a BytesChannel succeeds on a truncated package with zeros for
// the missing bytes. No wire reader may go through them.
func noGenericReaderOverQueue(r *core.Run, rule string) {
	p := r.Prog
	bc := p.Named("tds", "BytesChannel")
	bcIface := bc.Underlying().(*types.Interface)
	dropping := map[string]bool{"ReadFull": true, "ReadAtLeast": true, "ReadAll": true, "Copy": true, "CopyN": true, "CopyBuffer": true}
	n := 0
	for _, fn := range p.ModuleFuncs() {
		if fn.Blocks == nil || p.FuncInOverlay(fn) && !strings.HasPrefix(fn.Name(), "posex") {
			continue
		}
		for _, c := range core.Calls(fn) {
			f := core.StaticCallee(c)
			if f == nil || f.Pkg == nil || (f.Pkg.Pkg.Path() != "io" && f.Pkg.Pkg.Path() != "io/ioutil" && f.Pkg.Pkg.Path() != "bufio") {
				continue
			}
			n++
			if !dropping[f.Name()] && f.Pkg.Pkg.Path() != "bufio" {
				continue
			}
			for _, a := range c.Common().Args {
				src := a
				for {
					if mi, ok := src.(*ssa.MakeInterface); ok {
						src = mi.X
						continue
					}
					if ci, ok := src.(*ssa.ChangeInterface); ok {
						src = ci.X
						continue
					}
					break
				}
				t := src.Type()
				if types.Identical(t, bc) || (types.Implements(t, bcIface) && !types.IsInterface(t)) || (types.IsInterface(t) && types.Implements(t, bcIface)) {
					key := core.FuncName(fn) + ": " + f.Pkg.Pkg.Name() + "." + f.Name() + " over a BytesChannel"
					r.Bad(rule, key, c.Pos(), f.Pkg.Pkg.Name()+"."+f.Name()+" reads from a "+core.TypeStr(t)+": PacketQueue.Read returns the full count together with ErrNotEnoughBytes when the queue runs dry, "+f.Name()+" discards the error of a read that filled the buffer, and the truncated package parses successfully with zero bytes in place of the missing ones")
				}
			}
		}
	}
	r.Check(true, rule, "no io.ReadFull/ReadAtLeast/Copy/bufio over a BytesChannel", token.NoPos, fmt.Sprintf("%d calls into package io inspected", n), "")
}

// c08MasksKept: R08.10. LookupPackage creates a capability package through NewCapabilityPackage, which pre-sizes an
// all-false mask per capability type; ReadFrom overwrites the masks the server answered. Login's all-zero test ranges
// over that map, so a type the server left out is caught as all-zero only because its default mask is still there.
// The map is therefore created in the constructor only: a parser that installs a fresh map drops the defaults and an
// unanswered capability type escapes the test.
func c08MasksKept(r *core.Run) {
	p := r.Prog
	fCaps := p.Field("tds", "CapabilityPackage", "Capabilities")
	n := 0
	for _, fn := range p.ModuleFuncs() {
		if fn.Blocks == nil || p.FuncInOverlay(fn) {
			continue
		}
		for _, b := range fn.Blocks {
			for _, in := range b.Instrs {
				st, ok := in.(*ssa.Store)
				if !ok {
					continue
				}
				fa, ok := st.Addr.(*ssa.FieldAddr)
				if !ok || core.FieldOfAddr(fa) != fCaps {
					continue
				}
				n++
				// the constructor: the struct it stores into is allocated here
				if _, fresh := core.Strip(fa.X).(*ssa.Alloc); fresh {
					r.OK("R08.10", core.FuncName(fn)+": creates the mask map for a package it allocates", st.Pos(), "constructor")
					continue
				}
				r.Bad("R08.10", core.FuncName(fn)+": replaces CapabilityPackage.Capabilities", st.Pos(), core.FuncName(fn)+" installs a new Capabilities map in an existing package: the all-false default masks of NewCapabilityPackage are lost, a capability type the server did not answer is absent instead of all-zero, and Login's all-zero test (a range over this map) never sees it")
			}
		}
	}
	r.Check(n > 0, "R08.10", "the capability masks are created by the constructor only", token.NoPos, fmt.Sprintf("%d stores of the field", n), "no store of CapabilityPackage.Capabilities found")
}

// c16SignKept: R16.8. big.Int.Bytes / Decimal.Bytes return the magnitude. A big.Int or Decimal rebuilt with
// SetBytes(x.Bytes()) is |x|: a function that copies a value that way must also transfer the sign.
func c16SignKept(r *core.Run) {
	p := r.Prog
	isBytes := func(v ssa.Value) bool {
		c, ok := core.Strip(v).(*ssa.Call)
		if !ok {
			return false
		}
		f := c.Call.StaticCallee()
		if f == nil || f.Name() != "Bytes" || f.Signature.Recv() == nil {
			return false
		}
		rt := f.Signature.Recv().Type().String()
		return strings.HasSuffix(rt, "math/big.Int") || strings.HasSuffix(rt, "asetypes.Decimal")
	}
	n := 0
	for _, fn := range p.ModuleFuncs() {
		if fn.Blocks == nil || fn.Pkg == nil || fn.Pkg.Pkg.Path() != core.Module+"/asetypes" || p.FuncInOverlay(fn) && !strings.HasPrefix(fn.Name(), "posex") {
			continue
		}
		signAware := false
		var bad []ssa.CallInstruction
		for _, c := range core.Calls(fn) {
			f := core.StaticCallee(c)
			if f == nil {
				continue
			}
			switch f.Name() {
			case "Neg", "Negate", "Sign", "IsNegative", "SetInt64", "Set", "Add", "Sub", "Mul":
				if f.Signature.Recv() != nil {
					signAware = true
				}
			case "SetBytes":
				if f.Signature.Recv() == nil {
					continue
				}
				n++
				if isBytes(c.Common().Args[1]) {
					bad = append(bad, c)
				}
			}
		}
		if !signAware {
			for _, c := range bad {
				r.Bad("R16.8", core.FuncName(fn)+": SetBytes(x.Bytes()) without the sign", c.Pos(), core.FuncName(fn)+" rebuilds a number from the magnitude bytes of another ("+core.Expr(c.Common().Args[1])+") and never looks at the sign: a negative decimal is copied as its absolute value (Int() of -1.27 reports 127, MONEY encodes it as positive)")
			}
		}
	}
	r.Check(n > 0, "R16.8", "no magnitude-only copy of a signed number", token.NoPos, fmt.Sprintf("%d SetBytes calls in package asetypes inspected", n), "no SetBytes call found in package asetypes")
}

// c16RightAligned: R16.9. The DECN/NUMN wire image is one sign byte followed by the magnitude right-aligned in
// ByteSize()-1 bytes (ByteSize depends on the precision only, so the magnitude of a small value is shorter than its
// slot). Every copy of Decimal.Bytes() into the image starts at  size - len(magnitude).
func c16RightAligned(r *core.Run) {
	p := r.Prog
	fn := p.Func("asetypes", "DataType", "Bytes")
	decBytes := p.Func("asetypes", "Decimal", "Bytes")
	n := 0
	for _, c := range core.Calls(fn) {
		bi, ok := c.Common().Value.(*ssa.Builtin)
		if !ok || bi.Name() != "copy" {
			continue
		}
		src, ok := core.Strip(c.Common().Args[1]).(*ssa.Call)
		if !ok || src.Call.StaticCallee() != decBytes {
			continue
		}
		n++
		why := "the magnitude of a DECN/NUMN value is copied to " + core.Expr(c.Common().Args[0]) + ", not right-aligned at size-len(magnitude): a value shorter than its slot is shifted towards the sign byte and reads back multiplied by a power of 256"
		if sl, isSl := c.Common().Args[0].(*ssa.Slice); isSl && sl.Low != nil && sl.High == nil {
			if bo, isBo := sl.Low.(*ssa.BinOp); isBo && bo.Op == token.SUB {
				if lc, isC := bo.Y.(*ssa.Call); isC {
					if b2, isB := lc.Call.Value.(*ssa.Builtin); isB && b2.Name() == "len" {
						if in, isIn := core.Strip(lc.Call.Args[0]).(*ssa.Call); isIn && in.Call.StaticCallee() == decBytes {
							why = ""
						}
					}
				}
			}
		}
		r.Check(why == "", "R16.9", "DataType.Bytes: magnitude right-aligned in the DECN/NUMN image", c.Pos(), "copy(bs[size-len(dec.Bytes()):], dec.Bytes())", why)
	}
	if n == 0 {
		r.Bad("R16.9", "DataType.Bytes: magnitude right-aligned in the DECN/NUMN image", fn.Pos(), "no copy of Decimal.Bytes() into the wire image found in DataType.Bytes")
	}
}

// c17QueryEscaping: R17.12. ParseURI reads the properties with url.Query(), i.e. query unescaping ('+' is a space,
// '&' and '=' separate). FormatURI therefore writes them with url.Values.Encode / url.QueryEscape. url.PathEscape
// leaves '+', '&', '=' alone and is never the inverse of what the parser does; package dsn does not use it.
func c17QueryEscaping(r *core.Run) {
	p := r.Prog
	fu := p.Func("dsn", "", "FormatURI")
	enc := 0
	for _, fn := range p.ModuleFuncs() {
		if fn.Blocks == nil || fn.Pkg == nil || fn.Pkg.Pkg.Path() != core.Module+"/dsn" || p.FuncInOverlay(fn) && !strings.HasPrefix(fn.Name(), "posex") {
			continue
		}
		for _, c := range core.Calls(fn) {
			f := core.StaticCallee(c)
			if f == nil || f.Pkg == nil || f.Pkg.Pkg.Path() != "net/url" {
				continue
			}
			if f.Name() == "PathEscape" {
				r.Bad("R17.12", core.FuncName(fn)+": url.PathEscape", c.Pos(), core.FuncName(fn)+" escapes DSN text with url.PathEscape, which leaves '+', '&', '=' and ';' as they are; ParseURI reads the query with url.Query(), where '+' is a space and '&' ends the value: a database name or property containing them is parsed back changed")
			}
			if fn == fu && (f.Name() == "Encode" || f.Name() == "QueryEscape") {
				enc++
			}
		}
	}
	if enc == 0 {
		// helpers called from FormatURI
		for _, c := range core.Calls(fu) {
			if f := core.StaticCallee(c); f != nil && core.InModule(f) && f.Blocks != nil {
				for _, c2 := range core.Calls(f) {
					if g := core.StaticCallee(c2); g != nil && g.Pkg != nil && g.Pkg.Pkg.Path() == "net/url" && (g.Name() == "Encode" || g.Name() == "QueryEscape") {
						enc++
					}
				}
			}
		}
	}
	r.Check(enc > 0, "R17.12", "FormatURI: the query is written with query escaping", fu.Pos(), fmt.Sprintf("%d url.Values.Encode/url.QueryEscape call(s)", enc), "FormatURI no longer writes the properties with url.Values.Encode or url.QueryEscape, the escaping ParseURI's url.Query() inverts")
}

// c19ComparesParsed: R19.4 (second clause). What VersionCompareSemantic answers without an error is
// parsed(a).Compare(parsed(b)) on the very values NewVersion returned — not on a projection of them (Core(), a
// re-built version, the segments), which forgets the pre-release part or further segments and moves versions across
// a bound.
func c19ComparesParsed(r *core.Run) {
	p := r.Prog
	fn := p.Func("capability", "", "VersionCompareSemantic")
	parsedOf := func(v ssa.Value) ssa.Value {
		ex, ok := core.Strip(v).(*ssa.Extract)
		if !ok || ex.Index != 0 {
			return nil
		}
		c, ok := ex.Tuple.(*ssa.Call)
		if !ok {
			return nil
		}
		f := c.Call.StaticCallee()
		if f == nil || f.Name() != "NewVersion" || len(c.Call.Args) != 1 {
			return nil
		}
		return c.Call.Args[0]
	}
	n := 0
	why := ""
	for _, ret := range core.Returns(fn) {
		rv := core.RetVals(ret)
		if !core.IsNil(rv[1]) {
			continue
		}
		n++
		c, ok := core.Strip(rv[0]).(*ssa.Call)
		if !ok || c.Call.StaticCallee() == nil || c.Call.StaticCallee().Name() != "Compare" || len(c.Call.Args) != 2 {
			why = "the answer " + core.Expr(rv[0]) + " is not the result of Version.Compare"
			continue
		}
		if parsedOf(c.Call.Args[0]) != ssa.Value(fn.Params[0]) || parsedOf(c.Call.Args[1]) != ssa.Value(fn.Params[1]) {
			why = "the comparison is " + core.Expr(rv[0]) + ": not NewVersion(a).Compare(NewVersion(b)) on the parsed versions themselves — a projection (Core(), segments) drops the pre-release part, so 1.0.0-rc1+b5 counts as 1.0.0 and lies inside [1.0.0, 2.0.0)"
		}
	}
	if n == 0 {
		why = "no return without error"
	}
	r.Check(why == "", "R19.4", "VersionCompareSemantic: answers Compare of the two parsed versions themselves", fn.Pos(), "NewVersion(a).Compare(NewVersion(b))", why)
}

// noSelfFormatting: R20.5. A String method that hands its own receiver to fmt under a verb that consults
// fmt.Stringer (%v %s %q %x %X, or Sprint/Sprintln) calls itself without end — a stack overflow the process cannot
// recover from. (go vet knows this; the pinned suite runs with -vet=off.)
func noSelfFormatting(r *core.Run, rule string) {
	p := r.Prog
	n := 0
	for _, fn := range p.ModuleFuncs() {
		if fn.Blocks == nil || fn.Signature.Recv() == nil || (fn.Name() != "String" && fn.Name() != "Error") || fn.Signature.Params().Len() != 0 || p.FuncInOverlay(fn) && !strings.HasPrefix(fn.Name(), "posex") {
			continue
		}
		n++
		recvT := fn.Signature.Recv().Type()
		isSelf := func(v ssa.Value) bool {
			mi, ok := v.(*ssa.MakeInterface)
			if !ok || !types.Identical(mi.X.Type(), recvT) {
				return false
			}
			x := core.Strip(mi.X)
			if x == ssa.Value(fn.Params[0]) {
				return true
			}
			if u, isU := x.(*ssa.UnOp); isU && u.Op == token.MUL {
				if a, isA := u.X.(*ssa.Alloc); isA { // spilled receiver
					for _, ref := range *a.Referrers() {
						if st, isSt := ref.(*ssa.Store); isSt && st.Addr == ssa.Value(a) && st.Val == ssa.Value(fn.Params[0]) {
							return true
						}
					}
				}
			}
			return false
		}
		for _, c := range core.Calls(fn) {
			f := core.StaticCallee(c)
			if f == nil || f.Pkg == nil || f.Pkg.Pkg.Path() != "fmt" {
				continue
			}
			args := c.Common().Args
			fmtIdx := -1
			switch f.Name() {
			case "Sprintf", "Errorf":
				fmtIdx = 0
			case "Fprintf":
				fmtIdx = 1
			case "Sprint", "Sprintln":
			default:
				continue
			}
			// variadic arguments: stores into the backing array
			var va []ssa.Value
			if len(args) > 0 {
				if sl, ok := args[len(args)-1].(*ssa.Slice); ok {
					if al, ok := sl.X.(*ssa.Alloc); ok {
						byIdx := map[int64]ssa.Value{}
						max := int64(-1)
						for _, ref := range *al.Referrers() {
							if ia, ok := ref.(*ssa.IndexAddr); ok {
								k, _ := core.ConstInt64(ia.Index)
								for _, r2 := range *ia.Referrers() {
									if st, ok := r2.(*ssa.Store); ok {
										byIdx[k] = st.Val
										if k > max {
											max = k
										}
									}
								}
							}
						}
						for k := int64(0); k <= max; k++ {
							va = append(va, byIdx[k])
						}
					}
				}
			}
			var verbs []byte
			if fmtIdx >= 0 {
				cst, ok := args[fmtIdx].(*ssa.Const)
				if !ok || cst.Value == nil || cst.Value.Kind() != constant.String {
					continue
				}
				s := constant.StringVal(cst.Value)
				for i := 0; i < len(s); i++ {
					if s[i] != '%' {
						continue
					}
					i++
					sharp := false
					for i < len(s) && strings.IndexByte("+-# 0123456789.[]*", s[i]) >= 0 {
						sharp = sharp || s[i] == '#'
						i++
					}
					if i < len(s) && s[i] != '%' {
						if sharp && s[i] == 'v' {
							verbs = append(verbs, 'V') // %#v consults GoStringer, not Stringer
						} else {
							verbs = append(verbs, s[i])
						}
					}
				}
			}
			for i, a := range va {
				if a == nil || !isSelf(a) {
					continue
				}
				verb := byte('v')
				if fmtIdx >= 0 {
					if i >= len(verbs) {
						continue
					}
					verb = verbs[i]
				}
				if strings.IndexByte("vsqxX", verb) >= 0 {
					r.Bad(rule, core.FuncName(fn)+": formats its own receiver", c.Pos(), core.FuncName(fn)+" passes its receiver to fmt."+f.Name()+" under %"+string(verb)+": fmt calls the "+fn.Name()+" method of the value, which takes the same branch again — unbounded recursion, fatal stack overflow for every value reaching this branch")
				}
			}
		}
	}
	r.Check(n > 0, rule, "no String/Error method formats its own receiver through fmt.Stringer", token.NoPos, fmt.Sprintf("%d String/Error methods inspected", n), "no String methods found")
}
